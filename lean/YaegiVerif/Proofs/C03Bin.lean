import YaegiVerif.Proofs.C03Eval
/- C03: the post-order case `binaryExpr` (arithmetic operators) of the interpreter model has exactly the outcome
   of the specification on integer constants: the same value and type when the specification accepts the operation,
   a compile error when it does not (mismatched types, an operand or the result not representable in the operand
   type, a zero divisor, an untyped result of more than 512 bits). -/
namespace YaegiVerif.Proofs.C03
open YaegiVerif YaegiVerif.Const

theorem finish_untyped_int_eq (r : Int) (u : UK) (hu : u = .int ∨ u = .rune) :
    Spec.finish (.int r) (.u u) = if bitLen r > Spec.maxUntypedBits then .reject else .ok ⟨.int r, .u u⟩ := by
  rcases hu with rfl | rfl <;> simp [Spec.finish]

theorem finish_typed_int_eq (r : Int) (k : IKind) :
    Spec.finish (.int r) (.t (.i k)) = if Spec.reprGo k r = true then .ok ⟨.int r, .t (.i k)⟩ else .reject := by
  simp only [Spec.finish, Spec.representGo, CV.toInt]
  by_cases hr : Spec.reprGo k r = true <;> simp [hr]

theorem finish_untyped_int (r : Int) (u : UK) (hu : u = .int ∨ u = .rune) (gv : Spec.GV)
    (h : Spec.finish (.int r) (.u u) = .ok gv) : gv = ⟨.int r, .u u⟩ := by
  rw [finish_untyped_int_eq r u hu] at h
  split at h
  · cases h
  · injection h with h; exact h.symm

theorem finish_typed_int (r : Int) (k : IKind) (gv : Spec.GV)
    (h : Spec.finish (.int r) (.t (.i k)) = .ok gv) : gv = ⟨.int r, .t (.i k)⟩ ∧ Spec.reprGo k r = true := by
  rw [finish_typed_int_eq] at h
  by_cases hr : Spec.reprGo k r = true
  · simp [hr] at h; exact ⟨h.symm, hr⟩
  · simp [hr] at h

theorem zeroConstY_untyped (n : NS) (u : UK) (hu : u = .int ∨ u = .rune) (q : Int) (hty : n.ty = .u u)
    (hrv : n.rv = .c (.int q)) : zeroConstY F0 n = .ok (decide (q = 0)) := by
  have hnum : (Ty.u u).isNumber = true := by rcases hu with rfl | rfl <;> rfl
  simp only [zeroConstY, F0_chk, Expected.C03.checkFacts, hty, hnum, Bool.not_true, Bool.false_eq_true, if_false, hrv, CV.sign]
  by_cases h0 : q = 0
  · subst h0; simp
  · by_cases hneg : q < 0 <;> simp [h0, hneg]

theorem zeroConstY_typed (n : NS) (k : IKind) (q : Int) (hty : n.ty = .t (.i k)) (hrv : n.rv = .r (.i k) (.int q)) :
    zeroConstY F0 n = .ok (!n.set && q == 0) := by
  simp [zeroConstY, Expected.C03.checkFacts, hty, hrv, Ty.isNumber, Ty.isInt, Ty.rtype, BT.isInt]

theorem kindRank_u (u : UK) (hu : u = .int ∨ u = .rune) : (Ty.u u).kindRank = (if u = .int then 2 else 5) := by
  rcases hu with rfl | rfl <;> rfl

/-- the later of two untyped integer kinds (integer < rune) -/
def umax (ka kb : UK) : UK := if Spec.ukRank ka ≤ Spec.ukRank kb then kb else ka

theorem umax_int_or_rune (ka kb : UK) (hka : ka = .int ∨ ka = .rune) (hkb : kb = .int ∨ kb = .rune) :
    umax ka kb = .int ∨ umax ka kb = .rune := by
  rcases hka with rfl | rfl <;> rcases hkb with rfl | rfl <;> simp [umax, Spec.ukRank]

/-- the "+" check of `check.binaryExpr` passes on numeric operands under a numeric (or no) node type -/
theorem addOkY_num (a : Act) (forced : Option Ty) (hf : ∀ f, forced = some f → f.isNumber = true) (c0 c1 : NS)
    (h0 : c0.ty.isNumber = true) (h1 : c1.ty.isNumber = true) : addOkY F0 a forced c0 c1 = true := by
  cases forced with
  | none => cases a <;> rfl
  | some f =>
    have := hf f rfl
    cases a <;> simp [addOkY, this, h0, h1]

/-- `check.binaryExpr` on two untyped integer constants: a constant zero divisor is refused, otherwise both operands
    take the later of the two kinds (the quotient too, since 6f2f5cf) -/
theorem checkBinaryY_uu (forced : Option Ty) (hf : ∀ f, forced = some f → f.isNumber = true)
    (a : Act) (ha : isArith a = true) (c0 c1 : NS)
    (ka kb : UK) (p q : Int) (hka : ka = .int ∨ ka = .rune) (hkb : kb = .int ∨ kb = .rune)
    (h0ty : c0.ty = .u ka) (h1ty : c1.ty = .u kb) (h1rv : c1.rv = .c (.int q)) :
    checkBinaryY F0 forced a c0 c1 =
      if needsNZ a = true ∧ q = 0 then .reject
      else .ok ({ c0 with ty := .u (umax ka kb) }, { c1 with ty := .u (umax ka kb) }) := by
  have hz1 := zeroConstY_untyped c1 kb hkb q h1ty h1rv
  obtain ⟨rv0, ty0, s0, i0, f0, t0⟩ := c0
  obtain ⟨rv1, ty1, s1, i1, f1, t1⟩ := c1
  simp only at h0ty h1ty h1rv
  subst h0ty h1ty h1rv
  have hn0 : (Ty.u ka).isNumber = true := by rcases hka with rfl | rfl <;> rfl
  have hn1 : (Ty.u kb).isNumber = true := by rcases hkb with rfl | rfl <;> rfl
  have haddok := addOkY_num a forced hf ⟨rv0, .u ka, s0, i0, f0, t0⟩ ⟨.c (.int q), .u kb, s1, i1, f1, t1⟩ hn0 hn1
  simp only [checkBinaryY, haddok, Bool.not_true, Bool.false_eq_true, if_false]
  by_cases hz : needsNZ a = true ∧ q = 0
  · rw [if_pos hz]
    obtain ⟨hnz, hq0⟩ := hz
    subst hq0
    have hrq : (a == Act.rem || a == Act.quo) = true := by cases a <;> simp [needsNZ] at hnz <;> rfl
    simp [hrq, hz1]
  · rw [if_neg hz]
    have hzb : ((if (a == Act.rem || a == Act.quo) = true then zeroConstY F0
        { rv := .c (.int q), ty := .u kb, self := s1, inner := i1, fidx := f1, set := t1 } else Res.ok false).bind
          fun z => (if z = true then Res.reject else Res.ok ()) : Res Unit) = .ok () := by
      by_cases hrq : (a == Act.rem || a == Act.quo) = true
      · have : q ≠ 0 := by intro h; apply hz; refine ⟨?_, h⟩; cases a <;> simp at hrq <;> rfl
        simp [hrq, hz1, this]
      · simp [hrq]
    by_cases hrq : (a == Act.rem || a == Act.quo) = true
    · have hq0 : q ≠ 0 := by intro h; apply hz; refine ⟨?_, h⟩; cases a <;> simp at hrq <;> rfl
      rcases hka with rfl | rfl <;> rcases hkb with rfl | rfl <;>
        (cases a <;> simp [isArith] at ha <;> simp at hrq <;>
         simp [hz1, hq0, convertUntypedY, binaryPredY, Ty.untyped, Ty.isInt, Ty.isFloat, Ty.isNumber, Ty.kindRank, Ty.rtype,
           BT.isInt, BT.isFloat, umax, Spec.ukRank, Expected.C03.checkFacts])
    · rcases hka with rfl | rfl <;> rcases hkb with rfl | rfl <;>
        (cases a <;> simp [isArith] at ha <;> simp at hrq <;>
         simp [convertUntypedY, binaryPredY, Ty.untyped, Ty.isInt, Ty.isFloat, Ty.isNumber, Ty.kindRank, Ty.rtype,
           BT.isInt, BT.isFloat, umax, Spec.ukRank, Expected.C03.checkFacts])

/-- both operands untyped integer constants, whatever (numeric) type the context pushed down: the node stays untyped
    (3f5ccd5), the quotient goes through the operand conversions like every other operator (6f2f5cf: `'a' / 2` is a
    rune constant), the result is limited to 512 bits (eeab028) -/
theorem binNodeY_uu (env : Env) (forced : Option Ty) (hf : ∀ f, forced = some f → f.isNumber = true)
    (a : Act) (ha : isArith a = true) (c0 c1 : NS)
    (ka kb : UK) (p q : Int) (hka : ka = .int ∨ ka = .rune) (hkb : kb = .int ∨ kb = .rune)
    (h0ty : c0.ty = .u ka) (h0rv : c0.rv = .c (.int p)) (h1ty : c1.ty = .u kb) (h1rv : c1.rv = .c (.int q)) :
    binNodeY F0 env forced a c0 c1 =
      if needsNZ a = true ∧ q = 0 then .reject
      else if bitLen (iop a p q) > 512 then .reject
      else .ok { rv := .c (.int (iop a p q)), ty := .u (umax ka kb), inner := c0.loose || c1.loose } := by
  have hchk := checkBinaryY_uu forced hf a ha c0 c1 ka kb p q hka hkb h0ty h1ty h1rv
  simp only [binNodeY, hchk]
  by_cases hz : needsNZ a = true ∧ q = 0
  · simp only [if_pos hz, bind_reject]
  · simp only [if_neg hz, bind_ok]
    have hum := umax_int_or_rune ka kb hka hkb
    have hnty : nodeTyY F0 forced false { c0 with ty := .u (umax ka kb) } { c1 with ty := .u (umax ka kb) } =
        .u (umax ka kb) := by
      cases forced with
      | none => rcases hum with h | h <;> simp [nodeTyY, stayUntypedY, binTypeY, h, Ty.untyped, Ty.isInt, Ty.isFloat, Ty.rtype, BT.isInt, BT.isFloat]
      | some f => simp [nodeTyY, stayUntypedY, isUntypedConstY, h0rv, h1rv, isConstRV, Ty.untyped, Expected.C03.checkFacts]
    simp only [hnty, ite_self]
    rw [constExprY_cc a false _ _ (by simp [h0rv, isConstRV]) (by simp [h1rv, isConstRV])]
    simp only [Expected.C03.checkFacts, F0_chk, if_true, bind_ok, h0rv, h1rv, foldBinY_const a ha _ p q hz, constOverflowY_c]
    by_cases hb : bitLen (iop a p q) > 512
    · simp only [if_pos hb, bind_reject]
    · simp only [if_neg hb, bind_ok]
      rcases hum with h | h <;> simp [fixUntypedY, h, Ty.untyped, NS.loose, isSetRV]

theorem convertUntypedY_typed (n : NS) (b : BT) (target : Ty) (hty : n.ty = .t b) :
    convertUntypedY F0 n target = .ok (some n) := by
  simp [convertUntypedY, hty, Ty.untyped]

/-- what the post-order case does once `check.binaryExpr` has accepted (and converted) the operands -/
def postCheck (env : Env) (a : Act) (c0 c1 : NS) : Res NS :=
  let nty : Ty := if a == Act.rem then c0.ty else nodeTyY F0 none false c0 c1
  (constExprY F0 a false c0 c1).bind fun _ =>
  (foldBinY F0 a nty c0.rv c1.rv).bind fun rv =>
  (constOverflowY F0 rv).bind fun _ =>
  fixUntypedY F0 env nty c0 c1 rv

theorem binNodeY_post (env : Env) (a : Act) (c0 c1 : NS) :
    binNodeY F0 env none a c0 c1 = (checkBinaryY F0 none a c0 c1).bind fun x => postCheck env a x.1 x.2 := by
  simp [binNodeY, postCheck, Expected.C03.checkFacts]

/-- two operands of one integer type `k` (reflect values): the operation is recomputed exactly (`constExpr`,
    31bf1d3) — a zero divisor and a result that is not representable in `k` are compile errors — and the typed arm of
    the folding function then yields that exact result -/
theorem postCheck_rr (env : Env) (a : Act) (ha : isArith a = true) (c0 c1 : NS) (k : IKind) (p q : Int)
    (h0ty : c0.ty = .t (.i k)) (h0rv : c0.rv = .r (.i k) (.int p)) (h1ty : c1.ty = .t (.i k)) (h1rv : c1.rv = .r (.i k) (.int q))
    (hp : Spec.reprGo k p = true) (hq : Spec.reprGo k q = true) :
    postCheck env a c0 c1 =
      if needsNZ a = true ∧ q = 0 then .reject
      else if Spec.reprGo k (iop a p q) = true then
        .ok { rv := .r (.i k) (.int (iop a p q)), ty := .t (.i k), set := true }
      else .reject := by
  have hce := constExprY_rr a ha c0 c1 k p q h0ty h0rv h1rv
  have hnty : (if (a == Act.rem) = true then c0.ty else nodeTyY F0 none false c0 c1) = .t (.i k) := by
    split
    · exact h0ty
    · simp [nodeTyY, stayUntypedY, binTypeY, h0ty, Ty.untyped]
  simp only [postCheck, hce, hnty]
  by_cases hz : needsNZ a = true ∧ q = 0
  · simp only [if_pos hz, bind_reject]
  · simp only [if_neg hz]
    by_cases hr : Spec.reprGo k (iop a p q) = true
    · simp only [if_pos hr, bind_ok, h0rv, h1rv]
      rw [foldBinY_typed a ha k _ _ p q (Or.inl rfl) (Or.inl rfl) (by simp) hp hq hz hr]
      simp [constOverflowY_r k _ hr, fixUntypedY, Ty.untyped, isSetRV]
    · simp only [if_neg hr, bind_reject]

/-- `check.binaryExpr`, first operand of integer type `k`, second an untyped integer constant -/
theorem checkBinaryY_tu (a : Act) (ha : isArith a = true) (c0 c1 : NS) (k : IKind) (kb : UK) (q : Int)
    (hkb : kb = .int ∨ kb = .rune) (h0ty : c0.ty = .t (.i k)) (h1ty : c1.ty = .u kb) (h1rv : c1.rv = .c (.int q)) :
    checkBinaryY F0 none a c0 c1 =
      if needsNZ a = true ∧ q = 0 then .reject
      else if Spec.reprGo k q = true then
        .ok (c0, { c1 with rv := .r (.i k) (.int q), ty := .t (.i k), self := false, set := false })
      else .reject := by
  have hz1 := zeroConstY_untyped c1 kb hkb q h1ty h1rv
  have hc0 : ∀ target, convertUntypedY F0 c0 target = .ok (some c0) := fun t => convertUntypedY_typed c0 _ t h0ty
  simp only [checkBinaryY, addOkY, Bool.not_true, Bool.false_eq_true, if_false]
  by_cases hz : needsNZ a = true ∧ q = 0
  · rw [if_pos hz]
    obtain ⟨hnz, hq0⟩ := hz
    subst hq0
    have hrq : (a == Act.rem || a == Act.quo) = true := by cases a <;> simp [needsNZ] at hnz <;> rfl
    simp [hrq, hz1]
  · rw [if_neg hz]
    have hzero : ((if (a == Act.rem || a == Act.quo) = true then zeroConstY F0 c1 else Res.ok false) : Res Bool) = .ok false := by
      by_cases hrq : (a == Act.rem || a == Act.quo) = true
      · have : q ≠ 0 := by intro h; apply hz; refine ⟨?_, h⟩; cases a <;> simp at hrq <;> rfl
        simp [hrq, hz1, this]
      · simp [hrq]
    simp only [hzero, bind_ok, Bool.false_eq_true, if_false, Expected.C03.checkFacts, F0_chk, Bool.and_false, hc0, Option.getD_some, h0ty]
    by_cases hr : Spec.reprGo k q = true
    · rw [if_pos hr, convertUntypedY_int c1 kb hkb q k h1ty h1rv hr]
      cases a <;> simp [isArith] at ha <;> simp [binaryPredY, Ty.isNumber, Ty.isInt, Ty.rtype, BT.isInt]
    · have hr' : Spec.reprGo k q = false := by simpa using hr
      rw [if_neg hr, convertUntypedY_int_none c1 kb hkb q k h1ty h1rv hr']
      simp [h1ty]

/-- `zeroConst` on a typed divisor that is a reflect value: only a value that cannot be set (a converted constant)
    is taken for a constant; `constExpr` refuses the others -/
theorem zero_typed_cases (a : Act) (c1 : NS) (k : IKind) (q : Int) (h1ty : c1.ty = .t (.i k)) (h1rv : c1.rv = .r (.i k) (.int q)) :
    ((if (a == Act.rem || a == Act.quo) = true then zeroConstY F0 c1 else Res.ok false) : Res Bool) =
      .ok ((a == Act.rem || a == Act.quo) && (!c1.set && q == 0)) := by
  by_cases hrq : (a == Act.rem || a == Act.quo) = true
  · simp [hrq, zeroConstY_typed c1 k q h1ty h1rv]
  · simp [hrq]

/-- `check.binaryExpr`, first operand an untyped integer constant, second of integer type `k` -/
theorem checkBinaryY_ut (a : Act) (ha : isArith a = true) (c0 c1 : NS) (k : IKind) (ka : UK) (p q : Int)
    (hka : ka = .int ∨ ka = .rune) (h0ty : c0.ty = .u ka) (h0rv : c0.rv = .c (.int p))
    (h1ty : c1.ty = .t (.i k)) (h1rv : c1.rv = .r (.i k) (.int q)) :
    checkBinaryY F0 none a c0 c1 =
      if ((a == Act.rem || a == Act.quo) && (!c1.set && q == 0)) = true then .reject
      else if Spec.reprGo k p = true then
        .ok ({ c0 with rv := .r (.i k) (.int p), ty := .t (.i k), self := false, set := false }, c1)
      else .reject := by
  have hc1 : ∀ target, convertUntypedY F0 c1 target = .ok (some c1) := fun t => convertUntypedY_typed c1 _ t h1ty
  simp only [checkBinaryY, addOkY, Bool.not_true, Bool.false_eq_true, if_false, zero_typed_cases a c1 k q h1ty h1rv, bind_ok]
  split
  · rfl
  · simp only [Expected.C03.checkFacts, F0_chk, Bool.and_false, Bool.false_eq_true, if_false, h1ty]
    by_cases hr : Spec.reprGo k p = true
    · rw [if_pos hr, convertUntypedY_int c0 ka hka p k h0ty h0rv hr]
      simp only [bind_ok, Option.getD_some, hc1]
      cases a <;> simp [isArith] at ha <;> simp [binaryPredY, h1ty, Ty.isNumber, Ty.isInt, Ty.rtype, BT.isInt]
    · have hr' : Spec.reprGo k p = false := by simpa using hr
      rw [if_neg hr, convertUntypedY_int_none c0 ka hka p k h0ty h0rv hr']
      simp [hc1, h0ty, h1ty]

/-- `check.binaryExpr`, both operands typed -/
theorem checkBinaryY_tt (a : Act) (ha : isArith a = true) (c0 c1 : NS) (k k' : IKind) (q : Int)
    (h0ty : c0.ty = .t (.i k)) (h1ty : c1.ty = .t (.i k')) (h1rv : c1.rv = .r (.i k') (.int q)) :
    checkBinaryY F0 none a c0 c1 =
      if ((a == Act.rem || a == Act.quo) && (!c1.set && q == 0)) = true then .reject
      else if k = k' then .ok (c0, c1) else .reject := by
  have hc0 : ∀ target, convertUntypedY F0 c0 target = .ok (some c0) := fun t => convertUntypedY_typed c0 _ t h0ty
  have hc1 : ∀ target, convertUntypedY F0 c1 target = .ok (some c1) := fun t => convertUntypedY_typed c1 _ t h1ty
  simp only [checkBinaryY, addOkY, Bool.not_true, Bool.false_eq_true, if_false, zero_typed_cases a c1 k' q h1ty h1rv, bind_ok]
  split
  · rfl
  · simp only [Expected.C03.checkFacts, F0_chk, Bool.and_false, Bool.false_eq_true, if_false, hc0, hc1, bind_ok,
      Option.getD_some, h0ty, h1ty]
    by_cases hk : k = k'
    · subst hk
      cases a <;> simp [isArith] at ha <;> simp [binaryPredY, Ty.isNumber, Ty.isInt, Ty.rtype, BT.isInt]
    · simp [hk]

/-! ### the Go side of the same four cases -/

theorem matchTypes_uu (ka kb : UK) (p q : Int) (hka : ka = .int ∨ ka = .rune) (hkb : kb = .int ∨ kb = .rune) :
    Spec.matchTypes ⟨.int p, .u ka⟩ ⟨.int q, .u kb⟩ = .ok (.int p, .int q, .u (umax ka kb)) := by
  rcases hka with rfl | rfl <;> rcases hkb with rfl | rfl <;>
    simp [Spec.matchTypes, Spec.ukRank, Spec.toKind, CV.toInt, umax]

theorem matchTypes_tu (k : IKind) (kb : UK) (p q : Int) (hkb : kb = .int ∨ kb = .rune) :
    Spec.matchTypes ⟨.int p, .t (.i k)⟩ ⟨.int q, .u kb⟩ =
      if Spec.reprGo k q = true then .ok (.int p, .int q, .t (.i k)) else .reject := by
  rcases hkb with rfl | rfl <;>
    (simp only [Spec.matchTypes, Spec.representGo, CV.toInt]
     by_cases h : Spec.reprGo k q = true <;> simp [h, Spec.isNumTy, Spec.isIntTy])

theorem matchTypes_ut (k : IKind) (ka : UK) (p q : Int) (hka : ka = .int ∨ ka = .rune) :
    Spec.matchTypes ⟨.int p, .u ka⟩ ⟨.int q, .t (.i k)⟩ =
      if Spec.reprGo k p = true then .ok (.int p, .int q, .t (.i k)) else .reject := by
  rcases hka with rfl | rfl <;>
    (simp only [Spec.matchTypes, Spec.representGo, CV.toInt]
     by_cases h : Spec.reprGo k p = true <;> simp [h, Spec.isNumTy, Spec.isIntTy])

theorem matchTypes_tt (k k' : IKind) (p q : Int) :
    Spec.matchTypes ⟨.int p, .t (.i k)⟩ ⟨.int q, .t (.i k')⟩ =
      if k = k' then .ok (.int p, .int q, .t (.i k)) else .reject := by
  by_cases h : k = k' <;> simp [Spec.matchTypes, h]

/-- the specification on two integer constants of one integer type -/
theorem arithGo_typed (a : Act) (ha : isArith a = true) (k : IKind) (p q : Int) :
    Spec.arithGo a (.int p) (.int q) (.t (.i k)) =
      if needsNZ a = true ∧ q = 0 then .reject
      else if Spec.reprGo k (iop a p q) = true then .ok ⟨.int (iop a p q), .t (.i k)⟩ else .reject := by
  rw [arithGo_int a ha p q _ rfl, finish_typed_int_eq]

/-- relation between the closed forms of the two sides for operands of one integer type -/
theorem rel_typed (a : Act) (k : IKind) (p q : Int) :
    Rel (if needsNZ a = true ∧ q = 0 then .reject
         else if Spec.reprGo k (iop a p q) = true then
           .ok { rv := .r (.i k) (.int (iop a p q)), ty := .t (.i k), set := true }
         else .reject)
        (if needsNZ a = true ∧ q = 0 then .reject
         else if Spec.reprGo k (iop a p q) = true then .ok ⟨.int (iop a p q), .t (.i k)⟩ else .reject) := by
  by_cases hz : needsNZ a = true ∧ q = 0
  · rw [if_pos hz, if_pos hz]; exact .rej
  · rw [if_neg hz, if_neg hz]
    by_cases hr : Spec.reprGo k (iop a p q) = true
    · rw [if_pos hr, if_pos hr]; exact .ok _ _ (Inv.of_typed _ _ _ rfl rfl hr)
    · rw [if_neg hr, if_neg hr]; exact .rej

theorem needsNZ_iff (a : Act) : needsNZ a = (a == Act.rem || a == Act.quo) := by
  cases a <;> rfl

/-- **arithmetic node, both directions**: on integer constants the post-order case `binaryExpr` of the interpreter
    model and the specification agree — same value and type, or both reject -/
theorem binNode_rel (env : Env) (a : Act) (ha : isArith a = true) (c0 c1 : NS)
    (g0 g1 : Spec.GV) (i0 : Inv c0 g0) (i1 : Inv c1 g1) :
    Rel (binNodeY F0 env none a c0 c1) ((Spec.matchTypes g0 g1).bind fun x => Spec.arithGo a x.1 x.2.1 x.2.2) := by
  rcases i0.shape with ⟨ka, p, hka, rfl, h0ty, h0rv⟩ | ⟨k, p, rfl, h0ty, h0rv, hp⟩ <;>
  rcases i1.shape with ⟨kb, q, hkb, rfl, h1ty, h1rv⟩ | ⟨k', q, rfl, h1ty, h1rv, hq'⟩
  · -- untyped, untyped
    rw [binNodeY_uu env none (by simp) a ha c0 c1 ka kb p q hka hkb h0ty h0rv h1ty h1rv, matchTypes_uu ka kb p q hka hkb]
    simp only [bind_ok]
    have hum := umax_int_or_rune ka kb hka hkb
    have hint : Spec.isIntTy (.u (umax ka kb)) = true := by rcases hum with h | h <;> rw [h] <;> rfl
    rw [arithGo_int a ha p q _ hint, finish_untyped_int_eq _ _ hum]
    by_cases hz : needsNZ a = true ∧ q = 0
    · rw [if_pos hz, if_pos hz]; exact .rej
    · rw [if_neg hz, if_neg hz]
      by_cases hb : bitLen (iop a p q) > 512
      · rw [if_pos hb, if_pos (by simpa [Spec.maxUntypedBits] using hb)]; exact .rej
      · rw [if_neg hb, if_neg (by simpa [Spec.maxUntypedBits] using hb)]
        exact .ok _ _ (Inv.of_untyped _ _ _ hum rfl rfl)
  · -- untyped, typed
    rw [binNodeY_post, checkBinaryY_ut a ha c0 c1 k' ka p q hka h0ty h0rv h1ty h1rv, matchTypes_ut k' ka p q hka]
    by_cases hp : Spec.reprGo k' p = true
    · simp only [if_pos hp, bind_ok]
      rw [arithGo_typed a ha]
      by_cases hzr : ((a == Act.rem || a == Act.quo) && (!c1.set && q == 0)) = true
      · rw [if_pos hzr]
        have hz : needsNZ a = true ∧ q = 0 := by
          rw [needsNZ_iff]; simp only [Bool.and_eq_true, beq_iff_eq] at hzr; exact ⟨hzr.1, hzr.2.2⟩
        rw [if_pos hz]; exact .rej
      · rw [if_neg hzr]
        simp only [bind_ok]
        rw [postCheck_rr env a ha _ c1 k' p q rfl rfl h1ty h1rv hp hq']
        exact rel_typed a k' p q
    · simp only [if_neg hp, bind_reject]
      split <;> exact .rej
  · -- typed, untyped
    rw [binNodeY_post, checkBinaryY_tu a ha c0 c1 k kb q hkb h0ty h1ty h1rv, matchTypes_tu k kb p q hkb]
    by_cases hz : needsNZ a = true ∧ q = 0
    · rw [if_pos hz]
      by_cases hq2 : Spec.reprGo k q = true
      · simp only [if_pos hq2, bind_ok, bind_reject]
        rw [arithGo_typed a ha, if_pos hz]; exact .rej
      · simp only [if_neg hq2, bind_reject]; exact .rej
    · rw [if_neg hz]
      by_cases hq2 : Spec.reprGo k q = true
      · simp only [if_pos hq2, bind_ok]
        rw [arithGo_typed a ha, postCheck_rr env a ha c0 _ k p q h0ty h0rv rfl rfl hp hq2]
        exact rel_typed a k p q
      · simp only [if_neg hq2, bind_reject]; exact .rej
  · -- typed, typed
    rw [binNodeY_post, checkBinaryY_tt a ha c0 c1 k k' q h0ty h1ty h1rv, matchTypes_tt k k' p q]
    by_cases hk : k = k'
    · subst hk
      simp only [if_true, bind_ok]
      rw [arithGo_typed a ha]
      by_cases hzr : ((a == Act.rem || a == Act.quo) && (!c1.set && q == 0)) = true
      · rw [if_pos hzr]
        have hz : needsNZ a = true ∧ q = 0 := by
          rw [needsNZ_iff]; simp only [Bool.and_eq_true, beq_iff_eq] at hzr; exact ⟨hzr.1, hzr.2.2⟩
        rw [if_pos hz]; exact .rej
      · rw [if_neg hzr]
        simp only [bind_ok]
        rw [postCheck_rr env a ha c0 c1 k p q h0ty h0rv h1ty h1rv hp hq']
        exact rel_typed a k p q
    · simp only [if_neg hk, bind_reject]
      split <;> exact .rej

end YaegiVerif.Proofs.C03
