import YaegiVerif.Model.Boundary
import YaegiVerif.Expected.C07
/-
  C07 — helper lemmas about calls: variadic packing (reflect's and the explicit loop of `call`), the frame built by
  the reflect.MakeFunc wrapper.
-/
namespace YaegiVerif.Boundary
open YaegiVerif

/-! ### lists of representations -/

theorem listToRepL_snoc (l : List Rep) (v : Rep) : (listToRepL l).snoc v = listToRepL (l ++ [v]) := by
  induction l with
  | nil => rfl
  | cons a as ih => simp [listToRepL, RepL.snoc, ih]

theorem appendRep_tuple (xs : RepL) (v : Rep) : appendRep (.tuple xs) v = .tuple (xs.snoc v) := rfl
theorem appendRep_nil (v : Rep) : appendRep .nil v = .tuple (.cons v .nil) := rfl

theorem foldl_appendRep (xs : List (Rep × Bool)) : ∀ acc : List Rep,
    xs.foldl (fun a x => appendRep a x.1) (.tuple (listToRepL acc)) = .tuple (listToRepL (acc ++ xs.map Prod.fst)) := by
  induction xs with
  | nil => intro acc; simp
  | cons x xs ih =>
    intro acc
    rw [List.foldl_cons, appendRep_tuple, listToRepL_snoc, ih (acc ++ [x.1])]
    simp

theorem foldl_appendRep_nil (xs : List (Rep × Bool)) :
    xs.foldl (fun a x => appendRep a x.1) .nil =
      (if xs.isEmpty then Rep.nil else .tuple (listToRepL (xs.map Prod.fst))) := by
  cases xs with
  | nil => rfl
  | cons x xs =>
    rw [List.foldl_cons, appendRep_nil]
    have := foldl_appendRep xs [x.1]
    simp only [listToRepL] at this
    rw [this]
    simp [listToRepL]

/-! ### the explicit loop of `call` -/

theorem packCallLoop_fixed (variadic : Nat) : ∀ (l1 rest : List (Rep × Bool)) (acc : List Rep) (i : Nat) (va : Rep),
    i + l1.length = variadic →
    packCallLoop variadic i (l1 ++ rest) acc va = packCallLoop variadic variadic rest ((l1.map Prod.fst).reverse ++ acc) va := by
  intro l1
  induction l1 with
  | nil => intro rest acc i va h; simp at h; subst h; simp
  | cons x xs ih =>
    intro rest acc i va h
    obtain ⟨v, same⟩ := x
    have hlt : ¬ i ≥ variadic := by simp at h; omega
    simp only [List.cons_append, packCallLoop, hlt, if_false]
    rw [ih rest (v :: acc) (i + 1) va (by simp at h; omega)]
    simp

theorem packCallLoop_variadic (variadic : Nat) : ∀ (rest : List (Rep × Bool)) (acc : List Rep) (i : Nat) (va : Rep),
    i ≥ variadic → (∀ x ∈ rest, x.2 = false) →
    packCallLoop variadic i rest acc va = (acc.reverse, rest.foldl (fun a x => appendRep a x.1) va) := by
  intro rest
  induction rest with
  | nil => intro acc i va _ _; simp [packCallLoop]
  | cons x xs ih =>
    intro acc i va hi hall
    obtain ⟨v, same⟩ := x
    have hs : same = false := hall (v, same) (by simp)
    subst hs
    simp only [packCallLoop, hi, if_true, Bool.false_eq_true, if_false, List.foldl_cons]
    exact ih acc (i + 1) (appendRep va v) (by omega) (fun y hy => hall y (by simp [hy]))

/-! ### the wrapper's frame -/

theorem fillArgs_skip : ∀ (ks : List PKind) (as : List Rep) (fr : List Rep) (base : Nat),
    base + ks.length ≤ fr.length → fillArgs true fr base ks as = fillArgs false fr base ks as := by
  intro ks
  induction ks with
  | nil => intro as fr base _; cases as <;> simp [fillArgs]
  | cons k ks ih =>
    intro as fr base h
    cases as with
    | nil => simp [fillArgs]
    | cons a as =>
      have hb : ¬ base ≥ fr.length := by simp at h; omega
      simp only [fillArgs, Bool.true_and, hb, decide_false, Bool.false_eq_true, if_false, Bool.false_and]
      exact ih as _ (base + 1) (by simp [setAt] at *; omega)

end YaegiVerif.Boundary
