import YaegiVerif.Proofs.C02Core
import YaegiVerif.Proofs.C02Cmp
/- C02 — small arithmetic helper lemmas (powers of two, the literal 1). -/
namespace YaegiVerif.Proofs.C02
open YaegiVerif.Ops YaegiVerif.Spec.GoInt

variable {w : Nat}

theorem setWidth_one64 : (1#64).setWidth w = 1#w := by
  apply BitVec.eq_of_toNat_eq
  simp only [BitVec.toNat_setWidth, BitVec.toNat_ofNat]

theorem wrap_one : wrap w 1 = 1#w := by
  simp [wrap, BitVec.ofInt_ofNat]

theorem cast_pow2 (n : Nat) : ((2 ^ n : Nat) : Int) = (2:Int) ^ n := by
  rw [Int.natCast_pow]; rfl

theorem pow_le_pow63 {w : Nat} (h : w ≤ 64) : (2:Int) ^ (w - 1) ≤ 2 ^ 63 := by
  have : (2:Nat) ^ (w - 1) ≤ 2 ^ 63 := Nat.pow_le_pow_right (by omega) (by omega)
  exact_mod_cast this

theorem pow_le_pow64 {w : Nat} (h : w ≤ 64) : (2:Int) ^ w ≤ 2 ^ 64 := by
  have : (2:Nat) ^ w ≤ 2 ^ 64 := Nat.pow_le_pow_right (by omega) h
  exact_mod_cast this

theorem pow2_le_of_le {w n : Nat} (h : w ≤ n) : (2:Int) ^ w ≤ 2 ^ n := by
  have : (2:Nat) ^ w ≤ 2 ^ n := Nat.pow_le_pow_right (by omega) h
  exact_mod_cast this

theorem wrap_mul_pow_eq_zero {w n : Nat} (h : w ≤ n) (a : Int) : wrap w (a * 2 ^ n) = 0#w := by
  have hd : ((2 ^ w : Nat) : Int) ∣ a * 2 ^ n := by
    have : (2 ^ w : Nat) ∣ (2 ^ n : Nat) := Nat.pow_dvd_pow 2 h
    have h2 : ((2 ^ w : Nat) : Int) ∣ ((2 ^ n : Nat) : Int) := Int.natCast_dvd_natCast.mpr this
    rw [Int.natCast_pow] at h2
    exact Int.dvd_mul_of_dvd_right h2
  have : wrap w (a * 2 ^ n) = wrap w 0 := by
    unfold wrap; apply ofInt_congr
    rw [Int.emod_eq_zero_of_dvd hd]; simp
  rw [this]; simp [wrap]

theorem ediv_pow_of_small {w n : Nat} (h : w ≤ n) (v : Int) (hlo : -(2 ^ w) ≤ v) (hhi : v < 2 ^ w) :
    v / 2 ^ n = if v < 0 then -1 else 0 := by
  have hp := pow2_le_of_le h
  have hpos : (0:Int) < 2 ^ n := Int.pow_pos (by omega)
  by_cases hv : v < 0
  · simp only [hv, if_true]
    have h1 : (v + 1 * 2 ^ n) / 2 ^ n = v / 2 ^ n + 1 := Int.add_mul_ediv_right v 1 (by omega)
    have h2 : (v + 1 * 2 ^ n) / 2 ^ n = 0 := Int.ediv_eq_zero_of_lt (by omega) (by omega)
    omega
  · simp only [hv, if_false]
    exact Int.ediv_eq_zero_of_lt (by omega) (by omega)

end YaegiVerif.Proofs.C02
