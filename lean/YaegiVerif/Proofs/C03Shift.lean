import YaegiVerif.Proofs.C03Un
/- C03: shifts of the integer fragment -/
namespace YaegiVerif.Proofs.C03
open YaegiVerif YaegiVerif.Const

def isShift (a : Act) : Bool := a == .shl || a == .shr

/-- exact result of a constant shift -/
def sh (a : Act) (v : Int) (n : Nat) : Int := if a == .shl then ishl v n else ishr v n

theorem repr_uint_iff (c : Int) : Spec.reprGo .uint c = true ↔ 0 ≤ c ∧ c < 2 ^ 64 := by
  rw [reprGo_iff]
  simp only [IKind.minVal, IKind.maxVal, IKind.signed, IKind.bits, if_false, Bool.false_eq_true]
  omega

theorem foldShiftY_const (a : Act) (ha : isShift a = true) (nty : Ty) (v : Int) (v1 : RV) (c : Int)
    (hv1 : vUint v1 = .ok c) (hc0 : 0 ≤ c) (hc : c ≤ 100000) :
    foldShiftY F0 a nty (.c (.int v)) v1 = .ok (.c (.int (sh a v c.toNat))) := by
  have hle : ¬ (c > 100000) := by omega
  cases a <;> simp [isShift] at ha <;>
    simp [foldShiftY, F0, Expected.C03.facts, Expected.C03.evalFacts, EvalFacts.foldOf, Expected.C03.constOp,
      Expected.C03.folds, hv1, hle, sh]

/-- a left shift by 64 or more that still fits a 64-bit kind shifts zero -/
theorem shl_big_zero (k : IKind) (v : Int) (n : Nat) (hn : 64 ≤ n) (h : Spec.reprGo k (ishl v n) = true) : v = 0 := by
  have hb : (ishl v n).natAbs < 2 ^ 64 := by
    rw [reprGo_iff] at h
    cases k <;> simp only [IKind.minVal, IKind.maxVal, IKind.signed, IKind.bits, if_true, if_false, Bool.false_eq_true] at h <;>
      omega
  refine Decidable.byContradiction fun hv => ?_
  have h1 : 1 ≤ v.natAbs := by omega
  have h2 : (ishl v n).natAbs = v.natAbs * 2 ^ n := by
    simp [ishl, Int.natAbs_mul, Int.natAbs_pow]
  have h3 : 2 ^ 64 ≤ 2 ^ n := Nat.pow_le_pow_right (by decide) hn
  have h4 : 2 ^ n ≤ v.natAbs * 2 ^ n := Nat.le_mul_of_pos_left _ h1
  omega

theorem foldShiftY_typed (a : Act) (ha : isShift a = true) (k : IKind) (v : Int) (v1 : RV) (c : Int)
    (hv : Spec.reprGo k v = true) (hv1 : vUint v1 = .ok c) (hc0 : 0 ≤ c) (hc : c ≤ 100000)
    (hr : Spec.reprGo k (sh a v c.toNat) = true) :
    foldShiftY F0 a (.t (.i k)) (.r (.i k) (.int v)) v1 = .ok (.r (.i k) (.int (sh a v c.toNat))) := by
  have hle : ¬ (c > 100000) := by omega
  cases hs : k.signed
  · have e0 := vUint_refl k v (uint64Ok_of_repr_unsigned k hs v hv)
    cases a <;> simp [isShift] at ha
    · -- shl
      simp only [sh, beq_self_eq_true, if_true] at hr
      by_cases hn : 64 ≤ c.toNat
      · have hz := shl_big_zero k v _ hn hr
        subst hz
        simp [foldShiftY, F0, Expected.C03.facts, Expected.C03.evalFacts, EvalFacts.foldOf, Expected.C03.constOp,
          Expected.C03.folds, hv1, hle, sh, Ty.rtype, BT.isUint, hs, armOf, e0, hn, ishl, wrapK_of_repr k 0 hv]
      · simp [foldShiftY, F0, Expected.C03.facts, Expected.C03.evalFacts, EvalFacts.foldOf, Expected.C03.constOp,
          Expected.C03.folds, hv1, hle, sh, Ty.rtype, BT.isUint, hs, armOf, e0, hn, wrapK_of_repr k _ hr]
    · -- shr
      have hr' : Spec.reprGo k (ishr v c.toNat) = true := by simpa [sh] using hr
      simp [foldShiftY, F0, Expected.C03.facts, Expected.C03.evalFacts, EvalFacts.foldOf, Expected.C03.constOp,
        Expected.C03.folds, hv1, hle, sh, Ty.rtype, BT.isUint, hs, armOf, e0, wrapK_of_repr k _ hr']
  · have e0 := vInt_refl_signed k hs v
    cases a <;> simp [isShift] at ha
    · simp only [sh, beq_self_eq_true, if_true] at hr
      by_cases hn : 64 ≤ c.toNat
      · have hz := shl_big_zero k v _ hn hr
        subst hz
        simp [foldShiftY, F0, Expected.C03.facts, Expected.C03.evalFacts, EvalFacts.foldOf, Expected.C03.constOp,
          Expected.C03.folds, hv1, hle, sh, Ty.rtype, BT.isUint, BT.isInt, hs, armOf, e0, hn, ishl, wrapK_of_repr k 0 hv]
      · have w := wrap2 k _ hr
        simp only [wide, hs, if_true] at w
        simp [foldShiftY, F0, Expected.C03.facts, Expected.C03.evalFacts, EvalFacts.foldOf, Expected.C03.constOp,
          Expected.C03.folds, hv1, hle, sh, Ty.rtype, BT.isUint, BT.isInt, hs, armOf, e0, hn, w]
    · have hr' : Spec.reprGo k (ishr v c.toNat) = true := by simpa [sh] using hr
      simp [foldShiftY, F0, Expected.C03.facts, Expected.C03.evalFacts, EvalFacts.foldOf, Expected.C03.constOp,
        Expected.C03.folds, hv1, hle, sh, Ty.rtype, BT.isUint, BT.isInt, hs, armOf, e0, wrapK_of_repr k _ hr']

theorem uint64Ok_of_repr_nonneg (k : IKind) (c : Int) (h : Spec.reprGo k c = true) (h0 : 0 ≤ c) : uint64Ok c = true := by
  rw [reprGo_iff] at h
  simp only [uint64Ok, Bool.and_eq_true, decide_eq_true_eq]
  cases k <;> simp only [IKind.minVal, IKind.maxVal, IKind.signed, IKind.bits, if_true, if_false, Bool.false_eq_true] at h <;>
    omega

/-- the count operand after `check.shift`: a reflect value whose `vUint` is the count -/
theorem count_operand (c1 : NS) (g1 : Spec.GV) (i1 : Inv c1 g1) (c : Int) (hcnt : Spec.shiftCount g1 = some c) :
    ∃ c1' : NS, shiftCountY F0 c1 = .ok c1' ∧ vUint c1'.rv = .ok c ∧ 0 ≤ c ∧ c1'.ty.untyped = false := by
  rcases i1.shape with ⟨kb, q, hkb, rfl, h1ty, h1rv⟩ | ⟨k', q, rfl, h1ty, h1rv, hq⟩
  · have hnum : Spec.isNumTy (.u kb) = true := by rcases hkb with rfl | rfl <;> rfl
    simp only [Spec.shiftCount, CV.toInt, hnum, Bool.true_and] at hcnt
    by_cases hc : (decide (0 ≤ q) && decide (q < 2 ^ 64)) = true
    · simp only [hc, if_true] at hcnt
      injection hcnt with hcnt; subst hcnt
      simp only [Bool.and_eq_true, decide_eq_true_eq] at hc
      have hr : Spec.reprGo .uint q = true := (repr_uint_iff q).2 hc
      have hcv := convertUntypedY_int c1 kb q .uint h1ty h1rv hr
      refine ⟨{ c1 with rv := .r (.i .uint) (.int q), ty := .t (.i .uint), self := false }, ?_, ?_, hc.1, rfl⟩
      · simp only [shiftCountY, h1ty, Ty.untyped, if_true, hcv, bind_ok]
      · exact vUint_refl .uint q (uint64Ok_of_repr_nonneg .uint q hr hc.1)
    · exfalso
      simp only [Bool.and_eq_true, decide_eq_true_eq] at hc
      simp at hcnt
      omega
  · simp only [Spec.shiftCount] at hcnt
    by_cases hc : 0 ≤ q
    · simp only [hc, if_true] at hcnt
      injection hcnt with hcnt; subst hcnt
      refine ⟨c1, ?_, ?_, hc, ?_⟩
      · simp [shiftCountY, h1ty, Ty.untyped, Ty.isInt, Ty.rtype, BT.isInt]
      · rw [h1rv]; exact vUint_refl k' q (uint64Ok_of_repr_nonneg k' q hq hc)
      · simp [h1ty, Ty.untyped]
    · simp [hc] at hcnt

/-- **shift node** -/
theorem shiftNode_correct (env : Env) (a : Act) (ha : isShift a = true) (c0 c1 : NS)
    (g0 g1 gv : Spec.GV) (i0 : Inv c0 g0) (i1 : Inv c1 g1) (hgo : Spec.shiftGo a g0 g1 = .ok gv) :
    ∃ n, shiftNodeY F0 env none a c0 c1 = .ok n ∧ Inv n gv := by
  simp only [Spec.shiftGo] at hgo
  cases hcnt : Spec.shiftCount g1 with
  | none => simp [hcnt] at hgo
  | some c =>
    simp only [hcnt] at hgo
    by_cases hbig : c > Spec.shiftBound
    · simp [hbig] at hgo
    · rw [if_neg hbig] at hgo
      obtain ⟨c1', hc1, hv1, hc0, hc1u⟩ := count_operand c1 g1 i1 c hcnt
      have hc100 : c ≤ 100000 := by simp only [Spec.shiftBound] at hbig; omega
      rcases i0.shape with ⟨ka, v, hka, rfl, h0ty, h0rv⟩ | ⟨k, v, rfl, h0ty, h0rv, hv⟩
      · -- untyped left operand
        have hleft : Spec.shiftLeft ⟨.int v, .u ka⟩ = some (v, .u ka) := by
          rcases hka with rfl | rfl <;> rfl
        simp only [hleft] at hgo
        have hfin : Spec.finish (.int (sh a v c.toNat)) (.u ka) = .ok gv := by
          cases a <;> simp [isShift] at ha <;> simpa [sh] using hgo
        have hgv := finish_untyped_int _ _ hka gv hfin
        subst hgv
        have hl : shiftLeftY c0 = .ok { c0 with rv := .c (.int v) } := by
          simp [shiftLeftY, h0ty, h0rv, Ty.untyped, CV.toInt]
        have hf := foldShiftY_const a ha (.u ka) v c1'.rv c hv1 hc0 hc100
        refine ⟨{ rv := .c (.int (sh a v c.toNat)), ty := .u ka,
                  inner := ({ c0 with rv := .c (.int v) } : NS).loose || c1'.loose }, ?_, Inv.of_untyped _ _ _ hka rfl rfl⟩
        simp [shiftNodeY, checkShiftY, hl, hc1, h0ty, Ty.untyped, binTypeY, hf, fixUntypedY]
      · -- left operand of integer type
        have hleft : Spec.shiftLeft ⟨.int v, .t (.i k)⟩ = some (v, .t (.i k)) := rfl
        simp only [hleft] at hgo
        have hfin : Spec.finish (.int (sh a v c.toNat)) (.t (.i k)) = .ok gv := by
          cases a <;> simp [isShift] at ha <;> simpa [sh] using hgo
        obtain ⟨hgv, hr⟩ := finish_typed_int _ _ gv hfin
        subst hgv
        have hl : shiftLeftY c0 = .ok c0 := by
          simp [shiftLeftY, h0ty, h0rv, Ty.untyped, Ty.isInt, Ty.rtype, BT.isInt]
        have hf := foldShiftY_typed a ha k v c1'.rv c hv hv1 hc0 hc100 hr
        refine ⟨{ rv := .r (.i k) (.int (sh a v c.toNat)), ty := .t (.i k) }, ?_, Inv.of_typed _ _ _ rfl rfl hr⟩
        simp [shiftNodeY, checkShiftY, hl, hc1, h0ty, h0rv, Ty.untyped, hf, fixUntypedY]

end YaegiVerif.Proofs.C03
