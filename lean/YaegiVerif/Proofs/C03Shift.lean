import YaegiVerif.Proofs.C03Un
/- C03: shifts of the integer fragment, both directions -/
namespace YaegiVerif.Proofs.C03
open YaegiVerif YaegiVerif.Const

def isShift (a : Act) : Bool := a == .shl || a == .shr

/-- exact result of a constant shift -/
def sh (a : Act) (v : Int) (n : Nat) : Int := if a == .shl then ishl v n else ishr v n

theorem repr_uint_iff (c : Int) : Spec.reprGo .uint c = true ↔ 0 ≤ c ∧ c < 2 ^ 64 := by
  rw [reprGo_iff]
  simp only [IKind.minVal, IKind.maxVal, IKind.signed, IKind.bits, if_false, Bool.false_eq_true]
  omega

theorem foldShiftY_const (a : Act) (ha : isShift a = true) (nty : Ty) (v : Int) (v1 : RV) (c : Int)
    (hv1 : vUint v1 = .ok c) (hc0 : 0 ≤ c) (hc : c ≤ 100000) :
    foldShiftY F0 a nty (.c (.int v)) v1 = .ok (.c (.int (sh a v c.toNat))) := by
  have hle : ¬ (c > 100000) := by omega
  cases a <;> simp [isShift] at ha <;>
    simp [foldShiftY, F0, Expected.C03.facts, Expected.C03.evalFacts, EvalFacts.foldOf, Expected.C03.constOp,
      Expected.C03.folds, hv1, hle, sh]

/-- a value with at least 65 bits is in no integer type -/
theorem not_repr_of_big (k : IKind) (x : Int) (h : 2 ^ 64 ≤ x.natAbs) : Spec.reprGo k x = false := by
  cases hr : Spec.reprGo k x with
  | false => rfl
  | true =>
    have := bitLen_of_repr k x hr
    rw [bitLen_le_iff] at this
    omega

/-- a left shift by 64 or more that still fits a 64-bit kind shifts zero -/
theorem shl_big_zero (k : IKind) (v : Int) (n : Nat) (hn : 64 ≤ n) (h : Spec.reprGo k (ishl v n) = true) : v = 0 := by
  have hb : (ishl v n).natAbs < 2 ^ 64 := by
    have := bitLen_of_repr k _ h
    rwa [bitLen_le_iff] at this
  refine Decidable.byContradiction fun hv => ?_
  have h1 : 1 ≤ v.natAbs := by omega
  have h2 : (ishl v n).natAbs = v.natAbs * 2 ^ n := by
    simp [ishl, Int.natAbs_mul, Int.natAbs_pow]
  have h3 : 2 ^ 64 ≤ 2 ^ n := Nat.pow_le_pow_right (by decide) hn
  have h4 : 2 ^ n ≤ v.natAbs * 2 ^ n := Nat.le_mul_of_pos_left _ h1
  omega

/-- an arithmetic right shift by 64 or more of a value of at most 64 bits leaves the sign only -/
theorem shr_big (v : Int) (n : Nat) (hn : 64 ≤ n) (hlo : -(2 ^ 64 : Int) ≤ v) (hhi : v < (2 ^ 64 : Int)) :
    ishr v n = if v < 0 then -1 else 0 := by
  have h3 : (2 ^ 64 : Int) ≤ (2 ^ n : Int) := by
    have : (2 ^ 64 : Nat) ≤ 2 ^ n := Nat.pow_le_pow_right (by decide) hn
    exact_mod_cast this
  unfold ishr
  by_cases hneg : v < 0
  · rw [if_pos hneg]
    exact Int.ediv_eq_neg_one_of_neg_of_le hneg (by omega)
  · rw [if_neg hneg]
    exact Int.ediv_eq_zero_of_lt (by omega) (by omega)

theorem repr_bounds64 (k : IKind) (v : Int) (h : Spec.reprGo k v = true) : -(2 ^ 64 : Int) ≤ v ∧ v < (2 ^ 64 : Int) := by
  rw [reprGo_iff] at h
  cases k <;> simp only [IKind.minVal, IKind.maxVal, IKind.signed, IKind.bits, if_true, if_false, Bool.false_eq_true] at h <;>
    omega

/-- `constExpr` shifts by `min(count, 512)`: "larger counts give the same result" as far as representability in an
    integer type goes -/
theorem repr_sh_clamp (a : Act) (ha : isShift a = true) (k : IKind) (v : Int) (n : Nat) (hv : Spec.reprGo k v = true) :
    Spec.reprGo k (sh a v (min n 512)) = Spec.reprGo k (sh a v n) := by
  by_cases hn : n ≤ 512
  · rw [Nat.min_eq_left hn]
  · have hn' : 512 ≤ n := by omega
    rw [Nat.min_eq_right hn']
    obtain ⟨hlo, hhi⟩ := repr_bounds64 k v hv
    cases a <;> simp [isShift] at ha
    · -- shl
      simp only [sh, beq_self_eq_true, if_true]
      by_cases hv0 : v = 0
      · subst hv0; simp [ishl]
      · have big : ∀ m, 64 ≤ m → Spec.reprGo k (ishl v m) = false := by
          intro m hm
          cases hr : Spec.reprGo k (ishl v m) with
          | false => rfl
          | true => exact absurd (shl_big_zero k v m hm hr) hv0
        rw [big 512 (by omega), big n (by omega)]
    · -- shr
      have e1 := shr_big v 512 (by omega) hlo hhi
      have e2 := shr_big v n (by omega) hlo hhi
      simp only [sh]
      rw [show ((Act.shr == Act.shl) = false) from rfl]
      simp only [Bool.false_eq_true, if_false, e1, e2]

theorem foldShiftY_typed (a : Act) (ha : isShift a = true) (k : IKind) (v : Int) (v1 : RV) (c : Int)
    (hv : Spec.reprGo k v = true) (hv1 : vUint v1 = .ok c) (hc0 : 0 ≤ c) (hc : c ≤ 100000)
    (hr : Spec.reprGo k (sh a v c.toNat) = true) :
    foldShiftY F0 a (.t (.i k)) (.r (.i k) (.int v)) v1 = .ok (.r (.i k) (.int (sh a v c.toNat))) := by
  have hle : ¬ (c > 100000) := by omega
  cases hs : k.signed
  · have e0 := vUint_refl k v (uint64Ok_of_repr_unsigned k hs v hv)
    cases a <;> simp [isShift] at ha
    · -- shl
      simp only [sh, beq_self_eq_true, if_true] at hr
      by_cases hn : 64 ≤ c.toNat
      · have hz := shl_big_zero k v _ hn hr
        subst hz
        simp [foldShiftY, F0, Expected.C03.facts, Expected.C03.evalFacts, EvalFacts.foldOf, Expected.C03.constOp,
          Expected.C03.folds, hv1, hle, sh, Ty.rtype, BT.isUint, hs, armOf, e0, hn, ishl, wrapK_of_repr k 0 hv]
      · simp [foldShiftY, F0, Expected.C03.facts, Expected.C03.evalFacts, EvalFacts.foldOf, Expected.C03.constOp,
          Expected.C03.folds, hv1, hle, sh, Ty.rtype, BT.isUint, hs, armOf, e0, hn, wrapK_of_repr k _ hr]
    · -- shr
      have hr' : Spec.reprGo k (ishr v c.toNat) = true := by simpa [sh] using hr
      simp [foldShiftY, F0, Expected.C03.facts, Expected.C03.evalFacts, EvalFacts.foldOf, Expected.C03.constOp,
        Expected.C03.folds, hv1, hle, sh, Ty.rtype, BT.isUint, hs, armOf, e0, wrapK_of_repr k _ hr']
  · have e0 := vInt_refl_signed k hs v
    cases a <;> simp [isShift] at ha
    · simp only [sh, beq_self_eq_true, if_true] at hr
      by_cases hn : 64 ≤ c.toNat
      · have hz := shl_big_zero k v _ hn hr
        subst hz
        simp [foldShiftY, F0, Expected.C03.facts, Expected.C03.evalFacts, EvalFacts.foldOf, Expected.C03.constOp,
          Expected.C03.folds, hv1, hle, sh, Ty.rtype, BT.isUint, BT.isInt, hs, armOf, e0, hn, ishl, wrapK_of_repr k 0 hv]
      · have w := wrap2 k _ hr
        simp only [wide, hs, if_true] at w
        simp [foldShiftY, F0, Expected.C03.facts, Expected.C03.evalFacts, EvalFacts.foldOf, Expected.C03.constOp,
          Expected.C03.folds, hv1, hle, sh, Ty.rtype, BT.isUint, BT.isInt, hs, armOf, e0, hn, w]
    · have hr' : Spec.reprGo k (ishr v c.toNat) = true := by simpa [sh] using hr
      simp [foldShiftY, F0, Expected.C03.facts, Expected.C03.evalFacts, EvalFacts.foldOf, Expected.C03.constOp,
        Expected.C03.folds, hv1, hle, sh, Ty.rtype, BT.isUint, BT.isInt, hs, armOf, e0, wrapK_of_repr k _ hr']

theorem uint64Ok_of_repr_nonneg (k : IKind) (c : Int) (h : Spec.reprGo k c = true) (h0 : 0 ≤ c) : uint64Ok c = true := by
  rw [reprGo_iff] at h
  simp only [uint64Ok, Bool.and_eq_true, decide_eq_true_eq]
  cases k <;> simp only [IKind.minVal, IKind.maxVal, IKind.signed, IKind.bits, if_true, if_false, Bool.false_eq_true] at h <;>
    omega

/-- the count of a shift as the specification reads it off an integer constant -/
theorem shiftCount_int (g1 : Spec.GV) (c1 : NS) (i1 : Inv c1 g1) :
    ∃ q, g1.v = .int q ∧
      (Spec.shiftCount g1 = if 0 ≤ q ∧ (g1.ty.untyped = true → q < 2 ^ 64) then some q else none) := by
  rcases i1.shape with ⟨kb, q, hkb, rfl, _, _⟩ | ⟨k', q, rfl, _, _, _⟩
  · refine ⟨q, rfl, ?_⟩
    have hnum : Spec.isNumTy (.u kb) = true := by rcases hkb with rfl | rfl <;> rfl
    simp only [Spec.shiftCount, CV.toInt, hnum, Bool.true_and, Ty.untyped, forall_const]
    by_cases hc : 0 ≤ q ∧ q < 2 ^ 64
    · simp [hc]
    · rw [if_neg hc]
      have : (decide (0 ≤ q) && decide (q < 2 ^ 64)) = false := by
        simp only [Bool.and_eq_false_iff, decide_eq_false_iff_not]
        by_cases h0 : 0 ≤ q
        · exact Or.inr (fun h => hc ⟨h0, h⟩)
        · exact Or.inl h0
      simp only [this, Bool.false_eq_true, if_false]
  · refine ⟨q, rfl, ?_⟩
    simp only [Spec.shiftCount, Ty.untyped, Bool.false_eq_true, false_implies, and_true]

/-- `check.shift`, the count: converted to `uint` when untyped, of integer type otherwise, and at most 1074 -/
def countCheck (c1 : NS) : Res NS :=
  (shiftCountY F0 c1).bind fun c1' => (vUint c1'.rv).bind fun s => if s > ((1074 : Nat) : Int) then Res.reject else Res.ok c1'

theorem countCheck_rel (c1 : NS) (g1 : Spec.GV) (i1 : Inv c1 g1) (q : Int) (hq : g1.v = .int q) :
    (¬ (0 ≤ q ∧ q ≤ 1074) → countCheck c1 = .reject) ∧
    ((0 ≤ q ∧ q ≤ 1074) → ∃ c1' : NS, countCheck c1 = .ok c1' ∧ vUint c1'.rv = .ok q ∧ isConstRV c1'.rv = false ∧
        (constValueY c1'.rv).toInt = .int q) := by
  rcases i1.shape with ⟨kb, q', hkb, rfl, h1ty, h1rv⟩ | ⟨k', q', rfl, h1ty, h1rv, hq'⟩ <;>
    (simp only at hq; injection hq with hq; subst hq)
  · -- untyped count
    constructor
    · intro hn
      by_cases hr : Spec.reprGo .uint q' = true
      · have hcv := convertUntypedY_int c1 kb hkb q' .uint h1ty h1rv hr
        have h64 := (repr_uint_iff q').1 hr
        have hv := vUint_refl .uint q' (uint64Ok_of_repr_nonneg .uint q' hr h64.1)
        have hgt : q' > 1074 := by omega
        simp [countCheck, shiftCountY, h1ty, Ty.untyped, hcv, hv, hgt]
      · have hr' : Spec.reprGo .uint q' = false := by simpa using hr
        have hcv := convertUntypedY_int_none c1 kb hkb q' .uint h1ty h1rv hr'
        simp [countCheck, shiftCountY, h1ty, Ty.untyped, hcv]
    · intro hc
      have hr : Spec.reprGo .uint q' = true := (repr_uint_iff q').2 ⟨hc.1, by omega⟩
      have hcv := convertUntypedY_int c1 kb hkb q' .uint h1ty h1rv hr
      have hv := vUint_refl .uint q' (uint64Ok_of_repr_nonneg .uint q' hr hc.1)
      have hle : ¬ (q' > 1074) := by omega
      refine ⟨{ c1 with rv := .r (.i .uint) (.int q'), ty := .t (.i .uint), self := false, «set» := false }, ?_, hv, rfl, rfl⟩
      simp [countCheck, shiftCountY, h1ty, Ty.untyped, hcv, hv, hle]
  · -- typed count
    constructor
    · intro hn
      have hint : c1.ty.isInt = true := by simp [h1ty, Ty.isInt, Ty.rtype, BT.isInt]
      by_cases h0 : 0 ≤ q'
      · have hv := vUint_refl k' q' (uint64Ok_of_repr_nonneg k' q' hq' h0)
        have hgt : q' > 1074 := by omega
        simp [countCheck, shiftCountY, h1ty, Ty.untyped, Ty.isInt, Ty.rtype, BT.isInt, h1rv, hv, hgt]
      · -- a negative count of signed type reads as a huge unsigned one
        obtain ⟨hlo, _⟩ := repr_bounds64 k' q' hq'
        have hw : wrapK .uint64 q' > 1074 := by
          simp only [wrapK, IKind.signed, IKind.bits, Bool.false_and, Bool.false_eq_true, if_false]
          rw [reprGo_iff] at hq'
          cases k' <;> simp only [IKind.minVal, IKind.maxVal, IKind.signed, IKind.bits, if_true, if_false, Bool.false_eq_true] at hq' <;>
            omega
        simp [countCheck, shiftCountY, h1ty, Ty.untyped, Ty.isInt, Ty.rtype, BT.isInt, h1rv, vUint, hw]
    · intro hc
      have hint : c1.ty.isInt = true := by simp [h1ty, Ty.isInt, Ty.rtype, BT.isInt]
      have hv := vUint_refl k' q' (uint64Ok_of_repr_nonneg k' q' hq' hc.1)
      have hle : ¬ (q' > 1074) := by omega
      refine ⟨c1, ?_, by rw [h1rv]; exact hv, by simp [h1rv, isConstRV], by simp [h1rv, constValueY, CV.toInt]⟩
      simp [countCheck, shiftCountY, h1ty, Ty.untyped, Ty.isInt, Ty.rtype, BT.isInt, h1rv, hv, hle]

theorem checkShiftY_eq (c0 c1 : NS) :
    checkShiftY F0 c0 c1 = (shiftLeftY F0 c0).bind fun c0' => (countCheck c1).bind fun c1' => .ok (c0', c1') := by
  simp only [checkShiftY, countCheck, F0_chk, Expected.C03.checkFacts]
  cases shiftLeftY F0 c0 <;> simp only [Res.bind]
  cases shiftCountY F0 c1 <;> simp only [Res.bind]
  rename_i a b
  cases vUint b.rv <;> simp only [Res.bind]
  split <;> simp only [Res.bind]

theorem shiftGo_of (a : Act) (ha : isShift a = true) (x s : Spec.GV) (c v : Int) (t : Ty)
    (hc : Spec.shiftCount s = some c) (hb : ¬ (c > Spec.shiftBound)) (hl : Spec.shiftLeft x = some (v, t)) :
    Spec.shiftGo a x s = Spec.finish (.int (sh a v c.toNat)) t := by
  cases a <;> simp [isShift] at ha <;> simp [Spec.shiftGo, hc, hb, hl, sh]

/-- **shift node**, both directions -/
theorem shiftNode_rel (env : Env) (a : Act) (ha : isShift a = true) (c0 c1 : NS)
    (g0 g1 : Spec.GV) (i0 : Inv c0 g0) (i1 : Inv c1 g1) :
    Rel (shiftNodeY F0 env none a c0 c1) (Spec.shiftGo a g0 g1) := by
  obtain ⟨q, hqv, hcnt⟩ := shiftCount_int g1 c1 i1
  obtain ⟨hbad, hgood⟩ := countCheck_rel c1 g1 i1 q hqv
  have hsa : isShiftAct a = true := by simpa [isShiftAct, isShift] using ha
  have hcmp : isCmpAct a = false := by cases a <;> simp [isShift] at ha <;> rfl
  -- the left operand always passes `check.shift` in the integer fragment
  have hleft : ∃ c0', shiftLeftY F0 c0 = .ok c0' ∧ c0'.ty = c0.ty ∧ c0'.rv = c0.rv ∧ c0'.loose = c0.loose := by
    rcases i0.shape with ⟨ka, v, hka, rfl, h0ty, h0rv⟩ | ⟨k, v, rfl, h0ty, h0rv, hv⟩
    · exact ⟨{ c0 with rv := .c (.int v) }, by simp [shiftLeftY, h0ty, h0rv, Ty.untyped, CV.toInt], rfl, h0rv.symm, rfl⟩
    · exact ⟨c0, by simp [shiftLeftY, h0ty, h0rv, Ty.untyped, Ty.isInt, Ty.rtype, BT.isInt], rfl, rfl, rfl⟩
  obtain ⟨c0', hl, hl_ty, hl_rv, hl_loose⟩ := hleft
  by_cases hc : 0 ≤ q ∧ q ≤ 1074
  · -- an acceptable count
    have hgo1 : Spec.shiftCount g1 = some q := by
      rw [hcnt, if_pos ⟨hc.1, fun _ => by omega⟩]
    have hbig : ¬ (q > Spec.shiftBound) := by simp only [Spec.shiftBound]; omega
    have hc100 : q ≤ 100000 := by omega
    have hc1 : ∃ c1' : NS, countCheck c1 = .ok c1' ∧ vUint c1'.rv = .ok q ∧ isConstRV c1'.rv = false ∧
        (constValueY c1'.rv).toInt = .int q := by
      exact hgood hc
    obtain ⟨c1', hcc, hv1, hnc, hcv1⟩ := hc1
    have hchk : checkShiftY F0 c0 c1 = .ok (c0', c1') := by
      rw [checkShiftY_eq, hl]; simp only [bind_ok, hcc]
    rcases i0.shape with ⟨ka, v, hka, rfl, h0ty, h0rv⟩ | ⟨k, v, rfl, h0ty, h0rv, hv⟩
    · -- untyped left operand
      have hleftgo : Spec.shiftLeft ⟨.int v, .u ka⟩ = some (v, .u ka) := by
        rcases hka with rfl | rfl <;> rfl
      rw [shiftGo_of a ha _ _ q v _ hgo1 hbig hleftgo, finish_untyped_int_eq _ _ hka]
      have h0ty' : c0'.ty = .u ka := by rw [hl_ty, h0ty]
      have h0rv' : c0'.rv = .c (.int v) := by rw [hl_rv, h0rv]
      have hf := foldShiftY_const a ha (.u ka) v c1'.rv q hv1 hc.1 hc100
      have hisint : (Ty.u ka).isInt = true := by rcases hka with rfl | rfl <;> rfl
      have hce : constExprY F0 a false c0' c1' = .ok () := by
        simp [constExprY, h0rv', isConstRV, hsa]
      have hY : shiftNodeY F0 env none a c0 c1 =
          if bitLen (sh a v q.toNat) > 512 then .reject
          else .ok { rv := .c (.int (sh a v q.toNat)), ty := .u ka, inner := c0'.loose || c1'.loose } := by
        simp only [shiftNodeY, hchk, bind_ok, h0ty', Ty.untyped, Bool.not_true, Bool.false_eq_true, if_false, hisint,
          F0_chk, Expected.C03.checkFacts, if_true, hce, h0rv', hf, constOverflowY_c]
        split <;> simp [fixUntypedY, Ty.untyped, isSetRV]
      rw [hY]
      by_cases hb : bitLen (sh a v q.toNat) > 512
      · rw [if_pos hb, if_pos (by simpa [Spec.maxUntypedBits] using hb)]; exact .rej
      · rw [if_neg hb, if_neg (by simpa [Spec.maxUntypedBits] using hb)]
        exact .ok _ _ (Inv.of_untyped _ _ _ hka rfl rfl)
    · -- left operand of integer type
      have hleftgo : Spec.shiftLeft ⟨.int v, .t (.i k)⟩ = some (v, .t (.i k)) := rfl
      rw [shiftGo_of a ha _ _ q v _ hgo1 hbig hleftgo, finish_typed_int_eq]
      have h0ty' : c0'.ty = .t (.i k) := by rw [hl_ty, h0ty]
      have h0rv' : c0'.rv = .r (.i k) (.int v) := by rw [hl_rv, h0rv]
      have hrep : ∀ r : Int, representableY F0 (.int r) (.i k) = Spec.reprGo k r := by
        intro r; simp only [representableY, CV.toInt]; exact reprY_eq_reprGo k r
      have htok : F0.eval.tokOf a = (match a with | .shl => Tok.shl | .shr => Tok.shr | _ => Tok.other) := by
        cases a <;> simp [isShift] at ha <;> rfl
      have hq0 : 0 ≤ q := hc.1
      have hce : constExprY F0 a false c0' c1' =
          if Spec.reprGo k (sh a v q.toNat) = true then .ok () else .reject := by
        have hclamp := repr_sh_clamp a ha k v q.toNat hv
        have h1 : constExprY F0 a false c0' c1' =
            if Spec.reprGo k (sh a v (min q.toNat 512)) = true then .ok () else .reject := by
          have hx : (constValueY c0'.rv).toInt = .int v := by simp [h0rv', constValueY, CV.toInt]
          have hnc0 : isConstRV c0'.rv = false := by simp [h0rv', isConstRV]
          cases a <;> simp [isShift] at ha <;>
            simp [constExprY, isCmpAct, isShiftAct, h0ty', hnc0, Ty.rtype, BT.isInt, hx, hcv1,
              CV.isIntKind, htok, hv1, cShift, hrep, Expected.C03.checkFacts, sh] <;>
            (try (split <;> simp_all))
        rw [h1, hclamp]
      have hY : shiftNodeY F0 env none a c0 c1 =
          if Spec.reprGo k (sh a v q.toNat) = true then
            .ok { rv := .r (.i k) (.int (sh a v q.toNat)), ty := .t (.i k), «set» := true }
          else .reject := by
        simp only [shiftNodeY, hchk, bind_ok, h0ty', Ty.untyped, Bool.not_false, if_true,
          F0_chk, Expected.C03.checkFacts, hce]
        by_cases hr : Spec.reprGo k (sh a v q.toNat) = true
        · simp only [if_pos hr, bind_ok, h0rv']
          rw [foldShiftY_typed a ha k v c1'.rv q hv hv1 hc.1 hc100 hr, bind_ok, constOverflowY_r k _ hr]
          simp [fixUntypedY, Ty.untyped, isSetRV]
        · simp only [if_neg hr, bind_reject]
      rw [hY]
      by_cases hr : Spec.reprGo k (sh a v q.toNat) = true
      · rw [if_pos hr, if_pos hr]; exact .ok _ _ (Inv.of_typed _ _ _ rfl rfl hr)
      · rw [if_neg hr, if_neg hr]; exact .rej
  · -- the count is refused on both sides
    have hY : shiftNodeY F0 env none a c0 c1 = .reject := by
      simp only [shiftNodeY, checkShiftY_eq, hl, bind_ok, hbad hc, bind_reject]
    have hG : Spec.shiftGo a g0 g1 = .reject := by
      simp only [Spec.shiftGo, hcnt]
      by_cases hc2 : 0 ≤ q ∧ (g1.ty.untyped = true → q < 2 ^ 64)
      · rw [if_pos hc2]
        have : q > Spec.shiftBound := by
          simp only [Spec.shiftBound]
          have : ¬ (q ≤ 1074) := fun h => hc ⟨hc2.1, h⟩
          omega
        simp [this]
      · rw [if_neg hc2]
    rw [hY, hG]; exact .rej

end YaegiVerif.Proofs.C03
