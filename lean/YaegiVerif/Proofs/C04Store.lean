import YaegiVerif.Model.Share
/-
  C04 — lemmas about value trees and the store: read-after-write at the same location, frame lemma for
  disjoint locations (by induction on the path, for all value trees), stability of reads under allocation.
-/
namespace YaegiVerif.Share

/-! ### Vals -/

theorem Vals.get?_set_eq : ∀ (vs : Vals) (i : Nat) (w c : Val), vs.get? i = some c → (vs.set i w).get? i = some w
  | .nil, _, _, _, h => by simp [Vals.get?] at h
  | .cons _ _, 0, _, _, _ => by simp [Vals.set, Vals.get?]
  | .cons _ vs, i + 1, w, c, h => by
    simp only [Vals.set, Vals.get?] at h ⊢
    exact Vals.get?_set_eq vs i w c h

theorem Vals.get?_set_ne : ∀ (vs : Vals) (i j : Nat) (w : Val), i ≠ j → (vs.set i w).get? j = vs.get? j
  | .nil, _, _, _, _ => by simp [Vals.set, Vals.get?]
  | .cons _ _, 0, 0, _, h => absurd rfl h
  | .cons _ _, 0, j + 1, _, _ => by simp [Vals.set, Vals.get?]
  | .cons _ _, i + 1, 0, _, _ => by simp [Vals.set, Vals.get?]
  | .cons _ vs, i + 1, j + 1, w, h => by
    simp only [Vals.set, Vals.get?]
    exact Vals.get?_set_ne vs i j w (by omega)

/-! ### children -/

theorem Val.child_setChild_eq (v : Val) (i : Nat) (w c : Val) (h : v.child i = some c) :
    (v.setChild i w).child i = some w := by
  cases v <;> simp [Val.child] at h <;> simp [Val.setChild, Val.child] <;> exact Vals.get?_set_eq _ _ _ _ h

theorem Val.child_setChild_ne (v : Val) (i j : Nat) (w : Val) (h : i ≠ j) :
    (v.setChild i w).child j = v.child j := by
  cases v <;> simp [Val.setChild, Val.child] <;> exact Vals.get?_set_ne _ _ _ _ h

/-! ### paths -/

/-- read after write at the same path -/
theorem Val.get_put_same (p : Path) : ∀ (v v' w : Val), v.put p w = some v' → v'.get p = some w := by
  induction p with
  | nil => intro v v' w h; simp [Val.put] at h; simp [Val.get, h]
  | cons i p ih =>
    intro v v' w h
    simp only [Val.put] at h
    cases hc : v.child i with
    | none => simp [hc] at h
    | some c =>
      simp only [hc] at h
      cases hp : c.put p w with
      | none => simp [hp] at h
      | some c' =>
        simp only [hp, Option.some.injEq] at h
        subst h
        simp only [Val.get, Val.child_setChild_eq v i c' c hc]
        exact ih c c' w hp

/-- a write at a path is visible below it: reading `p ++ q` after writing `w` at `p` reads inside `w` -/
theorem Val.get_put_below (p : Path) : ∀ (v v' w : Val) (q : Path), v.put p w = some v' → v'.get (p ++ q) = w.get q := by
  induction p with
  | nil => intro v v' w q h; simp [Val.put] at h; simp [h]
  | cons i p ih =>
    intro v v' w q h
    simp only [Val.put] at h
    cases hc : v.child i with
    | none => simp [hc] at h
    | some c =>
      simp only [hc] at h
      cases hp : c.put p w with
      | none => simp [hp] at h
      | some c' =>
        simp only [hp, Option.some.injEq] at h
        subst h
        simp only [List.cons_append, Val.get, Val.child_setChild_eq v i c' c hc]
        exact ih c c' w q hp

/-- frame lemma: a write at a path does not change what is read at a diverging path —
    for all value trees and all paths -/
theorem Val.get_put_diverge (p : Path) : ∀ (v v' w : Val) (q : Path), Path.diverge p q = true →
    v.put p w = some v' → v'.get q = v.get q := by
  induction p with
  | nil => intro v v' w q hd; simp [Path.diverge] at hd
  | cons i p ih =>
    intro v v' w q hd h
    cases q with
    | nil => simp [Path.diverge] at hd
    | cons j q =>
      simp only [Val.put] at h
      cases hc : v.child i with
      | none => simp [hc] at h
      | some c =>
        simp only [hc] at h
        cases hp : c.put p w with
        | none => simp [hp] at h
        | some c' =>
          simp only [hp, Option.some.injEq] at h
          subst h
          simp only [Path.diverge] at hd
          by_cases hij : i = j
          · subst hij
            simp only [if_true] at hd
            simp only [Val.get, Val.child_setChild_eq v i c' c hc, hc]
            exact ih c c' w q hd hp
          · simp only [Val.get, Val.child_setChild_ne v i j c' hij]

theorem Path.diverge_append_left (p q r : Path) (h : Path.diverge p q = true) : Path.diverge (p ++ r) q = true := by
  induction p generalizing q with
  | nil => simp [Path.diverge] at h
  | cons i p ih =>
    cases q with
    | nil => simp [Path.diverge] at h
    | cons j q =>
      simp only [List.cons_append, Path.diverge] at h ⊢
      by_cases hij : i = j
      · simp only [hij, if_true] at h ⊢; exact ih q h
      · simp [hij]

theorem Path.diverge_symm (p q : Path) : Path.diverge p q = Path.diverge q p := by
  induction p generalizing q with
  | nil => cases q <;> simp [Path.diverge]
  | cons i p ih =>
    cases q with
    | nil => simp [Path.diverge]
    | cons j q =>
      simp only [Path.diverge]
      by_cases hij : i = j
      · subst hij; simp [ih q]
      · have : ¬ j = i := fun h => hij h.symm
        simp [hij, this]

/-! ### cells -/

theorem readLoc_writeLoc_same (cs cs' : Cells) (l : Loc) (w : Val) (h : writeLoc cs l w = some cs') :
    readLoc cs' l = some w := by
  unfold writeLoc at h
  cases hc : cs[l.cell]? with
  | none => simp [hc] at h
  | some v =>
    simp only [hc] at h
    cases hp : v.put l.path w with
    | none => simp [hp] at h
    | some v' =>
      simp only [hp, Option.some.injEq] at h
      subst h
      have hlt : l.cell < cs.length := by
        have := List.getElem?_eq_some_iff.mp hc
        exact this.1
      simp [readLoc, List.getElem?_set_self hlt, Val.get_put_same _ _ _ _ hp]

theorem readLoc_writeLoc_below (cs cs' : Cells) (l : Loc) (w : Val) (q : Path) (h : writeLoc cs l w = some cs') :
    readLoc cs' ⟨l.cell, l.path ++ q⟩ = w.get q := by
  unfold writeLoc at h
  cases hc : cs[l.cell]? with
  | none => simp [hc] at h
  | some v =>
    simp only [hc] at h
    cases hp : v.put l.path w with
    | none => simp [hp] at h
    | some v' =>
      simp only [hp, Option.some.injEq] at h
      subst h
      have hlt : l.cell < cs.length := (List.getElem?_eq_some_iff.mp hc).1
      simp [readLoc, List.getElem?_set_self hlt, Val.get_put_below _ _ _ _ _ hp]

/-- frame lemma on the store: a write does not change what is read at a disjoint location -/
theorem readLoc_writeLoc_disjoint (cs cs' : Cells) (a b : Loc) (w : Val) (hd : Loc.disjoint a b = true)
    (h : writeLoc cs a w = some cs') : readLoc cs' b = readLoc cs b := by
  unfold writeLoc at h
  cases hc : cs[a.cell]? with
  | none => simp [hc] at h
  | some v =>
    simp only [hc] at h
    cases hp : v.put a.path w with
    | none => simp [hp] at h
    | some v' =>
      simp only [hp, Option.some.injEq] at h
      subst h
      have hlt : a.cell < cs.length := (List.getElem?_eq_some_iff.mp hc).1
      by_cases hcell : a.cell = b.cell
      · have hdv : Path.diverge a.path b.path = true := by
          simp [Loc.disjoint, hcell] at hd; exact hd
        simp only [readLoc, ← hcell, List.getElem?_set_self hlt, hc]
        exact Val.get_put_diverge _ _ _ _ _ hdv hp
      · simp [readLoc, List.getElem?_set_ne hcell]

theorem writeLoc_length (cs cs' : Cells) (l : Loc) (w : Val) (h : writeLoc cs l w = some cs') : cs'.length = cs.length := by
  unfold writeLoc at h
  cases hc : cs[l.cell]? with
  | none => simp [hc] at h
  | some v =>
    simp only [hc] at h
    cases hp : v.put l.path w with
    | none => simp [hp] at h
    | some v' => simp only [hp, Option.some.injEq] at h; subst h; simp

/-- allocation does not change what an existing location holds -/
theorem readLoc_append (cs extra : Cells) (l : Loc) (v : Val) (h : readLoc cs l = some v) :
    readLoc (cs ++ extra) l = some v := by
  unfold readLoc at h ⊢
  cases hc : cs[l.cell]? with
  | none => simp [hc] at h
  | some c =>
    have hlt : l.cell < cs.length := (List.getElem?_eq_some_iff.mp hc).1
    simp only [hc] at h
    simp [List.getElem?_append_left hlt, hc, h]

theorem readLoc_lt (cs : Cells) (l : Loc) (v : Val) (h : readLoc cs l = some v) : l.cell < cs.length := by
  unfold readLoc at h
  cases hc : cs[l.cell]? with
  | none => simp [hc] at h
  | some c => exact (List.getElem?_eq_some_iff.mp hc).1

end YaegiVerif.Share
