import YaegiVerif.Proofs.C02Core
namespace YaegiVerif.Proofs.C02
open YaegiVerif.Ops YaegiVerif.Spec.GoInt

variable {w : Nat}

/-! ### ring operators -/

theorem add_eq_wrap (s : Bool) (x y : BitVec w) : x + y = wrap w (value s x + value s y) := by
  simp only [wrap, BitVec.ofInt_add]; rw [← wrap, ← wrap, wrap_value, wrap_value]

theorem mul_eq_wrap (s : Bool) (x y : BitVec w) : x * y = wrap w (value s x * value s y) := by
  simp only [wrap, BitVec.ofInt_mul]; rw [← wrap, ← wrap, wrap_value, wrap_value]

theorem neg_eq_wrap (s : Bool) (x : BitVec w) : -x = wrap w (- value s x) := by
  simp only [wrap, BitVec.ofInt_neg]; rw [← wrap, wrap_value]

theorem sub_eq_wrap (s : Bool) (x y : BitVec w) : x - y = wrap w (value s x - value s y) := by
  rw [Int.sub_eq_add_neg, BitVec.sub_eq_add_neg]
  simp only [wrap, BitVec.ofInt_add, BitVec.ofInt_neg]; rw [← wrap, ← wrap, wrap_value, wrap_value]

theorem setWidth_neg64 (i : BitVec 64) (h : w ≤ 64) : (-i).setWidth w = -(i.setWidth w) := by
  rw [setWidth_eq_ofInt_toInt _ h, BitVec.toInt_neg, ofInt_bmod64 h, BitVec.ofInt_neg, ← setWidth_eq_ofInt_toInt _ h]

theorem setWidth_sub64 (i j : BitVec 64) (h : w ≤ 64) : (i - j).setWidth w = i.setWidth w - j.setWidth w := by
  rw [BitVec.sub_eq_add_neg, BitVec.setWidth_add _ _ h, setWidth_neg64 _ h, ← BitVec.sub_eq_add_neg]

theorem model_add (s : Bool) (x y : BitVec w) (h : w ≤ 64) :
    (widen s x + widen s y).setWidth w = wrap w (value s x + value s y) := by
  rw [BitVec.setWidth_add _ _ h, narrow_widen s x h, narrow_widen s y h, add_eq_wrap s]

theorem model_sub (s : Bool) (x y : BitVec w) (h : w ≤ 64) :
    (widen s x - widen s y).setWidth w = wrap w (value s x - value s y) := by
  rw [setWidth_sub64 _ _ h, narrow_widen s x h, narrow_widen s y h, sub_eq_wrap s]

theorem model_mul (s : Bool) (x y : BitVec w) (h : w ≤ 64) :
    (widen s x * widen s y).setWidth w = wrap w (value s x * value s y) := by
  rw [BitVec.setWidth_mul _ _ h, narrow_widen s x h, narrow_widen s y h, mul_eq_wrap s]

theorem model_neg (s : Bool) (x : BitVec w) (h : w ≤ 64) :
    (-(widen s x)).setWidth w = wrap w (- value s x) := by
  rw [setWidth_neg64 _ h, narrow_widen s x h, neg_eq_wrap s]

/-! ### bitwise operators -/

theorem model_and (s : Bool) (x y : BitVec w) (h : w ≤ 64) : (widen s x &&& widen s y).setWidth w = x &&& y := by
  rw [BitVec.setWidth_and, narrow_widen s x h, narrow_widen s y h]
theorem model_or (s : Bool) (x y : BitVec w) (h : w ≤ 64) : (widen s x ||| widen s y).setWidth w = x ||| y := by
  rw [BitVec.setWidth_or, narrow_widen s x h, narrow_widen s y h]
theorem model_xor (s : Bool) (x y : BitVec w) (h : w ≤ 64) : (widen s x ^^^ widen s y).setWidth w = x ^^^ y := by
  rw [BitVec.setWidth_xor, narrow_widen s x h, narrow_widen s y h]
theorem model_not (s : Bool) (x : BitVec w) (h : w ≤ 64) : (~~~(widen s x)).setWidth w = ~~~x := by
  rw [BitVec.setWidth_not h, narrow_widen s x h]
theorem model_andNot (s : Bool) (x y : BitVec w) (h : w ≤ 64) : (widen s x &&& ~~~(widen s y)).setWidth w = x &&& ~~~y := by
  rw [BitVec.setWidth_and, BitVec.setWidth_not h, narrow_widen s x h, narrow_widen s y h]

/-- `^x = -x - 1` (two's complement), i.e. `m ^ x` with m = −1 (signed) or 2^w − 1 (unsigned) -/
theorem not_eq_wrap (s : Bool) (x : BitVec w) : ~~~x = wrap w (- value s x - 1) := by
  have h1 : wrap w (- value s x - 1) = -x - 1#w := by
    rw [Int.sub_eq_add_neg]
    simp only [wrap, BitVec.ofInt_add, BitVec.ofInt_neg]
    rw [← wrap, wrap_value, ← BitVec.sub_eq_add_neg]
    congr 1
  rw [h1, BitVec.neg_eq_not_add, BitVec.add_sub_cancel]

end YaegiVerif.Proofs.C02
