import YaegiVerif.Model.Extract
/-
  C18 — fixConst on floating-point constants: a dyadic rational `num / 2^k` survives
  `big.Float.SetRat` (precision max(bitlen num, bitlen den, 64)) and `Text('g', prec)` unchanged.
-/
namespace YaegiVerif.Proofs.C18
open YaegiVerif.Extract

theorem roundHE_of_dvd (n d : Nat) (hd : 0 < d) (h : d ∣ n) : roundHE n d = n / d := by
  unfold roundHE
  have hr : n % d = 0 := Nat.mod_eq_zero_of_dvd h
  simp only [hr, Nat.mul_zero]
  have h1 : ¬ (0 > d) := by omega
  have h2 : ¬ (0 = d) := by omega
  simp [h1, h2]

theorem bitlen_two_pow (k : Nat) : bitlen (2 ^ k) = k + 1 := by
  unfold bitlen
  have : 2 ^ k ≠ 0 := by have := Nat.two_pow_pos k; omega
  simp [Nat.log2_two_pow]

theorem lt_two_pow_bitlen (a : Nat) : a < 2 ^ bitlen a := by
  unfold bitlen
  by_cases h : a = 0
  · simp [h]
  · simp only [h, if_false]; exact Nat.lt_log2_self

/-- lower bound of the digit count: a positive `n` has at least `10^(ndigits n - 1)` -/
theorem ndigitsAux_lower : ∀ (f n : Nat), 0 < n → n < 2 ^ f → 10 ^ (ndigitsAux f n - 1) ≤ n
  | 0, n, h0, h => by simp at h; omega
  | f + 1, n, h0, h => by
    unfold ndigitsAux
    have hn : n ≠ 0 := by omega
    simp only [hn, if_false, Nat.add_sub_cancel]
    by_cases h10 : n / 10 = 0
    · have : ndigitsAux f (n / 10) = 0 := by
        rw [h10]; cases f <;> simp [ndigitsAux]
      rw [this]; simp; omega
    · have hq : 0 < n / 10 := by omega
      have hlt : n / 10 < 2 ^ f := by
        have : n / 10 ≤ n / 2 := by omega
        have : n / 2 < 2 ^ f := by
          rw [Nat.pow_succ] at h; omega
        omega
      have ih := ndigitsAux_lower f (n / 10) hq hlt
      have hpos : 0 < ndigitsAux f (n / 10) := by
        cases f with
        | zero => simp at hlt; omega
        | succ f => unfold ndigitsAux; simp [h10]
      have : ndigitsAux f (n / 10) = (ndigitsAux f (n / 10) - 1) + 1 := by omega
      rw [this, Nat.pow_succ]
      have := Nat.div_mul_le_self n 10
      calc 10 ^ (ndigitsAux f (n / 10) - 1) * 10 ≤ (n / 10) * 10 := Nat.mul_le_mul_right 10 ih
        _ ≤ n := this

theorem ndigits_lower (n : Nat) (h : 0 < n) : 10 ^ (ndigits n - 1) ≤ n := by
  unfold ndigits
  exact ndigitsAux_lower _ n h Nat.lt_log2_self

/-- SetRat is exact on `a / 2^k` when the precision covers `a` and `k`:
    the result is `a * 2^(q-k) / 2^q` for some `q ≥ k` -/
theorem binRound_dyadic (P a k : Nat) (hP : bitlen a ≤ P) :
    ∃ q, k ≤ q ∧ binRound P a (2 ^ k) = (a * 2 ^ (q - k), q, 0) := by
  unfold binRound
  rw [bitlen_two_pow]
  have hdn : bitlen a - (k + 1 + P) = 0 := by omega
  have hup : k + 1 ≤ k + 1 + P - bitlen a := by omega
  simp only [hdn, Nat.pow_zero, Nat.mul_one]
  have h2k : 0 < 2 ^ k := Nat.two_pow_pos k
  have key : ∀ q, k ≤ q → roundHE (a * 2 ^ q) (2 ^ k) = a * 2 ^ (q - k) := by
    intro q hq
    have hdvd : 2 ^ k ∣ a * 2 ^ q := Nat.dvd_mul_left_of_dvd (Nat.pow_dvd_pow 2 hq) a
    rw [roundHE_of_dvd _ _ h2k hdvd]
    have : 2 ^ q = 2 ^ (q - k) * 2 ^ k := by rw [← Nat.pow_add]; congr 1; omega
    rw [this, ← Nat.mul_assoc, Nat.mul_div_cancel _ h2k]
  split
  · have hpos : 0 < k + 1 + P - bitlen a := by omega
    simp only [hpos, if_true]
    refine ⟨k + 1 + P - bitlen a - 1, by omega, ?_⟩
    rw [key _ (by omega)]
  · refine ⟨k + 1 + P - bitlen a, by omega, ?_⟩
    rw [key _ (by omega)]

/-- Text('g', P) is exact on `a * 2^(q-k) / 2^q` when `a * 5^k` has at most `P` digits -/
theorem decText_dyadic (P a k q : Nat) (ha : 0 < a) (hq : k ≤ q) (hT : a * 5 ^ k < 10 ^ P) :
    (decText P (a * 2 ^ (q - k)) q 0).1 * 2 ^ k = a * (decText P (a * 2 ^ (q - k)) q 0).2 := by
  unfold decText
  simp only [Nat.pow_zero, Nat.mul_one]
  -- N = a * 5^k * 10^(q-k)
  have hN : a * 2 ^ (q - k) * 5 ^ q = a * 5 ^ k * 10 ^ (q - k) := by
    have h5 : 5 ^ q = 5 ^ k * 5 ^ (q - k) := by rw [← Nat.pow_add]; congr 1; omega
    have h10 : (10 : Nat) ^ (q - k) = 2 ^ (q - k) * 5 ^ (q - k) := by rw [← Nat.mul_pow]
    rw [h5, h10]
    simp only [Nat.mul_assoc, Nat.mul_left_comm]
  have hval : a * 5 ^ k * 10 ^ (q - k) * 2 ^ k = a * 10 ^ q := by
    have h10 : (10 : Nat) ^ q = 10 ^ k * 10 ^ (q - k) := by rw [← Nat.pow_add]; congr 1; omega
    have h10k : (10 : Nat) ^ k = 2 ^ k * 5 ^ k := by rw [← Nat.mul_pow]
    rw [h10, h10k]
    simp only [Nat.mul_assoc, Nat.mul_comm, Nat.mul_left_comm]
  rw [hN]
  split
  · exact hval
  · rename_i hgt
    -- more than P digits: the dropped digits are zeros
    have hNpos : 0 < a * 5 ^ k * 10 ^ (q - k) := by
      have h5 : 0 < 5 ^ k := Nat.pow_pos (by decide)
      have h10 : 0 < 10 ^ (q - k) := Nat.pow_pos (by decide)
      exact Nat.mul_pos (Nat.mul_pos ha h5) h10
    have hlow := ndigits_lower _ hNpos
    have hle : ndigits (a * 5 ^ k * 10 ^ (q - k)) - P ≤ q - k := by
      apply Nat.le_of_not_lt
      intro hcon
      have hbig : P + (q - k) ≤ ndigits (a * 5 ^ k * 10 ^ (q - k)) - 1 := by omega
      have h1 : 10 ^ (P + (q - k)) ≤ a * 5 ^ k * 10 ^ (q - k) :=
        Nat.le_trans (Nat.pow_le_pow_right (by decide) hbig) hlow
      have h2 : a * 5 ^ k * 10 ^ (q - k) < 10 ^ P * 10 ^ (q - k) :=
        Nat.mul_lt_mul_of_pos_right hT (Nat.pow_pos (by decide))
      rw [← Nat.pow_add] at h2
      omega
    have hdvd : 10 ^ (ndigits (a * 5 ^ k * 10 ^ (q - k)) - P) ∣ a * 5 ^ k * 10 ^ (q - k) :=
      Nat.dvd_mul_left_of_dvd (Nat.pow_dvd_pow 10 hle) _
    have hrpos : 0 < 10 ^ (ndigits (a * 5 ^ k * 10 ^ (q - k)) - P) := Nat.pow_pos (by decide)
    rw [roundHE_of_dvd _ _ hrpos hdvd, Nat.div_mul_cancel hdvd]
    exact hval

/-- `a * 5^k` has at most `P` digits when `P` covers the bit length of `a` and `k + 1` -/
theorem digits_bound (P a k : Nat) (h1 : bitlen a ≤ P) (h2 : k + 1 ≤ P) : a * 5 ^ k < 10 ^ P := by
  have ha : a < 2 ^ P := Nat.lt_of_lt_of_le (lt_two_pow_bitlen a) (Nat.pow_le_pow_right (by decide) h1)
  have h5 : 5 ^ k ≤ 5 ^ P := Nat.pow_le_pow_right (by decide) (by omega)
  have h10 : (10 : Nat) ^ P = 2 ^ P * 5 ^ P := by rw [← Nat.mul_pow]
  rw [h10]
  have h5pos : 0 < 5 ^ k := Nat.pow_pos (by decide)
  calc a * 5 ^ k < 2 ^ P * 5 ^ k := Nat.mul_lt_mul_of_pos_right ha h5pos
    _ ≤ 2 ^ P * 5 ^ P := Nat.mul_le_mul_left _ h5

/-- **fixConst is exact on dyadic constants**: for every `num` and `k`, the literal printed for
    `num / 2^k` denotes `num / 2^k` -/
theorem floatText_dyadic (num : Int) (k : Nat) :
    (floatText num (2 ^ k) 0).1 * ((2 ^ k : Nat) : Int) = num * ((floatText num (2 ^ k) 0).2 : Int) := by
  unfold floatText
  by_cases h0 : num = 0
  · simp [h0]
  · simp only [h0, if_false, if_true]
    have ha : 0 < num.natAbs := Int.natAbs_pos.2 h0
    have hP1 : bitlen num.natAbs ≤ max (max (bitlen num.natAbs) (bitlen (2 ^ k))) 64 := by omega
    have hP2 : k + 1 ≤ max (max (bitlen num.natAbs) (bitlen (2 ^ k))) 64 := by
      rw [bitlen_two_pow]; omega
    obtain ⟨q, hq, hb⟩ := binRound_dyadic _ num.natAbs k hP1
    rw [hb]
    have hd := decText_dyadic _ num.natAbs k q ha hq (digits_bound _ _ _ hP1 hP2)
    simp only at hd ⊢
    generalize decText _ _ _ _ = r at hd ⊢
    have hd' : ((r.1 * 2 ^ k : Nat) : Int) = ((num.natAbs * r.2 : Nat) : Int) := by rw [hd]
    simp only [Int.natCast_mul] at hd'
    by_cases hneg : num < 0
    · simp only [hneg, if_true]
      have : (num.natAbs : Int) = -num := by omega
      rw [this] at hd'
      rw [Int.neg_mul, hd', Int.neg_mul, Int.neg_neg]
    · simp only [hneg, if_false]
      have : (num.natAbs : Int) = num := by omega
      rw [this] at hd'
      exact hd'

end YaegiVerif.Proofs.C18
