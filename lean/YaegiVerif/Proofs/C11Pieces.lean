import YaegiVerif.Proofs.C11Chunk
/-
  C11, helper lemmas 5: a session is a list of texts; cutting a program and handing every chunk to
  the incremental parser as its maximal runs gives such a list, whose concatenation is the program.
-/
namespace YaegiVerif.Proofs.C11
open YaegiVerif.Piecewise

/-! ### the incremental parser on a text of one kind -/

theorem token_decl (fx : Facts) (hg : Good fx) (it : Item) (h : it.isStmt = false) : fx.declTokens.contains it.token = true := by
  have hc := hg.tokConst
  have hv := hg.tokVar
  have hf := hg.tokFunc
  have ht := hg.tokType
  cases it <;> simp_all [Item.isStmt, Item.token]

/-- a statement starts with a token that is no declaration — or with `func`, when it is the call of
    a function literal -/
theorem token_stmt (fx : Facts) (hg : Good fx) (it : Item) (h : it.isStmt = true) :
    fx.declTokens.contains it.token = false ∨ it.token = "func" := by
  have ho := hg.tokOther
  cases it with
  | stmt s => cases s <;> simp_all [Item.token]
  | define x e => left; simpa [Item.token] using ho
  | _ => simp [Item.isStmt] at h

theorem evalText_decl (fx : Facts) (hg : Good fx) (fuel : Nat) (s : State) (it : Item) (tl : List Item)
    (h : (it :: tl).all (fun i => !i.isStmt) = true) : evalText fx fuel s (it :: tl) = evalChunk fx fuel .file s (it :: tl) := by
  have h0 : it.isStmt = false := by simpa using (List.all_eq_true.mp h) it (List.mem_cons_self ..)
  unfold evalText
  simp only [token_decl fx hg it h0, if_true, h]

/-- a text of statements is compiled as the body of main — directly, or, when it starts with a
    function literal, at the second attempt of the incremental parser -/
theorem evalText_stmt (fx : Facts) (hg : Good fx) (fuel : Nat) (s : State) (it : Item) (tl : List Item)
    (h : (it :: tl).all (·.isStmt) = true) : evalText fx fuel s (it :: tl) = evalChunk fx fuel .block s (it :: tl) := by
  have h0 : it.isStmt = true := (List.all_eq_true.mp h) it (List.mem_cons_self ..)
  have hnf : (it :: tl).all (fun i => !i.isFuncDecl) = true := by
    rw [List.all_eq_true] at h ⊢
    intro i hi
    have := h i hi
    cases i <;> simp_all [Item.isStmt, Item.isFuncDecl]
  have hnd : (it :: tl).all (fun i => !i.isStmt) = false := by
    simp [List.all_cons, h0]
  unfold evalText
  cases hc : fx.declTokens.contains it.token with
  | false => simp only [hc, Bool.false_eq_true, if_false, hg.wrap, if_true, hnf]
  | true =>
    have htok : it.token = "func" := by
      rcases token_stmt fx hg it h0 with h1 | h1
      · rw [hc] at h1; cases h1
      · exact h1
    simp only [if_true, hnd, Bool.false_eq_true, if_false, htok, hg.retry, hg.firstErr, hnf, decide_true, Bool.and_self,
      hg.tokFunc]

theorem homogeneous_cases (it : Item) (tl : List Item) (h : homogeneous (it :: tl) = true) :
    (it :: tl).all (fun i => !i.isStmt) = true ∨ (it :: tl).all (·.isStmt) = true := by
  unfold homogeneous at h
  rw [List.all_eq_true] at h
  cases h0 : it.isStmt with
  | false =>
    left
    rw [List.all_eq_true]
    intro i hi
    have := h i hi
    simp_all
  | true =>
    right
    rw [List.all_eq_true]
    intro i hi
    have := h i hi
    simp_all

/-! ### the empty chunk -/

theorem evalChunk_nil (fx : Facts) (hg : Good fx) (fuel : Nat) (s : State) (hwf : WF s) :
    evalChunk fx fuel .file s [] = s := by
  have hres : resizeCells fx s.r.cells s.c.tab.nvars = s.r.cells := by
    unfold resizeCells
    rw [if_pos (by rw [hwf.cells]; exact Nat.le_refl _)]
  unfold evalChunk
  simp [hasDup, regItems, localsOk, stmtsOk, compileItems, varDepsOk, varDeps, progOf, phase, mainCall_nil fx hg s hwf _ rfl, execAll,
    RState.resize, hres]

/-! ### a session of texts -/

/-- **a session equals the whole program**: texts of one kind each, in the domain -/
theorem texts_eq_whole (fx : Facts) (hg : Good fx) (fuel : Nat) : ∀ (L : List (List Item)) (s : State),
    WF s → Dom fx s L.flatten = true → (∀ t ∈ L, homogeneous t = true) →
    L.foldl (evalText fx fuel) s = evalWhole fx fuel s L.flatten := by
  intro L
  induction L with
  | nil =>
    intro s hwf hdom _
    simp only [List.foldl_nil, List.flatten_nil, evalWhole]
    exact (evalChunk_nil fx hg fuel s hwf).symm
  | cons t L ih =>
    intro s hwf hdom hL
    have hL' : ∀ u ∈ L, homogeneous u = true := fun u hu => hL u (List.mem_cons_of_mem _ hu)
    rw [List.foldl_cons, List.flatten_cons]
    cases t with
    | nil =>
      simp only [evalText, List.nil_append]
      exact ih s hwf (by simpa using hdom) hL'
    | cons it tl =>
      have hh := (hL (it :: tl) (List.mem_cons_self ..))
      rw [List.flatten_cons] at hdom
      rcases homogeneous_cases it tl hh with hd | hs
      · rw [evalText_decl fx hg fuel s it tl hd]
        obtain ⟨e, hwf1, hdom1⟩ := evalChunk_append fx hg fuel .file s (it :: tl) L.flatten hwf hdom (Or.inl ⟨rfl, hd⟩)
        rw [ih _ hwf1 hdom1 hL']
        exact e
      · rw [evalText_stmt fx hg fuel s it tl hs]
        obtain ⟨e, hwf1, hdom1⟩ := evalChunk_append fx hg fuel .block s (it :: tl) L.flatten hwf hdom (Or.inr ⟨rfl, hs⟩)
        rw [ih _ hwf1 hdom1 hL']
        exact e

/-! ### cutting -/

theorem split_flatten : ∀ (cuts : List Nat) (items : List Item), (split cuts items).flatten = items := by
  intro cuts
  induction cuts with
  | nil => intro items; simp [split]
  | cons n cuts ih => intro items; simp [split, ih]

theorem runs_flatten : ∀ (c : List Item), (runs c).flatten = c := by
  intro c
  induction c with
  | nil => rfl
  | cons it rest ih =>
    simp only [runs]
    cases hr : runs rest with
    | nil =>
      rw [hr] at ih
      simp only [List.flatten_nil] at ih
      simp [← ih]
    | cons u more =>
      rw [hr] at ih
      cases u with
      | nil =>
        simp only [List.flatten_cons, List.nil_append] at ih
        simp [ih]
      | cons jt r =>
        simp only
        split <;> simp [← ih]

theorem homogeneous_cons_same (it jt : Item) (r : List Item) (h : homogeneous (jt :: r) = true) (he : it.isStmt = jt.isStmt) :
    homogeneous (it :: jt :: r) = true := by
  unfold homogeneous at *
  rw [List.all_eq_true] at h ⊢
  intro k hk
  rcases List.mem_cons.mp hk with rfl | hk
  · simp
  · have := h k hk
    simp_all

theorem runs_homogeneous : ∀ (c : List Item), ∀ t ∈ runs c, homogeneous t = true := by
  intro c
  induction c with
  | nil => intro t ht; simp [runs] at ht
  | cons it rest ih =>
    intro t ht
    simp only [runs] at ht
    cases hr : runs rest with
    | nil =>
      rw [hr] at ht
      simp only [List.mem_singleton] at ht
      subst ht
      simp [homogeneous]
    | cons u more =>
      rw [hr] at ht ih
      cases u with
      | nil =>
        simp only [List.mem_cons] at ht
        rcases ht with rfl | ht
        · simp [homogeneous]
        · exact ih t (List.mem_cons_of_mem _ ht)
      | cons jt r =>
        simp only at ht
        split at ht
        · rename_i he
          rcases List.mem_cons.mp ht with rfl | ht
          · exact homogeneous_cons_same it jt r (ih _ (List.mem_cons_self ..)) he
          · exact ih t (List.mem_cons_of_mem _ ht)
        · rcases List.mem_cons.mp ht with rfl | ht
          · simp [homogeneous]
          · exact ih t ht

theorem evalPieces_eq (fx : Facts) (fuel : Nat) : ∀ (chunks : List (List Item)) (s : State),
    evalPieces fx fuel s chunks = (chunks.flatMap runs).foldl (evalText fx fuel) s := by
  intro chunks
  induction chunks with
  | nil => intro s; rfl
  | cons c chunks ih =>
    intro s
    simp only [evalPieces, List.foldl_cons, List.flatMap_cons, List.foldl_append] at *
    exact ih _

theorem flatMap_runs_flatten : ∀ (chunks : List (List Item)), (chunks.flatMap runs).flatten = chunks.flatten := by
  intro chunks
  induction chunks with
  | nil => rfl
  | cons c chunks ih => simp [List.flatMap_cons, runs_flatten, ih]

/-- **for every way of cutting**: a program in the domain, cut anywhere, each chunk handed to the
    interpreter as its maximal runs -/
theorem cuts_eq_whole (fx : Facts) (hg : Good fx) (fuel : Nat) (s : State) (items : List Item) (hwf : WF s)
    (hdom : Dom fx s items = true) (cuts : List Nat) :
    evalPieces fx fuel s (split cuts items) = evalWhole fx fuel s items := by
  rw [evalPieces_eq]
  have hfl : ((split cuts items).flatMap runs).flatten = items := by rw [flatMap_runs_flatten, split_flatten]
  have := texts_eq_whole fx hg fuel ((split cuts items).flatMap runs) s hwf (by rw [hfl]; exact hdom) ?_
  · rw [this, hfl]
  · intro t ht
    obtain ⟨c, _, htc⟩ := List.mem_flatMap.mp ht
    exact runs_homogeneous c t htc

end YaegiVerif.Proofs.C11
