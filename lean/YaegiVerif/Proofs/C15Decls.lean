import YaegiVerif.Model.VarInit
import YaegiVerif.Spec.GoInitOrder
import YaegiVerif.Expected.C15
/-
  C15 — which declarations are init functions: the registration walk of `cfg` / `importSrc` with the
  facts read from the source is the specification's filter. Lemmas for Props/C15.lean.
-/
namespace YaegiVerif.Proofs.C15
open YaegiVerif YaegiVerif.VarInit YaegiVerif.Spec.InitOrder

/-- the condition read from `cfg` is the specification's "function declaration named init" -/
theorem registers_expected (f : FuncDecl) :
    registers Expected.C15.initFacts.register f = isInitFunc f := by
  simp [registers, Expected.C15.initFacts, RegCond.holds, isInitFunc]

theorem declFuncs_cons_func (f : FuncDecl) (ds : List Decl) : declFuncs (.func f :: ds) = f :: declFuncs ds := by
  simp [declFuncs]

theorem declFuncs_cons_var (v : VarSpec) (ds : List Decl) : declFuncs (.var v :: ds) = declFuncs ds := by
  simp [declFuncs]

theorem declFuncs_cons_type (n : String) (fs : List String) (ds : List Decl) :
    declFuncs (.type n fs :: ds) = declFuncs ds := by
  simp [declFuncs]

theorem declFuncs_append (a b : List Decl) : declFuncs (a ++ b) = declFuncs a ++ declFuncs b := by
  simp [declFuncs, List.filterMap_append]

/-- one file: the walk adds exactly the init functions, in source order, behind what was there -/
theorem cfgInits_expected (ds : List Decl) (acc : List FuncDecl) :
    cfgInits Expected.C15.initFacts ds acc = acc ++ (declFuncs ds).filter isInitFunc := by
  induction ds generalizing acc with
  | nil => simp [cfgInits, declFuncs]
  | cons d ds ih =>
    cases d with
    | var v => simp only [cfgInits, ih, declFuncs_cons_var]
    | type n fs => simp only [cfgInits, ih, declFuncs_cons_type]
    | func f =>
      simp only [cfgInits, ih, declFuncs_cons_func, registers_expected]
      cases h : isInitFunc f <;>
        simp [h, AddMode.add, Expected.C15.initFacts]

theorem foldl_join_expected (files : List (List Decl)) (acc : List FuncDecl) :
    files.foldl (fun acc file => Expected.C15.initFacts.join.add acc (cfgInits Expected.C15.initFacts file [])) acc
      = acc ++ (declFuncs files.flatten).filter isInitFunc := by
  induction files generalizing acc with
  | nil => simp [declFuncs]
  | cons file files ih =>
    rw [List.foldl_cons, ih, cfgInits_expected]
    simp [AddMode.add, Expected.C15.initFacts, declFuncs_append, List.filter_append]

/-- a package: the lists of the files joined in file order are the specification's init functions -/
theorem pkgInits_expected (files : List (List Decl)) :
    pkgInits Expected.C15.initFacts files = initFuncsGo files := by
  unfold pkgInits initFuncsGo
  simpa using foldl_join_expected files []

/-- the case of the `switch` of `gta` that applies, for the cases read from the source -/
theorem gtaCase_expected (f : FuncDecl) :
    (gtaCase Expected.C15.initFacts.gta f = some .default) = (f.recv = .none ∧ f.name ≠ "init") := by
  cases hr : f.recv <;> cases hn : f.name == "init" <;>
    simp [gtaCase, Expected.C15.initFacts, List.find?, GtaCase.hits, hr, hn] <;> simp_all

theorem declaredFuncs_expected (ds : List Decl) :
    declaredFuncs Expected.C15.initFacts ds = declaredFuncsGo ds := by
  unfold declaredFuncsGo
  induction ds with
  | nil => simp [declaredFuncs, declFuncs]
  | cons d ds ih =>
    cases d with
    | var v => simpa [declaredFuncs, declFuncs] using ih
    | type n fs => simpa [declaredFuncs, declFuncs] using ih
    | func f =>
      have ih' : declaredFuncs Expected.C15.initFacts ds
          = ((declFuncs ds).filter (fun f => f.recv == .none && f.name != "init")).map (·.name) := ih
      have hc := gtaCase_expected f
      by_cases h : f.recv = .none ∧ f.name ≠ "init"
      · have h1 : gtaCase Expected.C15.initFacts.gta f = some .default := by rw [hc]; exact h
        have : declaredFuncs Expected.C15.initFacts (.func f :: ds) = f.name :: declaredFuncs Expected.C15.initFacts ds := by
          simp [declaredFuncs, h1]
        rw [this, ih', declFuncs_cons_func]
        simp [h.1, h.2]
      · have h1 : ¬ gtaCase Expected.C15.initFacts.gta f = some .default := by rw [hc]; exact h
        have : declaredFuncs Expected.C15.initFacts (.func f :: ds) = declaredFuncs Expected.C15.initFacts ds := by
          simp [declaredFuncs, h1]
        rw [this, ih', declFuncs_cons_func]
        have : (f.recv == Recv.none && f.name != "init") = false := by
          cases hr : f.recv <;> by_cases hn : f.name = "init" <;> simp_all
        simp [this]

theorem mem_declFuncs (ds : List Decl) (f : FuncDecl) : f ∈ declFuncs ds ↔ Decl.func f ∈ ds := by
  unfold declFuncs
  rw [List.mem_filterMap]
  constructor
  · rintro ⟨d, hd, h⟩
    cases d <;> simp_all
  · intro h
    exact ⟨.func f, h, rfl⟩

end YaegiVerif.Proofs.C15
