import YaegiVerif.Model.Debug
import YaegiVerif.Proofs.C19Sim
/-
  C19 — when closures follow the edges of the graph (forwarding closures of back edges included),
  the node the debugger tracks is the node that executes — whatever generators made the closures:
  the comparison is by closure object, and the objects of two successors differ; the debugger then
  behaves as the reference debugger, and the reference debugger reports exactly the marked nodes
  that execute, in order.
-/
namespace YaegiVerif.Proofs.C19
open YaegiVerif.Debug

/-- the identities of the closure objects of two different successors of a node are disjoint -/
theorem idsep_spec (g : Graph) (h : idSeparates g = true) (i t f : Nat)
    (ht : g.tnext i = some t) (hf : g.fnext i = some f) (hne : t ≠ f) (a : Nat)
    (hat : a ∈ idsOf g t) (haf : a ∈ idsOf g f) : False := by
  unfold Graph.tnext at ht
  unfold Graph.fnext at hf
  cases hg : g[i]? with
  | none => simp [hg] at ht
  | some nd =>
    simp only [hg] at ht hf
    unfold idSeparates at h
    rw [List.all_eq_true] at h
    have hmem : nd ∈ g.toList := by
      rw [Array.mem_toList_iff]
      exact Array.mem_of_getElem? hg
    have := h nd hmem
    simp only [ht, hf] at this
    simp only [Bool.or_eq_true, beq_iff_eq, List.all_eq_true, Bool.not_eq_eq_eq_not, Bool.not_true] at this
    cases this with
    | inl e => exact absurd e hne
    | inr e =>
      have := e a hat
      simp [haf] at this

/-- the identity of a closure that executes node `k` is one of the identities recorded on `k` -/
theorem succ_id_mem (g : Graph) (k : Nat) (c' : Clo) (hcode : g.code k ≠ 0)
    (h : c' = nodeClo g k ∨ (g.fwd k ≠ 0 ∧ c'.id = g.fwd k)) : c'.id ∈ idsOf g k := by
  unfold idsOf
  cases h with
  | inl e => rw [e]; simp [nodeClo, hcode]
  | inr e => simp [e.1, e.2, hcode]

/-- `isExecNode(k, c')` holds when `c'` executes `k` … -/
theorem isExec_of_succ (F : LoopFacts) (g : Graph) (k : Nat) (c' : Clo)
    (hI : F.byIdentity = true) (hW : F.forward = true) (hcode : g.code k ≠ 0)
    (h : c' = nodeClo g k ∨ (g.fwd k ≠ 0 ∧ c'.id = g.fwd k)) : isExec F g (some k) c' = true := by
  unfold isExec
  cases h with
  | inl e => rw [e]; simp [hI, hcode, nodeClo]
  | inr e => simp [hI, hW, hcode, e.1, e.2]

/-- … and only when the identity of `c'` is recorded on `k` -/
theorem isExec_id_mem (F : LoopFacts) (g : Graph) (t : Nat) (c' : Clo)
    (hI : F.byIdentity = true) (h : isExec F g (some t) c' = true) : c'.id ∈ idsOf g t := by
  unfold isExec at h
  unfold idsOf
  simp only [hI, ↓reduceIte, Bool.and_eq_true, bne_iff_ne, ne_eq, Bool.or_eq_true, beq_iff_eq] at h
  have hc : g.code t ≠ 0 := h.1
  cases h.2 with
  | inl e => simp [e, hc]
  | inr e =>
    have h0 : g.fwd t ≠ 0 := e.1.2
    simp [h0, e.2.symm, hc]

/-- the re-derivation finds the right node: same-generator successors and back edges included -/
theorem rederive_exact (F : LoopFacts) (g : Graph) (start i : Nat) (c' : Clo)
    (hF : F.probes = [.tnext, .fnext]) (hI : F.byIdentity = true) (hW : F.forward = true)
    (hsep : idSeparates g = true) (hs : IsSucc g i c') :
    rederive F g start (some i) c' = some c'.owner := by
  obtain ⟨k, hcode, hedge, hown, hclo⟩ := hs
  rw [hown]
  have hk : isExec F g (some k) c' = true := isExec_of_succ F g k c' hI hW hcode hclo
  have hidk : c'.id ∈ idsOf g k := succ_id_mem g k c' hcode hclo
  unfold rederive
  simp only [hF, List.find?]
  by_cases h1 : isExec F g (probe g i .tnext) c' = true
  · simp only [h1]
    simp only [probe] at h1 ⊢
    cases ht : g.tnext i with
    | none => simp [ht, isExec] at h1
    | some t =>
      rw [ht] at h1
      by_cases htk : t = k
      · rw [htk]
      · cases hedge with
        | inl e => rw [ht] at e; exact absurd (Option.some.inj e) htk
        | inr e => exact (idsep_spec g hsep i t k ht e htk c'.id (isExec_id_mem F g t c' hI h1) hidk).elim
  · simp only [h1]
    have hnt : g.tnext i ≠ some k := by
      intro e
      apply h1
      simp only [probe, e]
      exact hk
    have hf : g.fnext i = some k := by
      cases hedge with
      | inl e => exact absurd e hnt
      | inr e => exact e
    simp [probe, hf, hk]

/-- every live activation tracks the node that owns its closure -/
def TrackOk (_g : Graph) (d : DCfg σ) : Prop :=
  ∀ fr ∈ d.stack, fr.m = some fr.cur.owner

theorem entry_owner (g : Graph) (s : Nat) (e : Clo) (h : some e = entryClo g s) : e.owner = s := by
  unfold entryClo at h
  split at h
  · simp at h
  · simp only [Option.some.injEq] at h; rw [h]; rfl

theorem dapply_track (S : Setup) (P : Prog σ) (d : DCfg σ) (st : σ) (c : Clo) (r : Bool)
    (hF : S.F.probes = [.tnext, .fnext]) (hI : S.F.byIdentity = true) (hW : S.F.forward = true)
    (hx : S.F.execFirst = false) (hsep : idSeparates S.g = true) (hR : Respects S.g P)
    (hc : ∀ fr rest, d.stack = fr :: rest → fr.cur = c)
    (h : TrackOk S.g d) : TrackOk S.g (dapply S d (P.step st c r).2) := by
  have hr := hR st c r
  unfold dapply
  cases hs : d.stack with
  | nil =>
    cases ha : (P.step st c r).2 with
    | next c' => simp only; intro fr hfr; simp at hfr
    | call s e =>
      rw [ha] at hr
      cases e with
      | none => simp only; intro fr hfr; simp at hfr
      | some e =>
        simp only
        intro fr hfr
        simp only [List.mem_singleton] at hfr
        rw [hfr]; simp only
        rw [entry_owner S.g s e hr]
    | panic => simp only; intro fr hfr; simp at hfr
  | cons fr rest =>
    have hcur := hc fr rest hs
    have hrest : ∀ x ∈ rest, x.m = some x.cur.owner := fun x hx' => h x (by rw [hs]; exact List.mem_cons_of_mem _ hx')
    have hfr : fr.m = some fr.cur.owner := h fr (by rw [hs]; exact List.mem_cons_self)
    cases ha : (P.step st c r).2 with
    | next c' =>
      rw [ha] at hr
      cases c' with
      | none => simp only [leave]; exact hrest
      | some c' =>
        simp only [hx, Bool.false_eq_true, ↓reduceIte]
        intro x hx'
        simp only [List.mem_cons] at hx'
        cases hx' with
        | inl e =>
          rw [e]; simp only
          rw [hfr, hcur]
          exact rederive_exact S.F S.g fr.start c.owner c' hF hI hW hsep hr
        | inr e => exact hrest x e
    | call s e =>
      rw [ha] at hr
      cases e with
      | none =>
        simp only; intro x hx'
        simp only [List.mem_cons] at hx'
        cases hx' with
        | inl e2 => rw [e2]; exact hfr
        | inr e2 => exact hrest x e2
      | some e =>
        simp only
        intro x hx'
        simp only [List.mem_cons] at hx'
        cases hx' with
        | inl e1 => rw [e1]; simp only; rw [entry_owner S.g s e hr]
        | inr e1 =>
          cases e1 with
          | inl e2 => rw [e2]; exact hfr
          | inr e2 => exact hrest x e2
    | panic =>
      simp only; intro x hx'
      simp only [List.mem_cons] at hx'
      cases hx' with
      | inl e2 => rw [e2]; exact hfr
      | inr e2 => exact hrest x e2

theorem trackOk_of (g : Graph) (d d' : DCfg σ) (h : TrackOk g d) (hs : d'.stack = d.stack) : TrackOk g d' := by
  unfold TrackOk at *; rw [hs]; exact h

theorem dstep_track (S : Setup) (P : Prog σ) (d : DCfg σ)
    (hF : S.F.probes = [.tnext, .fnext]) (hI : S.F.byIdentity = true) (hW : S.F.forward = true)
    (hx : S.F.execFirst = false) (hsep : idSeparates S.g = true) (hR : Respects S.g P)
    (h : TrackOk S.g d) : TrackOk S.g (dstep S P d) := by
  unfold dstep
  cases hc : d.ctl with
  | halt b => exact h
  | resume =>
    simp only
    cases hs : d.stack with
    | nil =>
      apply dapply_track S P _ d.st baseClo true hF hI hW hx hsep hR
      · intro fr rest e; simp at e
      · exact trackOk_of S.g d _ h hs.symm
    | cons fr rest =>
      apply dapply_track S P _ d.st fr.cur true hF hI hW hx hsep hR
      · intro fr' rest' e
        simp only [List.cons.injEq] at e
        rw [← e.1]
      · exact trackOk_of S.g d _ h hs.symm
  | start =>
    cases hs : d.stack with
    | nil => exact trackOk_of S.g d _ h hs.symm
    | cons fr rest =>
      have hf := consult_frame S d fr
      simp only [hx, Bool.false_eq_true, ↓reduceIte]
      by_cases hq : (consult S d fr).1 = true
      · simp only [hq, ↓reduceIte, leave]
        intro x hx'
        exact h x (by rw [hs]; exact List.mem_cons_of_mem _ hx')
      · simp only [hq, Bool.false_eq_true, ↓reduceIte]
        apply dapply_track S P _ d.st fr.cur false hF hI hW hx hsep hR
        · intro fr' rest' e
          simp only [hf.2.1, hs, List.cons.injEq] at e
          rw [← e.1]
        · exact trackOk_of S.g d _ h (by simp only [hf.2.1])

theorem drun_track (S : Setup) (P : Prog σ) (n : Nat) (d : DCfg σ)
    (hF : S.F.probes = [.tnext, .fnext]) (hI : S.F.byIdentity = true) (hW : S.F.forward = true)
    (hx : S.F.execFirst = false) (hsep : idSeparates S.g = true) (hR : Respects S.g P)
    (h : TrackOk S.g d) : TrackOk S.g (drun S P n d) := by
  induction n generalizing d with
  | zero => exact h
  | succ n ih => exact ih _ (dstep_track S P d hF hI hW hx hsep hR h)

/-! ### the debugger coincides with the reference debugger -/

theorem consult_ideal (S : Setup) (d : DCfg σ) (fr : DFrame) (hi : S.ideal = false)
    (h : fr.m = some fr.cur.owner) : consult S.toIdeal d fr = consult S d fr := by
  unfold consult Setup.m Setup.toIdeal Setup.hit
  simp [hi, h]

theorem bump_ideal (S : Setup) (fr : DFrame) (hi : S.ideal = false) (h : fr.m = some fr.cur.owner) :
    S.toIdeal.bump fr = S.bump fr := by
  unfold Setup.bump Setup.bumpPrev Setup.m Setup.toIdeal
  simp [hi, h]

theorem dapply_ideal (S : Setup) (d : DCfg σ) (a : Act) (hi : S.ideal = false) (hx : S.F.execFirst = false)
    (h : TrackOk S.g d) : dapply S.toIdeal d a = dapply S d a := by
  unfold dapply
  cases hs : d.stack with
  | nil => rfl
  | cons fr rest =>
    have hfr : fr.m = some fr.cur.owner := h fr (by rw [hs]; exact List.mem_cons_self)
    have hxi : S.toIdeal.F.execFirst = false := hx
    simp only [bump_ideal S fr hi hfr, hx, hxi]
    rfl

theorem dstep_ideal (S : Setup) (P : Prog σ) (d : DCfg σ) (hi : S.ideal = false)
    (hx : S.F.execFirst = false) (h : TrackOk S.g d) : dstep S.toIdeal P d = dstep S P d := by
  unfold dstep
  cases hc : d.ctl with
  | halt b => rfl
  | resume => simp only; exact dapply_ideal S _ _ hi hx (trackOk_of S.g d _ h rfl)
  | start =>
    cases hs : d.stack with
    | nil => rfl
    | cons fr rest =>
      have hfr : fr.m = some fr.cur.owner := h fr (by rw [hs]; exact List.mem_cons_self)
      have hxi : S.toIdeal.F.execFirst = false := hx
      simp only [hx, hxi, Bool.false_eq_true, ↓reduceIte]
      rw [consult_ideal S d fr hi hfr]
      split
      · rfl
      · exact dapply_ideal S _ _ hi hx (trackOk_of S.g d _ h (by simp only [(consult_frame S d fr).2.1]))

theorem drun_ideal (S : Setup) (P : Prog σ) (n : Nat) (d : DCfg σ) (hi : S.ideal = false)
    (hF : S.F.probes = [.tnext, .fnext]) (hI : S.F.byIdentity = true) (hW : S.F.forward = true)
    (hx : S.F.execFirst = false) (hsep : idSeparates S.g = true) (hR : Respects S.g P)
    (h : TrackOk S.g d) : drun S.toIdeal P n d = drun S P n d := by
  induction n generalizing d with
  | zero => rfl
  | succ n ih =>
    simp only [drun]
    rw [dstep_ideal S P d hi hx h]
    exact ih _ (dstep_track S P d hF hI hW hx hsep hR h)

/-! ### what the reference debugger reports -/

/-- nodes of the break events, most recent first -/
def brkNodes (es : List Event) : List (Option Nat) :=
  es.filterMap fun e => if e.reason = .brk then some e.node else none

theorem stopReason_brk (F : LoopFacts) (mk : Nat → Bool) (d : Dbg) (i : Nat) (r : Reason)
    (_hm : d.mode ≠ .terminate) (h : stopReason F mk d (some i) = some r) : (r = .brk ↔ mk i = true) := by
  unfold stopReason shouldBreak at h
  by_cases hb : mk i = true
  · simp [hb] at h; simp [hb, ← h]
  · simp only [hb, Bool.false_eq_true, ↓reduceIte] at h
    constructor
    · intro e
      rw [e] at h
      cases hmode : d.mode <;> simp [hmode, Mode.reason] at h
    · intro e; exact absurd e hb

/-- the break events of one consultation of the reference debugger: the node about to run, iff it
    has a position and the break condition holds for the frame's previous step -/
theorem consult_brk (S : Setup) (d : DCfg σ) (fr : DFrame) (hi : S.ideal = true) (h : NoTerm d) :
    brkNodes (consult S d fr).2.events =
      (if S.g.posValid fr.cur.owner && S.hit fr.prev fr.cur.owner then [some fr.cur.owner] else []) ++ brkNodes d.events := by
  unfold consult dbgExec Setup.m
  simp only [hi, ↓reduceIte, visible]
  by_cases hv : S.g.posValid fr.cur.owner = true
  · simp only [hv, Bool.not_true, Bool.false_eq_true, ↓reduceIte, h.1, Bool.true_and]
    cases hr : stopReason S.F (S.hit fr.prev) d.dbg (some fr.cur.owner) with
    | none =>
      have : S.hit fr.prev fr.cur.owner = false := by
        unfold stopReason shouldBreak at hr
        by_cases hb : S.hit fr.prev fr.cur.owner = true
        · simp [hb] at hr
        · simpa using hb
      simp [this]
    | some r =>
      have hiff := stopReason_brk S.F (S.hit fr.prev) d.dbg fr.cur.owner r h.1 hr
      by_cases hb : S.hit fr.prev fr.cur.owner = true
      · have hrb := hiff.2 hb
        cases hcm : d.cmds <;> simp [brkNodes, hrb, hb]
      · have hrb : r ≠ .brk := fun e => hb (hiff.1 e)
        cases hcm : d.cmds <;> simp [brkNodes, hrb, hb]
  · simp [hv]

/-- the frame holds its previous step: bumping it again changes nothing -/
def BumpedPrev (S : Setup) (fr : DFrame) : Prop := (S.bump fr).prev = fr.prev

theorem bump_bumped (S : Setup) (fr : DFrame) : BumpedPrev S (S.bump fr) := by
  unfold BumpedPrev Setup.bump Setup.bumpPrev Setup.m
  by_cases hi : S.ideal = true
  · simp only [hi, ↓reduceIte]
    by_cases hs : (S.F.tracksPrev && isStep S.F S.g fr.cur.owner) = true <;> simp [hs]
  · simp only [hi, Bool.false_eq_true, ↓reduceIte]
    cases hm : fr.m with
    | none => rfl
    | some i => by_cases hs : (S.F.tracksPrev && isStep S.F S.g i) = true <;> simp [hs]

/-- the reference run over the log has, for every live activation, the previous step the frame
    holds, and has produced the break events of the session; every frame whose closure has been
    consulted for (all but the innermost one while it is about to start) holds its previous step -/
def RefInv (S : Setup) (d : DCfg σ) : Prop :=
  (refRun S d.log).stack = d.stack.map (·.prev) ∧ (refRun S d.log).out = brkNodes d.events ∧
  (∀ fr ∈ d.stack.tail, BumpedPrev S fr) ∧
  (d.ctl = .resume → ∀ fr rest, d.stack = fr :: rest → BumpedPrev S fr)

theorem refRun_cons (S : Setup) (it : LogItem) (log : List LogItem) :
    refRun S (it :: log) = refStep S (refRun S log) it := rfl

/-- the previous steps of the live activations once the innermost frame is bumped -/
def prevsBumped (S : Setup) : List DFrame → List (Option Nat)
  | [] => []
  | fr :: rest => (S.bump fr).prev :: rest.map (·.prev)

/-- `dapply` when the log already holds the closure of the innermost frame -/
theorem dapply_ref (S : Setup) (d : DCfg σ) (a : Act) (hx : S.F.execFirst = false)
    (h1 : (refRun S d.log).stack = prevsBumped S d.stack) (h2 : (refRun S d.log).out = brkNodes d.events)
    (h3 : ∀ fr ∈ d.stack.tail, BumpedPrev S fr) : RefInv S (dapply S d a) := by
  unfold RefInv
  unfold dapply
  cases hs : d.stack with
  | nil =>
    rw [hs] at h1
    simp only [prevsBumped] at h1
    cases a with
    | next c => simp [h1, h2]
    | call s e =>
      cases e with
      | none => simp [h1, h2]
      | some e => simp [refRun_cons, refStep, h1, h2]
    | panic => simp [h1, h2]
  | cons fr rest =>
    rw [hs] at h1 h3
    simp only [prevsBumped] at h1
    simp only [List.tail_cons] at h3
    have hb := bump_bumped S fr
    cases a with
    | next c =>
      cases c with
      | none =>
        simp only [leave, refRun_cons, refStep, h1, h2, List.tail_cons, true_and]
        refine ⟨?_, ?_⟩
        · intro x hx'; exact h3 x (List.mem_of_mem_tail hx')
        · intro _ x r e; exact h3 x (by rw [e]; exact List.mem_cons_self)
      | some c' =>
        simp only [hx, Bool.false_eq_true, ↓reduceIte, List.map_cons, h1, h2, List.tail_cons, true_and]
        exact ⟨h3, by intro e; cases e⟩
    | call s e =>
      cases e with
      | none =>
        simp only [List.map_cons, h1, h2, List.tail_cons, true_and]
        refine ⟨h3, ?_⟩
        intro _ x r e
        simp only [List.cons.injEq] at e
        rw [← e.1]; exact hb
      | some e =>
        simp only [refRun_cons, refStep, h1, h2, List.map_cons, List.tail_cons, true_and]
        refine ⟨?_, by intro e'; cases e'⟩
        intro x hx'
        simp only [List.mem_cons] at hx'
        cases hx' with
        | inl e1 => rw [e1]; exact hb
        | inr e1 => exact h3 x e1
    | panic =>
      simp only [List.map_cons, h1, h2, List.tail_cons, true_and]
      exact ⟨h3, by intro e; cases e⟩

theorem dstep_ref (S : Setup) (P : Prog σ) (d : DCfg σ) (hi : S.ideal = true) (hx : S.F.execFirst = false)
    (hn : NoTerm d) (h : RefInv S d) : RefInv S (dstep S P d) := by
  obtain ⟨h1, h2, h3, h4⟩ := h
  unfold dstep
  cases hc : d.ctl with
  | halt b => exact ⟨h1, h2, h3, h4⟩
  | resume =>
    apply dapply_ref S _ _ hx
    · show (refRun S d.log).stack = prevsBumped S d.stack
      rw [h1]
      cases hs : d.stack with
      | nil => rfl
      | cons fr rest =>
        simp only [prevsBumped, List.map_cons]
        rw [h4 hc fr rest hs]
    · exact h2
    · exact h3
  | start =>
    cases hs : d.stack with
    | nil =>
      refine ⟨?_, h2, ?_, ?_⟩
      · simpa [hs] using h1
      · simp
      · intro _ fr rest e; simp at e
    | cons fr rest =>
      have hq := consult_noterm S d fr hn
      have hbk := consult_brk S d fr hi hn
      have hf := consult_frame S d fr
      simp only [hx, Bool.false_eq_true, ↓reduceIte, hq.1]
      rw [hs] at h1 h3
      simp only [List.map_cons] at h1
      apply dapply_ref S _ _ hx
      · show (refRun S (.exec fr.cur.owner :: d.log)).stack = prevsBumped S (consult S d fr).2.stack
        rw [hf.2.1, hs, refRun_cons]
        simp only [refStep, h1, prevsBumped, Setup.bump, Setup.m, hi, ↓reduceIte]
      · show (refRun S (.exec fr.cur.owner :: d.log)).out = brkNodes (consult S d fr).2.events
        rw [refRun_cons, hbk]
        simp only [refStep, h1, h2]
        by_cases hh : (S.g.posValid fr.cur.owner && S.hit fr.prev fr.cur.owner) = true <;> simp [hh]
      · show ∀ x ∈ (consult S d fr).2.stack.tail, BumpedPrev S x
        rw [hf.2.1, hs]; exact h3

theorem drun_ref (S : Setup) (P : Prog σ) (n : Nat) (d : DCfg σ) (hi : S.ideal = true) (hx : S.F.execFirst = false)
    (hn : NoTerm d) (h : RefInv S d) : RefInv S (drun S P n d) := by
  induction n generalizing d with
  | zero => exact h
  | succ n ih => exact ih _ (dstep_proj S P d hn).2 (dstep_ref S P d hi hx hn h)

end YaegiVerif.Proofs.C19
