import YaegiVerif.Proofs.C02Core
namespace YaegiVerif.Proofs.C02
open YaegiVerif.Ops YaegiVerif.Spec.GoInt

variable {w : Nat}

/-! ### zero test -/

theorem widen_eq_zero_iff (s : Bool) (y : BitVec w) (h : w ≤ 64) : widen s y = 0#64 ↔ value s y = 0 := by
  constructor
  · intro hz
    have := value_widen s y h
    rw [hz] at this
    rw [← this]; cases s <;> simp [value]
  · intro hv
    have h0 : y = 0#w := by
      rw [← wrap_value s y, hv]; simp [wrap]
    subst h0
    cases s
    · simp [widen]
    · simp only [widen, if_true]
      apply BitVec.eq_of_toInt_eq
      rw [BitVec.toInt_signExtend_of_le h]; simp

/-! ### quotient and remainder -/

theorem model_sdiv (x y : BitVec w) (h : w ≤ 64) :
    ((widen true x).sdiv (widen true y)).setWidth w = wrap w ((value true x).tdiv (value true y)) := by
  rw [setWidth_eq_ofInt_toInt _ h, BitVec.toInt_sdiv, ofInt_bmod64 h, toInt_widen_true x h, toInt_widen_true y h]
  rfl

theorem model_srem (x y : BitVec w) (h : w ≤ 64) :
    ((widen true x).srem (widen true y)).setWidth w = wrap w ((value true x).tmod (value true y)) := by
  rw [setWidth_eq_ofInt_toInt _ h, BitVec.toInt_srem, toInt_widen_true x h, toInt_widen_true y h]
  rfl

theorem model_udiv (x y : BitVec w) (h : w ≤ 64) :
    ((widen false x) / (widen false y)).setWidth w = wrap w ((value false x).tdiv (value false y)) := by
  rw [setWidth_eq_ofInt_toNat, BitVec.toNat_udiv, toNat_widen_false x h, toNat_widen_false y h, Int.ofNat_tdiv]
  rfl

theorem model_umod (x y : BitVec w) (h : w ≤ 64) :
    ((widen false x) % (widen false y)).setWidth w = wrap w ((value false x).tmod (value false y)) := by
  rw [setWidth_eq_ofInt_toNat, BitVec.toNat_umod, toNat_widen_false x h, toNat_widen_false y h, Int.ofNat_tmod]
  rfl

end YaegiVerif.Proofs.C02
