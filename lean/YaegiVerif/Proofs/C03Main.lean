import YaegiVerif.Proofs.C03Shift
/- C03: one walk of the interpreter model has exactly the outcome of the specification on every integer constant
   expression — the same value and type, or a compile error on both sides (structural induction). -/
namespace YaegiVerif.Proofs.C03
open YaegiVerif YaegiVerif.Const

theorem bind_eq_ok {α β} {r : Res α} {f : α → Res β} {b : β} (h : r.bind f = .ok b) :
    ∃ a, r = .ok a ∧ f a = .ok b := by
  cases r with
  | ok a => exact ⟨a, rfl, h⟩
  | reject => cases h
  | crash => cases h
  | unm w => cases h

/-- the integer fragment: integer and rune literals, iota, `+ - ^` unary, the arithmetic, bitwise and shift
    operators, conversions to integer types, parentheses -/
def intShape : CExpr → Bool
  | .int _ | .rune _ | .iota => true
  | .un a x => isUnArith a && intShape x
  | .bin a x y => (isArith a || isShift a) && intShape x && intShape y
  | .conv (.i _) x => intShape x
  | .par x => intShape x
  | _ => false

theorem isBoolAct_arith (a : Act) (h : (isArith a || isShift a) = true) : isBoolAct a = false := by
  cases a <;> simp [isArith, isShift] at h <;> rfl

theorem isBoolAct_unarith (a : Act) (h : isUnArith a = true) : isBoolAct a = false := by
  cases a <;> simp [isUnArith] at h <;> rfl

theorem Rel.inv {r : Res NS} {g : Res Spec.GV} (h : Rel r g) :
    (∃ n gv, r = .ok n ∧ g = .ok gv ∧ Inv n gv) ∨ (r = .reject ∧ g = .reject) := by
  cases h with
  | ok n gv hinv => exact Or.inl ⟨n, gv, rfl, rfl, hinv⟩
  | rej => exact Or.inr ⟨rfl, rfl⟩

theorem Rel.bind_un {r : Res NS} {g : Res Spec.GV} (h : Rel r g) (f : NS → Res NS) (f' : Spec.GV → Res Spec.GV)
    (hf : ∀ n gv, Inv n gv → Rel (f n) (f' gv)) : Rel (r.bind f) (g.bind f') := by
  cases h with
  | ok n gv hinv => exact hf n gv hinv
  | rej => exact .rej

/-- **one walk, both directions** (first walk, nothing pushed down) -/
theorem evalY_int_rel (env : Env) (hp2 : env.pass2 = false) :
    ∀ e, intShape e = true → Rel (evalY F0 env none e) (Spec.evalGo env.iota e) := by
  intro e
  induction e with
  | int v =>
    intro _
    -- a literal of more than 512 bits is refused by both sides (nodeType2 since 638fc07)
    simp only [Spec.evalGo, evalY, F0_chk, Expected.C03.checkFacts, Spec.maxUntypedBits]
    by_cases hb : bitLen v > 512
    · simp only [hb, if_true]; exact .rej
    · simp only [hb, if_false]; exact .ok _ _ (Inv.of_untyped _ _ _ (Or.inl rfl) rfl rfl)
  | rune v =>
    intro _
    simp only [Spec.evalGo, evalY]
    exact .ok _ _ (Inv.of_untyped _ _ _ (Or.inr rfl) rfl rfl)
  | iota =>
    intro _
    simp only [Spec.evalGo, evalY]
    exact .ok _ _ (Inv.of_untyped _ _ _ (Or.inl rfl) rfl rfl)
  | flt q => intro h; simp [intShape] at h
  | bool b => intro h; simp [intShape] at h
  | str s => intro h; simp [intShape] at h
  | len x _ => intro h; simp [intShape] at h
  | par x ih =>
    intro hs
    simp only [intShape] at hs
    have h := ih hs
    simp only [Spec.evalGo, evalY]
    rcases h.inv with ⟨n, gv, hr, hg, hinv⟩ | ⟨hr, hg⟩
    · rw [hr, hg]; exact .ok _ _ ⟨hinv.1, hinv.2⟩
    · rw [hr, hg]; exact .rej
  | un a x ih =>
    intro hs
    simp only [intShape, Bool.and_eq_true] at hs
    have h := ih hs.2
    have hnot : (a == Act.not) = false := by
      have ha := hs.1
      cases a <;> simp [isUnArith] at ha <;> rfl
    simp only [Spec.evalGo, evalY, hnot, Bool.false_eq_true, if_false]
    exact h.bind_un _ _ (fun n gv hinv => unNode_rel a hs.1 n gv hinv)
  | conv t x ih =>
    intro hs
    cases t with
    | i k =>
      simp only [intShape] at hs
      have h := ih hs
      simp only [Spec.evalGo, evalY, hp2, Bool.false_and, Bool.false_eq_true, if_false]
      exact h.bind_un _ _ (fun n gv hinv => convNode_rel k n gv hinv)
    | f32 => simp [intShape] at hs
    | f64 => simp [intShape] at hs
    | bool => simp [intShape] at hs
    | str => simp [intShape] at hs
  | bin a x y ihx ihy =>
    intro hs
    simp only [intShape, Bool.and_eq_true] at hs
    have hx := ihx hs.1.2
    have hy := ihy hs.2
    have hcl : (isCmpAct a || isLogicAct a) = false := by
      have ha := hs.1.1
      cases a <;> simp [isArith, isShift] at ha <;> rfl
    simp only [Spec.evalGo, evalY, hcl, Bool.false_eq_true, if_false]
    rcases hx.inv with ⟨c0, g0, hx0, hg0, i0⟩ | ⟨hx0, hg0⟩
    · rw [hx0, hg0]
      simp only [bind_ok]
      rcases hy.inv with ⟨c1, g1, hy1, hg1, i1⟩ | ⟨hy1, hg1⟩
      · rw [hy1, hg1]
        simp only [bind_ok]
        by_cases hsh : isShift a = true
        · have hcond : (a == .shl || a == .shr) = true := by simpa [isShift] using hsh
          have hsa : isShiftAct a = true := by simpa [isShiftAct, isShift] using hsh
          simp only [hcond, hsa, if_true]
          exact shiftNode_rel env a hsh c0 c1 g0 g1 i0 i1
        · have har : isArith a = true := by
            have h := hs.1.1
            rw [Bool.or_eq_true] at h
            rcases h with h | h
            · exact h
            · exact absurd h hsh
          have hcond : (a == .shl || a == .shr) = false := by simpa [isShift] using hsh
          have hsa : isShiftAct a = false := by simpa [isShiftAct, isShift] using hsh
          have hcmp : Spec.isCmp a = false := by cases a <;> simp [isArith] at har <;> rfl
          have hland : (a == .land || a == .lor) = false := by cases a <;> simp [isArith] at har <;> rfl
          simp only [hcond, hsa, hp2, Bool.false_and, Bool.false_eq_true, if_false]
          have hgo : ((Spec.matchTypes g0 g1).bind fun x =>
              if Spec.isCmp a = true then
                (if ((a == .eq || a == .ne) || Spec.isNumTy x.2.2 || Spec.isStrTy x.2.2) = true then Spec.cmpGo a x.1 x.2.1 else .reject)
              else if (a == .land || a == .lor) = true then
                (match x.1, x.2.1 with
                 | .bool b, .bool c => .ok ⟨.bool (if (a == .land) = true then b && c else b || c), x.2.2⟩
                 | _, _ => .reject)
              else Spec.arithGo a x.1 x.2.1 x.2.2) =
              ((Spec.matchTypes g0 g1).bind fun x => Spec.arithGo a x.1 x.2.1 x.2.2) := by
            simp only [hcmp, hland, Bool.false_eq_true, if_false]
          have := binNode_rel env a har c0 c1 g0 g1 i0 i1
          simpa only [hcmp, hland, Bool.false_eq_true, if_false] using this
      · rw [hy1, hg1]; exact .rej
    · rw [hx0, hg0]; exact .rej

/-- the accepting direction, as the declaration theorems use it -/
theorem evalY_int_correct (env : Env) (hp2 : env.pass2 = false) (e : CExpr) (hs : intShape e = true) (gv : Spec.GV) (hgo : Spec.evalGo env.iota e = .ok gv) :
    ∃ n, evalY F0 env none e = .ok n ∧ Inv n gv := by
  have h := evalY_int_rel env hp2 e hs
  rw [hgo] at h
  cases hy : evalY F0 env none e with
  | ok n =>
    rw [hy] at h
    rcases h.inv with ⟨n', gv', hr, hg, hinv⟩ | ⟨hr, _⟩
    · injection hr with hr; injection hg with hg; subst hr hg; exact ⟨n, rfl, hinv⟩
    · cases hr
  | reject => rw [hy] at h; rcases h.inv with ⟨_, _, hr, _, _⟩ | ⟨_, hg⟩ <;> first | cases hr | cases hg
  | crash => rw [hy] at h; rcases h.inv with ⟨_, _, hr, _, _⟩ | ⟨hr, _⟩ <;> cases hr
  | unm w => rw [hy] at h; rcases h.inv with ⟨_, _, hr, _, _⟩ | ⟨hr, _⟩ <;> cases hr

/-- the rejecting direction -/
theorem evalY_int_reject (env : Env) (hp2 : env.pass2 = false) (e : CExpr) (hs : intShape e = true) (hgo : Spec.evalGo env.iota e = .reject) : evalY F0 env none e = .reject := by
  have h := evalY_int_rel env hp2 e hs
  rw [hgo] at h
  cases hy : evalY F0 env none e with
  | ok n => rw [hy] at h; rcases h.inv with ⟨_, _, _, hg, _⟩ | ⟨hr, _⟩ <;> first | cases hg | cases hr
  | reject => rfl
  | crash => rw [hy] at h; rcases h.inv with ⟨_, _, hr, _, _⟩ | ⟨hr, _⟩ <;> cases hr
  | unm w => rw [hy] at h; rcases h.inv with ⟨_, _, hr, _, _⟩ | ⟨hr, _⟩ <;> cases hr

/-- the specification never crashes and is total on the model's terms: it answers a value or a rejection -/
theorem evalGo_int_total (env : Env) (hp2 : env.pass2 = false) (e : CExpr) (hs : intShape e = true) : (∃ gv, Spec.evalGo env.iota e = .ok gv) ∨ Spec.evalGo env.iota e = .reject := by
  have h := evalY_int_rel env hp2 e hs
  cases h' : Spec.evalGo env.iota e with
  | ok gv => exact Or.inl ⟨gv, rfl⟩
  | reject => exact Or.inr rfl
  | crash => rw [h'] at h; rcases h.inv with ⟨_, _, _, hg, _⟩ | ⟨_, hg⟩ <;> cases hg
  | unm w => rw [h'] at h; rcases h.inv with ⟨_, _, _, hg, _⟩ | ⟨_, hg⟩ <;> cases hg

end YaegiVerif.Proofs.C03
