import YaegiVerif.Proofs.C03Shift
/- C03: one walk of the interpreter model agrees with the specification on every integer constant expression
   that the specification accepts (structural induction). -/
namespace YaegiVerif.Proofs.C03
open YaegiVerif YaegiVerif.Const

theorem bind_eq_ok {α β} {r : Res α} {f : α → Res β} {b : β} (h : r.bind f = .ok b) :
    ∃ a, r = .ok a ∧ f a = .ok b := by
  cases r with
  | ok a => exact ⟨a, rfl, h⟩
  | reject => cases h
  | crash => cases h
  | unm w => cases h

/-- the integer fragment: integer and rune literals, iota, `+ - ^` unary, the arithmetic, bitwise and shift
    operators, conversions to integer types, parentheses -/
def intShape : CExpr → Bool
  | .int _ | .rune _ | .iota => true
  | .un a x => isUnArith a && intShape x
  | .bin a x y => (isArith a || isShift a) && intShape x && intShape y
  | .conv (.i _) x => intShape x
  | .par x => intShape x
  | _ => false

def goTyIs (i : Nat) (e : CExpr) (t : Ty) : Bool :=
  match Spec.evalGo i e with
  | .ok g => g.ty == t
  | _ => false

/-- no quotient of an untyped rune constant by an untyped integer constant (`'a' / 2`: yaegi types it int) -/
def noRuneQuo (i : Nat) : CExpr → Bool
  | .un _ x => noRuneQuo i x
  | .bin a x y => noRuneQuo i x && noRuneQuo i y && !(a == .quo && goTyIs i x (.u .rune) && goTyIs i y (.u .int))
  | .conv _ x => noRuneQuo i x
  | .par x => noRuneQuo i x
  | .len x => noRuneQuo i x
  | _ => true

theorem isBoolAct_arith (a : Act) (h : (isArith a || isShift a) = true) : isBoolAct a = false := by
  cases a <;> simp [isArith, isShift] at h <;> rfl

theorem isBoolAct_unarith (a : Act) (h : isUnArith a = true) : isBoolAct a = false := by
  cases a <;> simp [isUnArith] at h <;> rfl

theorem evalY_int_correct (env : Env) (hp2 : env.pass2 = false) :
    ∀ e, intShape e = true → noRuneQuo env.iota e = true → ∀ gv, Spec.evalGo env.iota e = .ok gv →
      ∃ n, evalY F0 env none e = .ok n ∧ Inv n gv := by
  intro e
  induction e with
  | int v =>
    intro _ _ gv hgo
    simp only [Spec.evalGo] at hgo; injection hgo with hgo; subst hgo
    exact ⟨{ rv := .c (.int v), ty := .u .int, fidx := true }, by simp [evalY],
      Inv.of_untyped _ _ _ (Or.inl rfl) rfl rfl⟩
  | rune v =>
    intro _ _ gv hgo
    simp only [Spec.evalGo] at hgo; injection hgo with hgo; subst hgo
    exact ⟨{ rv := .c (.int v), ty := .u .rune, fidx := true }, by simp [evalY],
      Inv.of_untyped _ _ _ (Or.inr rfl) rfl rfl⟩
  | iota =>
    intro _ _ gv hgo
    simp only [Spec.evalGo] at hgo; injection hgo with hgo; subst hgo
    exact ⟨{ rv := .c (.int env.iota), ty := .u .int, fidx := true }, by simp [evalY],
      Inv.of_untyped _ _ _ (Or.inl rfl) rfl rfl⟩
  | flt q => intro h; simp [intShape] at h
  | bool b => intro h; simp [intShape] at h
  | str s => intro h; simp [intShape] at h
  | len x _ => intro h; simp [intShape] at h
  | par x ih =>
    intro hs hq gv hgo
    simp only [intShape] at hs
    simp only [noRuneQuo] at hq
    simp only [Spec.evalGo] at hgo
    obtain ⟨n, hn, hinv⟩ := ih hs hq gv hgo
    exact ⟨{ n with self := n.fidx && n.ty.untyped, inner := n.loose }, by simp [evalY, hn], hinv.1, hinv.2⟩
  | un a x ih =>
    intro hs hq gv hgo
    simp only [intShape, Bool.and_eq_true] at hs
    simp only [noRuneQuo] at hq
    simp only [Spec.evalGo] at hgo
    obtain ⟨g0, hg0, hu⟩ := bind_eq_ok hgo
    obtain ⟨c0, hc0, hinv⟩ := ih hs.2 hq g0 hg0
    obtain ⟨n, hn, hi⟩ := unNode_correct a hs.1 c0 g0 gv hinv hu
    exact ⟨n, by simp [evalY, isBoolAct_unarith a hs.1, hc0, hn], hi⟩
  | conv t x ih =>
    intro hs hq gv hgo
    cases t with
    | i k =>
      simp only [intShape] at hs
      simp only [noRuneQuo] at hq
      simp only [Spec.evalGo] at hgo
      obtain ⟨g1, hg1, hc⟩ := bind_eq_ok hgo
      obtain ⟨c1, hc1, hinv⟩ := ih hs hq g1 hg1
      obtain ⟨n, hn, hi⟩ := convNode_correct k c1 g1 gv hinv hc
      exact ⟨n, by simp [evalY, hp2, hc1, hn], hi⟩
    | f32 => simp [intShape] at hs
    | f64 => simp [intShape] at hs
    | bool => simp [intShape] at hs
    | str => simp [intShape] at hs
  | bin a x y ihx ihy =>
    intro hs hq gv hgo
    simp only [intShape, Bool.and_eq_true] at hs
    simp only [noRuneQuo, Bool.and_eq_true, Bool.not_eq_true'] at hq
    obtain ⟨⟨hqx, hqy⟩, hqa⟩ := hq
    simp only [Spec.evalGo] at hgo
    obtain ⟨g0, hg0, hgo⟩ := bind_eq_ok hgo
    obtain ⟨g1, hg1, hgo⟩ := bind_eq_ok hgo
    obtain ⟨c0, hc0, hi0⟩ := ihx hs.1.2 hqx g0 hg0
    obtain ⟨c1, hc1, hi1⟩ := ihy hs.2 hqy g1 hg1
    have hnb := isBoolAct_arith a hs.1.1
    by_cases hsh : isShift a = true
    · have hcond : (a == .shl || a == .shr) = true := by simpa [isShift] using hsh
      rw [if_pos hcond] at hgo
      obtain ⟨n, hn, hi⟩ := shiftNode_correct env a hsh c0 c1 g0 g1 gv hi0 hi1 hgo
      have hsa : isShiftAct a = true := by simpa [isShiftAct, isShift] using hsh
      exact ⟨n, by simp [evalY, hnb, hc0, hc1, hsa, hn], hi⟩
    · have har : isArith a = true := by
        have h := hs.1.1
        rw [Bool.or_eq_true] at h
        rcases h with h | h
        · exact h
        · exact absurd h hsh
      have hcond : ¬ ((a == .shl || a == .shr) = true) := by simpa [isShift] using hsh
      rw [if_neg hcond] at hgo
      have hgo' : ((Spec.matchTypes g0 g1).bind fun x => Spec.arithGo a x.1 x.2.1 x.2.2) = .ok gv := by
        obtain ⟨⟨u, v, t⟩, hm, hrest⟩ := bind_eq_ok hgo
        rw [hm]
        have hcmp : Spec.isCmp a = false := by cases a <;> simp [isArith] at har <;> rfl
        have hland : (a == .land || a == .lor) = false := by cases a <;> simp [isArith] at har <;> rfl
        simpa [hcmp, hland] using hrest
      have hq' : a = .quo → ¬ (g0.ty = .u .rune ∧ g1.ty = .u .int) := by
        intro haq ⟨h1, h2⟩
        subst haq
        simp [goTyIs, hg0, hg1, h1, h2] at hqa
      obtain ⟨n, hn, hi⟩ := binNode_correct env a har c0 c1 g0 g1 gv hi0 hi1 hq' hgo'
      have hsa : isShiftAct a = false := by simpa [isShiftAct, isShift] using hsh
      exact ⟨n, by simp [evalY, hnb, hc0, hc1, hsa, hn, hp2], hi⟩

end YaegiVerif.Proofs.C03
