import YaegiVerif.Model.Method
import YaegiVerif.Model.MethodClass
import YaegiVerif.Spec.GoSelector
import YaegiVerif.Proofs.C05Lookup
/-
  C05 — helper lemmas on method sets: the names `methods()` collects are exactly the names of the
  methods reachable through embedded fields; membership in the specification's method set.
-/
namespace YaegiVerif.Proofs.C05
open YaegiVerif.Method YaegiVerif.Spec.Selector YaegiVerif.MethodClass

def names (l : List (String × Nat)) : List String := l.map (·.1)

theorem mem_names_setKey (l : List (String × Nat)) (k : String) (v : Nat) (x : String) :
    x ∈ names (setKey l k v) ↔ x ∈ names l ∨ x = k := by
  unfold setKey names
  by_cases h : l.any (fun p => p.1 == k) = true
  · simp only [h, if_true]
    have hk : k ∈ l.map (·.1) := by
      simp only [List.any_eq_true] at h
      obtain ⟨p, hp, hpk⟩ := h
      exact List.mem_map.mpr ⟨p, hp, by simpa using hpk⟩
    constructor
    · intro hx
      left
      simp only [List.map_map, List.mem_map] at hx
      obtain ⟨p, hp, rfl⟩ := hx
      by_cases hpk : (p.1 == k) = true
      · simp only [Function.comp, hpk, if_true]
        have : p.1 = k := by simpa using hpk
        rw [← this]
        exact List.mem_map.mpr ⟨p, hp, rfl⟩
      · simp only [Function.comp, hpk]
        exact List.mem_map.mpr ⟨p, hp, rfl⟩
    · intro hx
      rcases hx with hx | rfl
      · simp only [List.map_map, List.mem_map]
        obtain ⟨p, hp, rfl⟩ := List.mem_map.mp hx
        refine ⟨p, hp, ?_⟩
        by_cases hpk : (p.1 == k) = true
        · simp only [Function.comp, hpk, if_true]
          exact (by simpa using hpk : p.1 = k).symm
        · simp [Function.comp, hpk]
      · simp only [List.map_map, List.mem_map]
        obtain ⟨p, hp, hpk⟩ := List.mem_map.mp hk
        refine ⟨p, hp, ?_⟩
        have : (p.1 == x) = true := by simpa using hpk
        simp [Function.comp, this]
  · simp only [h]
    simp [List.map_append]

theorem mem_names_mergeMap (b : List (String × Nat)) : ∀ (a : List (String × Nat)) (x : String),
    x ∈ names (mergeMap a b) ↔ x ∈ names a ∨ x ∈ names b := by
  induction b with
  | nil => intro a x; simp [mergeMap, names]
  | cons p ps ih =>
    intro a x
    have : mergeMap a (p :: ps) = mergeMap (setKey a p.1 p.2) ps := by simp [mergeMap, List.foldl]
    rw [this, ih, mem_names_setKey]
    simp only [names, List.map_cons, List.mem_cons]
    constructor
    · rintro ((h | h) | h)
      · exact Or.inl h
      · exact Or.inr (Or.inl h)
      · exact Or.inr (Or.inr h)
    · rintro (h | h | h)
      · exact Or.inl (Or.inl h)
      · exact Or.inl (Or.inr h)
      · exact Or.inr h

/-- names collected by the loop over the embedded fields in `methods()` -/
theorem mem_names_foldl_emb (g : Nat → List (String × Nat)) (x : String) :
    ∀ (fs : List Field) (acc : List (String × Nat)),
    x ∈ names (fs.foldl (fun acc f => if f.isEmb then mergeMap acc (g f.typ) else acc) acc) ↔
      x ∈ names acc ∨ ∃ f ∈ fs, f.isEmb = true ∧ x ∈ names (g f.typ) := by
  intro fs
  induction fs with
  | nil => intro acc; simp
  | cons f fs ih =>
    intro acc
    simp only [List.foldl_cons]
    rw [ih]
    by_cases hf : f.isEmb = true
    · simp only [hf, if_true, mem_names_mergeMap]
      constructor
      · rintro ((h | h) | ⟨f', hf', he, hx⟩)
        · exact Or.inl h
        · exact Or.inr ⟨f, by simp, hf, h⟩
        · exact Or.inr ⟨f', by simp [hf'], he, hx⟩
      · rintro (h | ⟨f', hf', he, hx⟩)
        · exact Or.inl (Or.inl h)
        · simp only [List.mem_cons] at hf'
          rcases hf' with rfl | hf'
          · exact Or.inl (Or.inr hx)
          · exact Or.inr ⟨f', hf', he, hx⟩
    · simp only [hf]
      constructor
      · rintro (h | ⟨f', hf', he, hx⟩)
        · exact Or.inl h
        · exact Or.inr ⟨f', by simp [hf'], he, hx⟩
      · rintro (h | ⟨f', hf', he, hx⟩)
        · exact Or.inl h
        · simp only [List.mem_cons] at hf'
          rcases hf' with rfl | hf'
          · exact absurd he hf
          · exact Or.inr ⟨f', hf', he, hx⟩

theorem allVia_ne_nil {α : Type} (pred : Field → Bool) (g : Nat → List α) (push : Nat → α → α) :
    ∀ (fs : List Field) (i : Nat), allVia pred g push fs i ≠ [] ↔ ∃ f ∈ fs, pred f = true ∧ g f.typ ≠ [] := by
  intro fs
  induction fs with
  | nil => intro i; simp [allVia]
  | cons f fs ih =>
    intro i
    unfold allVia
    rw [Ne, List.append_eq_nil_iff, Classical.not_and_iff_not_or_not, ← Ne, ← Ne, ih]
    by_cases hp : pred f = true
    · simp only [hp, if_true, ne_eq, List.map_eq_nil_iff]
      constructor
      · rintro (h | ⟨f', hf', he, hx⟩)
        · exact ⟨f, by simp, hp, h⟩
        · exact ⟨f', by simp [hf'], he, hx⟩
      · rintro ⟨f', hf', he, hx⟩
        simp only [List.mem_cons] at hf'
        rcases hf' with rfl | hf'
        · exact Or.inl hx
        · exact Or.inr ⟨f', hf', he, hx⟩
    · simp only [hp]
      constructor
      · rintro (h | ⟨f', hf', he, hx⟩)
        · exact absurd rfl h
        · exact ⟨f', by simp [hf'], he, hx⟩
      · rintro ⟨f', hf', he, hx⟩
        simp only [List.mem_cons] at hf'
        rcases hf' with rfl | hf'
        · exact absurd he hp
        · exact Or.inr ⟨f', hf', he, hx⟩

theorem getMethod_some_iff (ms : List Meth) (k : String) :
    (getMethod ms k).isSome = true ↔ k ∈ ms.map (·.name) := by
  unfold getMethod
  rw [List.find?_isSome]
  constructor
  · rintro ⟨x, hx, hk⟩
    exact List.mem_map.mpr ⟨x, hx, by simpa using hk⟩
  · intro h
    obtain ⟨x, hx, rfl⟩ := List.mem_map.mp h
    exact ⟨x, hx, by simp⟩

/-- **the names of `methods()` are exactly the names of the reachable methods** -/
theorem mem_names_methodsF (D : Decls) (k : String) : ∀ (fuel t : Nat),
    k ∈ names (methodsF D fuel t) ↔ moccF D fuel t k ≠ [] := by
  intro fuel
  induction fuel with
  | zero => intro t; simp [methodsF, moccF, names]
  | succ n ih =>
    intro t
    unfold methodsF moccF
    simp only
    rw [mem_names_mergeMap, mem_names_foldl_emb (methodsF D n) k]
    rw [Ne, List.append_eq_nil_iff, Classical.not_and_iff_not_or_not, ← Ne, ← Ne, allVia_ne_nil]
    have hown : k ∈ names ((methsOf D t).map (fun m => (m.name, m.sig))) ↔
        (match getMethod (methsOf D t) k with | some x => [(⟨t, [], x⟩ : MHit)] | none => []) ≠ [] := by
      have h1 := getMethod_some_iff (methsOf D t) k
      unfold names
      simp only [List.map_map]
      have h2 : (List.map ((fun x => x.1) ∘ fun m => (m.name, m.sig)) (methsOf D t)) = (methsOf D t).map (·.name) := by
        apply List.map_congr_left; intro a _; rfl
      rw [h2, ← h1]
      cases getMethod (methsOf D t) k <;> simp
    rw [hown]
    constructor
    · rintro ((h | ⟨f, hf, he, hx⟩) | h)
      · simp [names] at h
      · exact Or.inr ⟨f, hf, he, (ih f.typ).mp hx⟩
      · exact Or.inl h
    · rintro (h | ⟨f, hf, he, hx⟩)
      · exact Or.inr h
      · exact Or.inl (Or.inr ⟨f, hf, he, (ih f.typ).mpr hx⟩)

/-! ### the methods found carry the name asked for, and it is a declared name -/

theorem getMethod_name (ms : List Meth) (k : String) (x : Meth) (h : getMethod ms k = some x) : x.name = k ∧ x ∈ ms := by
  unfold getMethod at h
  have h1 := List.find?_some h
  have h2 := List.mem_of_find?_eq_some h
  exact ⟨by simpa using h1, h2⟩

theorem moccF_sound (D : Decls) (k : String) : ∀ (fuel t : Nat) (h : MHit), h ∈ moccF D fuel t k →
    h.meth.name = k ∧ h.meth ∈ methsOf D h.owner := by
  intro fuel
  induction fuel with
  | zero => intro t h hm; simp [moccF] at hm
  | succ n ih =>
    intro t h hm
    unfold moccF at hm
    rw [List.mem_append] at hm
    cases hm with
    | inl h1 =>
      cases hg : getMethod (methsOf D t) k with
      | none => simp [hg] at h1
      | some x =>
        simp [hg] at h1
        subst h1
        exact getMethod_name _ _ _ hg
    | inr h2 =>
      obtain ⟨f, _, i, b, _, hb, rfl⟩ := allVia_mem _ _ _ _ _ _ h2
      exact ih f.typ b hb

theorem mem_foldl_dedup (x : String) : ∀ (l acc : List String),
    x ∈ l.foldl (fun acc y => if acc.contains y then acc else acc ++ [y]) acc ↔ x ∈ acc ∨ x ∈ l := by
  intro l
  induction l with
  | nil => intro acc; simp
  | cons y ys ih =>
    intro acc
    simp only [List.foldl_cons]
    rw [ih]
    by_cases hc : acc.contains y = true
    · simp only [hc, if_true, List.mem_cons]
      have hy : y ∈ acc := by simpa using hc
      constructor
      · rintro (h | h)
        · exact Or.inl h
        · exact Or.inr (Or.inr h)
      · rintro (h | rfl | h)
        · exact Or.inl h
        · exact Or.inl hy
        · exact Or.inr h
    · have hc' : acc.contains y = false := by simpa using hc
      simp only [hc', Bool.false_eq_true, if_false, List.mem_append, List.mem_cons, List.not_mem_nil, or_false]
      constructor
      · rintro ((h | h) | h)
        · exact Or.inl h
        · exact Or.inr (Or.inl h)
        · exact Or.inr (Or.inr h)
      · rintro (h | h | h)
        · exact Or.inl (Or.inl h)
        · exact Or.inl (Or.inr h)
        · exact Or.inr h

theorem mem_dedup (x : String) (l : List String) : x ∈ dedup l ↔ x ∈ l := by
  unfold dedup
  rw [mem_foldl_dedup]
  simp

theorem meth_name_mem_allNames (D : Decls) (o : Nat) (m : Meth) (h : m ∈ methsOf D o) : m.name ∈ allNames D := by
  unfold allNames
  rw [mem_dedup]
  unfold methsOf at h
  cases hg : D[o]? with
  | none => simp [hg] at h
  | some d =>
    cases d with
    | iface n ms es => simp [hg] at h
    | strct n fs ms =>
      simp [hg] at h
      rw [List.mem_flatMap]
      exact ⟨TDecl.strct n fs ms, List.mem_of_getElem? hg, List.mem_map.mpr ⟨m, h, rfl⟩⟩

theorem mocc_ne_nil_mem_allNames (D : Decls) (t : Nat) (k : String) (h : mocc D t k ≠ []) : k ∈ allNames D := by
  cases hm : mocc D t k with
  | nil => exact absurd hm h
  | cons a rest =>
    have ha : a ∈ moccF D D.length t k := by unfold mocc at hm; rw [hm]; simp
    obtain ⟨hn, hmem⟩ := moccF_sound D k _ _ a ha
    rw [← hn]
    exact meth_name_mem_allNames D a.owner a.meth hmem

/-- a method selected by the Go rule is one of the enumerated methods -/
theorem select_method_mem (D : Decls) (t : Nat) (k : String) (h : MHit) (hs : select D t k = .method h) :
    h ∈ mocc D t k := by
  unfold select at hs
  obtain ⟨o, ho, ho2⟩ := pick_mem _ _ hs (by simp) (by simp)
  unfold occs at ho
  rw [List.mem_append] at ho
  rcases ho with ho | ho
  · obtain ⟨f, _, rfl⟩ := List.mem_map.mp ho
    simp at ho2
  · obtain ⟨m, hm, rfl⟩ := List.mem_map.mp ho
    simp only at ho2
    have : m = h := by injection ho2
    subst this
    exact hm


/-! ### interface types: the interpreter's and the specification's list have the same names -/

theorem mem_names_foldl_merge (g : Nat → List (String × Nat)) (x : String) :
    ∀ (es : List Nat) (acc : List (String × Nat)),
    x ∈ names (es.foldl (fun acc e => mergeMap acc (g e)) acc) ↔ x ∈ names acc ∨ ∃ e ∈ es, x ∈ names (g e) := by
  intro es
  induction es with
  | nil => intro acc; simp
  | cons e es ih =>
    intro acc
    simp only [List.foldl_cons]
    rw [ih, mem_names_mergeMap]
    constructor
    · rintro ((h | h) | ⟨e', he', hx⟩)
      · exact Or.inl h
      · exact Or.inr ⟨e, by simp, h⟩
      · exact Or.inr ⟨e', by simp [he'], hx⟩
    · rintro (h | ⟨e', he', hx⟩)
      · exact Or.inl (Or.inl h)
      · simp only [List.mem_cons] at he'
        rcases he' with rfl | he'
        · exact Or.inl (Or.inr hx)
        · exact Or.inr ⟨e', he', hx⟩

theorem iface_names_eq (D : Decls) (x : String) : ∀ (fuel i : Nat),
    x ∈ names (Method.ifaceMethodsF D fuel i) ↔ x ∈ (Spec.Selector.ifaceMethodsF D fuel i).map (·.name) := by
  intro fuel
  induction fuel with
  | zero => intro i; simp [Method.ifaceMethodsF, Spec.Selector.ifaceMethodsF, names]
  | succ n ih =>
    intro i
    unfold Method.ifaceMethodsF Spec.Selector.ifaceMethodsF
    simp only
    rw [mem_names_foldl_merge, mem_names_mergeMap]
    simp only [List.map_append, List.mem_append, List.map_flatMap, List.mem_flatMap]
    have hown : x ∈ names ((ifaceDecl D i).1.map (fun m => (m.name, m.sig))) ↔ x ∈ (ifaceDecl D i).1.map (·.name) := by
      unfold names
      simp only [List.map_map]
      have : (List.map ((fun x => x.1) ∘ fun m => (m.name, m.sig)) (ifaceDecl D i).1) = (ifaceDecl D i).1.map (·.name) := by
        apply List.map_congr_left; intro a _; rfl
      rw [this]
    constructor
    · rintro ((h | h) | ⟨e, he, hx⟩)
      · simp [names] at h
      · exact Or.inl (hown.mp h)
      · exact Or.inr ⟨e, he, (ih e).mp hx⟩
    · rintro (h | ⟨e, he, hx⟩)
      · exact Or.inl (Or.inr (hown.mpr h))
      · exact Or.inr ⟨e, he, (ih e).mpr hx⟩

end YaegiVerif.Proofs.C05
