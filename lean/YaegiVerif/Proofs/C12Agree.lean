import YaegiVerif.Proofs.C12Dom
/-
  C12 — from site-wise agreement to agreement of the whole-program verdicts: if the walk `domProg`
  meets no differing check site, the traversal with yaegi's rules and the traversal with the Go
  rules return the same result (induction over expressions, argument lists, statements, blocks,
  function lists).
-/
namespace YaegiVerif.Typecheck
open Spec

/-- what the walk's outcome says about the two traversals -/
def Inv {α : Type} (d : DR α) (y g : Res α) : Prop :=
  match d with
  | .ok a => y = .ok a ∧ g = .ok a
  | .stop => y = g ∧ ∀ a, g ≠ .ok a
  | .lax _ => True

theorem site_inv {α : Type} [DecidableEq α] (y g : Res α) (c : Lax) : Inv (site y g c) y g := by
  unfold site
  by_cases h : y = g
  · subst h
    cases y <;> simp [Inv]
  · simp [h, Inv]

theorem bind_inv {α β : Type} (d : DR α) (y g : Res α) (f : α → DR β) (fy fg : α → Res β)
    (h : Inv d y g) (hf : ∀ a, Inv (f a) (fy a) (fg a)) : Inv (d >>= f) (y >>= fy) (g >>= fg) := by
  cases d with
  | ok a =>
    obtain ⟨h1, h2⟩ := h
    subst h1; subst h2
    exact hf a
  | stop =>
    obtain ⟨h1, h2⟩ := h
    subst h1
    cases y with
    | ok a => exact absurd rfl (h2 a)
    | err => exact ⟨rfl, fun a h => by cases h⟩
    | crash => exact ⟨rfl, fun a h => by cases h⟩
    | abstain => exact ⟨rfl, fun a h => by cases h⟩
  | lax c => trivial

theorem ok_inv {α : Type} (a : α) : Inv (DR.ok a) (Res.ok a) (Res.ok a) := ⟨rfl, rfl⟩
theorem stop_err_inv {α : Type} : Inv (DR.stop : DR α) (Res.err) (Res.err) := ⟨rfl, fun _ h => by cases h⟩

/-- `site` followed by a continuation that ignores the value -/
theorem site_then_inv {α β : Type} [DecidableEq α] (y g : Res α) (c : Lax) (k : DR β) (ky kg : Res β)
    (hk : Inv k ky kg) :
    Inv (site y g c >>= fun _ => k) (y >>= fun _ => ky) (g >>= fun _ => kg) :=
  bind_inv _ _ _ _ _ _ (site_inv y g c) (fun _ => hk)

variable (T : TcFacts)

mutual
  theorem domE_inv : ∀ (e : Expr) (env : Env) (z : Option Ty) (cv : Bool),
      Inv (domE T env z cv e) (checkE (rulesY T) env z cv e) (checkE rulesG env z cv e)
    | .var i, env, z, cv => by
      unfold domE checkE
      cases env.vars[i]? with
      | some t => exact ok_inv _
      | none => exact stop_err_inv
    | .lit u v f, env, z, cv => by unfold domE checkE; exact ok_inv _
    | .nil, env, z, cv => by unfold domE checkE; exact ok_inv _
    | .un op e, env, z, cv => by
      unfold domE checkE
      exact bind_inv _ _ _ _ _ _ (domE_inv e env _ _) (fun x => site_inv _ _ _)
    | .recv e, env, z, cv => by
      unfold domE checkE
      exact bind_inv _ _ _ _ _ _ (domE_inv e env _ _) (fun x => site_inv _ _ _)
    | .bin op a b, env, z, cv => by
      unfold domE checkE
      exact bind_inv _ _ _ _ _ _ (domE_inv a env _ _) (fun x =>
        bind_inv _ _ _ _ _ _ (domE_inv b env _ _) (fun y => site_inv _ _ _))
    | .cmp op a b, env, z, cv => by
      unfold domE checkE
      exact bind_inv _ _ _ _ _ _ (domE_inv a env _ _) (fun x =>
        bind_inv _ _ _ _ _ _ (domE_inv b env _ _) (fun y => site_inv _ _ _))
    | .shift op a b, env, z, cv => by
      unfold domE checkE
      exact bind_inv _ _ _ _ _ _ (domE_inv a env _ _) (fun x =>
        bind_inv _ _ _ _ _ _ (domE_inv b env _ _) (fun y => site_inv _ _ _))
    | .call f args, env, z, cv => by
      unfold domE checkE
      cases env.funcs[f]? with
      | none => exact stop_err_inv
      | some sg =>
        exact bind_inv _ _ _ _ _ _ (domArgs_inv args env) (fun xs =>
          bind_inv _ _ _ _ _ _ (site_inv _ _ _) (fun _ => site_inv _ _ _))
    | .conv t e, env, z, cv => by
      unfold domE checkE
      exact bind_inv _ _ _ _ _ _ (domE_inv e env _ _) (fun x => site_inv _ _ _)
    | .assert t e, env, z, cv => by
      unfold domE checkE
      exact bind_inv _ _ _ _ _ _ (domE_inv e env _ _) (fun x => site_inv _ _ _)
    | .index a i, env, z, cv => by
      unfold domE checkE
      exact bind_inv _ _ _ _ _ _ (domE_inv a env _ _) (fun x =>
        bind_inv _ _ _ _ _ _ (domE_inv i env _ _) (fun y => site_inv _ _ _))
  theorem domArgs_inv : ∀ (as : Args) (env : Env),
      Inv (domArgs T env as) (checkArgs (rulesY T) env as) (checkArgs rulesG env as)
    | .nil, env => by unfold domArgs checkArgs; exact ok_inv _
    | .cons e rest, env => by
      unfold domArgs checkArgs
      exact bind_inv _ _ _ _ _ _ (domE_inv e env _ _) (fun x =>
        bind_inv _ _ _ _ _ _ (domArgs_inv rest env) (fun xs => ok_inv _))
end

mutual
  theorem domS_inv : ∀ (s : Stmt) (env : Env),
      Inv (domS T env s) (checkS (rulesY T) env s) (checkS rulesG env s)
    | .decl t e, env => by
      unfold domS checkS
      exact bind_inv _ _ _ _ _ _ (domE_inv T e env _ _) (fun x =>
        bind_inv _ _ _ _ _ _ (site_inv _ _ _) (fun t' => ok_inv _))
    | .declz t, env => by unfold domS checkS; exact ok_inv _
    | .define e, env => by
      unfold domS checkS
      exact bind_inv _ _ _ _ _ _ (domE_inv T e env _ _) (fun x =>
        bind_inv _ _ _ _ _ _ (site_inv _ _ _) (fun _ => ok_inv _))
    | .defineOk t e, env => by
      unfold domS checkS
      exact bind_inv _ _ _ _ _ _ (domE_inv T e env _ _) (fun x =>
        bind_inv _ _ _ _ _ _ (site_inv _ _ _) (fun _ => ok_inv _))
    | .assign i e, env => by
      unfold domS checkS
      cases env.vars[i]? with
      | none => exact stop_err_inv
      | some t =>
        exact bind_inv _ _ _ _ _ _ (domE_inv T e env _ _) (fun x =>
          bind_inv _ _ _ _ _ _ (site_inv _ _ _) (fun _ => ok_inv _))
    | .opassign op i e, env => by
      unfold domS checkS
      cases env.vars[i]? with
      | none => exact stop_err_inv
      | some t =>
        exact bind_inv _ _ _ _ _ _ (domE_inv T e env _ _) (fun x =>
          bind_inv _ _ _ _ _ _ (site_inv _ _ _) (fun _ => ok_inv _))
    | .shassign op i e, env => by
      unfold domS checkS
      cases env.vars[i]? with
      | none => exact stop_err_inv
      | some t =>
        exact bind_inv _ _ _ _ _ _ (domE_inv T e env _ _) (fun x =>
          bind_inv _ _ _ _ _ _ (site_inv _ _ _) (fun _ => ok_inv _))
    | .incdec i, env => by
      unfold domS checkS
      cases env.vars[i]? with
      | none => exact stop_err_inv
      | some t => exact bind_inv _ _ _ _ _ _ (site_inv _ _ _) (fun _ => ok_inv _)
    | .send c e, env => by
      unfold domS checkS
      exact bind_inv _ _ _ _ _ _ (domE_inv T c env _ _) (fun x =>
        bind_inv _ _ _ _ _ _ (domE_inv T e env _ _) (fun y =>
          bind_inv _ _ _ _ _ _ (site_inv _ _ _) (fun _ => ok_inv _)))
    | .callS f args, env => by
      unfold domS checkS
      cases env.funcs[f]? with
      | none => exact stop_err_inv
      | some sg =>
        exact bind_inv _ _ _ _ _ _ (domArgs_inv T args env) (fun xs =>
          bind_inv _ _ _ _ _ _ (site_inv _ _ _) (fun _ => ok_inv _))
    | .ifS c t e, env => by
      unfold domS checkS
      exact bind_inv _ _ _ _ _ _ (domE_inv T c env _ _) (fun x =>
        bind_inv _ _ _ _ _ _ (domB_inv t env) (fun _ =>
          bind_inv _ _ _ _ _ _ (domB_inv e env) (fun _ =>
            bind_inv _ _ _ _ _ _ (site_inv _ _ _) (fun _ => ok_inv _))))
    | .forS c b, env => by
      unfold domS checkS
      exact bind_inv _ _ _ _ _ _ (domE_inv T c env _ _) (fun x =>
        bind_inv _ _ _ _ _ _ (domB_inv b env) (fun _ =>
          bind_inv _ _ _ _ _ _ (site_inv _ _ _) (fun _ => ok_inv _)))
    | .ret es, env => by
      unfold domS checkS
      exact bind_inv _ _ _ _ _ _ (domArgs_inv T es env) (fun xs =>
        bind_inv _ _ _ _ _ _ (site_inv _ _ _) (fun _ => ok_inv _))
  theorem domB_inv : ∀ (b : Block) (env : Env),
      Inv (domB T env b) (checkB (rulesY T) env b) (checkB rulesG env b)
    | .nil, env => by unfold domB checkB; exact ok_inv _
    | .cons s rest, env => by
      unfold domB checkB
      exact bind_inv _ _ _ _ _ _ (domS_inv s env) (fun vs => domB_inv rest _)
end

theorem domFns_inv (sigs : List Sig) : ∀ fs : List Fn,
    Inv (domFns T sigs fs) (checkFns (rulesY T) sigs fs) (checkFns rulesG sigs fs)
  | [] => by unfold domFns checkFns; exact ok_inv _
  | f :: rest => by
    unfold domFns checkFns
    exact bind_inv _ _ _ _ _ _ (domB_inv T f.body _) (fun _ => domFns_inv sigs rest)

theorem domProg_inv (p : Prog) : Inv (domProg T p) (checkProg (rulesY T) p) (checkProg rulesG p) := by
  unfold domProg checkProg
  exact bind_inv _ _ _ _ _ _ (domFns_inv T _ p.funcs) (fun _ => domB_inv T p.main _)

/-- **agreement inside the domain**: no differing check site ⇒ identical results -/
theorem agree (p : Prog) (h : Dom T p = true) : checkProg (rulesY T) p = checkProg rulesG p := by
  have hi := domProg_inv T p
  unfold Dom at h
  cases hd : domProg T p with
  | ok a => rw [hd] at hi; exact hi.1.trans hi.2.symm
  | stop => rw [hd] at hi; exact hi.1
  | lax c => rw [hd] at h; simp at h

end YaegiVerif.Typecheck
