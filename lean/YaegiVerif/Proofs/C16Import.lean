import YaegiVerif.Model.Src
/-
  C16 — the bookkeeping of importSrc (srcPkg / rdir): every import path is evaluated at most once, the
  evaluation order is a dependency order (so no cycle is ever evaluated), and the nesting depth is bounded
  by the number of import paths not yet marked in `rdir` (the mark is set before recursing).
-/
namespace YaegiVerif.Src

instance : DecidableEq ImpRes := fun a b =>
  match a, b with
  | .ok x, .ok y => if h : x = y then isTrue (h ▸ rfl) else isFalse (by intro e; cases e; exact h rfl)
  | .error x, .error y => if h : x = y then isTrue (h ▸ rfl) else isFalse (by intro e; cases e; exact h rfl)
  | .ok _, .error _ => isFalse (by intro e; cases e)
  | .error _, .ok _ => isFalse (by intro e; cases e)

/-- the bookkeeping as it is in the source today: all three statements present, in this order -/
def fullBook : Book := { onceTest := true, cycleTest := true, markBefore := true }

def paths (tr : List (String × String)) : List String := tr.map (·.1)

/-- every package of the trace has all its imports in `done` or earlier in the trace -/
def depOrdered (importsOf : String → List String) : List String → List (String × String) → Prop
  | _, [] => True
  | done, (p, d) :: rest => (∀ q ∈ importsOf d, q ∈ done) ∧ depOrdered importsOf (p :: done) rest

theorem depOrdered_mono (importsOf : String → List String) (tr : List (String × String)) :
    ∀ done done', (∀ q, q ∈ done → q ∈ done') → depOrdered importsOf done tr → depOrdered importsOf done' tr := by
  induction tr with
  | nil => intros; trivial
  | cons x rest ih =>
    intro done done' hsub h
    obtain ⟨p, d⟩ := x
    refine ⟨fun q hq => hsub q (h.1 q hq), ih (p :: done) (p :: done') ?_ h.2⟩
    intro q hq
    simp only [List.mem_cons] at hq ⊢
    rcases hq with h | h
    · exact Or.inl h
    · exact Or.inr (hsub q h)

theorem depOrdered_append (importsOf : String → List String) (a b : List (String × String)) :
    ∀ done, depOrdered importsOf done a → depOrdered importsOf ((paths a).reverse ++ done) b →
      depOrdered importsOf done (a ++ b) := by
  induction a with
  | nil => intro done _ hb; simpa [paths] using hb
  | cons x rest ih =>
    intro done ha hb
    obtain ⟨p, d⟩ := x
    refine ⟨ha.1, ih (p :: done) ha.2 ?_⟩
    apply depOrdered_mono importsOf b _ _ _ hb
    intro q hq
    simp only [paths, List.map_cons, List.reverse_cons, List.append_assoc, List.mem_append, List.mem_reverse,
      List.mem_map, List.mem_cons, List.mem_nil_iff, or_false] at hq ⊢
    rcases hq with h | h | h
    · exact Or.inl h
    · exact Or.inr (Or.inl h)
    · exact Or.inr (Or.inr h)

/-- what one successful call guarantees, from the state `st` it started in -/
structure Inv (importsOf : String → List String) (st st' : ImpState) (tr : List (String × String)) : Prop where
  rdirMono : ∀ q, q ∈ st.rdir → q ∈ st'.rdir
  fresh : ∀ q, q ∈ paths tr → q ∈ st'.rdir ∧ q ∉ st.rdir
  notDone : ∀ q, q ∈ paths tr → q ∉ st.srcPkg
  srcPkgEq : st'.srcPkg = (paths tr).reverse ++ st.srcPkg
  nodup : (paths tr).Nodup
  ordered : depOrdered importsOf st.srcPkg tr

def Good (importsOf : String → List String) (r : ImpRes) (st : ImpState) : Prop :=
  ∀ st' tr, r = .ok (st', tr) → Inv importsOf st st' tr

theorem inv_refl (importsOf : String → List String) (st : ImpState) : Inv importsOf st st [] :=
  ⟨fun _ h => h, by intro q hq; simp [paths] at hq, by intro q hq; simp [paths] at hq, by simp [paths], by simp [paths], trivial⟩

theorem inv_trans (importsOf : String → List String) (s0 s1 s2 : ImpState) (ta tb : List (String × String))
    (ha : Inv importsOf s0 s1 ta) (hb : Inv importsOf s1 s2 tb) : Inv importsOf s0 s2 (ta ++ tb) := by
  refine ⟨fun q h => hb.rdirMono q (ha.rdirMono q h), ?_, ?_, ?_, ?_, ?_⟩
  · intro q hq
    simp only [paths, List.map_append, List.mem_append] at hq
    rcases hq with h | h
    · exact ⟨hb.rdirMono q (ha.fresh q h).1, (ha.fresh q h).2⟩
    · exact ⟨(hb.fresh q h).1, fun h0 => (hb.fresh q h).2 (ha.rdirMono q h0)⟩
  · intro q hq
    simp only [paths, List.map_append, List.mem_append] at hq
    rcases hq with h | h
    · exact ha.notDone q h
    · intro h0
      exact hb.notDone q h (by rw [ha.srcPkgEq]; simp [h0])
  · rw [hb.srcPkgEq, ha.srcPkgEq]; simp [paths]
  · simp only [paths, List.map_append]
    rw [List.nodup_append]
    refine ⟨ha.nodup, hb.nodup, ?_⟩
    intro a haa b hbb hab
    subst hab
    exact (hb.fresh a hbb).2 (ha.fresh a haa).1
  · apply depOrdered_append importsOf ta tb _ ha.ordered
    rw [← ha.srcPkgEq]; exact hb.ordered

theorem good_importAllWith (importsOf : String → List String) (imp1 : ImpState → String → ImpRes)
    (h1 : ∀ s i, Good importsOf (imp1 s i) s) :
    ∀ l s, Good importsOf (importAllWith imp1 s l) s := by
  intro l
  induction l with
  | nil =>
    intro s st' tr h
    simp only [importAllWith, Except.ok.injEq, Prod.mk.injEq] at h
    obtain ⟨rfl, rfl⟩ := h
    exact inv_refl importsOf s
  | cons i rest ih =>
    intro s st' tr h
    unfold importAllWith at h
    cases ha : imp1 s i with
    | error e => rw [ha] at h; cases h
    | ok x =>
      obtain ⟨sa, ta⟩ := x
      rw [ha] at h
      simp only at h
      cases hb : importAllWith imp1 sa rest with
      | error e => rw [hb] at h; cases h
      | ok y =>
        obtain ⟨sb, tb⟩ := y
        rw [hb] at h
        simp only [Except.ok.injEq, Prod.mk.injEq] at h
        obtain ⟨rfl, rfl⟩ := h
        exact inv_trans importsOf s sa sb ta tb (h1 s i sa ta ha) (ih sa sb tb hb)

/-- the imports all end up imported -/
theorem importAllWith_imported (importsOf : String → List String) (imp1 : ImpState → String → ImpRes)
    (h1 : ∀ s i, Good importsOf (imp1 s i) s)
    (h2 : ∀ s i s' t, imp1 s i = .ok (s', t) → i ∈ s'.srcPkg) :
    ∀ l s s' t, importAllWith imp1 s l = .ok (s', t) → ∀ i ∈ l, i ∈ s'.srcPkg := by
  intro l
  induction l with
  | nil => intro s s' t _ i hi; cases hi
  | cons i rest ih =>
    intro s s' t h j hj
    unfold importAllWith at h
    cases ha : imp1 s i with
    | error e => rw [ha] at h; cases h
    | ok x =>
      obtain ⟨sa, ta⟩ := x
      rw [ha] at h
      simp only at h
      cases hb : importAllWith imp1 sa rest with
      | error e => rw [hb] at h; cases h
      | ok y =>
        obtain ⟨sb, tb⟩ := y
        rw [hb] at h
        simp only [Except.ok.injEq, Prod.mk.injEq] at h
        obtain ⟨rfl, rfl⟩ := h
        simp only [List.mem_cons] at hj
        rcases hj with rfl | hj
        · have := (good_importAllWith importsOf imp1 h1 rest sa sb tb hb).srcPkgEq
          rw [this]; simp only [List.mem_append]; right; exact h2 s j sa ta ha
        · exact ih sa sb tb hb j hj

theorem importSrc_imported (res : Resolver) (hasGo : String → Bool) (importsOf : String → List String) (subRoot : String → String → String) :
    ∀ fuel st rPath p st' tr, importSrc fullBook res hasGo importsOf subRoot fuel st rPath p = .ok (st', tr) → p ∈ st'.srcPkg := by
  intro fuel
  cases fuel with
  | zero => intro st rPath p st' tr h; simp [importSrc] at h
  | succ n =>
    intro st rPath p st' tr h
    unfold importSrc at h
    simp only [show fullBook.onceTest = true from rfl, show fullBook.cycleTest = true from rfl,
      show fullBook.markBefore = true from rfl, Bool.true_and] at h
    by_cases hs : st.srcPkg.contains p = true
    · simp only [hs, if_true, Except.ok.injEq, Prod.mk.injEq] at h
      obtain ⟨rfl, _⟩ := h
      simpa using hs
    · simp only [hs, Bool.false_eq_true, if_false] at h
      cases hr : res rPath p with
      | error e => rw [hr] at h; cases h
      | ok x =>
        obtain ⟨d, rp⟩ := x
        rw [hr] at h
        simp only at h
        by_cases hc : st.rdir.contains p = true
        · simp only [hc, if_true] at h; cases h
        · simp only [hc, Bool.false_eq_true, if_false, if_true] at h
          cases hg : hasGo d with
          | false => simp only [hg, Bool.not_false, if_true] at h; cases h
          | true =>
            simp only [hg, Bool.not_true, Bool.false_eq_true, if_false] at h
            split at h
            · cases h
            · simp only [Except.ok.injEq, Prod.mk.injEq] at h
              obtain ⟨rfl, _⟩ := h
              simp

/-- **The invariant of importSrc**, by induction on the nesting depth -/
theorem good_importSrc (res : Resolver) (hasGo : String → Bool) (importsOf : String → List String) (subRoot : String → String → String) :
    ∀ fuel st rPath p, Good importsOf (importSrc fullBook res hasGo importsOf subRoot fuel st rPath p) st := by
  intro fuel
  induction fuel with
  | zero => intro st rPath p st' tr h; simp [importSrc] at h
  | succ n ih =>
    intro st rPath p st' tr h
    unfold importSrc at h
    simp only [show fullBook.onceTest = true from rfl, show fullBook.cycleTest = true from rfl,
      show fullBook.markBefore = true from rfl, Bool.true_and] at h
    by_cases hs : st.srcPkg.contains p = true
    · simp only [hs, if_true, Except.ok.injEq, Prod.mk.injEq] at h
      obtain ⟨rfl, rfl⟩ := h
      exact inv_refl importsOf st
    · simp only [hs, Bool.false_eq_true, if_false] at h
      cases hr : res rPath p with
      | error e => rw [hr] at h; cases h
      | ok x =>
        obtain ⟨d, rp⟩ := x
        rw [hr] at h
        simp only at h
        by_cases hc : st.rdir.contains p = true
        · simp only [hc, if_true] at h; cases h
        · simp only [hc, Bool.false_eq_true, if_false, if_true] at h
          have hpr : p ∉ st.rdir := by simpa using hc
          have hps : p ∉ st.srcPkg := by simpa using hs
          cases hg : hasGo d with
          | false => simp only [hg, Bool.not_false, if_true] at h; cases h
          | true =>
          simp only [hg, Bool.not_true, Bool.false_eq_true, if_false] at h
          cases hsub : importAllWith (fun s i => importSrc fullBook res hasGo importsOf subRoot n s (subRoot rp p) i)
              { srcPkg := st.srcPkg, rdir := p :: st.rdir } (importsOf d) with
          | error e => rw [hsub] at h; cases h
          | ok y =>
            obtain ⟨s2, t2⟩ := y
            rw [hsub] at h
            simp only [Except.ok.injEq, Prod.mk.injEq] at h
            obtain ⟨rfl, rfl⟩ := h
            have hI := good_importAllWith importsOf _ (fun s i => ih s (subRoot rp p) i) (importsOf d) _ s2 t2 hsub
            have himp := importAllWith_imported importsOf _ (fun s i => ih s (subRoot rp p) i)
              (fun s i s' t hh => importSrc_imported res hasGo importsOf subRoot n s (subRoot rp p) i s' t hh)
              (importsOf d) _ s2 t2 hsub
            have hpnot : p ∉ paths t2 := fun hp => (hI.fresh p hp).2 (by simp)
            refine ⟨?_, ?_, ?_, ?_, ?_, ?_⟩
            · intro q hq; exact hI.rdirMono q (by simp [hq])
            · intro q hq
              simp only [paths, List.map_append, List.map_cons, List.map_nil, List.mem_append, List.mem_singleton] at hq
              rcases hq with hq | rfl
              · have := hI.fresh q hq
                exact ⟨this.1, fun h0 => this.2 (by simp [h0])⟩
              · exact ⟨hI.rdirMono q (by simp), hpr⟩
            · intro q hq
              simp only [paths, List.map_append, List.map_cons, List.map_nil, List.mem_append, List.mem_singleton] at hq
              rcases hq with hq | rfl
              · exact hI.notDone q hq
              · exact hps
            · simp only [paths, List.map_append, List.map_cons, List.map_nil, List.reverse_append, List.reverse_cons,
                List.reverse_nil, List.nil_append, List.cons_append]
              rw [hI.srcPkgEq]; simp [paths]
            · simp only [paths, List.map_append, List.map_cons, List.map_nil]
              rw [List.nodup_append]
              refine ⟨hI.nodup, by simp, ?_⟩
              intro a ha b hb hab
              simp only [List.mem_singleton] at hb
              subst hb; subst hab
              exact hpnot ha
            · apply depOrdered_append importsOf t2 [(p, d)] _ hI.ordered
              refine ⟨?_, trivial⟩
              intro q hq
              have := himp q hq
              rw [hI.srcPkgEq] at this
              exact this


/-! ### no unbounded recursion: the nesting depth is bounded by the unmarked import paths -/

/-- how many import paths of the universe `U` are not yet marked in `rdir` -/
def unmarked : List String → List String → Nat
  | [], _ => 0
  | u :: rest, rdir => (if rdir.contains u then 0 else 1) + unmarked rest rdir

theorem unmarked_mono (U rdir rdir' : List String) (h : ∀ q, q ∈ rdir → q ∈ rdir') :
    unmarked U rdir' ≤ unmarked U rdir := by
  induction U with
  | nil => simp [unmarked]
  | cons u rest ih =>
    by_cases h1 : u ∈ rdir
    · have c1 : rdir.contains u = true := by simpa using h1
      have c2 : rdir'.contains u = true := by simpa using h u h1
      simp only [unmarked, c1, c2, if_true]; omega
    · have c1 : rdir.contains u = false := by simpa using h1
      by_cases h2 : u ∈ rdir'
      · have c2 : rdir'.contains u = true := by simpa using h2
        simp only [unmarked, c1, c2, if_true, Bool.false_eq_true, if_false]; omega
      · have c2 : rdir'.contains u = false := by simpa using h2
        simp only [unmarked, c1, c2, Bool.false_eq_true, if_false]; omega

theorem unmarked_lt (U rdir : List String) (p : String) (hp : p ∈ U) (hn : p ∉ rdir) :
    unmarked U (p :: rdir) < unmarked U rdir := by
  induction U with
  | nil => cases hp
  | cons u rest ih =>
    have hm := unmarked_mono rest rdir (p :: rdir) (fun q hq => by simp [hq])
    by_cases hup : u = p
    · subst hup
      have c1 : rdir.contains u = false := by simpa using hn
      have c2 : (u :: rdir).contains u = true := by simp
      simp only [unmarked, c1, c2, if_true, Bool.false_eq_true, if_false]; omega
    · have hp' : p ∈ rest := by
        simp only [List.mem_cons] at hp
        rcases hp with h | h
        · exact absurd h.symm hup
        · exact h
      have := ih hp'
      by_cases h1 : u ∈ rdir
      · have c1 : rdir.contains u = true := by simpa using h1
        have c2 : (p :: rdir).contains u = true := by simp [h1]
        simp only [unmarked, c1, c2, if_true]; omega
      · have c1 : rdir.contains u = false := by simpa using h1
        have c2 : (p :: rdir).contains u = false := by simp [h1, hup]
        simp only [unmarked, c1, c2, Bool.false_eq_true, if_false]; omega

theorem importAllWith_no_fuel (importsOf : String → List String) (imp1 : ImpState → String → ImpRes)
    (U : List String) (n : Nat)
    (h1 : ∀ s i, Good importsOf (imp1 s i) s)
    (h2 : ∀ s i, i ∈ U → unmarked U s.rdir < n → imp1 s i ≠ .error .fuel) :
    ∀ l s, (∀ i ∈ l, i ∈ U) → unmarked U s.rdir < n → importAllWith imp1 s l ≠ .error .fuel := by
  intro l
  induction l with
  | nil => intro s _ _; simp [importAllWith]
  | cons i rest ih =>
    intro s hl hm
    unfold importAllWith
    cases ha : imp1 s i with
    | error e =>
      simp only
      intro h0
      simp only [Except.error.injEq] at h0
      subst h0
      exact h2 s i (hl i (by simp)) hm ha
    | ok x =>
      obtain ⟨sa, ta⟩ := x
      simp only
      have hmono := (h1 s i sa ta ha).rdirMono
      have hma : unmarked U sa.rdir < n := Nat.lt_of_le_of_lt (unmarked_mono U s.rdir sa.rdir hmono) hm
      have := ih sa (fun j hj => hl j (by simp [hj])) hma
      cases hb : importAllWith imp1 sa rest with
      | error e =>
        simp only
        intro h0
        simp only [Except.error.injEq] at h0
        subst h0
        exact this hb
      | ok y => simp

/-- **No recursion without end**: if every import path that can be met belongs to the finite list `U`, a
    nesting depth of (number of paths of `U` not yet in `rdir`) + 1 is never exceeded — because the mark is
    set before recursing and tested before anything else is done with a resolved path. -/
theorem importSrc_no_fuel (res : Resolver) (hasGo : String → Bool) (importsOf : String → List String) (subRoot : String → String → String)
    (U : List String) (hU : ∀ d i, i ∈ importsOf d → i ∈ U) (hresf : ∀ rp q, res rp q ≠ .error .fuel) :
    ∀ fuel st rPath p, p ∈ U → unmarked U st.rdir < fuel →
      importSrc fullBook res hasGo importsOf subRoot fuel st rPath p ≠ .error .fuel := by
  intro fuel
  induction fuel with
  | zero => intro st rPath p _ h; omega
  | succ n ih =>
    intro st rPath p hp hm
    unfold importSrc
    simp only [show fullBook.onceTest = true from rfl, show fullBook.cycleTest = true from rfl,
      show fullBook.markBefore = true from rfl, Bool.true_and]
    by_cases hs : st.srcPkg.contains p = true
    · simp only [hs, if_true]; intro h0; cases h0
    · simp only [hs, Bool.false_eq_true, if_false]
      cases hr : res rPath p with
      | error e =>
        simp only [ne_eq, Except.error.injEq]
        intro h0; subst h0; exact hresf rPath p hr
      | ok x =>
        obtain ⟨d, rp⟩ := x
        simp only
        by_cases hc : st.rdir.contains p = true
        · simp only [hc, if_true]; intro h0; cases h0
        · simp only [hc, Bool.false_eq_true, if_false, if_true]
          have hpr : p ∉ st.rdir := by simpa using hc
          have hlt := unmarked_lt U st.rdir p hp hpr
          cases hg : hasGo d with
          | false => simp only [Bool.not_false, if_true]; intro h0; cases h0
          | true =>
          simp only [Bool.not_true, Bool.false_eq_true, if_false]
          have hsub := importAllWith_no_fuel importsOf
            (fun s i => importSrc fullBook res hasGo importsOf subRoot n s (subRoot rp p) i) U n
            (fun s i => good_importSrc res hasGo importsOf subRoot n s (subRoot rp p) i)
            (fun s i hi hms => ih s (subRoot rp p) i hi hms)
            (importsOf d) { srcPkg := st.srcPkg, rdir := p :: st.rdir } (fun i hi => hU d i hi) (by simp only; omega)
          cases hsubr : importAllWith (fun s i => importSrc fullBook res hasGo importsOf subRoot n s (subRoot rp p) i)
              { srcPkg := st.srcPkg, rdir := p :: st.rdir } (importsOf d) with
          | error e =>
            simp only
            intro h0
            simp only [Except.error.injEq] at h0
            subst h0
            exact hsub hsubr
          | ok y => simp

/-- an import path met again while it is being loaded (marked, not yet registered) is an error -/
theorem importSrc_in_progress_is_cycle (res : Resolver) (hasGo : String → Bool) (importsOf : String → List String) (subRoot : String → String → String)
    (fuel : Nat) (st : ImpState) (rPath p d rp : String)
    (hres : res rPath p = .ok (d, rp)) (hin : p ∈ st.rdir) (hnot : p ∉ st.srcPkg) :
    importSrc fullBook res hasGo importsOf subRoot (fuel + 1) st rPath p = .error (.cycle p) := by
  unfold importSrc
  have h1 : st.srcPkg.contains p = false := by simpa using hnot
  have h2 : st.rdir.contains p = true := by simpa using hin
  simp only [show fullBook.onceTest = true from rfl, show fullBook.cycleTest = true from rfl, Bool.true_and,
    h1, h2, hres, Bool.false_eq_true, if_false, if_true]

end YaegiVerif.Src
