import YaegiVerif.Model.RunId
import YaegiVerif.Proofs.C09Inv
import YaegiVerif.Proofs.C09Stop
/-
  Helper lemmas for C09: invariants that hold before the cancellation (every blocking operation of the
  program is of a cancellable variant; a blocked goroutine is not armed), the step from a reachable state to
  the dead state the cancellation produces, and the stability of the returned error.
-/
namespace YaegiVerif.Proofs.C09
open YaegiVerif.RunId

structure PreG (F : RunIdFacts) (g : G) : Prop where
  canc : g.canc F = true
  wf : g.blocked.isSome = true → g.armed = false

structure Pre (F : RunIdFacts) (σ : St) : Prop where
  gs : ∀ g ∈ σ.gs, PreG F g
  list : ∀ e ∈ σ.runList, e.prog.canc F = true

theorem stepG_pre (F : RunIdFacts) (σ : St) (g : G) (hl : ∀ e ∈ σ.runList, e.prog.canc F = true) (h : PreG F g) :
    PreG F (stepG F σ g).1 ∧ (∀ s ∈ (stepG F σ g).2.1, PreG F s) ∧ (∀ e ∈ (stepG F σ g).2.2, e.prog.canc F = true) := by
  obtain ⟨hca, hwf⟩ := h
  obtain ⟨stack, armed, blocked, ops, ticks, main⟩ := g
  cases blocked with
  | some kc =>
    obtain ⟨k, rel⟩ := kc
    have harm : armed = false := by simpa using hwf
    subst harm
    have hall : stack.all (fun fr => fr.pc.canc F && fr.cur) = true := by
      simp only [G.canc, Bool.and_eq_true] at hca; exact hca.1
    simp only [stepG, wake]
    refine ⟨?_, by simp, hl⟩
    split
    · refine ⟨?_, by simp⟩
      simp only [G.canc, Bool.and_true]
      cases stack with
      | nil => rfl
      | cons a t => simp only [List.tail_cons]; simp only [List.all_cons, Bool.and_eq_true] at hall; exact hall.2
    · exact ⟨hca, by simp⟩
  | none =>
    cases armed with
    | true =>
      cases stack with
      | nil => simp only [stepG, execOp]; exact ⟨⟨by simp [G.canc], by simp⟩, by simp, hl⟩
      | cons fr rest =>
        obtain ⟨fid, pc, fcur⟩ := fr
        have hall : ((pc.canc F && fcur) && rest.all (fun fr => fr.pc.canc F && fr.cur)) = true := by simpa [G.canc] using hca
        simp only [Bool.and_eq_true] at hall
        obtain ⟨⟨hpc, hfc⟩, hrc⟩ := hall
        subst hfc
        cases pc with
        | done => simp only [stepG, execOp]; exact ⟨⟨by simpa [G.canc] using hca, by simp⟩, by simp, hl⟩
        | step p =>
          simp only [stepG, execOp]; simp only [Prog.canc] at hpc
          exact ⟨⟨by simp [G.canc, hpc, hrc], by simp⟩, by simp, hl⟩
        | tick p =>
          simp only [stepG, execOp]; simp only [Prog.canc] at hpc
          exact ⟨⟨by simp [G.canc, hpc, hrc], by simp⟩, by simp, hl⟩
        | mkclosure p =>
          simp only [stepG, execOp]; simp only [Prog.canc] at hpc
          exact ⟨⟨by simp [G.canc, hpc, hrc], by simp⟩, by simp, hl⟩
        | call s body p =>
          simp only [stepG, execOp]; simp only [Prog.canc, Bool.and_eq_true] at hpc
          exact ⟨⟨by simp [G.canc, hpc.1.1, hpc.1.2, hpc.2, hrc], by simp⟩, by simp, hl⟩
        | spawn ss body p =>
          simp only [stepG, execOp]; simp only [Prog.canc, Bool.and_eq_true] at hpc
          refine ⟨⟨by simp [G.canc, hpc.2, hrc], by simp⟩, ?_, hl⟩
          intro s hs; simp at hs; subst hs
          exact ⟨by simp [newG, G.canc, hpc.1.1, hpc.1.2], by simp [newG]⟩
        | block k c p =>
          simp only [stepG, execOp]; simp only [Prog.canc, Bool.and_eq_true] at hpc
          exact ⟨⟨by simp [G.canc, hpc.1, hpc.2, hrc], by simp⟩, by simp, hl⟩
    | false =>
      cases stack with
      | nil =>
        cases main with
        | false => simp only [stepG, advance]; exact ⟨⟨by simp [G.canc], by simp⟩, by simp, hl⟩
        | true =>
          cases hrl : σ.runList with
          | nil => simp only [stepG, advance, hrl]; exact ⟨⟨by simp [G.canc], by simp⟩, by simp, by simp⟩
          | cons e es =>
            have he : e.prog.canc F = true := hl e (by simp [hrl])
            have hes : ∀ x ∈ es, x.prog.canc F = true := fun x hx => hl x (by simp [hrl, hx])
            by_cases hx : (F.execChecksCancel && σ.done) = true
            · have key : stepG F σ { stack := [], armed := false, blocked := none, ops := ops, ticks := ticks, main := true } =
                  ({ stack := [], armed := false, blocked := none, ops := ops, ticks := ticks, main := true }, [], []) := by
                simp [stepG, advance, hrl, hx]
              rw [key]
              exact ⟨⟨by simp [G.canc], by simp⟩, by simp, by simp⟩
            · have key : stepG F σ { stack := [], armed := false, blocked := none, ops := ops, ticks := ticks, main := true } =
                  ({ stack := [⟨if e.root then σ.rootId else newId F.entryId σ.rootId σ.id, e.prog, true⟩], armed := false,
                     blocked := none, ops := ops, ticks := ticks, main := true }, [], es) := by
                simp [stepG, advance, hrl, hx]
              rw [key]
              exact ⟨⟨by simp [G.canc, he], by simp⟩, by simp, hes⟩
      | cons fr rest =>
        obtain ⟨fid, pc, fcur⟩ := fr
        have hall : ((pc.canc F && fcur) && rest.all (fun fr => fr.pc.canc F && fr.cur)) = true := by simpa [G.canc] using hca
        simp only [Bool.and_eq_true] at hall
        by_cases hg : guardOk F fid σ.id = true
        · cases pc <;> simp only [stepG, advance, hg, if_true] <;>
            exact ⟨⟨by simp [G.canc, hall.1.1, hall.1.2, hall.2], by simp⟩, by simp, hl⟩
        · cases pc <;> simp only [stepG, advance, hg] <;>
            exact ⟨⟨by simp [G.canc, hall.2], by simp⟩, by simp, hl⟩

theorem pre_step (F : RunIdFacts) (σ : St) (c : Choice) (h : Pre F σ) : Pre F (stepC F σ c) := by
  cases c with
  | run i =>
    show Pre F (stepRun F σ i)
    unfold stepRun
    cases hg : σ.gs[i]? with
    | none => exact h
    | some g =>
      have hs := stepG_pre F σ g h.list (h.gs g (List.mem_of_getElem? hg))
      obtain ⟨m1, _, _, m4⟩ := markReturn_gs g.main (finished (stepG F σ g).1 && (stepG F σ g).2.2.isEmpty)
        { σ with gs := σ.gs.set i (stepG F σ g).1 ++ (stepG F σ g).2.1, runList := (stepG F σ g).2.2 }
      refine ⟨?_, by rw [m4]; exact hs.2.2⟩
      rw [m1]
      intro x hx
      rcases mem_set_append hx with hx | hx | hx
      · exact h.gs x hx
      · subst hx; exact hs.1
      · exact hs.2.1 x hx
  | comm i =>
    show Pre F (stepComm σ i)
    unfold stepComm
    split
    · exact h
    · rename_i g hg
      split
      · exact h
      · refine ⟨?_, h.list⟩
        intro x hx
        rcases List.mem_or_eq_of_mem_set hx with hx | hx
        · exact h.gs x hx
        · subst hx
          have hd := h.gs g (List.mem_of_getElem? hg)
          refine ⟨?_, by simp⟩
          have := hd.canc
          simp only [G.canc, Bool.and_eq_true] at this ⊢
          exact ⟨this.1, trivial⟩
  | stop =>
    show Pre F (stepStop F σ)
    unfold stepStop
    split
    · exact ⟨h.gs, h.list⟩
    · exact h

theorem pre_runSched (F : RunIdFacts) (cs : List Choice) (σ : St) (h : Pre F σ) : Pre F (runSched F σ cs) := by
  induction cs generalizing σ with
  | nil => exact h
  | cons c cs ih => exact ih _ (pre_step F σ c h)

theorem pre_start (F : RunIdFacts) (id rootId : Nat) (entries : List Entry) (h : ∀ e ∈ entries, e.prog.canc F = true) :
    Pre F (start F id rootId entries) := by
  refine ⟨?_, h⟩
  intro g hg
  simp only [start, List.mem_cons, List.not_mem_nil, or_false] at hg
  subst hg
  exact ⟨by simp [G.canc], by simp⟩

/-- the cancellation turns a reachable state inside the domain into a dead state -/
theorem dead_of_stop {F : RunIdFacts} (hF : Sound F) (σ : St) (hi : Inv σ) (hp : Pre F σ) (hw : σ.watching = true)
    (hl : σ.runList = [] ∨ F.execChecksCancel = true) : Dead F (stepStop F σ) := by
  simp only [stepStop, hw, if_true, hF.wstops, hF.bumps, hF.closes, Bool.and_self, Bool.or_true]
  refine ⟨rfl, hl, ?_⟩
  intro g hg
  obtain ⟨c, hc, hall⟩ := hi.frames g hg
  have hpg := hp.gs g hg
  refine ⟨?_, hpg.canc, hpg.wf⟩
  intro fr hfr
  have := hall fr hfr
  show fr.id < σ.id + 1
  omega

/-- once the `…WithContext` call has returned, what it returned does not change -/
theorem ret_stable (F : RunIdFacts) (cs : List Choice) (σ : St) (h : σ.watching = false) :
    (runSched F σ cs).watching = false ∧ (runSched F σ cs).ret = σ.ret := by
  induction cs generalizing σ with
  | nil => exact ⟨h, rfl⟩
  | cons c cs ih =>
    have key : (stepC F σ c).watching = false ∧ (stepC F σ c).ret = σ.ret := by
      cases c with
      | run i =>
        show (stepRun F σ i).watching = false ∧ (stepRun F σ i).ret = σ.ret
        unfold stepRun
        split
        · exact ⟨h, rfl⟩
        · simp [markReturn, h]
      | comm i =>
        show (stepComm σ i).watching = false ∧ (stepComm σ i).ret = σ.ret
        unfold stepComm
        split
        · exact ⟨h, rfl⟩
        · split <;> exact ⟨h, rfl⟩
      | stop =>
        show (stepStop F σ).watching = false ∧ (stepStop F σ).ret = σ.ret
        simp [stepStop, h]
    have := ih (stepC F σ c) key.1
    exact ⟨this.1, this.2.trans key.2⟩

theorem weight_zero_finished (gs : List G) (h : sumWeights gs = 0) : ∀ g ∈ gs, finished g = true := by
  induction gs with
  | nil => intro g hg; cases hg
  | cons x xs ih =>
    simp only [sumWeights] at h
    intro g hg
    simp only [List.mem_cons] at hg
    rcases hg with rfl | hg
    · have hx : g.weight = 0 := by omega
      simp only [G.weight] at hx
      have h1 : g.stack.length = 0 := by omega
      have h2 : g.armed = false := by
        cases ha : g.armed with
        | false => rfl
        | true => simp [ha] at hx
      have h3 : g.blocked.isSome = false := by
        cases hb : g.blocked.isSome with
        | false => rfl
        | true => simp [hb] at hx
      simp [finished, List.length_eq_zero_iff.mp h1, h2]
      cases hbb : g.blocked with
      | none => rfl
      | some v => simp [hbb] at h3
    · exact ih (by omega) g hg

theorem opsOf_le_potAt (σ : St) (i : Nat) : opsOf σ i ≤ potAt σ i := by
  simp only [opsOf, potAt]; cases σ.gs[i]? <;> simp [pot]

theorem potAt_eq (σ : St) (i : Nat) : potAt σ i = opsOf σ i + (if armedOf σ i then 1 else 0) := by
  cases h : σ.gs[i]? <;> simp [potAt, opsOf, armedOf, h, pot]

theorem tpotAt_eq (σ : St) (i : Nat) : tpotAt σ i = ticksOf σ i + (if armedOf σ i then 1 else 0) := by
  cases h : σ.gs[i]? <;> simp [tpotAt, ticksOf, armedOf, h, tpot]

theorem ticksOf_le_tpotAt (σ : St) (i : Nat) : ticksOf σ i ≤ tpotAt σ i := by
  simp only [ticksOf, tpotAt]; cases σ.gs[i]? <;> simp [tpot]

end YaegiVerif.Proofs.C09
