import YaegiVerif.Model.RunId
import YaegiVerif.Proofs.C09Inv
import YaegiVerif.Proofs.C09Stop
/-
  Helper lemmas for C09: invariants that hold before the cancellation (every blocking operation of the
  program is of a cancellable variant and every frame races the current done channel; a blocked goroutine is not
  armed), the step from a reachable state to the dead state the cancellation produces, and the stability of the
  returned error.
-/
namespace YaegiVerif.Proofs.C09
open YaegiVerif.RunId

structure PreG (F : RunIdFacts) (g : G) : Prop where
  canc : g.canc F = true
  wf : g.blocked.isSome = true → g.armed = false

/-- what holds as long as the `…WithContext` call watches its context -/
structure PreS (F : RunIdFacts) (σ : St) : Prop where
  gs : ∀ g ∈ σ.gs, PreG F g
  list : ∀ e ∈ σ.runList, e.prog.canc F = true
  fresh : σ.renewed = false
  rootCur : σ.rootCur = true

def Pre (F : RunIdFacts) (σ : St) : Prop := σ.watching = true → PreS F σ

theorem gcanc_iff (F : RunIdFacts) (g : G) : g.canc F = true ↔
    (g.stack.all (fun fr => fr.pc.canc F && fr.cur) = true ∧
     (∀ k r, g.blocked = some (k, r) → r = true) ∧
     (∀ pd, g.pending = some pd → pd.body.canc F = true ∧ childCur F pd.site pd.pcur true true = true)) := by
  obtain ⟨stack, armed, blocked, ops, ticks, main, pending⟩ := g
  cases blocked with
  | none => cases pending with
    | none => simp [G.canc]
    | some pd => simp [G.canc]
  | some kr =>
    obtain ⟨k, r⟩ := kr
    cases pending with
    | none => simp [G.canc]
    | some pd => simp [G.canc, and_assoc]

theorem stepG_pre (F : RunIdFacts) (σ : St) (g : G) (hl : ∀ e ∈ σ.runList, e.prog.canc F = true)
    (hren : σ.renewed = false) (hrc : σ.rootCur = true) (h : PreG F g) :
    PreG F (stepG F σ g).g ∧ (∀ s ∈ (stepG F σ g).spawned, PreG F s) ∧
    (∀ e ∈ (stepG F σ g).list, e.prog.canc F = true) ∧ (stepG F σ g).rootCur = true := by
  obtain ⟨hca, hwf⟩ := h
  obtain ⟨hall, hrel, hpend⟩ := (gcanc_iff F g).mp hca
  obtain ⟨stack, armed, blocked, ops, ticks, main, pending⟩ := g
  simp only at hall hrel hpend
  have hcn : curNow σ = true := by simp [curNow, hren]
  cases blocked with
  | some kc =>
    obtain ⟨k, rel⟩ := kc
    have harm : armed = false := by simpa using hwf
    subst harm
    simp only [stepG, wake]
    refine ⟨?_, by simp, hl, hrc⟩
    split
    · refine ⟨(gcanc_iff F _).mpr ⟨?_, (fun _ _ h => nomatch h), hpend⟩, by simp⟩
      cases stack with
      | nil => rfl
      | cons a t => simp only [List.tail_cons]; simp only [List.all_cons, Bool.and_eq_true] at hall; exact hall.2
    · exact ⟨hca, by simp⟩
  | none =>
    cases armed with
    | true =>
      cases stack with
      | nil =>
        simp only [stepG, execOp]
        exact ⟨⟨(gcanc_iff F _).mpr ⟨rfl, (fun _ _ h => nomatch h), hpend⟩, by simp⟩, by simp, hl, hrc⟩
      | cons fr rest =>
        obtain ⟨fid, pc, fcur, fearly⟩ := fr
        simp only [List.all_cons, Bool.and_eq_true] at hall
        obtain ⟨⟨hpc, hfc⟩, hrc'⟩ := hall
        subst hfc
        have mk : ∀ (st : List Frame) (o t : Nat), st.all (fun fr => fr.pc.canc F && fr.cur) = true →
            PreG F { stack := st, armed := false, blocked := none, ops := o, ticks := t, main := main, pending := pending } :=
          fun st o t hs => ⟨(gcanc_iff F _).mpr ⟨hs, (fun _ _ h => nomatch h), hpend⟩, by simp⟩
        cases pc with
        | done =>
          simp only [stepG, execOp]
          exact ⟨mk _ _ _ (by simp [hpc, hrc']), by simp, hl, hrc⟩
        | step p =>
          simp only [stepG, execOp]; simp only [Prog.canc] at hpc
          exact ⟨mk _ _ _ (by simp [hpc, hrc']), by simp, hl, hrc⟩
        | tick p =>
          simp only [stepG, execOp]; simp only [Prog.canc] at hpc
          exact ⟨mk _ _ _ (by simp [hpc, hrc']), by simp, hl, hrc⟩
        | mkclosure p =>
          simp only [stepG, execOp]; simp only [Prog.canc] at hpc
          exact ⟨mk _ _ _ (by simp [hpc, hrc']), by simp, hl, hrc⟩
        | call s body p =>
          simp only [stepG, execOp]; simp only [Prog.canc, Bool.and_eq_true] at hpc
          exact ⟨mk _ _ _ (by simp [hpc.1.1, hpc.1.2, hpc.2, hrc', hrc, hcn]), by simp, hl, hrc⟩
        | spawn ss body p =>
          simp only [stepG, execOp]; simp only [Prog.canc, Bool.and_eq_true] at hpc
          refine ⟨mk _ _ _ (by simp [hpc.2, hrc']), ?_, hl, hrc⟩
          intro s hs; simp at hs; subst hs
          refine ⟨(gcanc_iff F _).mpr ⟨rfl, (fun _ _ h => nomatch h), ?_⟩, by simp [newG]⟩
          intro pd hpd
          simp only [newG, Option.some.injEq] at hpd
          subst hpd
          exact ⟨hpc.1.2, hpc.1.1⟩
        | block k c p =>
          simp only [stepG, execOp]; simp only [Prog.canc, Bool.and_eq_true] at hpc
          refine ⟨⟨(gcanc_iff F _).mpr ⟨by simp [hpc.2, hrc'], ?_, hpend⟩, by simp⟩, by simp, hl, hrc⟩
          intro k' r hkr
          have h2 := congrArg Prod.snd (Option.some.inj hkr)
          simp only [hpc.1, Bool.and_self] at h2
          exact h2.symm
    | false =>
      cases pending with
      | some pd =>
        obtain ⟨hb, hc⟩ := hpend pd rfl
        simp only [stepG, advance]
        refine ⟨⟨(gcanc_iff F _).mpr ⟨by simp [hb, hrc, hc, hcn], (fun _ _ h => nomatch h), (fun _ h => nomatch h)⟩, by simp⟩, by simp, hl, hrc⟩
      | none =>
        have mk : ∀ (st : List Frame), st.all (fun fr => fr.pc.canc F && fr.cur) = true →
            PreG F { stack := st, armed := false, blocked := none, ops := ops, ticks := ticks, main := main, pending := none } :=
          fun st hs => ⟨(gcanc_iff F _).mpr ⟨hs, (fun _ _ h => nomatch h), (fun _ h => nomatch h)⟩, by simp⟩
        cases stack with
        | nil =>
          cases main with
          | false => simp only [stepG, advance]; exact ⟨mk _ rfl, by simp, hl, hrc⟩
          | true =>
            cases hrl : σ.runList with
            | nil => simp only [stepG, advance, hrl]; exact ⟨mk _ rfl, by simp, by simp, hrc⟩
            | cons e es =>
              have he : e.prog.canc F = true := hl e (by simp [hrl])
              have hes : ∀ x ∈ es, x.prog.canc F = true := fun x hx => hl x (by simp [hrl, hx])
              by_cases hx : (F.execChecksCancel && σ.done) = true
              · have key : stepG F σ { stack := [], armed := false, blocked := none, ops := ops, ticks := ticks, main := true, pending := none } =
                    ⟨{ stack := [], armed := false, blocked := none, ops := ops, ticks := ticks, main := true, pending := none }, [], [], σ.rootCur⟩ := by
                  simp [stepG, advance, hrl, hx]
                rw [key]
                exact ⟨mk _ rfl, by simp, by simp, hrc⟩
              · have key : stepG F σ { stack := [], armed := false, blocked := none, ops := ops, ticks := ticks, main := true, pending := none } =
                    ⟨{ stack := [⟨if e.root then σ.rootId else newId F.entryId σ.rootId σ.id σ.rootId false, e.prog, true, false⟩], armed := false,
                       blocked := none, ops := ops, ticks := ticks, main := true, pending := none }, [], es, true⟩ := by
                  simp [stepG, advance, hrl, hx, hcn, hrc]
                rw [key]
                exact ⟨mk _ (by simp [he]), by simp, hes, rfl⟩
        | cons fr rest =>
          obtain ⟨fid, pc, fcur, fearly⟩ := fr
          have hall' := hall
          simp only [List.all_cons, Bool.and_eq_true] at hall'
          by_cases hg : guardOk F fid σ.id = true
          · cases pc <;> simp only [stepG, advance, hg, Bool.false_eq_true, ↓reduceIte] <;>
              first
                | exact ⟨mk _ hall'.2, by simp, hl, hrc⟩
                | exact ⟨⟨(gcanc_iff F _).mpr ⟨hall, (fun _ _ h => nomatch h), (fun _ h => nomatch h)⟩, by simp⟩, by simp, hl, hrc⟩
          · cases pc <;> simp only [stepG, advance, hg, Bool.false_eq_true, ↓reduceIte] <;>
              exact ⟨mk _ hall'.2, by simp, hl, hrc⟩

/-- once the `…WithContext` call has stopped watching it does not start again -/
theorem watching_step (F : RunIdFacts) (σ : St) (c : Choice) (h : (stepC F σ c).watching = true) : σ.watching = true := by
  cases c with
  | run i =>
    change (stepRun F σ i).watching = true at h
    unfold stepRun at h
    split at h
    · exact h
    · unfold execReturn at h
      split at h
      · simp at h
      · exact h
  | comm i =>
    change (stepComm σ i).watching = true at h
    unfold stepComm at h
    split at h
    · exact h
    · split at h <;> exact h
  | stop =>
    change (stepStop F σ).watching = true at h
    unfold stepStop at h
    split at h
    · simp at h
    · exact h

theorem pre_step (F : RunIdFacts) (σ : St) (c : Choice) (h : Pre F σ) : Pre F (stepC F σ c) := by
  intro hw'
  have hw := watching_step F σ c hw'
  have hp := h hw
  cases c with
  | run i =>
    show PreS F (stepRun F σ i)
    cases hg : σ.gs[i]? with
    | none => simpa [stepRun, hg] using hp
    | some g =>
      have hs := stepG_pre F σ g hp.list hp.fresh hp.rootCur (hp.gs g (List.mem_of_getElem? hg))
      unfold stepRun
      simp only [hg]
      obtain ⟨m1, _, _, m4, m5, m6⟩ := execReturn_fields F g.main (finished (stepG F σ g).g && (stepG F σ g).list.isEmpty)
        { σ with gs := σ.gs.set i (stepG F σ g).g ++ (stepG F σ g).spawned, runList := (stepG F σ g).list, rootCur := (stepG F σ g).rootCur }
      refine ⟨?_, by rw [m4]; exact hs.2.2.1, by rw [m6]; exact hp.fresh, by rw [m5]; exact hs.2.2.2⟩
      rw [m1]
      intro x hx
      rcases mem_set_append hx with hx | hx | hx
      · exact hp.gs x hx
      · subst hx; exact hs.1
      · exact hs.2.1 x hx
  | comm i =>
    show PreS F (stepComm σ i)
    unfold stepComm
    split
    · exact hp
    · rename_i g hg
      split
      · exact hp
      · refine ⟨?_, hp.list, hp.fresh, hp.rootCur⟩
        intro x hx
        rcases List.mem_or_eq_of_mem_set hx with hx | hx
        · exact hp.gs x hx
        · subst hx
          have hd := hp.gs g (List.mem_of_getElem? hg)
          obtain ⟨a, _, c⟩ := (gcanc_iff F g).mp hd.canc
          exact ⟨(gcanc_iff F _).mpr ⟨a, (fun _ _ h => nomatch h), c⟩, by simp⟩
  | stop =>
    change (stepStop F σ).watching = true at hw'
    simp [stepStop, hw] at hw'

theorem pre_runSched (F : RunIdFacts) (cs : List Choice) (σ : St) (h : Pre F σ) : Pre F (runSched F σ cs) := by
  induction cs generalizing σ with
  | nil => exact h
  | cons c cs ih => exact ih _ (pre_step F σ c h)

theorem pre_start (F : RunIdFacts) (id rootId : Nat) (entries : List Entry) (h : ∀ e ∈ entries, e.prog.canc F = true) :
    Pre F (start F id rootId entries) := by
  intro _
  refine ⟨?_, h, rfl, rfl⟩
  intro g hg
  simp only [start, List.mem_cons, List.not_mem_nil, or_false] at hg
  subst hg
  exact ⟨by simp [G.canc], by simp⟩

/-- the cancellation turns a reachable state inside the domain into a dead state -/
theorem dead_of_stop {F : RunIdFacts} (hF : Sound F) (σ : St) (hi : Inv σ) (hm : MainOk σ) (hp : Pre F σ)
    (hw : σ.watching = true) (hdom : ∀ g ∈ σ.gs, g.fvPending F = false) : Dead F (stepStop F σ) := by
  have hps := hp hw
  simp only [stepStop, hw, if_true, hF.wstops, hF.bumps, hF.closes, hF.marks, hF.plumbing, Bool.and_self, Bool.or_true]
  refine ⟨rfl, rfl, ⟨hm.main0, hm.has⟩, ?_, Nat.lt_succ_of_le hi.root⟩
  intro g hg
  obtain ⟨hle, hlp⟩ := hi.frames g hg
  have hpg := hps.gs g hg
  obtain ⟨hall, hrel, hpend⟩ := (gcanc_iff F g).mp hpg.canc
  have hfv := hdom g hg
  simp only [G.fvPending, Bool.or_eq_false_iff] at hfv
  have split : ∀ (s : Site) (e : Bool), (fvSite F s && childEarly s e) = false →
      F.site s = .parent ∨ (F.site s = .epoch ∧ childEarly s e = false) := by
    intro s e h
    rcases hF.site s with h1 | h1
    · exact Or.inl h1
    · right
      refine ⟨h1, ?_⟩
      simpa [fvSite, h1] using h
  refine ⟨fun fr hfr => Nat.lt_succ_of_le (hle fr hfr), ?_, hrel, hpg.wf, ?_⟩
  · intro pd hpd
    have h1 := hfv.1
    simp only [hpd] at h1
    rcases split pd.site pd.pearly h1 with h2 | h2
    · exact Or.inl ⟨h2, Nat.lt_succ_of_le (hlp pd hpd)⟩
    · exact Or.inr h2
  · intro ha fr rest hst
    have h2 := hfv.2
    simp only [ha, hst, Bool.true_and] at h2
    have hfr : (fr.pc.canc F && fr.cur) = true := by
      have := List.all_eq_true.mp hall fr (by rw [hst]; simp)
      exact this
    simp only [Bool.and_eq_true] at hfr
    refine ⟨hfr.2, hfr.1, ?_, ?_⟩
    · intro s b p hpc
      simp only [hpc] at h2
      rcases split s fr.early h2 with h3 | h3
      · exact Or.inl h3
      · exact Or.inr h3.2
    · intro s b p hpc
      simp only [hpc] at h2
      rcases split s fr.early h2 with h3 | h3
      · exact Or.inl h3
      · exact Or.inr h3.2

/-- once the `…WithContext` call has returned, what it returned does not change -/
theorem ret_stable (F : RunIdFacts) (cs : List Choice) (σ : St) (h : σ.watching = false) :
    (runSched F σ cs).watching = false ∧ (runSched F σ cs).ret = σ.ret := by
  induction cs generalizing σ with
  | nil => exact ⟨h, rfl⟩
  | cons c cs ih =>
    have key : (stepC F σ c).watching = false ∧ (stepC F σ c).ret = σ.ret := by
      cases c with
      | run i =>
        show (stepRun F σ i).watching = false ∧ (stepRun F σ i).ret = σ.ret
        unfold stepRun
        split
        · exact ⟨h, rfl⟩
        · unfold execReturn
          split <;> simp [h]
      | comm i =>
        show (stepComm σ i).watching = false ∧ (stepComm σ i).ret = σ.ret
        unfold stepComm
        split
        · exact ⟨h, rfl⟩
        · split <;> exact ⟨h, rfl⟩
      | stop =>
        show (stepStop F σ).watching = false ∧ (stepStop F σ).ret = σ.ret
        simp [stepStop, h]
    have := ih (stepC F σ c) key.1
    exact ⟨this.1, this.2.trans key.2⟩

theorem weight_zero_finished (gs : List G) (h : sumWeights gs = 0) : ∀ g ∈ gs, finished g = true := by
  induction gs with
  | nil => intro g hg; cases hg
  | cons x xs ih =>
    simp only [sumWeights] at h
    intro g hg
    simp only [List.mem_cons] at hg
    rcases hg with rfl | hg
    · have hx : g.weight = 0 := by omega
      simp only [G.weight] at hx
      have h1 : g.stack.length = 0 := by omega
      have h2 : g.armed = false := by
        cases ha : g.armed with
        | false => rfl
        | true => simp [ha] at hx
      have h3 : g.blocked.isSome = false := by
        cases hb : g.blocked.isSome with
        | false => rfl
        | true => simp [hb] at hx
      have h4 : g.pending.isSome = false := by
        cases hb : g.pending.isSome with
        | false => rfl
        | true => simp [hb] at hx
      have h3' : g.blocked = none := by
        cases hbb : g.blocked with
        | none => rfl
        | some v => simp [hbb] at h3
      have h4' : g.pending = none := by
        cases hbb : g.pending with
        | none => rfl
        | some v => simp [hbb] at h4
      simp [finished, List.length_eq_zero_iff.mp h1, h2, h3', h4']
    · exact ih (by omega) g hg

theorem opsOf_le_potAt (σ : St) (i : Nat) : opsOf σ i ≤ potAt σ i := by
  simp only [opsOf, potAt]; cases σ.gs[i]? <;> simp [pot]

theorem potAt_eq (σ : St) (i : Nat) : potAt σ i = opsOf σ i + (if armedOf σ i then 1 else 0) := by
  cases h : σ.gs[i]? <;> simp [potAt, opsOf, armedOf, h, pot]

theorem tpotAt_eq (σ : St) (i : Nat) : tpotAt σ i = ticksOf σ i + (if armedOf σ i then 1 else 0) := by
  cases h : σ.gs[i]? <;> simp [tpotAt, ticksOf, armedOf, h, tpot]

theorem ticksOf_le_tpotAt (σ : St) (i : Nat) : ticksOf σ i ≤ tpotAt σ i := by
  simp only [ticksOf, tpotAt]; cases σ.gs[i]? <;> simp [tpot]

end YaegiVerif.Proofs.C09
