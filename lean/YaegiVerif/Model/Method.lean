/-
  C05 — executable model of how yaegi resolves selectors, computes method sets, checks interface
  satisfaction and chooses type-switch clauses
  (interp/type.go `lookupField`, `lookupMethod2`, `methodDepth`, `methods`, `methodSet.contains`,
   `implements`; interp/cfg.go `case selectorExpr`, `matchSelectorMethod`, the clause chaining of
   `case switchStmt`; interp/run.go `_case`, the receiver binding of `genFunctionWrapper`).

  A declaration set is a list of type declarations; types refer to each other by their index.
  Struct types have ordered fields (int, func(), struct-typed and not embedded, embedded by value,
  embedded by pointer) and methods with value or pointer receivers; interface types list methods
  and embedded interfaces. All recursion is on a fuel argument; `fuel = D.length` is enough on
  well-founded declaration sets (`WF`: a struct-typed field refers to an earlier declaration), see
  `Proofs/C05Fuel.lean`.
  Core Lean only.
-/
namespace YaegiVerif.Method

inductive FKind where
  | int | func | plain | emb | embPtr
  deriving DecidableEq, Repr, Inhabited

structure Field where
  name : String
  kind : FKind
  typ : Nat := 0
  deriving DecidableEq, Repr, Inhabited

/-- a method of a struct type (`ptr`: pointer receiver) or of an interface type;
    `sig` identifies the signature (0: `()`, 1: `() int`) -/
structure Meth where
  name : String
  ptr : Bool := false
  sig : Nat := 0
  deriving DecidableEq, Repr, Inhabited

inductive TDecl where
  | strct (name : String) (fields : List Field) (meths : List Meth)
  | iface (name : String) (meths : List Meth) (embeds : List Nat)
  deriving DecidableEq, Repr, Inhabited

abbrev Decls := List TDecl

/-- cfg.go, post-order `case switchStmt` (reached from `case typeSwitch` by fallthrough): how the
    clauses of a switch with a tag and of a type switch are chained -/
inductive Chain where
  /-- `setFNext(c, clauses[i+1].start)` / `setFNext(c, clauses[i+1])`, `setFNext(clauses[l-1], n)`,
      `sbn.start = clauses[0].start`: a failed clause goes to the next clause of the list, a clause
      without test (`default`) is entered when it is reached, the last clause leaves the switch -/
  | nextClause
  /-- `nextTest := n` or the default clause; in reverse order `setFNext(c, nextTest); nextTest = c.start`
      for the clauses that have a test; `sbn.start = nextTest`: a failed clause goes to the next clause
      that has a test, the last one to the default clause — wherever it stands — or out of the switch -/
  | nextTest
  | unknown
  deriving DecidableEq, Repr, Inhabited

/-- run.go `genFunctionWrapper`: what a statement of the receiver binding does with its operand `x`.
    Since 3081633 the three-way `switch { case sk == reflect.Ptr && dk != reflect.Ptr: … }` runs when
    the wrapper (the method value) is made and assigns `recv`; the `reflect.MakeFunc` callback then
    fills the receiver slot `d[numRet]` of the new frame from `recv`. -/
inductive SlotBind where
  /-- `recv = copyDeferArg(x)` / `d[numRet].Set(recv)` (before 3081633: `dest.Set(x)`): a fresh copy of `x` -/
  | set
  /-- `recv = x` / `d[numRet] = recv` (before: `d[numRet] = x`): `x` itself, no copy -/
  | slot
  | unknown
  deriving DecidableEq, Repr, Inhabited

/-- the receiver binding of `genFunctionWrapper` (`sk`: kind of the receiver operand as
    `genValueRecv` delivers it, `dk`: kind of the receiver parameter) -/
structure RecvBind where
  /-- the three-way switch stands outside the `reflect.MakeFunc` callback: the receiver is read when
      the wrapper is made (`g := v.M`), not when it is called -/
  atCreation : Bool
  /-- `sk == reflect.Ptr && dk != reflect.Ptr`, `x = src.Elem()`: pointer operand, value receiver -/
  ptrToVal : SlotBind
  /-- `sk != reflect.Ptr && dk == reflect.Ptr`, `x = src.Addr()`: value operand, pointer receiver -/
  valToPtr : SlotBind
  /-- `default`, `x = src`: operand and receiver of the same kind -/
  same : SlotBind
  /-- the statement of the callback that fills the receiver slot from `recv`
      (`.slot` also stands for "no such statement": the arms wrote the slot themselves) -/
  call : SlotBind
  /-- since 32d4f06: a receiver without node (`late = n.recv.node == nil`: the value held by an
      interface) is not read when the wrapper is made; the callback runs the three-way switch itself -/
  lateNilNode : Bool
  /-- the statement of the callback for such receivers: `d[numRet].Set(bindRecv())` / `d[numRet] = bindRecv()` -/
  lateCall : SlotBind
  /-- run.go `genInterfaceWrapper` (conversion of a script value to a host interface): the method
      wrappers get `receiver{val: rv, index: …}` — no node, `rv` a copy of the value the interface
      holds — (true, since 32d4f06) or `receiver{n, v, …}` with the node of the converted expression -/
  ifaceWrapHeld : Bool
  deriving DecidableEq, Repr, Inhabited

/-- which of several embedded fields that lead to the name wins in `lookupMethod2` / `lookupField` -/
inductive Pick where
  /-- `if r found { return prepend i r }`: the first field, depth first -/
  | firstDfs
  /-- `if r found && (cur == nil || len(r) < len(cur)-1) { cur = prepend i r }`: the shortest path,
      the first field among equals -/
  | shallowest
  | unknown
  deriving DecidableEq, Repr, Inhabited

/-- choices made in the source text of the interpreter, regenerated by the extractor
    (`Generated.C05.facts`) and tied to `Expected.C05.facts` -/
structure Facts where
  /-- cfg.go, pre-order case of `switchStmt` / `typeSwitch`: the default clause is moved to the last
      position by swapping it with the last clause (`c[i], c[l] = c[l], c[i]`). True up to ff01288,
      false since (the clauses stay in source order). -/
  defaultSwap : Bool
  /-- cfg.go, post-order `case switchStmt`: how the clauses are chained -/
  clauseChain : Chain
  /-- type.go `lookupMethod2`: which embedded field wins -/
  methodPick : Pick
  /-- cfg.go `matchSelectorMethod`: `methodCount(name, len(lind)) > 1` is reported as an ambiguous selector -/
  methodAmbiguityCheck : Bool
  /-- type.go `lookupField`: the loop over the fields of a struct skips fields that are not embedded -/
  fieldLoopEmbedOnly : Bool
  /-- type.go `lookupField`: which embedded field wins -/
  fieldPick : Pick
  /-- type.go `methodSet.contains`: only the presence of the name is tested -/
  containsNamesOnly : Bool
  /-- cfg.go `case selectorExpr`: condition under which a method is preferred to the field found -/
  methodWinsCond : String
  /-- cfg.go `case selectorExpr`: condition under which the selector is reported ambiguous -/
  ambiguousCond : String
  /-- the `k` of `len(ti)-k` in those two conditions (0 up to efcbde2, 1 since: the depth of the field) -/
  fieldDepthMinus : Nat
  /-- cfg.go `case selectorExpr`: `fieldCount(name, len(ti)-1) > 1` — another field of that name at the
      depth of the field found — is reported as an ambiguous selector (since f4dfaf4) -/
  fieldAmbiguityCheck : Bool
  /-- type.go `implements`: `… && !t.needsPtrFor(it)` — a method with a pointer receiver that is not
      promoted through an embedded pointer is not in the method set of a value (since 79ed061) -/
  implementsChecksRecv : Bool
  /-- typecheck.go `typeAssertionExpr`: the pointer-receiver rejection applies to methods declared on
      the type itself only (`len(index) == 0`, since 5c3b0c5) -/
  assertPtrOwnOnly : Bool
  /-- typecheck.go `typeAssertionExpr`: … and, since 6b1f98f, to a promoted method that
      `needsPtrForMethod` says does not cross an embedded pointer (`|| !isBin(typ) && typ.needsPtrForMethod(name)`) -/
  assertPtrNeedsPtr : Bool
  /-- cfg.go post-order `case typeSwitch`: the clause types are checked with `typeAssertionExpr` (since 5c3b0c5) -/
  tswitchCasesChecked : Bool
  /-- run.go `_case`, type-switch branch: every clause form goes through the one helper
      `matchCase(f, v, typ)` — dynamic type of the operand; identity for struct and pointer clause
      types; `methods().contains` + `needsPtrFor` for interface clause types; `nil` matches a nil
      interface only — (since 9f81224) instead of three matchers on type identifiers and
      representation types -/
  caseUsesMatchCase : Bool
  /-- run.go `typeAssert`: the wrapper of an assertion to a host interface is made over the value the
      interface holds (`genInterfaceWrapperValue(val.node, rtype, held)`, since bbd3913) -/
  assertHostWrapsHeld : Bool
  /-- use.go `getWrapper` (which wrapper struct a script value converted to a host interface gets, the
      composed ones of stdlib/wrapper-composed.go first): the methods a composed wrapper requires are
      looked up in `n.typ.methods()` — own and promoted methods — (true) or on the type itself only -/
  wrapperUsesMethodSet : Bool
  /-- run.go `genFunctionWrapper`: how the receiver reaches the frame of the method -/
  recvBind : RecvBind
  /-- value.go `genValueInterface`: an addressable value is copied before it is wrapped -/
  ifaceCopies : Bool
  deriving DecidableEq, Repr, Inhabited

def Field.isEmb (f : Field) : Bool := f.kind == .emb || f.kind == .embPtr
/-- struct-typed (embedded or not) -/
def Field.isStruct (f : Field) : Bool := f.kind == .emb || f.kind == .embPtr || f.kind == .plain

def TDecl.name : TDecl → String
  | .strct n _ _ => n
  | .iface n _ _ => n

def fieldsOf (D : Decls) (t : Nat) : List Field :=
  match D[t]? with
  | some (.strct _ fs _) => fs
  | _ => []

def methsOf (D : Decls) (t : Nat) : List Meth :=
  match D[t]? with
  | some (.strct _ _ ms) => ms
  | _ => []

def isStructT (D : Decls) (t : Nat) : Bool :=
  match D[t]? with
  | some (.strct _ _ _) => true
  | _ => false

def isIfaceT (D : Decls) (t : Nat) : Bool :=
  match D[t]? with
  | some (.iface _ _ _) => true
  | _ => false

def typeName (D : Decls) (t : Nat) : String :=
  match D[t]? with
  | some d => d.name
  | none => "?"

/-- `getMethod`: the first method of that name declared on the type -/
def getMethod (ms : List Meth) (m : String) : Option Meth := ms.find? (fun x => x.name == m)

/-- a method found: the declaring type, the index path to the embedded receiver, the method -/
structure MHit where
  owner : Nat
  path : List Nat
  meth : Meth
  deriving DecidableEq, Repr, Inhabited

/-- a field found: the type that declares it, the full index path (last element = the field) -/
structure FHit where
  owner : Nat
  path : List Nat
  field : Field
  deriving DecidableEq, Repr, Inhabited

def MHit.depth (h : MHit) : Nat := h.path.length
/-- depth in the sense of the Go specification (0 = declared in the type itself) -/
def FHit.depth (h : FHit) : Nat := h.path.length - 1

def MHit.push (i : Nat) (h : MHit) : MHit := { h with path := i :: h.path }
def FHit.push (i : Nat) (h : FHit) : FHit := { h with path := i :: h.path }

/-- `for i, f := range t.field { if pred f { if r := g f.typ; found { return prepend i r } } }` -/
def firstVia (pred : Field → Bool) (g : Nat → Option α) (push : Nat → α → α) : List Field → Nat → Option α
  | [], _ => none
  | f :: fs, i =>
    if pred f then
      match g f.typ with
      | some r => some (push i r)
      | none => firstVia pred g push fs (i + 1)
    else firstVia pred g push fs (i + 1)

/-- all results instead of the first one, same traversal order -/
def allVia (pred : Field → Bool) (g : Nat → List α) (push : Nat → α → α) : List Field → Nat → List α
  | [], _ => []
  | f :: fs, i =>
    (if pred f then (g f.typ).map (push i) else []) ++ allVia pred g push fs (i + 1)

/-- `for i, f := range t.field { if pred f { if r := g f.typ; found && (cur == nil || len(r) < len(cur)-1) { cur = prepend i r } } }`
    (`len`: length of the index path) -/
def bestVia (pred : Field → Bool) (g : Nat → Option α) (push : Nat → α → α) (len : α → Nat) :
    List Field → Nat → Option α → Option α
  | [], _, cur => cur
  | f :: fs, i, cur =>
    bestVia pred g push len fs (i + 1)
      (if pred f then
         (match g f.typ with
          | some r =>
            (match cur with
             | none => some (push i r)
             | some c => if len r + 1 < len c then some (push i r) else some c)
          | none => cur)
       else cur)

def pickVia (p : Pick) (pred : Field → Bool) (g : Nat → Option α) (push : Nat → α → α) (len : α → Nat)
    (fs : List Field) : Option α :=
  match p with
  | .firstDfs => firstVia pred g push fs 0
  | .shallowest => bestVia pred g push len fs 0 none
  | .unknown => none

/-! ### `lookupMethod2` -/

/-- `(t *itype) lookupMethod2(name, seen)`: the method declared on the type itself, else over the
    embedded fields in declaration order — the first hit depth first (`Pick.firstDfs`, up to 4f1c6ee)
    or the hit with the shortest path, the first field among equals (`Pick.shallowest`); pointers are
    unwrapped. (The `seen` map marks the types of the current path only; on well-founded declaration
    sets it never cuts anything.) -/
def lookupMethodF (P : Pick) (D : Decls) : Nat → Nat → String → Option MHit
  | 0, _, _ => none
  | fuel + 1, t, m =>
    match getMethod (methsOf D t) m with
    | some x => some ⟨t, [], x⟩
    | none => pickVia P Field.isEmb (fun j => lookupMethodF P D fuel j m) MHit.push (fun h => h.path.length) (fieldsOf D t)

def lookupMethodY (F : Facts) (D : Decls) (t : Nat) (m : String) : Option MHit := lookupMethodF F.methodPick D D.length t m

/-- `methodDepth` (interpreted methods only) -/
def methodDepthY (F : Facts) (D : Decls) (t : Nat) (m : String) : Option Nat := (lookupMethodY F D t m).map MHit.depth

/-- `(t *itype) methodCount(name, depth)`: the number of methods of that name declared exactly
    `depth` levels down the embedded fields -/
def methodCountY (D : Decls) : Nat → Nat → String → Nat
  | 0, t, m => if (getMethod (methsOf D t) m).isSome then 1 else 0
  | d + 1, t, m => ((fieldsOf D t).map (fun f => if f.isEmb then methodCountY D d f.typ m else 0)).sum

/-! ### `lookupField` -/

/-- `fieldIndex`: the first field of that name -/
def fieldIndex : List Field → String → Nat → Option (Nat × Field)
  | [], _, _ => none
  | f :: fs, x, i => if f.name == x then some (i, f) else fieldIndex fs x (i + 1)

/-- `(t *itype) lookupField(name)`: a field of the type itself, else over the embedded fields (over
    **every struct-typed field** while the loop did not test `f.embed`, up to a60b058), first hit depth
    first or shortest path as `F.fieldPick` says -/
def lookupFieldF (F : Facts) (D : Decls) : Nat → Nat → String → Option FHit
  | 0, _, _ => none
  | fuel + 1, t, x =>
    match fieldIndex (fieldsOf D t) x 0 with
    | some (i, f) => some ⟨t, [i], f⟩
    | none =>
      pickVia F.fieldPick (if F.fieldLoopEmbedOnly then Field.isEmb else Field.isStruct)
        (fun j => lookupFieldF F D fuel j x) FHit.push (fun h => h.path.length) (fieldsOf D t)

def lookupFieldY (F : Facts) (D : Decls) (t : Nat) (x : String) : Option FHit := lookupFieldF F D D.length t x

/-- `(t *itype) fieldCount(name, depth)`: the number of fields of that name declared exactly `depth`
    levels down the embedded struct fields -/
def fieldCountY (D : Decls) : Nat → Nat → String → Nat
  | 0, t, x => if (fieldIndex (fieldsOf D t) x 0).isSome then 1 else 0
  | d + 1, t, x => ((fieldsOf D t).map (fun f => if f.isEmb then fieldCountY D d f.typ x else 0)).sum

/-- the second half of the ambiguity condition of the selector case (since f4dfaf4) -/
def fieldTieY (F : Facts) (D : Decls) (t : Nat) (x : String) (fh : FHit) : Bool :=
  F.fieldAmbiguityCheck && decide (fieldCountY D (fh.path.length - 1) t x > 1)

/-! ### the selector case of cfg.go -/

inductive Sel where
  | field (h : FHit)
  | method (h : MHit)
  | ambiguous
  | undefined
  deriving DecidableEq, Repr, Inhabited

/-- `matchSelectorMethod` on the method found by `lookupMethod`: since 837b81e a method that is not
    the only one at its depth makes the selector ambiguous -/
def methodSelY (F : Facts) (D : Decls) (t : Nat) (x : String) (mh : MHit) : Sel :=
  if F.methodAmbiguityCheck && decide (methodCountY D mh.depth t x > 1) then .ambiguous else .method mh

/-- `case selectorExpr` for a struct operand followed by `matchSelectorMethod`:
    a field found by `lookupField` (path `ti`) is used unless `methodDepth` `d` satisfies
    `0 ≤ d < len(ti)-k` (then the method is used) or `d == len(ti)-k` or, since f4dfaf4,
    `fieldCount(name, len(ti)-1) > 1` ("ambiguous selector"); `k = F.fieldDepthMinus`. -/
def selectY (F : Facts) (D : Decls) (t : Nat) (x : String) : Sel :=
  match lookupFieldY F D t x with
  | some fh =>
    match lookupMethodY F D t x with
    | some mh =>
      if mh.depth < fh.path.length - F.fieldDepthMinus then methodSelY F D t x mh
      else if mh.depth = fh.path.length - F.fieldDepthMinus || fieldTieY F D t x fh then .ambiguous
      else .field fh
    | none => if fieldTieY F D t x fh then .ambiguous else .field fh
  | none =>
    match lookupMethodY F D t x with
    | some mh => methodSelY F D t x mh
    | none => .undefined

/-! ### `methods()`, `contains`, `implements` -/

/-- map update (`res[k] = v`) on an association list, keeping the first position of a key -/
def setKey (l : List (String × Nat)) (k : String) (v : Nat) : List (String × Nat) :=
  if l.any (fun p => p.1 == k) then l.map (fun p => if p.1 == k then (k, v) else p) else l ++ [(k, v)]

def mergeMap (a b : List (String × Nat)) : List (String × Nat) := b.foldl (fun acc p => setKey acc p.1 p.2) a

/-- `(t *itype) methods()` on a struct type or a pointer to it: the union over the embedded fields
    (later fields overwrite earlier ones) overwritten by the methods declared on the type itself —
    **whatever their receiver kind, and identically for `T` and `*T`**. This is the set of names;
    `methodSigsY` below also tracks which signature is kept for each name. -/
def methodsF (D : Decls) : Nat → Nat → List (String × Nat)
  | 0, _ => []
  | fuel + 1, t =>
    let emb := (fieldsOf D t).foldl (fun acc f => if f.isEmb then mergeMap acc (methodsF D fuel f.typ) else acc) []
    mergeMap emb ((methsOf D t).map (fun m => (m.name, m.sig)))

def methodsY (D : Decls) (t : Nat) : List (String × Nat) := methodsF D D.length t

/-- `methods()` with its `seen` map, which is keyed by type object: a struct type and the pointer
    type to it are two objects. A type contributes only where the depth-first walk meets it first;
    a field embedded by pointer visits the pointer type (which carries the pointer-receiver methods
    of the struct: gta.go adds them to both) and then the struct type. So the signature kept for a
    name is that of the last contribution in walk order, unless the type itself declares the name.
    (Same names as `methodsF`; the signatures matter only to the string comparison of `typeAssert`.) -/
def methodSigsF (D : Decls) : Nat → Nat → Bool → List (Nat × Bool) → List (String × Nat) × List (Nat × Bool)
  | 0, _, _, seen => ([], seen)
  | fuel + 1, t, isPtr, seen =>
    if seen.contains (t, isPtr) then ([], seen) else
    if isPtr then
      let r := methodSigsF D fuel t false ((t, true) :: seen)
      (mergeMap r.1 (((methsOf D t).filter (·.ptr)).map (fun m => (m.name, m.sig))), r.2)
    else
      let r := (fieldsOf D t).foldl (fun (acc : List (String × Nat) × List (Nat × Bool)) f =>
        if f.isEmb then
          let r := methodSigsF D fuel f.typ (f.kind == .embPtr) acc.2
          (mergeMap acc.1 r.1, r.2)
        else acc) ([], (t, false) :: seen)
      (mergeMap r.1 ((methsOf D t).map (fun m => (m.name, m.sig))), r.2)

/-- `methods()` of the struct type `t` (`isPtr`: of `*t`) with the signatures it keeps -/
def methodSigsY (D : Decls) (t : Nat) (isPtr : Bool) : List (String × Nat) :=
  (methodSigsF D (2 * D.length + 2) t isPtr []).1

def ifaceDecl (D : Decls) (i : Nat) : List Meth × List Nat :=
  match D[i]? with
  | some (.iface _ ms es) => (ms, es)
  | _ => ([], [])

/-- `methods()` on an interface type: its own methods and, recursively, those of the embedded
    interfaces, in field order (yaegi keeps methods and embedded interfaces in one field list; the
    generated sources declare the methods first) -/
def ifaceMethodsF (D : Decls) : Nat → Nat → List (String × Nat)
  | 0, _ => []
  | fuel + 1, i =>
    let d := ifaceDecl D i
    d.2.foldl (fun acc e => mergeMap acc (ifaceMethodsF D fuel e)) (mergeMap [] (d.1.map (fun m => (m.name, m.sig))))

def ifaceMethodsY (D : Decls) (i : Nat) : List (String × Nat) := ifaceMethodsF D D.length i

/-- `methodSet.contains`: **names only** -/
def containsY (F : Facts) (m n : List (String × Nat)) : Bool :=
  n.all (fun k => m.any (fun p => p.1 == k.1 && (F.containsNamesOnly || p.2 == k.2)))

/-- the index path crosses a field embedded by pointer -/
def pathViaPtr (D : Decls) : Nat → List Nat → Bool
  | _, [] => false
  | t, i :: rest =>
    match (fieldsOf D t)[i]? with
    | some f => f.kind == .embPtr || pathViaPtr D f.typ rest
    | none => false

/-- `(t *itype) needsPtrFor(it)`: the type is not a pointer and one of the interface's methods, as
    `lookupMethod` finds it, has a pointer receiver and is not promoted through an embedded pointer -/
def needsPtrY (F : Facts) (D : Decls) (t : Nat) (isPtr : Bool) (ims : List (String × Nat)) : Bool :=
  !isPtr && ims.any (fun k =>
    match lookupMethodY F D t k.1 with
    | some h => h.meth.ptr && !pathViaPtr D t h.path
    | none => false)

/-- `(t *itype) implements(it)` for an interpreted struct type (`isPtr`: pointer to it): the names of
    the interface's methods are in `methods()` and, since 79ed061, none of them needs a pointer -/
def implementsY (F : Facts) (D : Decls) (t : Nat) (isPtr : Bool) (ims : List (String × Nat)) : Bool :=
  containsY F (methodsY D t) ims && !(F.implementsChecksRecv && needsPtrY F D t isPtr ims)

/-! ### type switch: clauses are tested in source order, the first matching one is taken -/

/-- index of the first clause one of whose types matches; a clause without types is `default` and
    is taken when no other clause matches, wherever it stands -/
def firstClause (mt : α → Bool) : List (List α) → Nat → Option Nat
  | [], _ => none
  | c :: cs, i => if c.any mt then some i else firstClause mt cs (i + 1)

def defaultClause : List (List α) → Nat → Option Nat
  | [], _ => none
  | c :: cs, i => if c.isEmpty then some i else defaultClause cs (i + 1)

def typeSwitch (mt : α → Bool) (cs : List (List α)) : Option Nat :=
  match firstClause mt cs 0 with
  | some i => some i
  | none => defaultClause cs 0

/-- the clause list after the pre-order pass of cfg.go, as source indices. Up to ff01288 ("Make
    sure default clause is in last position": `c[i], c[l] = c[l], c[i]`) a default clause that is
    not last was **swapped** with the last clause (`swap = true`); since then the list is left in
    source order (`swap = false`). -/
def clauseOrderY (swap : Bool) (cs : List (List α)) : List Nat :=
  let n := cs.length
  match defaultClause cs 0 with
  | none => List.range n
  | some i =>
    if swap then (List.range n).map (fun k => if k == i then n - 1 else if k == n - 1 then i else k)
    else List.range n

/-- first clause, in the given test order, one of whose types matches -/
def firstInOrder (mt : α → Bool) (cs : List (List α)) : List Nat → Option Nat
  | [] => none
  | k :: ks => if (cs.getD k []).any mt then some k else firstInOrder mt cs ks

/-- `Chain.nextClause`: walk the list; a clause without types is entered as soon as it is reached -/
def walkNextClause (mt : α → Bool) (cs : List (List α)) : List Nat → Option Nat
  | [] => none
  | k :: ks => if (cs.getD k []).isEmpty || (cs.getD k []).any mt then some k else walkNextClause mt cs ks

/-- the interpreter's type switch (and switch with a tag): the clause list of the pre-order pass,
    chained as the post-order pass chains it -/
def typeSwitchY (swap : Bool) (chain : Chain) (mt : α → Bool) (cs : List (List α)) : Option Nat :=
  match chain with
  | .nextClause => walkNextClause mt cs (clauseOrderY swap cs)
  | .nextTest =>
    (match firstInOrder mt cs (clauseOrderY swap cs) with
     | some i => some i
     | none => defaultClause cs 0)
  | .unknown => none

/-! ### well-formed declaration sets -/

def nodupNames (l : List String) : Bool :=
  match l with
  | [] => true
  | x :: xs => !xs.contains x && nodupNames xs

/-- declaration `i` is well formed: struct-typed fields refer to earlier struct declarations,
    embedded interfaces to earlier interface declarations, no two fields and no two methods share
    a name, no method is named like a field -/
def wfDecl (D : Decls) (i : Nat) : TDecl → Bool
  | .strct _ fs ms =>
    fs.all (fun f => !f.isStruct || (f.typ < i && isStructT D f.typ)) &&
    nodupNames (fs.map (·.name)) && nodupNames (ms.map (·.name)) &&
    ms.all (fun m => !(fs.map (·.name)).contains m.name)
  | .iface _ ms es =>
    es.all (fun e => e < i && isIfaceT D e) && nodupNames (ms.map (·.name))

def wfFrom (D : Decls) : List TDecl → Nat → Bool
  | [], _ => true
  | d :: ds, i => wfDecl D i d && wfFrom D ds (i + 1)

/-- decidable well-formedness (acyclicity measure: the declaration index) -/
def WF (D : Decls) : Prop := wfFrom D D 0 = true

instance (D : Decls) : Decidable (WF D) := by unfold WF; infer_instance

end YaegiVerif.Method
