/-
  C03 — model of yaegi's constant machinery, part 1: representability
  (interp/typecheck.go `bitlen`, `representableConst`, integer arm).

  The choices made in the source text are parameters (`ReprFacts`): the `bitlen` table,
  which go/constant accessor guards which kinds (`Int64Val` / `Uint64Val`), whether the signed
  arm goes on to the exact range test (the repair of F03) or falls through to the final `BitLen`
  test (the code before the repair), and the comparison operators of both tests.
  `Generated.C03.reprFacts` is regenerated from the source on every run.

  go/constant itself is not modelled: an integer constant is an `Int`, `constant.BitLen x`
  is the length of `|x|` in binary, `Int64Val`/`Uint64Val` succeed exactly on the 64-bit ranges
  (documented behaviour; exercised by the correspondence run). The range test is Go run-time
  arithmetic on `int64` with a `uint` shift count: it is modelled with its wrap-around
  (`shl64`, `wrap64`, `uintPred`), so that a mutated `bitlen` entry (0, or above 64) is followed too.
-/
namespace YaegiVerif.Const

/-- the integer kinds of `reflect.Kind` that `isInt` accepts -/
inductive IKind where
  | int | int8 | int16 | int32 | int64 | uint | uint8 | uint16 | uint32 | uint64 | uintptr
  deriving DecidableEq, Repr, Inhabited

namespace IKind
def all : List IKind := [int, int8, int16, int32, int64, uint, uint8, uint16, uint32, uint64, uintptr]

def signed : IKind → Bool
  | int | int8 | int16 | int32 | int64 => true
  | _ => false

/-- width in bits of the Go type (64-bit platform: the only one the check runs on) -/
def bits : IKind → Nat
  | int => 64 | int8 => 8 | int16 => 16 | int32 => 32 | int64 => 64
  | uint => 64 | uint8 => 8 | uint16 => 16 | uint32 => 32 | uint64 => 64 | uintptr => 64

def name : IKind → String
  | int => "int" | int8 => "int8" | int16 => "int16" | int32 => "int32" | int64 => "int64"
  | uint => "uint" | uint8 => "uint8" | uint16 => "uint16" | uint32 => "uint32" | uint64 => "uint64"
  | uintptr => "uintptr"

def ofName? (s : String) : Option IKind := all.find? (fun k => k.name == s)

/-- smallest value of the type (Go specification) -/
def minVal (k : IKind) : Int := if k.signed then -(2 ^ (k.bits - 1) : Int) else 0
/-- largest value of the type (Go specification) -/
def maxVal (k : IKind) : Int := if k.signed then (2 ^ (k.bits - 1) : Int) - 1 else (2 ^ k.bits : Int) - 1
end IKind

/-- what the arm of a kind does in the inner `switch t.Kind()` of representableConst -/
inductive PreCheck where
  /-- `v, ok := constant.Int64Val(x); if !ok { return false }; s := uint(bitlen[t.Kind()]);
      return -1<<(s-1) <lo> v && v <hi> 1<<(s-1)-1` — the exact range of a signed width (since the repair of F03) -/
  | int64Range
  /-- `if _, ok := constant.Int64Val(x); !ok { return false }`, then the final `BitLen` test
      (the signed arm before the repair of F03; kept so that a reverted source is followed by the model) -/
  | int64Val
  /-- `if _, ok := constant.Uint64Val(x); !ok { return false }`, then the final `BitLen` test -/
  | uint64Val
  /-- the `default: return false` arm (kind not listed) -/
  | reject
  deriving DecidableEq, Repr, Inhabited

/-- a comparison operator read from the source: of the last statement
    `return constant.BitLen(x) <op> bitlen[t.Kind()]`, and of the two halves of the signed range test -/
inductive Cmp where
  | le | lt | other
  deriving DecidableEq, Repr, Inhabited

def Cmp.test (c : Cmp) (a b : Int) : Bool :=
  match c with
  | .le => decide (a ≤ b)
  | .lt => decide (a < b)
  | .other => false

structure ReprFacts where
  /-- `var bitlen = [...]int{ reflect.Int: 64, … }` as (kind, value) pairs in source order -/
  bitlen : List (IKind × Nat)
  /-- the case lists of the inner switch of representableConst, flattened to (kind, arm) -/
  pre : List (IKind × PreCheck)
  /-- comparison operator of the final BitLen test -/
  cmp : Cmp
  /-- comparison operators of the signed range test: `-1<<(s-1) <lo> v` and `v <hi> 1<<(s-1)-1` -/
  lo : Cmp
  hi : Cmp
  deriving DecidableEq, Repr

def ReprFacts.bitlenOf (f : ReprFacts) (k : IKind) : Nat :=
  match f.bitlen.find? (fun p => p.1 == k) with
  | some p => p.2
  | none => 0          -- a Go array literal leaves unlisted indices at zero

def ReprFacts.preOf (f : ReprFacts) (k : IKind) : PreCheck :=
  match f.pre.find? (fun p => p.1 == k) with
  | some p => p.2
  | none => .reject

/-- `constant.BitLen`: number of bits of the absolute value (0 for 0) -/
def bitLen (v : Int) : Nat := if v = 0 then 0 else v.natAbs.log2 + 1

def int64Ok (v : Int) : Bool := decide (-(2 ^ 63 : Int) ≤ v) && decide (v < (2 ^ 63 : Int))
def uint64Ok (v : Int) : Bool := decide (0 ≤ v) && decide (v < (2 ^ 64 : Int))

/-- Go's `int64` wrap-around of an exact result -/
def wrap64 (v : Int) : Int := (v + 2 ^ 63) % 2 ^ 64 - 2 ^ 63

/-- Go's `x << n` for an `int64` `x` and a `uint` count `n` (0 once the count reaches the width) -/
def shl64 (x : Int) (n : Nat) : Int := if n < 64 then wrap64 (x * 2 ^ n) else 0

/-- Go's `s - 1` for a `uint` `s` (64-bit platform) -/
def uintPred (s : Nat) : Nat := if s = 0 then 2 ^ 64 - 1 else s - 1

/-- the final statement `return constant.BitLen(x) <cmp> bitlen[t.Kind()]` -/
def bitLenTest (f : ReprFacts) (k : IKind) (v : Int) : Bool :=
  match f.cmp with
  | .le => decide (bitLen v ≤ f.bitlenOf k)
  | .lt => decide (bitLen v < f.bitlenOf k)
  | .other => false

/-- the range test of the signed arm: `s := uint(bitlen[t.Kind()]); return -1<<(s-1) <lo> v && v <hi> 1<<(s-1)-1`
    (`v` is an int64 here; the untyped constants `-1` and `1` take the type of `v`) -/
def rangeTest (f : ReprFacts) (k : IKind) (v : Int) : Bool :=
  let c := uintPred (f.bitlenOf k)
  f.lo.test (shl64 (-1) c) v && f.hi.test v (wrap64 (shl64 1 c - 1))

/-- the integer arm of `representableConst` for an integer constant `v` -/
def reprY (f : ReprFacts) (k : IKind) (v : Int) : Bool :=
  match f.preOf k with
  | .int64Range => int64Ok v && rangeTest f k v
  | .int64Val => int64Ok v && bitLenTest f k v
  | .uint64Val => uint64Ok v && bitLenTest f k v
  | .reject => false

/-- the values that the signed arm accepted before the repair of F03 (final `BitLen` test, which ignores the
    sign) and Go does not: `max < v < 2^bits` or `-2^bits < v < min`, within the int64 range (empty for the
    64-bit kinds). Kept for `representable_bitlen_form_gap`, which states what a reverted repair would do. -/
def inSignedGap (k : IKind) (v : Int) : Bool :=
  k.signed && int64Ok v &&
    ((decide (k.maxVal < v) && decide (v < (2 ^ k.bits : Int))) ||
     (decide (-(2 ^ k.bits : Int) < v) && decide (v < k.minVal)))

/-! ### facts about folding (interp/cfg.go `constOp`, interp/op.go `*Const`) -/

/-- yaegi actions that can appear in a constant expression -/
inductive Act where
  | add | sub | mul | quo | rem | and | or | xor | andNot | shl | shr
  | neg | pos | bitNot | not
  | eq | ne | lt | le | gt | ge | land | lor
  | other
  deriving DecidableEq, Repr, Inhabited

/-- go/token operators handed to go/constant, and Go operators of the typed arms -/
inductive Tok where
  | add | sub | mul | quo | quoAssign | rem | and | or | xor | andNot | shl | shr | not
  | byQuoSwitch     -- the variable `operator` of quoConst, decided by `QuoSwitch`
  | eql | neq | lss | leq | gtr | geq      -- comparison tokens (typecheck.go `constToken`, handed to constant.Compare)
  | other
  deriving DecidableEq, Repr, Inhabited

inductive Entry where
  | binaryOp | unaryOp | shift
  | compare      -- `constant.Compare(x, constToken[n.action], y)` on the constValue of both operands (compareConst)
  | other
  deriving DecidableEq, Repr, Inhabited

/-- the `case isX(t):` arms of a folding function that work on typed (non go/constant) operands -/
inductive ArmClass where
  | str | cplx | flt | uint | sint | bool
  /-- `case isComplex(t), isFloat(t): setConstFloat(n.rval, constant.BinaryOp(constValue(v0), token.X, constValue(v1)))`
      (or UnaryOp): the exact result rounded once to the type (149d328); `flt` is the arm before: float64 run-time
      arithmetic stored with SetFloat -/
  | fltExact
  deriving DecidableEq, Repr, Inhabited

structure FoldFn where
  name : String
  entry : Entry          -- constant.BinaryOp / UnaryOp / Shift in the `isConst` arm
  tok : Tok              -- the token passed to it
  toInt : Bool           -- both operands wrapped in constant.ToInt (remConst)
  bothConst : Bool       -- `isConst` requires both operands to hold a constant.Value
  typed : List (ArmClass × Tok)   -- Go operator used by each typed arm
  deriving DecidableEq, Repr, Inhabited

/-- what the condition of the quotient switch of `quoConst` looks at -/
inductive QuoRule where
  /-- `c0.Kind() == constant.Int && c1.Kind() == constant.Int`, `c0, c1 := vConstantValue(v0), vConstantValue(v1)`:
      the kinds of the two operand constants (since the repair of F48) -/
  | operandKinds
  /-- `n.typ.untyped && isInt(n.typ.rtype)`: the type of the node, which the pre-order pass copies from the
      context (the code before the repair of F48; kept so that a reverted source is followed by the model) -/
  | nodeType
  | other
  deriving DecidableEq, Repr, Inhabited

structure QuoSwitch where
  cond : String          -- normalised text of the condition that selects `thenTok`
  rule : QuoRule         -- the same, as recognised by the extractor
  thenTok : Tok
  elseTok : Tok
  deriving DecidableEq, Repr, Inhabited

/-- which form of typecheck.go `zeroConst` the source has -/
inductive ZeroForm where
  /-- `n.typ.untyped && constant.Sign(n.rval.Interface().(constant.Value)) == 0` (before 03fb34b): only untyped
      divisors, and a Go panic on anything that is not a go/constant number -/
  | untypedOnly
  /-- not valid or not a number: false; a go/constant value: `Sign == 0`; otherwise `!CanSet() && IsZero()`
      (since 03fb34b / 6f2f5cf) -/
  | anyConst
  | other
  deriving DecidableEq, Repr, Inhabited

/-- the checks and decisions that the repairs of the third round put around the folding functions
    (interp/cfg.go post-order cases, interp/typecheck.go, interp/type.go); each is read from the source text, the
    model branches on it, so a reverted repair changes what the driver computes -/
structure CheckFacts where
  /-- cfg.go, binaryExpr case: `if err = check.constExpr(n); err != nil { break }` stands before `constOp[n.action](n)` (31bf1d3) -/
  constExprBin : Bool
  /-- the same in the unaryExpr case -/
  constExprUn : Bool
  /-- cfg.go, binaryExpr case: `if err = check.constOverflow(n); …` stands after the fold (eeab028) -/
  overflowBin : Bool
  /-- the same in the unaryExpr case -/
  overflowUn : Bool
  /-- typecheck.go constOverflow: `constant.BitLen(c) > N`; `none` when the function is not of that shape -/
  intBitsMax : Option Nat
  /-- typecheck.go shift: `c0.rval.IsValid() && c1.rval.IsValid() && vUint(c1.rval) > N` is an error (eeab028) -/
  shiftCountMax : Option Nat
  /-- typecheck.go constExpr: the count handed to constant.Shift is `min(vUint(c1.rval), N)` -/
  shiftClamp : Nat
  /-- typecheck.go constExpr: `case tok == token.QUO && isInt(t): x = constant.BinaryOp(x, token.QUO_ASSIGN, y)` is there -/
  quoIntExact : Bool
  /-- typecheck.go binaryExpr returns before the operand conversions for a quotient of two constants (removed by 6f2f5cf) -/
  quoEarlyReturn : Bool
  zeroForm : ZeroForm
  /-- cfg.go, binaryExpr case: `if n.typ != nil && isUntypedConst(c0) && (isUntypedConst(c1) || isShiftNode(n) && c1.rval.IsValid()) { n.typ = c0.typ }` (3f5ccd5) -/
  untypedStays : Bool
  /-- typecheck.go shift accepts a constant count of floating-point type with a non-negative integral value (ce5712d) -/
  floatShiftCount : Bool
  /-- typecheck.go conversion: a typed constant operand converted to a numeric type goes through check.representable (e6c1f4a) -/
  convTypedChecked : Bool
  /-- typecheck.go representable reads the operand with `constValue(n.rval)` (reflect values included) instead of
      asserting a go/constant value (e6c1f4a) -/
  reprConstValue : Bool
  /-- typecheck.go convertUntyped refuses bool ↔ non-bool (`isBoolean(ntyp) != isBoolean(ttyp)`, 385eb77) -/
  boolConvChecked : Bool
  /-- cfg.go landExpr and lorExpr cases fold two constant operands (b3f92e0) -/
  foldLogical : Bool
  /-- cfg.go pre-order: the type of a comparison / logical parent is not copied onto its operands
      (`if !isBoolAction(n.anc)`, b3f92e0) -/
  cmpNotPushed : Bool
  /-- cfg.go, builtin len: `isInConstOrTypeDecl(n) || isConstString(n.child[1])` (a2a892e) -/
  lenConstString : Bool
  /-- type.go nodeType2, basicLit: an Int constant whose literal starts with `'` is typed untyped rune (b080dc4) -/
  runeLitKeepsType : Bool
  /-- typecheck.go convertConst, `case reflect.Float32:` stands alone and takes `constant.Float32Val(constant.ToFloat(c))`:
      the float32 nearest to the exact constant (round to nearest even, one rounding). `false`: the case shares the
      float64 arm (`Float64Val`, then `Convert(t)`): two roundings, wrong for constants within half a float64 ulp of a
      float32 rounding midpoint (seed C03-3) -/
  f32Direct : Bool
  /-- typecheck.go shift: the left operand is replaced by `constant.ToInt` of itself only when it holds a go/constant
      value (`if c, ok := c0.rval.Interface().(constant.Value); ok`, 1122c63); before, the type assertion panicked on the
      Go bool of `true` / `false` -/
  shiftBoolGuard : Bool
  /-- typecheck.go binaryExpr, case aAdd: the check of the node type against the operand types is skipped for two
      untyped constants (`n.typ == nil || isUntypedConst(c0) && isUntypedConst(c1)`, 4bed514) -/
  addSkipsUntyped : Bool
  /-- cfg.go binaryExpr, `case aAdd, aSub, aMul, aQuo, aAnd, aOr, aXor, aAndNot:` a node that has a type takes the type
      of its first typed operand (2988c87); before, it kept the type pushed down by the context -/
  operandTypeWins : Bool
  /-- typecheck.go conversion, `string(c)`: the code point is `rune(i)` only when `i == int64(rune(i))`, else −1
      (a1f1717); before, `rune(int64)` kept the low 32 bits -/
  codepointChecked : Bool
  /-- cfg.go isConstString: every constant expression of string type — literal, conversion or concatenation, typed or
      not, parentheses stripped — has a constant length (a35d2a5); with `lenConstString` only: a literal or a
      go/constant value -/
  lenAnyConstString : Bool
  /-- type.go nodeType2, basicLit: an integer literal of more than N bits is a "constant overflow" (638fc07) -/
  litBitsMax : Option Nat
  /-- cfg.go binaryExpr, `case aShl, aShr:` a constant shift of an untyped constant is typed `c0.typ` when that is an
      integer kind (untyped int, untyped rune), `untypedInt(n)` otherwise, whatever the context pushed down (287aa9d);
      before, the node kept the type of the left operand (or the pushed-down one) -/
  shiftUntypedInt : Bool
  deriving DecidableEq, Repr

structure EvalFacts where
  constOp : List (Act × String)
  folds : List FoldFn
  quo : QuoSwitch
  /-- cfg.go `fixUntyped` retypes the frame slot only of nodes that are not constants
      (`if n.findex >= 0 && !n.rval.IsValid()`, since 08f21a9); before, a parenthesised literal made it index `sc.types` -/
  fixSkipsConst : Bool
  /-- typecheck.go `constToken`: the go/token operator of every constant action (constExpr, compareConst) -/
  constToken : List (Act × Tok)
  chk : CheckFacts
  deriving DecidableEq, Repr

def EvalFacts.tokOf (f : EvalFacts) (a : Act) : Tok :=
  match f.constToken.find? (fun p => p.1 == a) with
  | some p => p.2
  | none => .other       -- a Go map answers the zero token (token.ILLEGAL) for a missing key

def EvalFacts.foldOf (f : EvalFacts) (a : Act) : Option FoldFn :=
  match f.constOp.find? (fun p => p.1 == a) with
  | some p => f.folds.find? (fun g => g.name == p.2)
  | none => none

end YaegiVerif.Const
