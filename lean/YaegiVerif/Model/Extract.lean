/-
  C18 — model of yaegi's wrapper generator (extract/extract.go: genContent, fixConst, the text
  template `model`, genBuildTags).

  * An abstract package is what go/types tells genContent: the scope's objects in scope order, each
    with its name, the `Exported()` flag and its kind; an interface carries its full method set
    (`t.Method(i)`, embedded methods included) in go/types' order.
  * `genY` is genContent's classification switch plus the shape the template gives to the data
    (`Val`, `Typ`, `Wrap` maps, ranged over in key order = scope order), as an abstract wrapper file:
    entries (key, binding form, bound identifier or literal) and wrapper structs with their
    W-fields / forwarding methods.
  * The choices made in the source text (which arms the switch has, the `Addr` flag of every `Val`
    literal, the `continue` guards, the statements of the variadic branch, the naming of parameters
    and results, the Stringer test, the kinds fixConst turns into literals and its Complex case, the
    wrapper prefix, the condition of the restricted-symbol substitution, the usePkg computation, the
    template's binding forms, the `restricted` table …) are read by the extractor into `Facts`;
    `knobsOf` turns them into the switches (`Knobs`) the algorithm below consults. Where a repair
    changed a choice, the switch knows the text before and after the repair, so that reverting the
    repair changes what the driver computes.
-/
namespace YaegiVerif.Extract

/-! ### the input: go/types view of a package -/

/-- the real or imaginary part of an untyped complex constant (`constant.Real`, `constant.Imag`):
    an Int or a Float constant -/
inductive CNum where
  | int (v : Int)
  | flt (num : Int) (den : Nat) (prec : Nat)
  deriving DecidableEq, Repr

/-- exact value of an untyped constant (go/constant) -/
inductive CVal where
  | int (v : Int)
  /-- `num/den` (den > 0). `prec = 0`: go/constant holds the rational itself; otherwise it holds a
      `big.Float` of that precision whose exact value is `num/den`. -/
  | flt (num : Int) (den : Nat) (prec : Nat)
  | str (s : String)
  | bool (b : Bool)
  | cplx (re im : CNum)
  deriving DecidableEq, Repr

structure Param where
  name : String
  /-- `types.TypeString(v.Type(), qualify)` -/
  typ : List Char
  /-- element type string when the type is a slice type literal `[]E` -/
  elem : Option (List Char)
  /-- import paths of the packages `qualify` is called with while printing `typ` -/
  deps : List String
  /-- the underlying type is the basic type `string` -/
  isString : Bool := false
  deriving DecidableEq, Repr

structure Method where
  name : String
  exported : Bool
  variadic : Bool
  params : List Param
  results : List Param
  deriving DecidableEq, Repr

inductive Kind where
  /-- `none` = typed constant, `some v` = untyped constant with exact value `v` -/
  | const (untyped : Option CVal)
  | func (generic : Bool)
  | var
  /-- a type name whose underlying type is not an interface -/
  | typ (generic : Bool)
  /-- a type name whose underlying type is an interface: `NumEmbeddeds`, `IsMethodSet`, all methods -/
  | iface (generic : Bool) (embeds : Nat) (methodSet : Bool) (methods : List Method)
  | other
  deriving DecidableEq, Repr

structure Obj where
  name : String
  exported : Bool
  kind : Kind
  deriving DecidableEq, Repr

structure Pkg where
  /-- the import path the extractor resolved (`ipp`) -/
  importPath : String
  /-- `types.Package.Path()` as the extractor's importer reports it -/
  path : String
  name : String
  dest : String
  /-- minor version of the running toolchain, and `Extractor.Tag` -/
  minor : Nat
  tags : List String
  objs : List Obj
  /-- `p.Imports()`: the packages the extracted package imports directly (an inherited method of an
      embedded foreign interface may mention types of packages that are not among them) -/
  directImports : List String := []
  deriving Repr

/-! ### the output: abstract wrapper file -/

structure Ident where
  /-- qualifier; `""` = a bare identifier of the destination package -/
  pkg : String
  name : String
  deriving DecidableEq, Repr

inductive Tok where
  | INT | FLOAT | STRING | COMPLEX
  deriving DecidableEq, Repr

/-- the value a nested INT / FLOAT literal denotes -/
inductive Num where
  | int (v : Int)
  | rat (num : Int) (den : Nat)
  deriving DecidableEq, Repr

inductive LitVal where
  | int (v : Int)
  | rat (num : Int) (den : Nat)
  | str (s : String)
  /-- `constant.BinaryOp(RE, token.ADD, constant.MakeImag(IM))`, RE and IM literals -/
  | cplx (re im : Num)
  deriving DecidableEq, Repr

inductive Form where
  /-- `reflect.ValueOf(X)` -/
  | value (id : Ident)
  /-- `reflect.ValueOf(&X).Elem()` -/
  | addr (id : Ident)
  /-- `reflect.ValueOf(constant.MakeFromLiteral(text, token.TOK, 0))`, by the value the text denotes
      (COMPLEX: `constant.BinaryOp` of two such literals) -/
  | lit (tok : Tok) (v : LitVal)
  /-- `reflect.ValueOf((*X)(nil))` -/
  | typ (id : Ident)
  /-- `reflect.ValueOf((*_prefix_Name)(nil))` under key `_Name` -/
  | wrap (tname : String)
  /-- the template no longer has the shape this model knows -/
  | odd
  deriving DecidableEq, Repr

structure Entry where
  key : String
  form : Form
  deriving DecidableEq, Repr

structure WParam where
  name : String
  /-- for a variadic parameter: the element type -/
  typ : List Char
  variadic : Bool
  deriving DecidableEq, Repr

structure WArg where
  name : String
  ellipsis : Bool
  deriving DecidableEq, Repr

structure WMethod where
  name : String
  params : List WParam
  results : List WParam
  args : List WArg
  /-- the forwarded call is returned -/
  ret : Bool
  /-- `if W.WString == nil { return "" }` precedes the call -/
  guard : Bool
  deriving DecidableEq, Repr

structure WType where
  name : String
  iface : String
  methods : List WMethod
  deriving DecidableEq, Repr

structure File where
  dest : String
  symKey : String
  tags : String
  /-- every import the template prints, in the order the data is built (duplicates kept) -/
  imports : List String
  vals : List Entry
  typs : List Entry
  wraps : List Entry
  wtypes : List WType
  deriving DecidableEq, Repr

/-! ### facts read from the source, and the switches derived from them -/

structure Facts where
  /-- keys of `restricted` whose value is `true` (sorted) -/
  restricted : List String
  /-- case types of `switch o := o.(type)` in genContent, in order -/
  arms : List String
  /-- every `Val{x, b}` literal of an arm: (arm, text of x, b) -/
  valLits : List (String × String × Bool)
  /-- right-hand sides of `typ[name] = …` and `wrap[name] = …` -/
  typRhs : List String
  /-- conditions of the `if … { continue }` statements of genContent's object loop, in order -/
  skips : List String
  /-- statements of the two branches of `if sign.Variadic() && j == len(args)-1` -/
  variadicCond : String
  variadicThen : List String
  variadicElse : List String
  /-- the remaining statements of the method loop that build Method values -/
  methodStmts : List String
  /-- fixConst: (constant kind, token); `""` = that kind returns the name -/
  fixCases : List (String × String)
  /-- statements of fixConst's Float case -/
  fixFloat : List String
  fixFormat : String
  /-- arguments of strings.NewReplacer for the wrapper prefix (none: no replacer) -/
  replaced : List String
  prefixExpr : String
  /-- `if rname := …; COND { pname = rname }` -/
  restrictedCond : String
  /-- the statements that compute `usePkg` and hand it to the template (none: there is no such thing) -/
  usePkg : List String
  /-- statements of fixConst's Complex case -/
  fixComplex : List String
  /-- the loop that pre-populates `imports` and the body of the closure `qualify` -/
  qualify : List String
  /-- named lines of the template -/
  tmpl : List (String × String)
  defaultMinor : Nat
  deriving DecidableEq, Repr

structure Knobs where
  restricted : List String
  hConst : Bool
  hFunc : Bool
  hVar : Bool
  hType : Bool
  /-- untyped constants go through fixConst, typed ones are bound by name -/
  constFix : Bool
  addrConst : Bool
  addrFunc : Bool
  addrVar : Bool
  skipUnexported : Bool
  skipGenericFunc : Bool
  skipGenericType : Bool
  /-- before 87ef90c: an interface without methods that embeds something is taken for a constraint -/
  skipConstraintIface : Bool
  /-- `!t.IsMethodSet()` -/
  skipNonMethodSet : Bool
  skipUnexportedMethod : Bool
  /-- the variadic branch prints `...` + the type string without its first two characters -/
  variadicType : Bool
  /-- the variadic branch appends `...` to the forwarded argument -/
  variadicArg : Bool
  /-- before 7677ad0: an empty parameter name becomes `a<i>`, every other name is copied -/
  defaultNames : Bool
  /-- parameters called "", `_` or `W` get a fresh `a<i>` name, results called `W` a fresh `r<i>` -/
  freshNames : Bool
  /-- before 2873e96: the nil guard goes to every method called String -/
  guardByName : Bool
  /-- the nil guard goes to `String() string` only (Method.Stringer) -/
  guardStringer : Bool
  /-- the restricted-symbol substitution asks for `importPath == p.Name()` -/
  restrictedStdOnly : Bool
  /-- the extracted package is imported only if a binding names it (UsePkg) -/
  importIfUsed : Bool
  /-- `qualify` marks every package it prints other than the extracted one -/
  qualifyForeign : Bool
  /-- `qualify` marks a package only if `imports` already has it (the direct imports) -/
  qualifyDirectOnly : Bool
  litInt : Bool
  litFloat : Bool
  litString : Bool
  /-- fixConst's Complex case builds `constant.BinaryOp(re, token.ADD, constant.MakeImag(im))` -/
  litComplex : Bool
  /-- the prefix is `strings.Map` over `"_"+importPath+"_"`: every non-letter, non-digit becomes `_` -/
  prefixAll : Bool
  replaced : List Char
  /-- the template prints the binding forms / forwarding methods this model knows -/
  tmplOk : Bool
  defaultMinor : Nat
  deriving DecidableEq, Repr

def lookup (k : String) : List (String × String) → Option String
  | [] => none
  | (a, b) :: r => if a = k then some b else lookup k r

/-- the `Addr` flags of the `Val` literals of one arm -/
def addrFlags (arm : String) (ls : List (String × String × Bool)) : List (String × Bool) :=
  (ls.filter (fun l => l.1 == arm)).map (fun l => l.2)

/-- the template text the model was written against (the two lines that repairs changed, `guard`
    and `importpkg`, are looked at separately) -/
def knownTmpl : List (String × String) :=
  [("addr", "\"{{$key}}\": reflect.ValueOf(&{{$value.Name}}).Elem(),"),
   ("value", "\"{{$key}}\": reflect.ValueOf({{$value.Name}}),"),
   ("type", "\"{{$key}}\": reflect.ValueOf((*{{$value}})(nil)),"),
   ("wrap", "\"_{{$key}}\": reflect.ValueOf((*{{$value.Name}})(nil)),"),
   ("symkey", "Symbols[\"{{.PkgName}}\"] = map[string]reflect.Value{"),
   ("struct", "type {{$value.Name}} struct {"),
   ("ivalue", "IValue interface{}"),
   ("field", "W{{$m.Name}} func{{$m.Param}} {{$m.Result}}"),
   ("method", "func (W {{$value.Name}}) {{$m.Name}}{{$m.Param}} {{$m.Result}} {"),
   ("call", "{{- $m.Ret}} W.W{{$m.Name}}{{$m.Arg -}}"),
   ("tags", "{{if .BuildTags}}// +build {{.BuildTags}}{{end}}"),
   ("package", "package {{.Dest}}")]

/-- the statements 7677ad0 added to the method loop: the set of declared names and `fresh` -/
def freshStmts : List String :=
  ["used := map[string]bool{\"W\": true}", "range _ []*types.Tuple{sign.Params(), sign.Results()}",
   "for j := 0; j < vars.Len(); j++", "used[vars.At(j).Name()] = true",
   "fresh := func(prefix string, j int) string { name := fmt.Sprintf(\"%s%d\", prefix, j) for used[name] { name += \"_\" } used[name] = true return name }",
   "args[j] = v.Name(); args[j] == \"\" || args[j] == \"_\" || args[j] == \"W\" => args[j] = fresh(\"a\", j)",
   "name := v.Name()", "name == \"W\" => name = fresh(\"r\", j)",
   "results[j] = name + \" \" + types.TypeString(v.Type(), qualify)"]

/-- the statements 2873e96 added: Method.Stringer -/
def stringerStmts : List String :=
  ["stringer := false",
   "f.Name() == \"String\" && sign.Params().Len() == 0 && sign.Results().Len() == 1 => b, ok := sign.Results().At(0).Type().Underlying().(*types.Basic); stringer = ok && b.Kind() == types.String",
   "methods = append(methods, Method{f.Name(), param, result, arg, ret, stringer})"]

def knobsOf (F : Facts) : Knobs :=
  { restricted := F.restricted
    hConst := F.arms.contains "*types.Const"
    hFunc := F.arms.contains "*types.Func"
    hVar := F.arms.contains "*types.Var"
    hType := F.arms.contains "*types.TypeName" &&
      F.typRhs == ["typ[name] = pname", "wrap[name] = Wrap{prefix + name, methods}"]
    constFix := addrFlags "*types.Const" F.valLits ==
      [("fixConst(pname, o.Val(), imports)", false), ("pname", false)] ||
      addrFlags "*types.Const" F.valLits == [("fixConst(pname, o.Val(), imports)", true), ("pname", true)]
    addrConst := (addrFlags "*types.Const" F.valLits).any (·.2)
    addrFunc := (addrFlags "*types.Func" F.valLits).any (·.2)
    addrVar := (addrFlags "*types.Var" F.valLits).all (·.2) && !(addrFlags "*types.Var" F.valLits).isEmpty
    skipUnexported := F.skips.contains "!o.Exported()"
    skipGenericFunc := F.skips.contains "s := o.Type().(*types.Signature); s.TypeParams().Len() > 0 || s.RecvTypeParams().Len() > 0"
    skipGenericType := F.skips.contains "t, ok := o.Type().(*types.Named); ok && t.TypeParams().Len() > 0"
    skipConstraintIface := F.skips.contains "t.NumMethods() == 0 && t.NumEmbeddeds() != 0 => delete(typ, name)"
    skipNonMethodSet := F.skips.contains "!t.IsMethodSet() => delete(typ, name)"
    skipUnexportedMethod := F.skips.contains "!f.Exported()"
    variadicType := F.variadicCond == "sign.Variadic() && j == len(args)-1" &&
      F.variadicThen.contains "at := types.TypeString(v.Type(), qualify)[2:]" &&
      F.variadicThen.contains "params[j] = args[j] + \" ...\" + at"
    variadicArg := F.variadicCond == "sign.Variadic() && j == len(args)-1" &&
      F.variadicThen.contains "args[j] += \"...\""
    defaultNames := F.methodStmts.contains "args[j] = v.Name(); args[j] == \"\" => args[j] = fmt.Sprintf(\"a%d\", j)" &&
      F.methodStmts.contains "results[j] = v.Name() + \" \" + types.TypeString(v.Type(), qualify)"
    freshNames := freshStmts.all F.methodStmts.contains
    guardByName := lookup "guard" F.tmpl == some "{{- if eq $m.Name \"String\"}}"
    guardStringer := lookup "guard" F.tmpl == some "{{- if $m.Stringer}}" && stringerStmts.all F.methodStmts.contains
    restrictedStdOnly := F.restrictedCond == "rname := p.Name() + name; restricted[rname] && importPath == p.Name() => pname = rname"
    importIfUsed := lookup "importpkg" F.tmpl == some "{{- if .UsePkg }}" &&
      F.usePkg == ["\"UsePkg\": usePkg", "usePkg := len(typ) > 0",
        "range name, v val => usePkg = usePkg || v.Name == p.Name()+\".\"+name"]
    qualifyForeign := F.qualify == ["range _, pkg p.Imports() => imports[pkg.Path()] = false",
      "if pkg.Path() != importPath => imports[pkg.Path()] = true", "return pkg.Name()"]
    qualifyDirectOnly := F.qualify == ["range _, pkg p.Imports() => imports[pkg.Path()] = false",
      "if _, ok := imports[pkg.Path()]; ok => imports[pkg.Path()] = true", "return pkg.Name()"]
    litInt := lookup "Int" F.fixCases == some "INT"
    litFloat := lookup "Float" F.fixCases == some "FLOAT" &&
      F.fixFloat == ["v := constant.Val(val)", "f, ok := v.(*big.Float)",
        "if !ok { f = new(big.Float).SetRat(v.(*big.Rat)) }", "tok = \"FLOAT\"", "str = f.Text('g', int(f.Prec()))"]
    litString := lookup "String" F.fixCases == some "STRING"
    litComplex := lookup "Complex" F.fixCases == some "" &&
      F.fixComplex == ["re := fixConst(name, constant.Real(val), imports)", "im := fixConst(name, constant.Imag(val), imports)",
        "return fmt.Sprintf(\"constant.BinaryOp(%s, token.ADD, constant.MakeImag(%s))\", re, im)"]
    prefixAll := F.prefixExpr == "strings.Map(func(r rune) rune { if unicode.IsLetter(r) || unicode.IsDigit(r) { return r } return '_' }, \"_\"+importPath+\"_\")"
    replaced := (F.replaced.filter (fun s => s.length == 1 && s != "_")).flatMap String.toList
    tmplOk := F.tmpl.filter (fun l => l.1 != "guard" && l.1 != "importpkg") == knownTmpl &&
      -- each choice a repair changed reads as the text after or as the text before the repair
      ((lookup "guard" F.tmpl == some "{{- if $m.Stringer}}" && stringerStmts.all F.methodStmts.contains) ||
        lookup "guard" F.tmpl == some "{{- if eq $m.Name \"String\"}}") &&
      ((lookup "importpkg" F.tmpl == some "{{- if .UsePkg }}" &&
          F.usePkg == ["\"UsePkg\": usePkg", "usePkg := len(typ) > 0",
            "range name, v val => usePkg = usePkg || v.Name == p.Name()+\".\"+name"]) ||
        (lookup "importpkg" F.tmpl == some "{{- if or .Val .Typ }}" && F.usePkg.isEmpty)) &&
      (F.restrictedCond == "rname := p.Name() + name; restricted[rname] && importPath == p.Name() => pname = rname" ||
        F.restrictedCond == "rname := p.Name() + name; restricted[rname] => pname = rname") &&
      (F.fixComplex == ["re := fixConst(name, constant.Real(val), imports)", "im := fixConst(name, constant.Imag(val), imports)",
          "return fmt.Sprintf(\"constant.BinaryOp(%s, token.ADD, constant.MakeImag(%s))\", re, im)"] ||
        F.fixComplex == ["fallthrough"]) &&
      F.fixFormat == "constant.MakeFromLiteral(%q, token.%s, 0) <- str, tok" &&
      (F.prefixExpr == "strings.Map(func(r rune) rune { if unicode.IsLetter(r) || unicode.IsDigit(r) { return r } return '_' }, \"_\"+importPath+\"_\")" ||
        F.prefixExpr == "\"_\" + importPath + \"_\" ; prefix = strings.NewReplacer(\"/\", \"_\", \"-\", \"_\", \".\", \"_\", \"~\", \"_\").Replace(prefix)")
    defaultMinor := F.defaultMinor }

/-! ### fixConst for floating-point constants: `big.Float.SetRat` then `Text('g', prec)` -/

/-- `big.Int.BitLen` -/
def bitlen (n : Nat) : Nat := if n = 0 then 0 else Nat.log2 n + 1

/-- round-half-even of `n / d` (`d > 0`) -/
def roundHE (n d : Nat) : Nat :=
  let q := n / d
  let r := n % d
  if 2 * r > d ∨ (2 * r = d ∧ q % 2 = 1) then q + 1 else q

/-- `a / b` (`a, b > 0`) rounded to `prec` mantissa bits, ties to even (big.Float.SetRat, mode
    ToNearestEven). Result `(m, q, s)` stands for the dyadic number `m * 2^s / 2^q`. -/
def binRound (prec a b : Nat) : Nat × Nat × Nat :=
  -- a/b lies in (2^(la-lb-1), 2^(la-lb+1)): scaled by 2^(lb+prec-la) the quotient has prec or prec+1 bits
  let la := bitlen a
  let lb := bitlen b
  let up := (lb + prec) - la       -- shift applied to a (when la < lb + prec)
  let dn := la - (lb + prec)       -- shift applied to b (when la > lb + prec)
  if (a * 2 ^ up) / (b * 2 ^ dn) ≥ 2 ^ prec then
    -- prec+1 bits: one bit less
    if up > 0 then (roundHE (a * 2 ^ (up - 1)) b, up - 1, 0)
    else (roundHE a (b * 2 ^ (dn + 1)), 0, dn + 1)
  else (roundHE (a * 2 ^ up) (b * 2 ^ dn), up, dn)

/-- number of decimal digits (`0` for `0`) -/
def ndigitsAux : Nat → Nat → Nat
  | 0, _ => 0
  | f + 1, n => if n = 0 then 0 else ndigitsAux f (n / 10) + 1

def ndigits (n : Nat) : Nat := ndigitsAux (Nat.log2 n + 1) n

/-- `big.Float.Text('g', P)` of the dyadic number `m * 2^s / 2^q`: its exact decimal expansion
    `N / 10^q` with `N = m * 2^s * 5^q`, rounded to `P` significant digits (ties to even) when it has
    more; the result is the rational the printed text denotes. -/
def decText (P m q s : Nat) : Nat × Nat :=
  let N := m * 2 ^ s * 5 ^ q
  let t := ndigits N
  if t ≤ P then (N, 10 ^ q)
  else (roundHE N (10 ^ (t - P)) * 10 ^ (t - P), 10 ^ q)

/-- the value denoted by the text fixConst prints for a floating-point constant `num/den`
    (`prec ≠ 0`: the constant is a big.Float of that precision, `den` a power of two) -/
def floatText (num : Int) (den prec : Nat) : Int × Nat :=
  if num = 0 then (0, 1) else
  let a := num.natAbs
  let r := if prec = 0 then
      -- *big.Rat: SetRat with precision max(bitlen a, bitlen b, 64)
      decText (max (max (bitlen a) (bitlen den)) 64)
        (binRound (max (max (bitlen a) (bitlen den)) 64) a den).1
        (binRound (max (max (bitlen a) (bitlen den)) 64) a den).2.1
        (binRound (max (max (bitlen a) (bitlen den)) 64) a den).2.2
    else decText prec a (Nat.log2 den) 0
  (if num < 0 then -(r.1 : Int) else (r.1 : Int), r.2)

/-! ### genContent -/

/-- `pname`: `pkg.Name` or the locally provided replacement (since 246eb1c only for the packages
    whose import path is their name: the standard library's os and log) -/
def pname (K : Knobs) (p : Pkg) (name : String) : Ident :=
  if K.restricted.contains (p.name ++ name) && (!K.restrictedStdOnly || p.importPath == p.name)
  then ⟨"", p.name ++ name⟩ else ⟨p.name, name⟩

def bindForm (addr : Bool) (id : Ident) : Form := if addr then .addr id else .value id

/-- fixConst applied to the real or imaginary part of a complex constant -/
def fixPart : CNum → Num
  | .int n => .int n
  | .flt n d prec => .rat (floatText n d prec).1 (floatText n d prec).2

/-- fixConst (the form bound to an untyped constant) -/
def fixConst (K : Knobs) (id : Ident) : CVal → Form
  | .int n => if K.litInt then .lit .INT (.int n) else bindForm K.addrConst id
  | .flt n d prec => if K.litFloat then .lit .FLOAT (.rat (floatText n d prec).1 (floatText n d prec).2) else bindForm K.addrConst id
  | .str s => if K.litString then .lit .STRING (.str s) else bindForm K.addrConst id
  | .bool _ => bindForm K.addrConst id
  | .cplx re im =>
    if K.litComplex then
      -- the parts go through fixConst again; a part that came back as a name would not be a constant.Value
      (if K.litInt && K.litFloat then .lit .COMPLEX (.cplx (fixPart re) (fixPart im)) else .odd)
    else bindForm K.addrConst id

def isLit : Form → Bool
  | .lit _ _ => true
  | _ => false

/-- the `val[name] = …` assignment of the switch (none: the object gets no entry in `val`) -/
def valForm (K : Knobs) (p : Pkg) (o : Obj) : Option Form :=
  if K.skipUnexported && !o.exported then none else
  match o.kind with
  | .const none => if K.hConst then some (bindForm K.addrConst (pname K p o.name)) else none
  | .const (some v) =>
    if K.hConst then
      some (if K.constFix then fixConst K (pname K p o.name) v else bindForm K.addrConst (pname K p o.name))
    else none
  | .func g => if K.hFunc then (if K.skipGenericFunc && g then none else some (bindForm K.addrFunc (pname K p o.name))) else none
  | .var => if K.hVar then some (bindForm K.addrVar (pname K p o.name)) else none
  | _ => none

/-- is the type name kept in `typ` -/
def typKept (K : Knobs) (o : Obj) : Bool :=
  (!(K.skipUnexported && !o.exported)) && K.hType &&
  match o.kind with
  | .typ g => !(K.skipGenericType && g)
  | .iface g emb methodSet ms =>
    !(K.skipGenericType && g) && !(K.skipConstraintIface && ms.isEmpty && emb != 0) && !(K.skipNonMethodSet && !methodSet)
  | _ => false

/-- does the interface get a wrapper (`wrap[name]`) -/
def wrapKept (K : Knobs) (o : Obj) : Bool :=
  typKept K o && match o.kind with
  | .iface _ _ _ _ => true
  | _ => false

/-! #### names of the parameters and results of a wrapper method -/

/-- `for used[name] { name += "_" }` (at most `fuel` rounds) -/
def freshFrom : Nat → List String → String → String
  | 0, _, s => s
  | f + 1, used, s => if used.contains s then freshFrom f used (s ++ "_") else s

/-- the closure `fresh` of the method loop: `prefix<j>` followed by as many `_` as it takes to be new.
    (`used.length + 1` rounds are enough: the candidates are pairwise distinct.) -/
def fresh (used : List String) (pre : String) (j : Nat) : String :=
  freshFrom (used.length + 1) used (pre ++ toString j)

/-- a parameter with this name cannot be forwarded (or collides with the receiver) -/
def needsFresh (n : String) : Bool := n == "" || n == "_" || n == "W"

/-- the names of the parameters, and the names declared so far (`used`) -/
def paramNames (K : Knobs) : List String → Nat → List Param → List String × List String
  | used, _, [] => ([], used)
  | used, i, p :: ps =>
    if K.freshNames then
      if needsFresh p.name then
        let r := paramNames K (fresh used "a" i :: used) (i + 1) ps
        (fresh used "a" i :: r.1, r.2)
      else
        let r := paramNames K used (i + 1) ps
        (p.name :: r.1, r.2)
    else
      let r := paramNames K used (i + 1) ps
      ((if K.defaultNames && p.name == "" then "a" ++ toString i else p.name) :: r.1, r.2)

/-- the names of the results -/
def resultNames (K : Knobs) : List String → Nat → List Param → List String
  | _, _, [] => []
  | used, i, r :: rs =>
    if K.freshNames && r.name == "W" then fresh used "r" i :: resultNames K (fresh used "r" i :: used) (i + 1) rs
    else r.name :: resultNames K used (i + 1) rs

/-- the names the method declares before any is invented: the receiver, the parameters, the results -/
def declared (m : Method) : List String := "W" :: (m.params ++ m.results).map (·.name)

def rename : List Param → List String → List Param
  | p :: ps, n :: ns => { p with name := n } :: rename ps ns
  | _, _ => []

/-- parameters of a wrapper method: `n` = number of parameters, `i` = index of the head -/
def wparams (K : Knobs) (variadic : Bool) (n : Nat) : Nat → List Param → List WParam
  | _, [] => []
  | i, p :: ps =>
    let last := variadic && (i + 1 == n)
    { name := p.name,
      typ := if last && K.variadicType then p.typ.drop 2 else p.typ,
      variadic := last && K.variadicType } :: wparams K variadic n (i + 1) ps

def wargs (K : Knobs) (variadic : Bool) (n : Nat) : Nat → List Param → List WArg
  | _, [] => []
  | i, p :: ps =>
    { name := p.name, ellipsis := variadic && (i + 1 == n) && K.variadicArg } :: wargs K variadic n (i + 1) ps

def wresults (rs : List Param) : List WParam :=
  rs.map fun r => { name := r.name, typ := r.typ, variadic := false }

/-- Method.Stringer: `String() string` -/
def isStringer (m : Method) : Bool :=
  m.name == "String" && m.params.isEmpty && match m.results with
    | [r] => r.isString
    | _ => false

def wmethod (K : Knobs) (m : Method) : WMethod :=
  let pn := paramNames K (declared m) 0 m.params
  let ps := rename m.params pn.1
  { name := m.name
    params := wparams K m.variadic m.params.length 0 ps
    results := wresults (rename m.results (resultNames K pn.2 0 m.results))
    args := wargs K m.variadic m.params.length 0 ps
    ret := !m.results.isEmpty
    guard := (K.guardByName && m.name == "String") || (K.guardStringer && isStringer m) }

def keptMethods (K : Knobs) (ms : List Method) : List Method :=
  ms.filter fun m => !(K.skipUnexportedMethod && !m.exported)

def methodsOf : Kind → List Method
  | .iface _ _ _ ms => ms
  | _ => []

/-- `unicode.IsLetter(r) || unicode.IsDigit(r)` on the bytes of an import path (import paths are
    ASCII; a byte of a multi-byte character is kept) -/
def keptInPrefix (c : Char) : Bool := c.isAlphanum || c.toNat ≥ 128

/-- the wrapper prefix: `"_" + importPath + "_"` with every character that is not a letter or a digit
    replaced by `_` (before 169d4db: only `/ - . ~`) -/
def mangle (K : Knobs) (importPath : String) : String :=
  String.ofList (("_" ++ importPath ++ "_").toList.map fun c =>
    if K.prefixAll then (if keptInPrefix c then c else '_')
    else if K.replaced.contains c then '_' else c)

def wtypeOf (K : Knobs) (p : Pkg) (o : Obj) : WType :=
  { name := mangle K p.importPath ++ o.name, iface := o.name,
    methods := (keptMethods K (methodsOf o.kind)).map (wmethod K) }

def valEntries (K : Knobs) (p : Pkg) : List Obj → List Entry
  | [] => []
  | o :: os => match valForm K p o with
    | some f => ⟨o.name, if K.tmplOk then f else .odd⟩ :: valEntries K p os
    | none => valEntries K p os

def typEntries (K : Knobs) (p : Pkg) : List Obj → List Entry
  | [] => []
  | o :: os =>
    if typKept K o then ⟨o.name, if K.tmplOk then .typ (pname K p o.name) else .odd⟩ :: typEntries K p os
    else typEntries K p os

def wrapEntries (K : Knobs) (p : Pkg) : List Obj → List Entry
  | [] => []
  | o :: os =>
    if wrapKept K o then ⟨"_" ++ o.name, if K.tmplOk then .wrap (mangle K p.importPath ++ o.name) else .odd⟩ :: wrapEntries K p os
    else wrapEntries K p os

def wtypes (K : Knobs) (p : Pkg) : List Obj → List WType
  | [] => []
  | o :: os => if wrapKept K o then wtypeOf K p o :: wtypes K p os else wtypes K p os

/-- packages `qualify` marks while the signatures of the emitted methods are printed (a form of the
    closure the model does not know marks nothing) -/
def methodDeps (K : Knobs) (p : Pkg) (m : Method) : List String :=
  ((m.params ++ m.results).flatMap (·.deps)).filter fun d =>
    if K.qualifyForeign then d != p.importPath
    else K.qualifyDirectOnly && p.directImports.contains d

def typeImports (K : Knobs) (p : Pkg) : List Obj → List String
  | [] => []
  | o :: os =>
    (if wrapKept K o then (keptMethods K (methodsOf o.kind)).flatMap (methodDeps K p) else []) ++ typeImports K p os

/-- genBuildTags and the tag handling of genContent -/
def buildTags (K : Knobs) (p : Pkg) : String :=
  let std := !p.importPath.toList.contains '.'
  let base := if std then
      "go1." ++ toString p.minor ++ (if p.minor ≥ K.defaultMinor then "" else ",!go1." ++ toString (p.minor + 1))
    else ""
  let base := if p.importPath == "log/syslog" then base ++ ",!windows,!nacl,!plan9" else base
  let all := (p.tags.filter (· != "")).foldl (fun acc t => acc ++ "," ++ t) base
  match all.toList with
  | ',' :: r => String.ofList r
  | _ => all

/-- fixConst marked go/constant and go/token as needed -/
def litUsed (K : Knobs) (p : Pkg) (os : List Obj) : Bool :=
  os.any fun o => match valForm K p o with
    | some f => isLit f
    | none => false

/-- `v.Name == p.Name()+"."+name`: the binding names the package -/
def namesPkg (p : Pkg) (e : Entry) : Bool :=
  match e.form with
  | .value id => id == ⟨p.name, e.key⟩
  | .addr id => id == ⟨p.name, e.key⟩
  | _ => false

/-- `usePkg` (before a2117ce: `or .Val .Typ` in the template) -/
def usePkg (K : Knobs) (p : Pkg) (vals typs : List Entry) : Bool :=
  if K.importIfUsed then !typs.isEmpty || vals.any (namesPkg p) else !(vals.isEmpty && typs.isEmpty)

/-- the abstract wrapper file genContent hands to the template -/
def genY (K : Knobs) (p : Pkg) : File :=
  let vals := valEntries K p p.objs
  let typs := typEntries K p p.objs
  { dest := p.dest
    symKey := p.importPath ++ "/" ++ p.name
    tags := buildTags K p
    imports := typeImports K p p.objs
      ++ (if litUsed K p p.objs then ["go/constant", "go/token"] else [])
      ++ (if usePkg K p vals typs then [p.importPath] else [])
      ++ ["reflect"]
    vals := vals
    typs := typs
    wraps := wrapEntries K p p.objs
    wtypes := wtypes K p p.objs }

/-- go/format rejects the text when the wrapper type name is not an identifier -/
def identChar (c : Char) : Bool := c.isAlphanum || c == '_' || c.toNat ≥ 128

def formatFails (K : Knobs) (p : Pkg) : Bool :=
  !(wtypes K p p.objs).isEmpty && !(mangle K p.importPath).toList.all identChar

end YaegiVerif.Extract
