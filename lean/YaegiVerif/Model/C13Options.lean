import YaegiVerif.Model.Restricted
import YaegiVerif.Model.Env
/-
  C13 — model of `interp.New`: from a value of `interp.Options` to the configuration the interpreter (and,
  through `fixStdlib`, the script) works with. Core Lean only.

  A Go slice / interface value of `Options` is an `Option`: `none` = nil, `some []` = empty but non-nil.
  Which condition guards each default (`== nil`, `len(…) == 0`, …) is NOT written here: it is the `cond` of the
  `OptFlow` facts regenerated from the source, interpreted by `parseNilCond` / `NilCond.holds`.
-/
namespace YaegiVerif.Restricted
open YaegiVerif.Env

/-- the conditions of `New` as the extractor renders them (`_` = the value tested) -/
inductive NilCond where
  | isNil | notNil | lenZero | lenPos | unknown
  deriving DecidableEq, Repr, Inhabited

def parseNilCond (s : String) : NilCond :=
  if s == "_ == nil" then .isNil
  else if s == "_ != nil" then .notNil
  else if s == "len(_) == 0" then .lenZero
  else if s == "len(_) > 0" || s == "len(_) != 0" then .lenPos
  else .unknown

/-- truth of a condition on a value that is nil or not and (slices) has a length; `none` = not determined -/
def NilCond.holds (c : NilCond) (isNil : Bool) (len : Option Nat) : Option Bool :=
  match c with
  | .isNil => some isNil
  | .notNil => some !isNil
  | .lenZero => len.map (· == 0)
  | .lenPos => len.map (· != 0)
  | .unknown => none

/-- what a slot of the interpreter holds after `New` -/
inductive Resolved (α : Type) where
  | given (a : α)          -- the value of the Options field
  | dflt (what : String)   -- the default, as written in New: "os.Args", "os.Stdout", "&realFS{}", …
  | unknown
  deriving DecidableEq, Repr, Inhabited

def resolve {α : Type} (fl : OptFlow) (isNil : Bool) (len : Option Nat) (v : α) : Resolved α :=
  if fl.outer != [] then .unknown
  else if fl.kind == "always" then .given v
  else if fl.kind == "default-if" then
    match (parseNilCond fl.cond).holds isNil len with
    | some true => .dflt fl.dflt
    | some false => .given v
    | none => .unknown
  else if fl.kind == "set-if" then
    match (parseNilCond fl.cond).holds isNil len with
    | some true => .given v
    | some false => .dflt fl.dflt
    | none => .unknown
  else .unknown

def flowOf (F : Facts) (slot : String) : Option OptFlow := F.optFlows.find? (fun fl => fl.slot == slot)

/-- the value of an `io.Reader` / `io.Writer` field as far as `fixStdlib` can tell -/
inductive StreamArg where
  | file      -- an *os.File
  | other     -- any other reader / writer (a buffer, a pipe end wrapped in a struct, …)
  deriving DecidableEq, Repr, Inhabited

/-- a value of `interp.Options` -/
structure Options where
  args : Option (List String) := none
  env : Option (List String) := none
  stdin : Option StreamArg := none
  stdout : Option StreamArg := none
  stderr : Option StreamArg := none
  goPath : String := ""
  buildTags : Option (List String) := none
  fs : Bool := false                -- SourcecodeFilesystem is non-nil
  unrestricted : Bool := false
  deriving DecidableEq, Repr, Inhabited

/-- the host process as far as `New` / `fixStdlib` look at it -/
structure Host where
  args : List String := []
  env : Env := []
  specialStdio : Bool := false      -- YAEGI_SPECIAL_STDIO
  deriving DecidableEq, Repr, Inhabited

def slotSlice (F : Facts) (slot : String) (v : Option (List String)) : Resolved (List String) :=
  match flowOf F slot with
  | some fl => resolve fl v.isNone (some (v.getD []).length) (v.getD [])
  | none => .unknown

def slotIface {α : Type} (F : Facts) (slot : String) (v : Option α) : Resolved (Option α) :=
  match flowOf F slot with
  | some fl => resolve fl v.isNone none v
  | none => .unknown

def slotString (F : Facts) (slot : String) (v : String) : Resolved String :=
  match flowOf F slot with
  | some fl => resolve fl false (some v.length) v
  | none => .unknown

/-- `if options.Unrestricted { i.opt.unrestricted = true }` over the zero value -/
def effUnrestricted (F : Facts) (o : Options) : Option Bool :=
  match flowOf F "unrestricted" with
  | some fl => if fl.kind == "flag" && fl.cond == "_" && fl.dflt == "zero" && fl.outer == [] then some o.unrestricted else none
  | none => none

/-- the entries `New` loads into the interpreter's map (which starts as the empty map of the literal) -/
def envEntries (F : Facts) (o : Options) : Option (List String) :=
  match flowOf F "env", effUnrestricted F o with
  | some fl, some u =>
    if fl.kind == "range" && fl.dflt == "map[string]string{}" then
      if fl.outer == ["!(options.Unrestricted)"] then some (if u then [] else o.env.getD [])
      else if fl.outer == [] then some (o.env.getD [])
      else none
    else none
  | _, _ => none

def initVirtOf (F : Facts) (o : Options) : Option Env := (envEntries F o).map parseEnv

def isFileStream (r : Resolved (Option StreamArg)) (hostName : String) : Bool :=
  match r with
  | .given (some .file) => true
  | .dflt d => d == hostName      -- os.Stdin / os.Stdout / os.Stderr are *os.File
  | _ => false

/-- the configuration `fixStdlib` sees -/
def cfgOf (F : Facts) (o : Options) (h : Host) : Cfg :=
  { unrestricted := (effUnrestricted F o).getD false
    specialStdio := h.specialStdio
    stdinFile := isFileStream (slotIface F "stdin" o.stdin) "os.Stdin"
    stdoutFile := isFileStream (slotIface F "stdout" o.stdout) "os.Stdout"
    stderrFile := isFileStream (slotIface F "stderr" o.stderr) "os.Stderr" }

/-! ### what the script observes -/

inductive ArgsSrc where
  | opt (a : List String)    -- the vector given in Options
  | host                     -- the host's os.Args
  | unknown
  deriving DecidableEq, Repr, Inhabited

def ArgsSrc.value (s : ArgsSrc) (h : Host) : Option (List String) :=
  match s with
  | .opt a => some a
  | .host => some h.args
  | .unknown => none

/-- the vector `interp.args` holds after `New` -/
def interpArgsSrc (F : Facts) (o : Options) : ArgsSrc :=
  match slotSlice F "args" o.args with
  | .given a => .opt a
  | .dflt d => if d == "os.Args" then .host else .unknown
  | .unknown => .unknown

/-- the vector behind the script's `os.Args` -/
def scriptArgsSrc (F : Facts) (o : Options) (h : Host) : ArgsSrc :=
  match ioStream F (cfgOf F o h) "os" "Args" with
  | .args => interpArgsSrc F o
  | .hostArgs => .host
  | _ => .unknown

/-- the script's `os.Args` -/
def scriptArgs (F : Facts) (o : Options) (h : Host) : Option (List String) := (scriptArgsSrc F o h).value h

/-- `flag.Parse(); flag.Args()`: whose arguments are parsed -/
def flagParseSrc (F : Facts) (o : Options) (h : Host) : ArgsSrc :=
  match ioStream F (cfgOf F o h) "flag" "Parse", ioStream F (cfgOf F o h) "flag" "Args" with
  | .hostFlag, .hostFlag => .host
  | _, _ => .unknown

/-- where the name of the script's `flag.CommandLine` comes from -/
inductive NameSrc where
  | argsHead     -- element 0 of `interp.args`, "" when that vector is empty
  | hostArg0     -- `os.Args[0]` of the host
  | unknown
  deriving DecidableEq, Repr, Inhabited

/-- read from the extracted definitions of fixStdlib:
      c := flag.NewFlagSet(os.Args[0], flag.PanicOnError)                                      (before 3f8ef33)
      prog := ""; if len(interp.args) > 0 { prog = interp.args[0] }; c := flag.NewFlagSet(prog, flag.PanicOnError)
    with `p["CommandLine"] = reflect.ValueOf(&c).Elem()` -/
def cmdLineNameKind (F : Facts) (c : Cfg) : NameSrc :=
  match effective F c "flag" "CommandLine" with
  | .override r =>
    if r.shape == .expr && r.free == [⟨"reflect.ValueOf", "reflect", "ValueOf"⟩, ⟨"c", "c", "c"⟩] then
      match findLocal F "c" with
      | some lc =>
        if lc.assigns != [] then .unknown
        else if lc.expr == "flag.NewFlagSet(os.Args[0], flag.PanicOnError)" then .hostArg0
        else if lc.expr == "flag.NewFlagSet(prog, flag.PanicOnError)" then
          match findLocal F "prog" with
          | some lp =>
            if lp.expr == "\"\"" && lp.assigns.map (fun a => (a.guards, a.expr)) == [(["len(interp.args) > 0"], "interp.args[0]")] then .argsHead
            else .unknown
          | none => .unknown
        else .unknown
      | none => .unknown
    else .unknown
  | .table (.hostVar "flag" "CommandLine") => .hostArg0
  | _ => .unknown

def headOr (a : List String) : String := a.head?.getD ""

/-- `flag.CommandLine.Name()` (and the program named by the "Usage of …" line of a parse error) -/
def cmdLineName (F : Facts) (o : Options) (h : Host) : Option String :=
  match cmdLineNameKind F (cfgOf F o h) with
  | .argsHead => ((interpArgsSrc F o).value h).map headOr
  | .hostArg0 => some (headOr h.args)
  | .unknown => none

inductive Dest where
  | opt | host | unknown
  deriving DecidableEq, Repr, Inhabited

def slotDest (F : Facts) (slot : String) (v : Option StreamArg) (hostName : String) : Dest :=
  match slotIface F slot v with
  | .given (some _) => .opt
  | .given none => .unknown
  | .dflt d => if d == hostName then .host else .unknown
  | .unknown => .unknown

def streamDest (F : Facts) (o : Options) (s : Stream) : Dest :=
  match s with
  | .optStdout => slotDest F "stdout" o.stdout "os.Stdout"
  | .optStderr => slotDest F "stderr" o.stderr "os.Stderr"
  | .optStdin => slotDest F "stdin" o.stdin "os.Stdin"
  | .hostStdout | .hostStderr | .hostStdin | .hostFlag => .host
  | _ => .unknown

/-- where output of / input to `pkg.name` goes: the stream given in Options or the host's own -/
def ioDest (F : Facts) (o : Options) (h : Host) (pkg name : String) : Dest :=
  streamDest F o (ioStream F (cfgOf F o h) pkg name)

def builtinDest (F : Facts) (o : Options) (b : String) : Dest := streamDest F o (builtinStream F b)

inductive EnvView where
  | virt (e : Env)     -- the interpreter's own map
  | host               -- the process environment
  | unknown
  deriving DecidableEq, Repr, Inhabited

/-- what `os.Environ()` shows a script that has not touched the environment yet -/
def scriptEnviron (F : Facts) (o : Options) (h : Host) : EnvView :=
  if envVirtual F (cfgOf F o h) "Environ" then
    match initVirtOf F o with
    | some e => .virt e
    | none => .unknown
  else match effective F (cfgOf F o h) "os" "Environ" with
    | .table (.host "os" "Environ") => .host
    | _ => .unknown

end YaegiVerif.Restricted
