/-
  C19 — executable model of the debugger branch of `runCfg` (interp/run.go) and of the
  `Debugger` state machine (interp/debugger.go).

  * A program is a control-flow graph over syntax-tree nodes (`Graph`) plus an abstract,
    deterministic semantics of closures (`Prog σ`): running (a segment of) a closure in an abstract
    state yields the next state and what the closure does: return its successor closure, call
    `runCfg` on another entry node, or panic. A closure has an `owner` (the node it executes: the
    node whose generator made it, or, for a forwarding closure of `setExec`, the node it forwards
    to), the identity of its *code* (`code`: what `reflect.Value.Pointer()` returns, shared by all
    closures made by one generator function literal) and the identity of the closure object itself
    (`id`: what `execID` returns).
  * `pstep`  : one step of the PLAIN loop   `for exec := n.exec; exec != nil; { exec = exec(f) }`
  * `dstep`  : one step of the DEBUG loop   `for m, exec := n, n.exec; ; { dbg.exec(m, f); exec = exec(f);
                                              m = re-derived from the identity of exec }`
    Both are machines over an explicit stack of `runCfg` activations (a call closure suspends, the
    callee's loop runs, the call closure resumes).
  * `dbgExec` : `(*Debugger).exec` — modes, fDepth/fStep, breakpoints, events, resume commands.
  * `rederive`, `orig` : the node re-derivation (`isExecNode` on tnext, then fnext, else
    `originalExecNode`).
  * `place` : `SetBreakpoints`.
  Core Lean only.
-/
namespace YaegiVerif.Debug

/-! ### facts read from the source -/

inductive Cmp | gt | ge | lt | le | eq | ne | unknown
  deriving DecidableEq, Repr

def Cmp.eval : Cmp → Nat → Nat → Bool
  | .gt, a, b => decide (a > b)
  | .ge, a, b => decide (a ≥ b)
  | .lt, a, b => decide (a < b)
  | .le, a, b => decide (a ≤ b)
  | .eq, a, b => decide (a = b)
  | .ne, a, b => decide (a ≠ b)
  | .unknown, _, _ => false

def Cmp.ofString : String → Cmp
  | ">" => .gt | ">=" => .ge | "<" => .lt | "<=" => .le | "==" => .eq | "!=" => .ne | _ => .unknown

inductive Probe | tnext | fnext
  deriving DecidableEq, Repr

/-- what the extractor reads (interp/run.go `runCfg`, `isExecNode`; interp/debugger.go `exec`) -/
structure DebugLoopFacts where
  /-- statements of the body of the debugger loop of runCfg, in source order -/
  loopOrder : List String
  /-- the cases of the node re-derivation switch, in source order -/
  probeOrder : List String
  /-- what isExecNode compares: "closure-identity" (`execID(n.exec) == execID(exec)`) or
      "code-pointer" (`reflect.ValueOf(n.exec).Pointer() == reflect.ValueOf(exec).Pointer()`) -/
  execCmp : String
  /-- isExecNode also accepts the forwarding closure recorded in `n.debug.forward` -/
  acceptsForward : Bool
  /-- the test of originalExecNode's callback: "isExecNode" or "code-pointer" -/
  origCmp : String
  /-- what setExec installs on the target of a back edge: "forward-recorded" (setForwardExec
      stores the forwarding closure in `n.debug.forward` too) or "forward-unrecorded" -/
  backEdge : String
  /-- the cases of the switch of `(*Debugger).exec`, in source order -/
  caseOrder : List String
  /-- operator of `g.fDepth OP g.fStep` that lets execution continue in step-over mode -/
  overCmp : String
  /-- likewise in step-out mode -/
  outCmp : String
  /-- `(*Debugger).exec` returns early, without looking at the mode, on a node without position -/
  noPosSkips : Bool
  /-- enterCall increments and exitCall decrements fDepth -/
  depthOps : List String
  /-- condition of the break case of `(*Debugger).exec`: "marked" (`n.shouldBreak()`) or
      "marked-entering-line" (`n.shouldBreak() && (n.debug.breakOnCall || dbg.entersLine(f.debug.prev, n))`) -/
  breakCond : String
  /-- `(*Debugger).exec` begins by recording the previous step of the frame in `f.debug.prev` -/
  prevUpdate : Bool
  /-- line branch of SetBreakpoints: "reachable-steps" or "first-candidate" -/
  placement : String
  /-- kinds that `(*node).isStep` accepts whatever the action -/
  stepKinds : List String
  /-- kinds whose entry points `cfgNodes` visits besides `root.start` -/
  cfgKinds : List String
  /-- `(*node).setProgram`, which `Debug` calls on every node, keeps the debug data the node has:
      a forwarding closure recorded while compiling (function literals) is still recorded when the
      session runs — what `Respects` assumes of back edges (seed C19-4) -/
  debugDataKept : Bool
  deriving DecidableEq, Repr

/-- the part of the facts the executable model is parametrised by -/
structure LoopFacts where
  /-- the closure is executed before the debugger is consulted -/
  execFirst : Bool
  probes : List Probe
  /-- isExecNode compares closure objects (else: their code) -/
  byIdentity : Bool
  /-- isExecNode accepts the forwarding closure recorded on the node -/
  forward : Bool
  /-- originalExecNode tests nodes with isExecNode (else: compares code) -/
  origIsExec : Bool
  overCmp : Cmp
  outCmp : Cmp
  /-- a line breakpoint is reported only when the frame enters the line (0a3a691) -/
  enterRule : Bool := true
  /-- the previous step of the frame is recorded -/
  tracksPrev : Bool := true
  /-- SetBreakpoints marks every reachable step of a requested line (else: the first candidate) -/
  placeSteps : Bool := true
  /-- kinds that are steps whatever their action (`break`, `continue`, `fallthrough`, `goto`) -/
  jumpKinds : List String := []
  /-- kinds whose entry points cfgNodes visits -/
  cfgKinds : List String := []
  deriving DecidableEq, Repr

def idxOf (s : String) : List String → Nat
  | [] => 0
  | x :: xs => if x = s then 0 else idxOf s xs + 1

def LoopFacts.ofRaw (r : DebugLoopFacts) : LoopFacts :=
  { execFirst := decide (idxOf "exec" r.loopOrder < idxOf "dbg.exec" r.loopOrder),
    probes := r.probeOrder.filterMap fun s => if s = "tnext" then some .tnext else if s = "fnext" then some .fnext else none,
    byIdentity := decide (r.execCmp = "closure-identity"),
    forward := r.acceptsForward,
    origIsExec := decide (r.origCmp = "isExecNode"),
    overCmp := Cmp.ofString r.overCmp,
    outCmp := Cmp.ofString r.outCmp,
    enterRule := decide (r.breakCond = "marked-entering-line"),
    tracksPrev := r.prevUpdate,
    placeSteps := decide (r.placement = "reachable-steps"),
    jumpKinds := r.stepKinds,
    cfgKinds := r.cfgKinds }

/-! ### graphs -/

structure Node where
  /-- identity of the code of `n.exec` (0: `n.exec == nil`) -/
  code : Nat := 0
  /-- identity of the closure object `n.exec` (`execID(n.exec)`) -/
  clo : Nat := 0
  /-- identity of the forwarding closure recorded in `n.debug.forward` (0: none) -/
  fwd : Nat := 0
  tnext : Option Nat := none
  fnext : Option Nat := none
  line : Nat := 0
  /-- `n.pos != token.NoPos` -/
  posValid : Bool := false
  /-- `n.action == aNop` -/
  isNop : Bool := true
  parent : Option Nat := none
  children : List Nat := []
  /-- name, for a function declaration -/
  func : Option String := none
  start : Option Nat := none
  /-- `n.kind` -/
  kind : String := ""
  deriving Repr, DecidableEq

abbrev Graph := Array Node

def Graph.code (g : Graph) (i : Nat) : Nat := match g[i]? with | some n => n.code | none => 0
def Graph.clo (g : Graph) (i : Nat) : Nat := match g[i]? with | some n => n.clo | none => 0
def Graph.fwd (g : Graph) (i : Nat) : Nat := match g[i]? with | some n => n.fwd | none => 0
def Graph.tnext (g : Graph) (i : Nat) : Option Nat := match g[i]? with | some n => n.tnext | none => none
def Graph.fnext (g : Graph) (i : Nat) : Option Nat := match g[i]? with | some n => n.fnext | none => none
def Graph.line (g : Graph) (i : Nat) : Nat := match g[i]? with | some n => n.line | none => 0
def Graph.posValid (g : Graph) (i : Nat) : Bool := match g[i]? with | some n => n.posValid | none => false
def Graph.parent (g : Graph) (i : Nat) : Option Nat := match g[i]? with | some n => n.parent | none => none
def Graph.children (g : Graph) (i : Nat) : List Nat := match g[i]? with | some n => n.children | none => []
def Graph.start (g : Graph) (i : Nat) : Option Nat := match g[i]? with | some n => n.start | none => none
def Graph.kind (g : Graph) (i : Nat) : String := match g[i]? with | some n => n.kind | none => ""

/-- a generated closure: the node it executes, the identity of its code, the identity of the
    closure object -/
structure Clo where
  owner : Nat
  code : Nat
  id : Nat := 0
  deriving DecidableEq, Repr

/-- the closure stored in `n.exec` -/
def nodeClo (g : Graph) (k : Nat) : Clo := ⟨k, g.code k, g.clo k⟩
/-- `n.exec` as `runCfg(n, …)` reads it: nothing to run when it is nil -/
def entryClo (g : Graph) (s : Nat) : Option Clo := if g.code s = 0 then none else some (nodeClo g s)
/-- the pseudo closure that stands for `Execute` itself (it calls `runCfg` for the global
    declarations, the init functions and main) -/
def baseClo : Clo := ⟨0, 0, 0⟩

/-! ### abstract semantics of closures -/

inductive Act where
  /-- the closure returns its successor (`none`: nil, the loop ends) -/
  | next (c : Option Clo)
  /-- the closure calls `runCfg(start, …)`; `entry` is `start.exec` -/
  | call (start : Nat) (entry : Option Clo)
  | panic
  deriving Repr

/-- `step st c resumed`: run closure `c` from its beginning (`resumed = false`) or from the point
    where it was suspended by a call (`resumed = true`), up to its next action -/
structure Prog (σ : Type) where
  step : σ → Clo → Bool → σ × Act

inductive Ctl | start | resume | halt (panicked : Bool)
  deriving DecidableEq, Repr

/-! ### the plain loop -/

structure PCfg (σ : Type) where
  st : σ
  /-- `exec` of every live activation of runCfg, innermost first -/
  stack : List Clo
  ctl : Ctl
  /-- closures executed by loop iterations, most recent first -/
  trace : List Clo

def papply (p : PCfg σ) (a : Act) : PCfg σ :=
  match p.stack with
  | [] =>
    match a with
    | .next _ => { p with ctl := .halt false }
    | .call _ (some e) => { p with stack := [e], ctl := .start }
    | .call _ none => { p with ctl := .resume }
    | .panic => { p with ctl := .halt true }
  | c :: rest =>
    match a with
    | .next none => { p with stack := rest, ctl := .resume }
    | .next (some c') => { p with stack := c' :: rest, ctl := .start }
    | .call _ (some e) => { p with stack := e :: c :: rest, ctl := .start }
    | .call _ none => { p with ctl := .resume }
    | .panic => { p with ctl := .halt true }

def pstep (P : Prog σ) (p : PCfg σ) : PCfg σ :=
  match p.ctl with
  | .halt _ => p
  | .resume =>
    let c := match p.stack with | [] => baseClo | c :: _ => c
    let r := P.step p.st c true
    papply { p with st := r.1 } r.2
  | .start =>
    match p.stack with
    | [] => { p with ctl := .halt false }
    | c :: _ =>
      let r := P.step p.st c false
      papply { p with st := r.1, trace := c :: p.trace } r.2

def prun (P : Prog σ) : Nat → PCfg σ → PCfg σ
  | 0, p => p
  | n + 1, p => prun P n (pstep P p)

/-! ### the debugger state machine -/

inductive Mode | run | pause | entry | into | over | out | terminate
  deriving DecidableEq, Repr

inductive Reason | pause | brk | entry | into | over | out | terminate | enterG | exitG
  deriving DecidableEq, Repr

def Mode.reason : Mode → Reason
  | .run => .pause   -- never emitted
  | .pause => .pause | .entry => .entry | .into => .into | .over => .over | .out => .out
  | .terminate => .terminate

inductive StepReq | entry | into | over | out | other
  deriving DecidableEq, Repr

inductive Cmd | cont | step (r : StepReq) | terminate
  deriving DecidableEq, Repr

structure Dbg where
  mode : Mode
  fDepth : Nat
  fStep : Nat
  deriving DecidableEq, Repr

def Dbg.enter (d : Dbg) : Dbg := { d with fDepth := d.fDepth + 1 }
def Dbg.exit (d : Dbg) : Dbg := { d with fDepth := d.fDepth - 1 }

/-- `(*debugRoutine).setMode` -/
def Dbg.setMode (d : Dbg) (r : StepReq) : Dbg :=
  if d.mode = .terminate then d
  else if d.mode = .entry ∧ r = .entry then d
  else match r with
    | .into => { d with mode := .into, fStep := d.fDepth }
    | .over => { d with mode := .over, fStep := d.fDepth }
    | .out => { d with mode := .out, fStep := d.fDepth }
    | _ => { d with mode := .pause }

/-- `Continue`, `Step`, `Terminate` -/
def Dbg.apply (d : Dbg) : Cmd → Dbg
  | .cont => { d with mode := .run }
  | .step r => d.setMode r
  | .terminate => { d with mode := .terminate }

structure Event where
  reason : Reason
  /-- `f.debug.node`: the node the debugger believes is about to execute -/
  node : Option Nat
  /-- number of closures executed by loop iterations so far -/
  step : Nat
  /-- fDepth when the event was emitted -/
  depth : Nat
  deriving DecidableEq, Repr

/-- `n != nil && n.pos == token.NoPos` is the early return of `(*Debugger).exec` -/
def visible (g : Graph) : Option Nat → Bool
  | none => true
  | some i => g.posValid i

def shouldBreak (marked : Nat → Bool) : Option Nat → Bool
  | none => false
  | some i => marked i

/-- the reason `(*Debugger).exec` stops for, if it does (mode is not terminate) -/
def stopReason (F : LoopFacts) (marked : Nat → Bool) (d : Dbg) (m : Option Nat) : Option Reason :=
  if shouldBreak marked m then some .brk
  else match d.mode with
    | .run => none
    | .out => if F.outCmp.eval d.fDepth d.fStep then none else some .out
    | .over => if F.overCmp.eval d.fDepth d.fStep then none else some .over
    | md => some md.reason

structure ExecOut where
  /-- the loop must break -/
  stop : Bool
  dbg : Dbg
  cmds : List Cmd
  ev : Option Event

/-- `(*Debugger).exec(m, f)` followed, when it stops, by the next resume command of the session
    (`Continue` when the list is exhausted) -/
def dbgExec (F : LoopFacts) (g : Graph) (marked : Nat → Bool) (d : Dbg) (m : Option Nat)
    (cmds : List Cmd) (step : Nat) : ExecOut :=
  if !visible g m then ⟨false, d, cmds, none⟩
  else if d.mode = .terminate then ⟨true, d, cmds, none⟩
  else match stopReason F marked d m with
    | none => ⟨false, d, cmds, none⟩
    | some r =>
      let ev : Event := ⟨r, m, step, d.fDepth⟩
      match cmds with
      | [] => ⟨false, d.apply .cont, [], some ev⟩
      | c :: cs => ⟨false, d.apply c, cs, some ev⟩

/-! ### re-derivation of the current node -/

/-- `isExecNode(k, exec)`: `k.exec` and `exec` are the same closure object (unchanged code before
    d1e6c4c: have the same code), or `exec` is the forwarding closure recorded on `k` -/
def isExec (F : LoopFacts) (g : Graph) (k : Option Nat) (c : Clo) : Bool :=
  match k with
  | none => false
  | some j =>
    g.code j != 0 &&
      ((if F.byIdentity then g.clo j == c.id else g.code j == c.code) ||
       (F.forward && g.fwd j != 0 && g.fwd j == c.id))

/-- the test of the callback of `originalExecNode` on node `i` -/
def origTest (F : LoopFacts) (g : Graph) (i : Nat) (c : Clo) : Bool :=
  if F.origIsExec then isExec F g (some i) c else (g.code i != 0 && g.code i == c.code)

/-- the callback of `originalExecNode` over the subtrees listed in `todo` (pre-order): the last
    node, other than `self`, that passes the test; the subtree below a match is not visited -/
def walkLast (F : LoopFacts) (g : Graph) (self : Nat) (c : Clo) : Nat → List Nat → Option Nat → Option Nat
  | 0, _, acc => acc
  | _, [], acc => acc
  | fuel + 1, i :: rest, acc =>
    if i ≠ self ∧ origTest F g i c = true then walkLast F g self c fuel rest (some i)
    else walkLast F g self c fuel (g.children i ++ rest) acc

def origUp (F : LoopFacts) (g : Graph) (self : Nat) (c : Clo) : Nat → Nat → Option Nat
  | 0, _ => none
  | fuel + 1, cur =>
    match g.parent cur with
    | none => none
    | some p =>
      match walkLast F g self c (g.size + 1) [p] none with
      | some r => some r
      | none => origUp F g self c fuel p

/-- `originalExecNode(self, exec)` -/
def orig (F : LoopFacts) (g : Graph) (self : Nat) (c : Clo) : Option Nat := origUp F g self c (g.size + 1) self

def probe (g : Graph) (i : Nat) : Probe → Option Nat
  | .tnext => g.tnext i
  | .fnext => g.fnext i

/-- the end of the body of the debugger loop: the node that goes with closure `c` -/
def rederive (F : LoopFacts) (g : Graph) (start : Nat) (m : Option Nat) (c : Clo) : Option Nat :=
  match m with
  | none => orig F g start c
  | some i =>
    match F.probes.find? (fun p => isExec F g (probe g i p) c) with
    | some p => probe g i p
    | none => orig F g i c

/-! ### steps and lines (0a3a691) -/

/-- `(*node).isStep`: the node, when it executes, is a step of the program at a source position:
    it has an action, or it is a statement that only transfers control, or a plain operand placed
    in the control flow (`n.start == n && len(n.child) == 0`: the tag of a switch). The other nodes
    that execute are the join points of compound statements. -/
def isStep (F : LoopFacts) (g : Graph) (i : Nat) : Bool :=
  match g[i]? with
  | some n => n.posValid && (F.jumpKinds.contains n.kind || !n.isNop || (n.start == some i && n.children.isEmpty))
  | none => false

/-- `(*Debugger).entersLine(prev, n)`: executing `n` after `prev` in the same frame enters the
    line of `n` -/
def entersLine (g : Graph) (prev : Option Nat) (i : Nat) : Bool :=
  match prev with
  | none => true
  | some p => p == i || g.line p != g.line i

/-! ### the debug loop -/

structure DFrame where
  /-- `exec` -/
  cur : Clo
  /-- `n`, the entry node of this activation -/
  start : Nat
  /-- `m` -/
  m : Option Nat
  /-- `f.debug.prev` as the next call of `dbg.exec` for this frame will see it: the last step this
      activation executed (every activation of the model runs on a frame of its own) -/
  prev : Option Nat := none
  deriving DecidableEq, Repr

structure Setup where
  F : LoopFacts
  g : Graph
  /-- `n.debug.breakOnLine` -/
  marked : Nat → Bool
  /-- `n.debug.breakOnCall` -/
  markedCall : Nat → Bool
  /-- reference debugger: it is told which node owns the closure about to run -/
  ideal : Bool := false

/-- the execution as the line-level reference reads it -/
inductive LogItem
  /-- `runCfg` is entered: a new activation, on a frame of its own -/
  | enter
  /-- the closure of node `o` starts -/
  | exec (o : Nat)
  /-- the innermost activation ends -/
  | leave
  deriving DecidableEq, Repr

structure DCfg (σ : Type) where
  st : σ
  stack : List DFrame
  ctl : Ctl
  trace : List Clo
  dbg : Dbg
  cmds : List Cmd
  /-- most recent first -/
  events : List Event
  /-- ghost: what happened, most recent first (read by the reference `refRun`) -/
  log : List LogItem := []

def Setup.toIdeal (S : Setup) : Setup := { S with ideal := true }

def Setup.m (S : Setup) (fr : DFrame) : Option Nat := if S.ideal then some fr.cur.owner else fr.m

/-- the condition of the break case for node `i`, the previous step of the frame being `prev`:
    `n.shouldBreak() && (n.debug.breakOnCall || dbg.entersLine(f.debug.prev, n))` -/
def Setup.hit (S : Setup) (prev : Option Nat) (i : Nat) : Bool :=
  S.markedCall i || (S.marked i && (!S.F.enterRule || entersLine S.g prev i))

/-- the beginning of `dbg.exec`, applied when the closure consulted for has run: the node the
    frame was consulted with becomes its previous step, if it is a step -/
def Setup.bumpPrev (S : Setup) (prev : Option Nat) (m : Option Nat) : Option Nat :=
  match m with
  | some i => if S.F.tracksPrev && isStep S.F S.g i then some i else prev
  | none => prev

def Setup.bump (S : Setup) (fr : DFrame) : DFrame := { fr with prev := S.bumpPrev fr.prev (S.m fr) }

/-- call `dbg.exec(m, f)` for the innermost activation -/
def consult (S : Setup) (d : DCfg σ) (fr : DFrame) : Bool × DCfg σ :=
  let o := dbgExec S.F S.g (S.hit fr.prev) d.dbg (S.m fr) d.cmds d.trace.length
  (o.stop, { d with dbg := o.dbg, cmds := o.cmds,
                    events := match o.ev with | some e => e :: d.events | none => d.events })

/-- leave the innermost activation (`break`/end of the loop; deferred `exitCall`) -/
def leave (d : DCfg σ) (rest : List DFrame) : DCfg σ :=
  { d with stack := rest, dbg := d.dbg.exit, ctl := .resume, log := .leave :: d.log }

def dapply (S : Setup) (d : DCfg σ) (a : Act) : DCfg σ :=
  match d.stack with
  | [] =>
    match a with
    | .next _ => { d with ctl := .halt false }
    | .call s (some e) => { d with stack := [⟨e, s, some s, none⟩], dbg := d.dbg.enter, ctl := .start, log := .enter :: d.log }
    | .call _ none => { d with ctl := .resume }
    | .panic => { d with ctl := .halt true }
  | fr :: rest =>
    -- the closure of `fr` has been consulted for and has run: its node is the frame's previous step
    let fb := S.bump fr
    match a with
    | .next none => leave d rest
    | .next (some c') =>
      if S.F.execFirst then
        let r := consult S d fr
        if r.1 then leave r.2 rest
        else { r.2 with stack := ⟨c', fr.start, rederive S.F S.g fr.start fr.m c', fb.prev⟩ :: rest, ctl := .start }
      else { d with stack := ⟨c', fr.start, rederive S.F S.g fr.start fr.m c', fb.prev⟩ :: rest, ctl := .start }
    | .call s (some e) =>
      { d with stack := ⟨e, s, some s, none⟩ :: fb :: rest, dbg := d.dbg.enter, ctl := .start, log := .enter :: d.log }
    | .call _ none => { d with stack := fb :: rest, ctl := .resume }
    | .panic => { d with stack := fb :: rest, ctl := .halt true }

def dstep (S : Setup) (P : Prog σ) (d : DCfg σ) : DCfg σ :=
  match d.ctl with
  | .halt _ => d
  | .resume =>
    let c := match d.stack with | [] => baseClo | fr :: _ => fr.cur
    let r := P.step d.st c true
    dapply S { d with st := r.1 } r.2
  | .start =>
    match d.stack with
    | [] => { d with ctl := .halt false }
    | fr :: rest =>
      if S.F.execFirst then
        let r := P.step d.st fr.cur false
        dapply S { d with st := r.1, trace := fr.cur :: d.trace, log := .exec fr.cur.owner :: d.log } r.2
      else
        let q := consult S d fr
        if q.1 then leave q.2 rest
        else
          let r := P.step d.st fr.cur false
          dapply S { q.2 with st := r.1, trace := fr.cur :: d.trace, log := .exec fr.cur.owner :: d.log } r.2

def drun (S : Setup) (P : Prog σ) : Nat → DCfg σ → DCfg σ
  | 0, d => d
  | n + 1, d => drun S P n (dstep S P d)

/-- forget the debugger: what the plain loop would have in the same situation -/
def DCfg.proj (d : DCfg σ) : PCfg σ := ⟨d.st, d.stack.map (·.cur), d.ctl, d.trace⟩

/-- a session: `Debug` puts the main routine in entry mode; the first command starts it -/
def Dbg.init : Dbg := ⟨.entry, 0, 0⟩

def DCfg.init (st : σ) (cmds : List Cmd) : DCfg σ :=
  { st := st, stack := [], ctl := .resume, trace := [],
    dbg := match cmds with | [] => Dbg.init.apply .cont | c :: _ => Dbg.init.apply c,
    cmds := cmds.tail, events := [], log := [] }

def PCfg.init (st : σ) : PCfg σ := ⟨st, [], .resume, []⟩

/-- the reasons of the events of a whole session, in order of delivery -/
def sessionReasons (d : DCfg σ) : List Reason :=
  .enterG :: (d.events.reverse.map (·.reason)) ++ [.exitG, .terminate]

/-! ### breakpoint placement (`SetBreakpoints`) -/

inductive BpReq | line (l : Nat) | func (name : String)
  deriving DecidableEq, Repr

/-- pre-order list of the nodes below (and including) the listed ones -/
def preorder (g : Graph) : Nat → List Nat → List Nat
  | 0, _ => []
  | _, [] => []
  | fuel + 1, i :: rest => i :: preorder g fuel (g.children i ++ rest)

/-- enough for `(*node).Walk` from the root: a node that is the child of several nodes (the instances
    of a generic function share parts) is walked once per parent -/
def walkFuel (g : Graph) : Nat := g.size * g.size + g.size + 1

/-- a node a line breakpoint can sit on: valid position, an action, a closure -/
def lineCandidate (g : Graph) (i : Nat) : Bool :=
  match g[i]? with
  | some n => n.posValid && !n.isNop && n.code != 0
  | none => false

/-- the first candidate of each requested line, in walk order (`seen`: lines already served) -/
def placeLines (g : Graph) (lines : List Nat) : List Nat → List Nat → List Nat
  | [], _ => []
  | i :: rest, seen =>
    if lineCandidate g i ∧ g.line i ∈ lines ∧ g.line i ∉ seen then i :: placeLines g lines rest (g.line i :: seen)
    else placeLines g lines rest seen

/-- the entry node of the first declaration of each requested function -/
def placeFuncs (g : Graph) (names : List String) : List Nat → List String → List Nat
  | [], _ => []
  | i :: rest, seen =>
    match g[i]? with
    | some n =>
      match n.func, n.start with
      | some f, some s =>
        if f ∈ names ∧ f ∉ seen then s :: placeFuncs g names rest (f :: seen) else placeFuncs g names rest seen
      | _, _ => placeFuncs g names rest seen
    | none => placeFuncs g names rest seen

def reqLines (rs : List BpReq) : List Nat := rs.filterMap fun | .line l => some l | _ => none
def reqFuncs (rs : List BpReq) : List String := rs.filterMap fun | .func f => some f | _ => none

/-- nodes that break (`breakOnLine` or `breakOnCall`) after `SetBreakpoints(root, requests…)` of the
    code before 0a3a691 -/
def place (g : Graph) (root : Nat) (rs : List BpReq) : List Nat :=
  let order := preorder g (walkFuel g) [root]
  placeLines g (reqLines rs) order [] ++ placeFuncs g (reqFuncs rs) order []

/-! #### since 0a3a691: every reachable step of a requested line -/

def optStart (g : Graph) (i : Nat) : List Nat := match g.start i with | some s => [s] | none => []

/-- the entry points `cfgNodes(root)` starts from: the body of every function (declaration or
    literal: `n.anc.child[3].start` for the `funcType` node `n` of a node with four children), the
    start of every constant or variable declaration and of each of its specifications, and
    `root.start`. (The clause entries of `select` statements are not modelled.) -/
def cfgEntries (F : LoopFacts) (g : Graph) (order : List Nat) (root : Nat) : List Nat :=
  order.flatMap (fun i =>
    let k := g.kind i
    if F.cfgKinds.contains k then
      if k = "funcType" then
        match g.parent i with
        | some p =>
          match g.children p with
          | [_, _, _, b] => optStart g b
          | _ => []
        | none => []
      else optStart g i ++ (g.children i).flatMap (optStart g)
    else []) ++ optStart g root

def succs (g : Graph) (i : Nat) : List Nat :=
  (match g.tnext i with | some t => [t] | none => []) ++ (match g.fnext i with | some f => [f] | none => [])

/-- the nodes reachable from `todo` along tnext / fnext (`seen`: reached so far) -/
def cfgReach (g : Graph) : Nat → List Nat → List Nat → List Nat
  | 0, _, seen => seen
  | _, [], seen => seen
  | fuel + 1, i :: todo, seen =>
    if seen.contains i then cfgReach g fuel todo seen else cfgReach g fuel (succs g i ++ todo) (i :: seen)

/-- enough for the walk to complete (`Proofs.C19.cfgReach_closed`): every item taken from `todo` is
    either reached already or new, and a new node adds at most two items -/
def cfgFuel (g : Graph) (entries : List Nat) : Nat := 4 * entries.length + 6 * g.size + 1

/-- `cfgNodes(root)` -/
def cfgNodes (F : LoopFacts) (g : Graph) (root : Nat) : List Nat :=
  let order := preorder g (walkFuel g) [root]
  let entries := cfgEntries F g order root
  cfgReach g (cfgFuel g entries) entries []

/-- the nodes `SetBreakpoints` marks for line requests: every step of a requested line that is on a
    path of a control-flow graph, in walk order -/
def placeSteps (F : LoopFacts) (g : Graph) (root : Nat) (lines : List Nat) : List Nat :=
  let reach := cfgNodes F g root
  (preorder g (walkFuel g) [root]).filter fun i => isStep F g i && reach.contains i && lines.contains (g.line i)

/-- nodes with `breakOnLine` after `SetBreakpoints(root, requests…)` -/
def placeLine (F : LoopFacts) (g : Graph) (root : Nat) (rs : List BpReq) : List Nat :=
  if F.placeSteps then placeSteps F g root (reqLines rs)
  else placeLines g (reqLines rs) (preorder g (walkFuel g) [root]) []

/-- nodes with `breakOnCall` -/
def placeCall (g : Graph) (root : Nat) (rs : List BpReq) : List Nat :=
  placeFuncs g (reqFuncs rs) (preorder g (walkFuel g) [root]) []

/-- `Breakpoint.Valid` of a line request: some node carries it -/
def lineValid (g : Graph) (marks : List Nat) (l : Nat) : Bool := marks.any fun i => g.line i == l

/-! ### the line-level reference

It is told which node executes (the log) and which nodes carry a breakpoint; per activation it
remembers the last step executed. **A breakpoint is reported when the activation enters the line of
a marked node — its first step, a step after a step of another line, or the same node again — before
that node runs, and not again while the activation stays on the line**; a function breakpoint is
reported whenever its node is about to run. -/

structure RefSt where
  /-- last step of every live activation, innermost first -/
  stack : List (Option Nat)
  /-- nodes of the break stops, most recent first -/
  out : List (Option Nat)
  deriving DecidableEq, Repr

def refStep (S : Setup) (st : RefSt) : LogItem → RefSt
  | .enter => { st with stack := none :: st.stack }
  | .leave => { st with stack := st.stack.tail }
  | .exec o =>
    match st.stack with
    | [] => st
    | p :: rest =>
      { stack := S.bumpPrev p (some o) :: rest,
        out := if S.g.posValid o && S.hit p o then some o :: st.out else st.out }

/-- the reference run over a log (most recent item first) -/
def refRun (S : Setup) (log : List LogItem) : RefSt := log.foldr (fun it st => refStep S st it) ⟨[], []⟩

/-! ### hypotheses of the tracking theorems -/

/-- the closure objects that stand for node `k`: `k.exec` and, if there is one, the forwarding
    closure recorded on `k` (none while `k.exec` is nil: no closure generated yet) -/
def idsOf (g : Graph) (k : Nat) : List Nat :=
  if g.code k = 0 then [] else g.clo k :: (if g.fwd k = 0 then [] else [g.fwd k])

/-- well-formedness of the graph data: the two successors of a branching node are represented by
    different closure objects (every closure made by a generator, and every forwarding closure, is
    an object of its own). Decidable; checked on every graph dumped from the implementation. -/
def idSeparates (g : Graph) : Bool :=
  g.toList.all fun n =>
    match n.tnext, n.fnext with
    | some t, some f => t == f || (idsOf g t).all fun a => !(idsOf g f).contains a
    | _, _ => true

/-- the domain of the unchanged code (before d1e6c4c): the two successors of every branching node
    are made by different generators -/
def codeSeparates (g : Graph) : Bool :=
  g.toList.all fun n =>
    match n.tnext, n.fnext with
    | some t, some f => t == f || g.code t != g.code f
    | _, _ => true

/-- `c'` is a closure that executes a control-flow successor `k` of node `i`: the closure stored
    in `k.exec`, or the forwarding closure that setExec recorded on `k` (a back edge: the
    predecessor was generated while `k` was being generated) -/
def IsSucc (g : Graph) (i : Nat) (c' : Clo) : Prop :=
  ∃ k, g.code k ≠ 0 ∧ (g.tnext i = some k ∨ g.fnext i = some k) ∧ c'.owner = k ∧
    (c' = nodeClo g k ∨ (g.fwd k ≠ 0 ∧ c'.id = g.fwd k))

/-- the closures do what the graph says: a closure hands over to a closure of its node's tnext or
    fnext (the generators of interp/run.go capture `getExec(n.tnext)`, which for a back edge is the
    forwarding closure of setForwardExec), and `runCfg` is entered with the closure stored in the
    entry node. -/
def Respects (g : Graph) (P : Prog σ) : Prop :=
  ∀ st c r,
    match (P.step st c r).2 with
    | .next (some c') => IsSucc g c.owner c'
    | .call s e => e = entryClo g s
    | _ => True

end YaegiVerif.Debug
