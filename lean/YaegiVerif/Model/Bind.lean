/-
  C14 — model of the standard-library binding tables (`stdlib/go1_2x_*.go`, `stdlib/syscall`, `stdlib/unsafe`,
  `stdlib/unrestricted`) and of the reference they are judged against (core Lean only).

  * Every Go name, import path, type string or string constant is carried as a natural number: the bytes of the
    text, big endian, below a leading 1 (`encBytes`).  The coding is injective (`decBytes_encBytes`), so equality
    of codes is equality of texts; tables stay cheap for the kernel (Nat literals are GMP numbers).
  * `Entry` is one `"Key": reflect.ValueOf(…)` line as *parsed* (syntactic form, qualifier resolved through the
    file's import list, selector, literal).  `RefObj` is one exported object of the namesake package as seen by
    `go/types` over `GOROOT/src` for the platform of the file.  `Wrapper`/`RefIface` likewise for `_pkg_Iface`.
  * The checkers (`namesOk`, `formsOk`, `valuesOk`, `completeOk`, `wrappersOk`) are Boolean functions evaluated by
    the kernel on each generated table; their soundness theorems (this file) turn `… = true` into the
    propositional statements used by `Props/C14.lean`.
-/
namespace YaegiVerif.Bind

/-! ### names as naturals -/

def encFrom (a : Nat) (bs : List Nat) : Nat := bs.foldl (fun a b => a * 256 + b) a
/-- bytes, big endian, below a leading 1 -/
def encBytes (bs : List Nat) : Nat := encFrom 1 bs

def decAux : Nat → Nat → List Nat → List Nat
  | 0, _, acc => acc
  | f + 1, n, acc => if n ≤ 1 then acc else decAux f (n / 256) (n % 256 :: acc)
def decBytes (n : Nat) : List Nat := decAux n n []

/-- code of an ASCII text written in a theorem statement or a hand-written table -/
def enc (s : String) : Nat := encBytes (s.toList.map Char.toNat)

theorem encFrom_ge (bs : List Nat) (a : Nat) (ha : 1 ≤ a) : a + bs.length ≤ encFrom a bs := by
  induction bs generalizing a with
  | nil => simp [encFrom]
  | cons b bs ih =>
    have := ih (a * 256 + b) (by omega)
    simp only [encFrom, List.foldl_cons, List.length_cons] at *
    omega

theorem decAux_one (f : Nat) (acc : List Nat) : decAux f 1 acc = acc := by
  cases f <;> simp [decAux]

theorem decAux_encFrom (bs : List Nat) : ∀ (a f : Nat) (acc : List Nat), 1 ≤ a → bs.length ≤ f →
    (∀ b ∈ bs, b < 256) → decAux f (encFrom a bs) acc = decAux (f - bs.length) a (bs ++ acc) := by
  induction bs with
  | nil => intro a f acc _ _ _; simp [encFrom]
  | cons b bs ih =>
    intro a f acc ha hf hb
    have hb0 : b < 256 := hb b (by simp)
    have ih' := ih (a * 256 + b) f acc (by omega) (by simp at hf; omega) (fun x hx => hb x (by simp [hx]))
    have e : encFrom a (b :: bs) = encFrom (a * 256 + b) bs := by simp [encFrom]
    rw [e, ih']
    have hpos : f - bs.length = (f - (b :: bs).length) + 1 := by simp at hf ⊢; omega
    rw [hpos]
    have h1 : ¬ (a * 256 + b ≤ 1) := by omega
    have h2 : (a * 256 + b) / 256 = a := by omega
    have h3 : (a * 256 + b) % 256 = b := by omega
    simp [decAux, h1, h2, h3]

/-- **the coding of names is injective**: decoding gives the bytes back -/
theorem decBytes_encBytes (bs : List Nat) (h : ∀ b ∈ bs, b < 256) : decBytes (encBytes bs) = bs := by
  have hge := encFrom_ge bs 1 (by omega)
  have := decAux_encFrom bs 1 (encBytes bs) [] (by omega) (by simp only [encBytes]; omega) h
  simp only [decBytes, encBytes] at *
  rw [this, decAux_one]; simp

theorem encBytes_inj (xs ys : List Nat) (hx : ∀ b ∈ xs, b < 256) (hy : ∀ b ∈ ys, b < 256)
    (h : encBytes xs = encBytes ys) : xs = ys := by
  rw [← decBytes_encBytes xs hx, ← decBytes_encBytes ys hy, h]

/-! ### the parsed tables -/

/-- syntactic form of the bound expression -/
inductive Form
  | value   -- reflect.ValueOf(q.X)
  | addr    -- reflect.ValueOf(&q.X).Elem()
  | typ     -- reflect.ValueOf((*q.X)(nil))
  | lit     -- reflect.ValueOf(constant.MakeFromLiteral("…", token.K, 0))
  | wrap    -- "_X": reflect.ValueOf((*_pkg_X)(nil))
  | other   -- anything else
  deriving DecidableEq, Repr, Inhabited

inductive Tok | none | int | float | string | char | imag | other
  deriving DecidableEq, Repr, Inhabited

/-- exact constant values: integers (sign, magnitude), reduced fractions (sign, numerator, denominator; the value
    of a constant of floating-point kind, also when it is integral), coded strings, booleans -/
inductive CVal
  | none
  | int (neg : Bool) (mag : Nat)
  | rat (neg : Bool) (num : Nat) (den : Nat)
  | str (code : Nat)
  | bool (b : Bool)
  deriving DecidableEq, Repr, Inhabited

structure Entry where
  key : Nat
  form : Form
  /-- import path that the qualifier of the bound identifier denotes in this file (0: no qualifier) -/
  qual : Nat
  /-- selector, or the local identifier when there is no qualifier -/
  sel : Nat
  tok : Tok := .none
  /-- exact value of the literal (`lit` form) -/
  val : CVal := .none
  deriving DecidableEq, Repr, Inhabited

inductive Kind | func | var | type | const | builtin
  deriving DecidableEq, Repr, Inhabited

/-- constants: typed, or the kind of the untyped value -/
inductive CKind | na | typed | int | rune | float | string | bool | complex
  deriving DecidableEq, Repr, Inhabited

structure RefObj where
  name : Nat
  kind : Kind
  ck : CKind := .na
  val : CVal := .none
  /-- generic function or type, or a constraint interface: `extract` does not bind it -/
  skip : Bool := false
  /-- a type whose underlying type is an interface that gets a wrapper -/
  iface : Bool := false
  deriving DecidableEq, Repr, Inhabited

/-- a documented replacement: in package `pkg`, key `key` is bound to the local identifier `ident` -/
structure Repl where
  pkg : Nat
  key : Nat
  ident : Nat
  deriving DecidableEq, Repr, Inhabited

structure Sig where
  params : List Nat
  variadic : Bool
  results : List Nat
  deriving DecidableEq, Repr, Inhabited

structure WField where
  name : Nat
  sig : Sig
  deriving DecidableEq, Repr, Inhabited

structure WMethod where
  name : Nat
  sig : Sig
  /-- the receiver is a value of the wrapper struct and the body calls a field of the receiver -/
  onRecv : Bool
  /-- the field that the body calls -/
  field : Nat
  /-- parameter names, and the argument identifiers of the call, in order -/
  paramNames : List Nat
  argNames : List Nat
  /-- the last argument is spread (`a...`) -/
  spread : Bool
  /-- the call is returned -/
  returns : Bool
  /-- the body is exactly the forwarding call, after the optional `if W.WString == nil { return "" }` of `String` -/
  plain : Bool
  deriving DecidableEq, Repr, Inhabited

structure Wrapper where
  /-- the struct type `_pkg_X` -/
  struct : Nat
  /-- `X` taken from the comment-free struct name by the extractor is NOT trusted: see `wrapperOk` -/
  iface : Nat
  hasIValue : Bool
  fields : List WField
  methods : List WMethod
  deriving DecidableEq, Repr, Inhabited

structure RefMethod where
  name : Nat
  sig : Sig
  deriving DecidableEq, Repr, Inhabited

structure RefIface where
  name : Nat
  methods : List RefMethod
  deriving DecidableEq, Repr, Inhabited

/-- one binding file (or one `Symbols[…]` table of a hand-written file) -/
structure File where
  /-- import path of the namesake package -/
  pkg : Nat
  /-- the key of `Symbols`, `importpath/pkgname` -/
  symKey : Nat
  /-- name of the package as declared in its sources (reference) -/
  pkgName : Nat
  /-- release the file targets (21, 22), from its name -/
  release : Nat
  /-- extractor's reading of the rest of the file: the `Code generated by 'yaegi extract <pkg>'` header names the
      package, the build constraint selects exactly that release, and the file contains nothing but the one
      table and wrapper declarations -/
  headerOk : Bool
  /-- the table is meant to be complete (a generated file) -/
  full : Bool
  entries : List Entry
  wrappers : List Wrapper
  deriving Repr, Inhabited

/-- what the file is judged against -/
structure Ref where
  objs : List RefObj
  /-- exported package-level API names of the release that `extract` is asked to bind (include/exclude applied) -/
  api : List Nat
  ifaces : List RefIface
  deriving Repr, Inhabited

/-! short constructors used by the generated tables -/
def eV (k q s : Nat) : Entry := ⟨k, .value, q, s, .none, .none⟩
def eA (k q s : Nat) : Entry := ⟨k, .addr, q, s, .none, .none⟩
def eT (k q s : Nat) : Entry := ⟨k, .typ, q, s, .none, .none⟩
def eW (k q s : Nat) : Entry := ⟨k, .wrap, q, s, .none, .none⟩
def eL (k : Nat) (t : Tok) (v : CVal) : Entry := ⟨k, .lit, 0, 0, t, v⟩
def eO (k : Nat) : Entry := ⟨k, .other, 0, 0, .none, .none⟩
/-- `constant.MakeFromLiteral("<mag>", token.INT, 0)` and its negative -/
def eI (k mag : Nat) : Entry := ⟨k, .lit, 0, 0, .int, .int false mag⟩
def eN (k mag : Nat) : Entry := ⟨k, .lit, 0, 0, .int, .int true mag⟩
def oF (n : Nat) : RefObj := ⟨n, .func, .na, .none, false, false⟩
def oFg (n : Nat) : RefObj := ⟨n, .func, .na, .none, true, false⟩
def oV (n : Nat) : RefObj := ⟨n, .var, .na, .none, false, false⟩
def oB (n : Nat) : RefObj := ⟨n, .builtin, .na, .none, false, false⟩
def oT (n : Nat) : RefObj := ⟨n, .type, .na, .none, false, false⟩
def oTs (n : Nat) : RefObj := ⟨n, .type, .na, .none, true, false⟩
def oTi (n : Nat) : RefObj := ⟨n, .type, .na, .none, false, true⟩
def oCt (n : Nat) : RefObj := ⟨n, .const, .typed, .none, false, false⟩
def oC (n : Nat) (k : CKind) (v : CVal) : RefObj := ⟨n, .const, k, v, false, false⟩
/-- untyped integer constants -/
def oI (n mag : Nat) : RefObj := ⟨n, .const, .int, .int false mag, false, false⟩
def oN (n mag : Nat) : RefObj := ⟨n, .const, .int, .int true mag, false, false⟩

/-! ### checkers -/

def replOk (R : List Repl) (pkg : Nat) (e : Entry) : Bool :=
  e.qual == 0 && R.any fun r => r.pkg == pkg && r.key == e.key && r.ident == e.sel

/-- the wrapper prefix of `extract`: `_` ++ import path with `/ - . ~` replaced by `_` ++ `_` -/
def wrapPrefix (pkg : Nat) : List Nat :=
  95 :: ((decBytes pkg).map fun b => if b == 47 || b == 45 || b == 46 || b == 126 then 95 else b) ++ [95]

def nameOk (R : List Repl) (pkg : Nat) (e : Entry) : Bool :=
  match e.form with
  | .wrap =>
    e.qual == 0 &&
    (match decBytes e.key with
     | 95 :: x => decBytes e.sel == wrapPrefix pkg ++ x
     | _ => false)
  | .lit => true   -- no identifier: the literal itself is judged by `valueOk`
  | _ => (e.qual == pkg && e.sel == e.key) || replOk R pkg e

def namesOk (R : List Repl) (pkg : Nat) (es : List Entry) : Bool := es.all (nameOk R pkg)

/-- binding form demanded by the kind of the object (what `extract` emits) -/
def formOk (e : Entry) (o : RefObj) : Bool :=
  !o.skip &&
  match o.kind with
  | .func => e.form == .value
  | .builtin => e.form == .value
  | .var => e.form == .addr
  | .type => e.form == .typ
  | .const =>
    match o.ck with
    | .int => e.form == .lit && e.tok == .int
    | .rune => e.form == .lit && e.tok == .char
    | .float => e.form == .lit && e.tok == .float
    | .string => e.form == .lit && e.tok == .string
    | .typed | .bool | .complex => e.form == .value
    | .na => false

/-- membership in the divergence class: a list of (package, name) -/
def inClass (D : List (Nat × Nat)) (pkg key : Nat) : Bool := D.any fun d => d.1 == pkg && d.2 == key

/-- a literal constant carries exactly the value of the namesake -/
def valueOk (e : Entry) (o : RefObj) : Bool :=
  match e.form with
  | .lit => e.val != .none && e.val == o.val
  | _ => true

/-! #### what `extract.go fixConst` does to a floating-point constant

`f := new(big.Float).SetRat(r)` rounds the exact rational `r = n/d` to a binary float whose precision is
`max(bitlen n, bitlen d, 64)` bits (nearest, ties to even); `f.Text('g', int(f.Prec()))` prints it with that many
significant DECIMAL digits (nearest, ties to even); `constant.MakeFromLiteral` reads the text back exactly. Integer
and string constants are printed exactly. -/

def bitLen (n : Nat) : Nat := if n = 0 then 0 else Nat.log2 n + 1

/-- search the scaling `b^up / b^down` that brings `n/d` to a `P`-digit mantissa in base `b` -/
def scaleFuel : Nat → (b P n d up down : Nat) → Nat × Nat
  | 0, _, _, _, _, up, down => (up, down)
  | f + 1, b, P, n, d, up, down =>
    let q := n * b ^ up / (d * b ^ down)
    if q < b ^ (P - 1) then
      (if down > 0 then scaleFuel f b P n d up (down - 1) else scaleFuel f b P n d (up + 1) down)
    else if b ^ P ≤ q then
      (if up > 0 then scaleFuel f b P n d (up - 1) down else scaleFuel f b P n d up (down + 1))
    else (up, down)

/-- `n/d` (positive) rounded to `P` significant digits in base `b`, nearest, ties to even; reduced fraction -/
def roundSig (b P n d : Nat) : Nat × Nat :=
  let ud := scaleFuel 16384 b P n d 0 0
  let N := n * b ^ ud.1
  let Dn := d * b ^ ud.2
  let q := N / Dn
  let r := N % Dn
  let q' := if Dn < 2 * r then q + 1 else if 2 * r == Dn then (if q % 2 == 1 then q + 1 else q) else q
  let num := q' * b ^ ud.2
  let den := b ^ ud.1
  let g := Nat.gcd num den
  (num / g, den / g)

/-- value of the literal that `fixConst` emits for a constant of value `v` -/
def asBuilt : CVal → CVal
  | .rat neg n d =>
    if n == 0 || d == 0 then .rat neg n d
    else
      let P := max (max (bitLen n) (bitLen d)) 64
      let bin := roundSig 2 P n d
      let dec := roundSig 10 P bin.1 bin.2
      .rat neg dec.1 dec.2
  | v => v

/-- the literal is the one `fixConst` emits for the namesake's value; it is the exact value unless the name is in
    the class `D` (that names of the class are never exact is `divergeOk`) -/
def valueOkAsBuilt (D : List (Nat × Nat)) (pkg : Nat) (e : Entry) (o : RefObj) : Bool :=
  match e.form with
  | .lit => e.val != .none && e.val == asBuilt o.val && (e.val == o.val || inClass D pkg e.key)
  | _ => true

/-- merge join on key = name (both lists in the same order); every entry must find its object -/
def joinAll (p : Entry → RefObj → Bool) : List Entry → List RefObj → Bool
  | [], _ => true
  | _ :: _, [] => false
  | e :: es, o :: os =>
    if e.key == o.name then p e o && joinAll p es os else joinAll p (e :: es) os

def plain (es : List Entry) : List Entry := es.filter fun e => e.form != .wrap

/-- what `extract.go fixConst` actually emits: an untyped RUNE constant is printed as an INT literal (go/constant
    has no rune kind), so the table holds an untyped integer constant of the same value: the rune kind is lost
    (class `untyped-rune-as-int`); everything else has the demanded form -/
def formOkAsBuilt (e : Entry) (o : RefObj) : Bool :=
  if o.ck == .rune then !o.skip && o.kind == .const && e.form == .lit && e.tok == .int else formOk e o

def formsOk (es : List Entry) (os : List RefObj) : Bool := joinAll formOkAsBuilt (plain es) os

def valuesOk (D : List (Nat × Nat)) (pkg : Nat) (es : List Entry) (os : List RefObj) : Bool :=
  joinAll (valueOkAsBuilt D pkg) (plain es) os

/-- the class is tight: each listed name of this package is a literal entry whose value differs from the value of
    every object of that name -/
def divergeOk (D : List (Nat × Nat)) (pkg : Nat) (es : List Entry) (os : List RefObj) : Bool :=
  D.all fun d => d.1 != pkg ||
    es.any fun e => e.key == d.2 && e.form == .lit && e.val != .none &&
      os.all fun o => o.name != d.2 || e.val != o.val

/-- every element of the first list occurs in the second (linear when both are in the same order) -/
def subList : List Nat → List Nat → Bool
  | [], _ => true
  | _ :: _, [] => false
  | x :: xs, y :: ys => if x == y then subList xs ys else subList (x :: xs) ys

/-- names that `extract` does not bind: generic functions and types, constraint interfaces -/
def skipped (os : List RefObj) : List Nat := (os.filter (·.skip)).map (·.name)

def keysOf (es : List Entry) : List Nat := (plain es).map (·.key)

def completeOk (f : File) (r : Ref) : Bool :=
  !f.full || subList (r.api.filter fun n => !(skipped r.objs).contains n) (keysOf f.entries)

/-! wrappers -/

def fieldOf (w : Wrapper) (n : Nat) : Option WField := w.fields.find? fun fl => fl.name == n

def methodOk (w : Wrapper) (m : WMethod) (rm : RefMethod) : Bool :=
  m.name == rm.name && m.sig == rm.sig &&
  m.onRecv && m.plain &&
  decBytes m.field == 87 :: decBytes m.name &&
  (match fieldOf w m.field with
   | some fl => fl.sig == m.sig
   | none => false) &&
  m.argNames == m.paramNames && m.paramNames.length == m.sig.params.length &&
  m.spread == m.sig.variadic &&
  m.returns == !m.sig.results.isEmpty

def methodsOk (w : Wrapper) : List WMethod → List RefMethod → Bool
  | [], [] => true
  | m :: ms, r :: rs => methodOk w m r && methodsOk w ms rs
  | _, _ => false

def wrapperOk (pkg : Nat) (ifs : List RefIface) (w : Wrapper) : Bool :=
  decBytes w.struct == wrapPrefix pkg ++ decBytes w.iface &&
  w.hasIValue &&
  w.fields.length == w.methods.length &&
  (match ifs.find? fun i => i.name == w.iface with
   | some i => methodsOk w w.methods i.methods
   | none => false)

/-- each wrapper struct is well formed against its interface; each `wrap` entry names a wrapper struct of the
    file and each wrapper struct has its entry; every interface of the reference has a wrapper -/
def wrappersOk (f : File) (r : Ref) : Bool :=
  f.wrappers.all (wrapperOk f.pkg r.ifaces) &&
  (f.entries.all fun e => e.form != .wrap || f.wrappers.any fun w => w.struct == e.sel) &&
  (f.wrappers.all fun w => f.entries.any fun e => e.form == .wrap && e.sel == w.struct) &&
  (!f.full || r.ifaces.all fun i => f.wrappers.any fun w => w.iface == i.name)

/-- the map key is `importpath/pkgname`, and the extractor found nothing else in the file -/
def headOk (f : File) : Bool :=
  decBytes f.symKey == decBytes f.pkg ++ 47 :: decBytes f.pkgName && f.headerOk

/-! ### what the checkers mean -/

/-- the bound identifier of a plain entry is `<pkg>.<key>`, or a documented replacement -/
def NameDenotes (R : List Repl) (pkg : Nat) (e : Entry) : Prop :=
  (e.qual = pkg ∧ e.sel = e.key) ∨ (e.qual = 0 ∧ ∃ r ∈ R, r.pkg = pkg ∧ r.key = e.key ∧ r.ident = e.sel)

/-- a wrapper entry `_X` is bound to the local struct `_<pkg path with _>_X` -/
def WrapDenotes (pkg : Nat) (e : Entry) : Prop :=
  e.qual = 0 ∧ ∃ x, decBytes e.key = 95 :: x ∧ decBytes e.sel = wrapPrefix pkg ++ x

theorem namesOk_sound {R : List Repl} {pkg : Nat} {es : List Entry} (h : namesOk R pkg es = true) :
    ∀ e ∈ es, (e.form ≠ .wrap → e.form ≠ .lit → NameDenotes R pkg e) ∧ (e.form = .wrap → WrapDenotes pkg e) := by
  intro e he
  have h1 : nameOk R pkg e = true := List.all_eq_true.mp h e he
  constructor
  · intro hf hl
    have h2 : ((e.qual == pkg && e.sel == e.key) || replOk R pkg e) = true := by
      unfold nameOk at h1
      cases hform : e.form <;> simp_all
    rcases Bool.or_eq_true _ _ |>.mp h2 with h3 | h3
    · left; simpa using h3
    · right
      simp only [replOk, Bool.and_eq_true, beq_iff_eq, List.any_eq_true] at h3
      obtain ⟨hq, r, hr, hc⟩ := h3
      exact ⟨hq, r, hr, hc.1.1, hc.1.2, hc.2⟩
  · intro hf
    unfold nameOk at h1
    rw [hf] at h1
    simp only [Bool.and_eq_true, beq_iff_eq] at h1
    refine ⟨h1.1, ?_⟩
    have h2 := h1.2
    split at h2
    · next x hx => exact ⟨x, hx, by simpa using h2⟩
    · cases h2

/-- `joinAll` finds, for every entry, an object of the same name for which the predicate holds -/
theorem joinAll_sound {p : Entry → RefObj → Bool} : ∀ (os : List RefObj) (es : List Entry),
    joinAll p es os = true → ∀ e ∈ es, ∃ o ∈ os, o.name = e.key ∧ p e o = true := by
  intro os
  induction os with
  | nil =>
    intro es h e he
    cases es with
    | nil => cases he
    | cons a as => simp [joinAll] at h
  | cons o os ih =>
    intro es
    induction es with
    | nil => intro _ e he; cases he
    | cons a as ihe =>
      intro h e he
      unfold joinAll at h
      by_cases hk : (a.key == o.name) = true
      · simp only [hk, if_true, Bool.and_eq_true] at h
        rcases List.mem_cons.mp he with rfl | he'
        · exact ⟨o, List.mem_cons_self, (beq_iff_eq.mp hk).symm, h.1⟩
        · obtain ⟨o', ho', hn, hp⟩ := ih as h.2 e he'
          exact ⟨o', List.mem_cons_of_mem _ ho', hn, hp⟩
      · simp only [hk] at h
        obtain ⟨o', ho', hn, hp⟩ := ih (a :: as) (by simpa using h) e he
        exact ⟨o', List.mem_cons_of_mem _ ho', hn, hp⟩

theorem mem_plain {es : List Entry} {e : Entry} (he : e ∈ es) (hf : e.form ≠ .wrap) : e ∈ plain es := by
  simp [plain, he, hf]

/-- the form of the bound expression is the one the kind of the namesake demands -/
def FormAgrees (e : Entry) (o : RefObj) : Prop := formOk e o = true

theorem formsOk_sound {es : List Entry} {os : List RefObj} (h : formsOk es os = true) :
    ∀ e ∈ es, e.form ≠ .wrap → ∃ o ∈ os, o.name = e.key ∧
      (o.ck ≠ .rune → FormAgrees e o) ∧ (o.ck = .rune → o.kind = .const ∧ e.form = .lit ∧ e.tok = .int) := by
  intro e he hf
  obtain ⟨o, ho, hn, hp⟩ := joinAll_sound os (plain es) h e (mem_plain he hf)
  refine ⟨o, ho, hn, ?_, ?_⟩
  · intro hr
    have : (o.ck == CKind.rune) = false := by simpa using hr
    simpa [formOkAsBuilt, this, FormAgrees] using hp
  · intro hr
    have : (o.ck == CKind.rune) = true := by simpa using hr
    simp only [formOkAsBuilt, this, if_true, Bool.and_eq_true, beq_iff_eq] at hp
    exact ⟨hp.1.1.2, hp.1.2, hp.2⟩

theorem inClass_iff {D : List (Nat × Nat)} {pkg key : Nat} : inClass D pkg key = true ↔ (pkg, key) ∈ D := by
  simp only [inClass, List.any_eq_true, Bool.and_eq_true, beq_iff_eq]
  constructor
  · rintro ⟨⟨a, b⟩, hd, h1, h2⟩
    simp only at h1 h2
    subst h1 h2
    exact hd
  · intro h; exact ⟨(pkg, key), h, rfl, rfl⟩

/-- every literal entry is evaluated and is what `fixConst` emits for an object of the same name; outside the class
    it is exactly the value of that object -/
theorem valuesOk_sound {D : List (Nat × Nat)} {pkg : Nat} {es : List Entry} {os : List RefObj}
    (h : valuesOk D pkg es os = true) :
    ∀ e ∈ es, e.form = .lit → ∃ o ∈ os, o.name = e.key ∧ e.val = asBuilt o.val ∧ e.val ≠ .none ∧
      ((pkg, e.key) ∉ D → e.val = o.val) := by
  intro e he hl
  have hw : e.form ≠ .wrap := by rw [hl]; decide
  obtain ⟨o, ho, hn, hp⟩ := joinAll_sound os (plain es) h e (mem_plain he hw)
  refine ⟨o, ho, hn, ?_⟩
  simp only [valueOkAsBuilt, hl, Bool.and_eq_true, bne_iff_ne, beq_iff_eq, Bool.or_eq_true] at hp
  obtain ⟨⟨h1, h2⟩, h3⟩ := hp
  refine ⟨h2, h1, ?_⟩
  intro hD
  rcases h3 with h3 | h3
  · exact h3
  · exact absurd (inClass_iff.mp h3) hD

/-- every name of the class that belongs to this package is a literal entry whose value is NOT the value of any
    object of that name -/
theorem divergeOk_sound {D : List (Nat × Nat)} {pkg : Nat} {es : List Entry} {os : List RefObj}
    (h : divergeOk D pkg es os = true) :
    ∀ key, (pkg, key) ∈ D → ∃ e ∈ es, e.key = key ∧ e.form = .lit ∧ e.val ≠ .none ∧
      ∀ o ∈ os, o.name = key → e.val ≠ o.val := by
  intro key hD
  have h1 := List.all_eq_true.mp h (pkg, key) hD
  simp only [bne_self_eq_false, Bool.false_or, List.any_eq_true, Bool.and_eq_true, beq_iff_eq, bne_iff_ne,
    List.all_eq_true, Bool.or_eq_true] at h1
  obtain ⟨e, he, ⟨⟨hk, hf⟩, hn⟩, ho⟩ := h1
  refine ⟨e, he, hk, hf, hn, ?_⟩
  intro o hom hname
  rcases ho o hom with h2 | h2
  · exact absurd hname h2
  · exact h2

theorem subList_sound : ∀ (ys xs : List Nat), subList xs ys = true → ∀ x ∈ xs, x ∈ ys := by
  intro ys
  induction ys with
  | nil =>
    intro xs h x hx
    cases xs with
    | nil => cases hx
    | cons a as => simp [subList] at h
  | cons y ys ih =>
    intro xs
    induction xs with
    | nil => intro _ x hx; cases hx
    | cons a as _ =>
      intro h x hx
      unfold subList at h
      by_cases hk : (a == y) = true
      · simp only [hk, if_true] at h
        rcases List.mem_cons.mp hx with rfl | hx'
        · simp [beq_iff_eq.mp hk]
        · exact List.mem_cons_of_mem _ (ih as h x hx')
      · simp only [hk] at h
        exact List.mem_cons_of_mem _ (ih (a :: as) (by simpa using h) x hx)

/-- every API name of the release is a key of the table, unless `extract` skips the object (generic, constraint) -/
theorem completeOk_sound {f : File} {r : Ref} (h : completeOk f r = true) (hfull : f.full = true) :
    ∀ n ∈ r.api, n ∉ skipped r.objs → ∃ e ∈ f.entries, e.key = n ∧ e.form ≠ .wrap := by
  intro n hn hs
  simp only [completeOk, hfull, Bool.not_true, Bool.false_or] at h
  have hm : n ∈ r.api.filter fun n => !(skipped r.objs).contains n := by
    simp [List.mem_filter, hn, hs]
  have := subList_sound _ _ h n hm
  simp only [keysOf, plain, List.mem_map, List.mem_filter] at this
  obtain ⟨e, ⟨he, hf⟩, hk⟩ := this
  exact ⟨e, he, hk, by simpa using hf⟩

/-- a method of a wrapper forwards to the field `W<name>` of the receiver with the same signature, passing its
    parameters in order (spreading the variadic one) and returning the results -/
structure Forwards (w : Wrapper) (m : WMethod) (rm : RefMethod) : Prop where
  name : m.name = rm.name
  sig : m.sig = rm.sig
  onRecv : m.onRecv = true
  plain : m.plain = true
  field : decBytes m.field = 87 :: decBytes m.name
  fieldSig : ∃ fl ∈ w.fields, fl.name = m.field ∧ fl.sig = m.sig
  args : m.argNames = m.paramNames
  arity : m.paramNames.length = m.sig.params.length
  spread : m.spread = m.sig.variadic
  returns : m.returns = !m.sig.results.isEmpty

theorem methodOk_sound {w : Wrapper} {m : WMethod} {rm : RefMethod} (h : methodOk w m rm = true) : Forwards w m rm := by
  simp only [methodOk, Bool.and_eq_true, beq_iff_eq] at h
  obtain ⟨⟨⟨⟨⟨⟨⟨⟨⟨h1, h2⟩, h3⟩, h4⟩, h5⟩, h6⟩, h7⟩, h8⟩, h9⟩, h10⟩ := h
  refine ⟨h1, h2, h3, h4, h5, ?_, h7, h8, h9, h10⟩
  split at h6
  · next fl hfl =>
    refine ⟨fl, List.mem_of_find?_eq_some hfl, ?_, by simpa using h6⟩
    have := List.find?_some hfl
    simpa using this
  · cases h6

/-- the methods of the wrapper are, in order, the methods of the interface, each forwarding -/
inductive MethodsForward (w : Wrapper) : List WMethod → List RefMethod → Prop
  | nil : MethodsForward w [] []
  | cons {m rm ms rs} : Forwards w m rm → MethodsForward w ms rs → MethodsForward w (m :: ms) (rm :: rs)

theorem methodsOk_sound {w : Wrapper} : ∀ (ms : List WMethod) (rs : List RefMethod),
    methodsOk w ms rs = true → MethodsForward w ms rs := by
  intro ms
  induction ms with
  | nil => intro rs h; cases rs with
    | nil => exact .nil
    | cons _ _ => simp [methodsOk] at h
  | cons m ms ih => intro rs h; cases rs with
    | nil => simp [methodsOk] at h
    | cons r rs =>
      simp only [methodsOk, Bool.and_eq_true] at h
      exact .cons (methodOk_sound h.1) (ih rs h.2)

theorem MethodsForward.length_eq {w : Wrapper} {ms : List WMethod} {rs : List RefMethod}
    (h : MethodsForward w ms rs) : ms.length = rs.length := by
  induction h with
  | nil => rfl
  | cons _ _ ih => simp [ih]

/-- a wrapper struct `_pkg_X`: named after the interface `X` of the reference, with the `IValue` field, exactly one
    field per method, and exactly the exported methods of `X`, each forwarding -/
def WrapperForwards (pkg : Nat) (ifs : List RefIface) (w : Wrapper) : Prop :=
  decBytes w.struct = wrapPrefix pkg ++ decBytes w.iface ∧ w.hasIValue = true ∧
  w.fields.length = w.methods.length ∧
  ∃ i ∈ ifs, i.name = w.iface ∧ MethodsForward w w.methods i.methods

theorem wrapperOk_sound {pkg : Nat} {ifs : List RefIface} {w : Wrapper} (h : wrapperOk pkg ifs w = true) :
    WrapperForwards pkg ifs w := by
  simp only [wrapperOk, Bool.and_eq_true, beq_iff_eq] at h
  obtain ⟨⟨⟨h1, h2⟩, h3⟩, h4⟩ := h
  refine ⟨h1, h2, h3, ?_⟩
  split at h4
  · next i hi =>
    have := List.find?_some hi
    exact ⟨i, List.mem_of_find?_eq_some hi, by simpa using this, methodsOk_sound _ _ h4⟩
  · cases h4

theorem wrappersOk_sound {f : File} {r : Ref} (h : wrappersOk f r = true) :
    (∀ w ∈ f.wrappers, WrapperForwards f.pkg r.ifaces w) ∧
    (∀ e ∈ f.entries, e.form = .wrap → ∃ w ∈ f.wrappers, w.struct = e.sel) ∧
    (∀ w ∈ f.wrappers, ∃ e ∈ f.entries, e.form = .wrap ∧ e.sel = w.struct) ∧
    (f.full = true → ∀ i ∈ r.ifaces, ∃ w ∈ f.wrappers, w.iface = i.name) := by
  simp only [wrappersOk, Bool.and_eq_true] at h
  obtain ⟨⟨⟨h1, h2⟩, h3⟩, h4⟩ := h
  refine ⟨fun w hw => wrapperOk_sound (List.all_eq_true.mp h1 w hw), ?_, ?_, ?_⟩
  · intro e he hf
    have := List.all_eq_true.mp h2 e he
    simp only [hf, bne_self_eq_false, Bool.false_or, List.any_eq_true, beq_iff_eq] at this
    exact this
  · intro w hw
    have := List.all_eq_true.mp h3 w hw
    simp only [List.any_eq_true, Bool.and_eq_true, beq_iff_eq] at this
    exact this
  · intro hfull i hi
    simp only [hfull, Bool.not_true, Bool.false_or] at h4
    have := List.all_eq_true.mp h4 i hi
    simp only [List.any_eq_true, beq_iff_eq] at this
    exact this

/-! ### hand-written wrappers of composed interfaces (`stdlib/wrapper-composed.go`) -/

/-- methods of the listed (package, interface) pairs, concatenated -/
def unionMethods (ifs : List (Nat × RefIface)) : List (Nat × Nat) → Option (List RefMethod)
  | [] => some []
  | pn :: rest =>
    match ifs.find? (fun x => x.1 == pn.1 && x.2.name == pn.2), unionMethods ifs rest with
    | some i, some ms => some (i.2.methods ++ ms)
    | _, _ => none

def composedWrapperOk (ifs : List (Nat × RefIface)) (w : Wrapper) (parts : List (Nat × Nat)) : Bool :=
  match unionMethods ifs parts with
  | some rms =>
    w.hasIValue && w.fields.length == w.methods.length && w.methods.length == rms.length &&
    rms.all fun rm => w.methods.any fun m => methodOk w m rm
  | none => false

/-- `spec`: struct name ↦ the interfaces it composes -/
def composedOk (spec : List (Nat × List (Nat × Nat))) (ws : List Wrapper) (ifs : List (Nat × RefIface)) : Bool :=
  ws.length == spec.length &&
  spec.all fun s => match ws.find? (fun w => w.struct == s.1) with
    | some w => composedWrapperOk ifs w s.2
    | none => false

theorem composedOk_sound {spec : List (Nat × List (Nat × Nat))} {ws : List Wrapper} {ifs : List (Nat × RefIface)}
    (h : composedOk spec ws ifs = true) :
    ws.length = spec.length ∧ ∀ s ∈ spec, ∃ w ∈ ws, w.struct = s.1 ∧ w.hasIValue = true ∧
      ∃ rms, unionMethods ifs s.2 = some rms ∧ w.methods.length = rms.length ∧ w.fields.length = w.methods.length ∧
        ∀ rm ∈ rms, ∃ m ∈ w.methods, Forwards w m rm := by
  simp only [composedOk, Bool.and_eq_true, beq_iff_eq, List.all_eq_true] at h
  refine ⟨h.1, ?_⟩
  intro s hs
  have h1 := h.2 s hs
  split at h1
  · next w hw =>
    have hm := List.mem_of_find?_eq_some hw
    have hn := List.find?_some hw
    simp only [beq_iff_eq] at hn
    refine ⟨w, hm, hn, ?_⟩
    unfold composedWrapperOk at h1
    split at h1
    · next rms hr =>
      simp only [Bool.and_eq_true, beq_iff_eq, List.all_eq_true, List.any_eq_true] at h1
      obtain ⟨⟨⟨h2, h3⟩, h4⟩, h5⟩ := h1
      refine ⟨h2, rms, hr, h4, h3, ?_⟩
      intro rm hrm
      obtain ⟨m, hmm, hok⟩ := h5 rm hrm
      exact ⟨m, hmm, methodOk_sound hok⟩
    · cases h1
  · cases h1

/-! ### all tables of a run -/

/-- the seven kernel-evaluated obligations of one table -/
structure FileOk (R : List Repl) (D : List (Nat × Nat)) (f : File) (r : Ref) : Prop where
  header : headOk f = true
  names : namesOk R f.pkg f.entries = true
  forms : formsOk f.entries r.objs = true
  values : valuesOk D f.pkg f.entries r.objs = true
  diverge : divergeOk D f.pkg f.entries r.objs = true
  complete : completeOk f r = true
  wrappers : wrappersOk f r = true

inductive AllOk (R : List Repl) (D : List (Nat × Nat)) : List (File × Ref) → Prop
  | nil : AllOk R D []
  | cons {f r rest} : FileOk R D f r → AllOk R D rest → AllOk R D ((f, r) :: rest)

theorem AllOk.all {R : List Repl} {D : List (Nat × Nat)} {fs : List (File × Ref)} (h : AllOk R D fs) :
    ∀ fr ∈ fs, FileOk R D fr.1 fr.2 := by
  induction h with
  | nil => intro _ h; cases h
  | cons hf _ ih =>
    intro fr hfr
    rcases List.mem_cons.mp hfr with rfl | h'
    · exact hf
    · exact ih fr h'

end YaegiVerif.Bind
