import YaegiVerif.Model.Share
/-
  C04 — divergence classes of operation sequences (decidable predicates of the INPUT) and the domain
  `Dom` of the refinement theorem: the sequences that belong to no class.

    multi-shortcut           multi-assign with a call (user function, make, len, cap) on the right, or a
                             composite literal assigned to a plain variable; multi-define with a composite
                             literal on the right                                    (cfg.go: n.gen = nop)
    struct-lit-assign        `x = T{…}` with x a plain variable and T a struct        (doComposite rebinds the slot)
    define-lit-in-loop       `x := [n]T{…}` / `[]T{…}` / `map…{…}` inside a loop body   (arrayLit stores through the old cell)
    lookup2-stale            `x, ok = m[k]`, or `x, ok := m[k]` inside a loop body      (getIndexMap2 skips the store)
    multidefine-redeclared   `x, y := …` where x is only redeclared                     (assign: fresh cell for every name)
    multidefine-sequential   `x, y := e, x` (a later right-hand side IS an earlier left-hand variable)   F21
    append-alias-args        `append(s, a, b…)` where an operand after the first is an element / field /
                             pointee expression                                       (_append passes slots)
-/
namespace YaegiVerif.Share

def pairShortcut (l : LExp) (r : RExp) : Bool := isCallExp r || (isCompositeLit r && isVarL l)

def multiHasShortcut : List LExp → List RExp → Bool
  | l :: ls, r :: rs => pairShortcut l r || multiHasShortcut ls rs
  | _, _ => false

def anyCompositeLit : List RExp → Bool
  | r :: rs => isCompositeLit r || anyCompositeLit rs
  | [] => false

def isLoadOf (x : Name) : RExp → Bool
  | .load (.var y) => x == y
  | _ => false

/-- a right-hand side at position j is exactly a variable bound at a position i ≤ j -/
def seqDep : List Name → List RExp → List Name → Bool
  | x :: xs, r :: rs, seen => (x :: seen).any (fun y => isLoadOf y r) || seqDep xs rs (x :: seen)
  | [], r :: rs, seen => seen.any (fun y => isLoadOf y r) || seqDep [] rs seen
  | _, [], _ => false

def isHandleLoad : RExp → Bool
  | .load l => !isVarL l
  | _ => false

def aliasArgs : List RExp → Bool
  | [] => false
  | _ :: rest => rest.any isHandleLoad

def sopClass (inBody : Bool) : SOp → Option String
  | .assign (.var _) r => if isStructLit r then some "struct-lit-assign" else none
  | .define _ r => if inBody && isArrayLit r then some "define-lit-in-loop" else none
  | .multi ls rs => if multiHasShortcut ls rs then some "multi-shortcut" else none
  | .multidef xs rd _ rs =>
    if anyCompositeLit rs then some "multi-shortcut"
    else if seqDep xs rs [] then some "multidefine-sequential"
    else if rd.any id then some "multidefine-redeclared"
    else none
  | .append _ _ _ args _ _ _ => if aliasArgs args then some "append-alias-args" else none
  | .lookup2 isDef x ok _ _ _ =>
    if !isDef || inBody then some "lookup2-stale" else if x == ok then some "ill-formed" else none
  | _ => none

def sopsClass (inBody : Bool) : List SOp → Option String
  | [] => none
  | o :: os => match sopClass inBody o with
    | some c => some c
    | none => sopsClass inBody os

def opClass : Op → Option String
  | .s o => sopClass false o
  | .range _ _ _ body => sopsClass true body
  | .capture _ _ _ _ _ => none

def classOf : List Op → Option String
  | [] => none
  | o :: os => match opClass o with
    | some c => some c
    | none => classOf os

/-- the domain of the refinement theorem -/
def Dom (ops : List Op) : Bool := (classOf ops).isNone

end YaegiVerif.Share
