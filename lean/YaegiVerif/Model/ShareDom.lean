import YaegiVerif.Model.Share
/-
  C04 — syntactic shapes of operation sequences.

  Until the repairs of 2026-09-26 the refinement theorem had a domain `Dom`: the sequences belonging to none of
  the divergence classes below. Every class has since been repaired in the repository; the refinement theorem
  (`Props.C04.ops_refine`) now holds for the WHOLE operation language and `Dom` is gone. The predicates remain
  as decidable SHAPE labels: the harness counts them to show that its default stream keeps producing the
  formerly diverging shapes, and the regression / old-fact theorems of Props/C04.lean name them.

    (multi-shortcut          multi-assign with a call or a composite literal on the right: 647e2cf)
    (struct-lit-assign       `x = T{…}` rebinding the variable: 3590fb8)
    define-lit-in-loop       `x := [n]T{…}` / `[]T{…}` / `map…{…}` inside a loop body          F04-4, repaired by 1436613
    (lookup2-stale           missing key leaves the destination unchanged: 6b8d7ae)
    lookup2-define-in-loop   `x, ok := m[k]` inside a loop body                                 F04-12, repaired by 5a404d3
    multidefine-redeclared   `x, y := …` where x is only redeclared                             F04-5, repaired by 8bd8040 / 6ebc898
    (multidefine-sequential  `x, y := e, x`: F21, 3e30c22)
    append-alias-args        `append(s, a, b…)` where an operand after the first is an element / field /
                             pointee expression                                               F04-6, repaired by b312e89
    nil-deref-map-store      `m[k] = *p`                                                        F04-10, repaired by 93fb945
    recv-assign-var / -elem  `x = <-c`, `a[i] = <-c`, `s.f = <-c`, `*p = <-c`                      F08-7, repaired by 212dc2e
    assert2-define-in-loop / assert2-fails   `v, ok := x.(T)` in a loop body / a failing assertion   F04-14, repaired by daee744
    complit-assign-var / complit   `p = P{p.Y, p.X}`: a literal with expression operands (that may read the destination);
                             never diverged on the repository's own history — the shape of seeded change C04-3
    call-named-result-assign  `g = f(&g)` with a named result                                      F04-20, repaired by 1b5ab85
    return-permutes-results   `return b, a` with named results a, b                                F04-19, repaired by 8544122
    range-ptr-array          `for i, v := range p` with p a pointer to an array (shape: source is not decidable
                             without types; the harness labels it)                            F04-7, repaired by da35a0b
-/
namespace YaegiVerif.Share

def pairShortcut (l : LExp) (r : RExp) : Bool := isCallExp r || (isCompositeLit r && isVarL l)

def multiHasShortcut : List LExp → List RExp → Bool
  | l :: ls, r :: rs => pairShortcut l r || multiHasShortcut ls rs
  | _, _ => false

def anyCompositeLit : List RExp → Bool
  | r :: rs => isCompositeLit r || anyCompositeLit rs
  | [] => false

def isLoadOf (x : Name) : RExp → Bool
  | .load (.var y) => x == y
  | _ => false

/-- a right-hand side at position j is exactly a variable bound at a position i ≤ j -/
def seqDep : List Name → List RExp → List Name → Bool
  | x :: xs, r :: rs, seen => (x :: seen).any (fun y => isLoadOf y r) || seqDep xs rs (x :: seen)
  | [], r :: rs, seen => seen.any (fun y => isLoadOf y r) || seqDep [] rs seen
  | _, [], _ => false

def isHandleLoad : RExp → Bool
  | .load l => !isVarL l
  | _ => false

def aliasArgs : List RExp → Bool
  | [] => false
  | _ :: rest => rest.any isHandleLoad

def isDerefLoad : RExp → Bool
  | .load (.deref _) => true
  | _ => false

/-- the formerly diverging shape of a statement -/
def sopShape (inBody : Bool) : SOp → Option String
  | .define _ r => if inBody && isArrayLit r then some "define-lit-in-loop" else none
  | .multidef _ rd _ _ => if rd.any id then some "multidefine-redeclared" else none
  | .append _ _ _ args _ _ _ => if aliasArgs args then some "append-alias-args" else none
  | .lookup2 isDef _ _ _ _ _ _ _ => if isDef && inBody then some "lookup2-define-in-loop" else none
  | .mapSet _ _ r => if isDerefLoad r then some "nil-deref-map-store" else none
  | .complit isDef l _ _ _ => if !isDef && isVarL l then some "complit-assign-var" else some "complit"
  | .callNamed isDef _ _ _ _ _ _ _ => if isDef then none else some "call-named-result-assign"
  | .retSwap _ _ _ _ _ => some "return-permutes-results"
  | .recv isDef l _ => if isDef then none else if isVarL l then some "recv-assign-var" else some "recv-assign-elem"
  | .assert2 isDef _ _ _ succ _ _ _ =>
    if isDef && inBody then some "assert2-define-in-loop" else if !succ then some "assert2-fails" else none
  | _ => none

def sopsShapes (inBody : Bool) : List SOp → List String
  | [] => []
  | o :: os => match sopShape inBody o with
    | some c => c :: sopsShapes inBody os
    | none => sopsShapes inBody os

def opShapes : Op → List String
  | .s o => (sopShape false o).toList
  | .range _ _ _ body => sopsShapes true body
  | .capture _ _ _ _ _ => []

/-- every formerly diverging shape that occurs in the sequence -/
def shapesOf : List Op → List String
  | [] => []
  | o :: os => opShapes o ++ shapesOf os

end YaegiVerif.Share
