import YaegiVerif.Model.Share
/-
  C04 — divergence classes of operation sequences (decidable predicates of the INPUT) and the domain
  `Dom` of the refinement theorem: the sequences that belong to no class.

    (multi-shortcut          multi-assign with a call or a composite literal on the right: repaired by commit
                             647e2cf of the repository, no longer a class; the model still reproduces the old
                             behaviour when the fact `shortcutGuardsSingle` is false)
    (struct-lit-assign       `x = T{…}` rebinding the variable: repaired by 3590fb8, no longer a class)
    define-lit-in-loop       `x := [n]T{…}` / `[]T{…}` / `map…{…}` inside a loop body   (arrayLit stores through the old cell)
    (lookup2-stale           missing key leaves the destination unchanged: repaired by 6b8d7ae, no longer a class)
    lookup2-define-in-loop   `x, ok := m[k]` inside a loop body: no new x per iteration  (getIndexMap2 only stores)
    multidefine-redeclared   `x, y := …` where x is only redeclared                     (assign: fresh cell for every name)
    (multidefine-sequential  `x, y := e, x`: F21, repaired by 3e30c22, no longer a class)
    append-alias-args        `append(s, a, b…)` where an operand after the first is an element / field /
                             pointee expression                                       (_append passes slots)
-/
namespace YaegiVerif.Share

def pairShortcut (l : LExp) (r : RExp) : Bool := isCallExp r || (isCompositeLit r && isVarL l)

def multiHasShortcut : List LExp → List RExp → Bool
  | l :: ls, r :: rs => pairShortcut l r || multiHasShortcut ls rs
  | _, _ => false

def anyCompositeLit : List RExp → Bool
  | r :: rs => isCompositeLit r || anyCompositeLit rs
  | [] => false

def isLoadOf (x : Name) : RExp → Bool
  | .load (.var y) => x == y
  | _ => false

/-- a right-hand side at position j is exactly a variable bound at a position i ≤ j -/
def seqDep : List Name → List RExp → List Name → Bool
  | x :: xs, r :: rs, seen => (x :: seen).any (fun y => isLoadOf y r) || seqDep xs rs (x :: seen)
  | [], r :: rs, seen => seen.any (fun y => isLoadOf y r) || seqDep [] rs seen
  | _, [], _ => false

def isHandleLoad : RExp → Bool
  | .load l => !isVarL l
  | _ => false

def aliasArgs : List RExp → Bool
  | [] => false
  | _ :: rest => rest.any isHandleLoad

def sopClass (inBody : Bool) : SOp → Option String
  | .define _ r => if inBody && isArrayLit r then some "define-lit-in-loop" else none
  | .multidef _ rd _ _ =>
    if rd.any id then some "multidefine-redeclared" else none
  | .append _ _ _ args _ _ _ => if aliasArgs args then some "append-alias-args" else none
  | .lookup2 isDef x ok _ _ _ =>
    if isDef && inBody then some "lookup2-define-in-loop" else if isDef && x == ok then some "ill-formed" else none
  | _ => none

def sopsClass (inBody : Bool) : List SOp → Option String
  | [] => none
  | o :: os => match sopClass inBody o with
    | some c => some c
    | none => sopsClass inBody os

def opClass : Op → Option String
  | .s o => sopClass false o
  | .range _ _ _ body => sopsClass true body
  | .capture _ _ _ _ _ => none

def classOf : List Op → Option String
  | [] => none
  | o :: os => match opClass o with
    | some c => some c
    | none => classOf os

/-- the domain of the refinement theorem -/
def Dom (ops : List Op) : Bool := (classOf ops).isNone

end YaegiVerif.Share
