import YaegiVerif.Model.Const
/-
  C03 — values: exact rationals, go/constant values, the operations of go/constant that yaegi and go/types
  both delegate to (documented behaviour, not verified: BinaryOp/UnaryOp/Shift/ToInt/ToFloat/Sign,
  Int64Val/Uint64Val/Float32Val/Float64Val), two's-complement bit operations on `Int`, IEEE rounding.
  Core Lean only.
-/
namespace YaegiVerif.Const

/-! ### exact rationals (num/den, den > 0, lowest terms) -/

structure Q where
  num : Int
  den : Nat
  deriving DecidableEq, Repr, Inhabited

namespace Q
def norm (n : Int) (d : Nat) : Q :=
  if d = 0 then ⟨0, 1⟩
  else
    let g := Nat.gcd n.natAbs d
    if g ≤ 1 then ⟨n, d⟩ else ⟨n / (g : Int), d / g⟩

/-- `a / b` for integers, `b ≠ 0` -/
def ofFrac (a b : Int) : Q := if b < 0 then norm (-a) b.natAbs else norm a b.natAbs
def ofInt (n : Int) : Q := ⟨n, 1⟩
def isInt (a : Q) : Bool := a.den == 1
def neg (a : Q) : Q := ⟨-a.num, a.den⟩
def add (a b : Q) : Q := norm (a.num * b.den + b.num * a.den) (a.den * b.den)
def sub (a b : Q) : Q := norm (a.num * b.den - b.num * a.den) (a.den * b.den)
def mul (a b : Q) : Q := norm (a.num * b.num) (a.den * b.den)
/-- `a / b`, `b ≠ 0` (callers check) -/
def div (a b : Q) : Q :=
  if b.num < 0 then norm (-(a.num * b.den)) (a.den * b.num.natAbs)
  else norm (a.num * b.den) (a.den * b.num.natAbs)
def lt (a b : Q) : Bool := decide (a.num * b.den < b.num * a.den)
def le (a b : Q) : Bool := decide (a.num * b.den ≤ b.num * a.den)
def sign (a : Q) : Int := if a.num < 0 then -1 else if a.num = 0 then 0 else 1
/-- truncation toward zero -/
def trunc (a : Q) : Int := a.num.tdiv a.den
end Q

/-! ### two's-complement operations on unbounded integers (math/big And/Or/Xor/AndNot/Not) -/

def inot (x : Int) : Int := -x - 1

def iand (x y : Int) : Int :=
  if 0 ≤ x then
    if 0 ≤ y then ((x.toNat &&& y.toNat : Nat) : Int)
    else ((x.toNat - (x.toNat &&& (inot y).toNat) : Nat) : Int)          -- x &^ (-y-1)
  else
    if 0 ≤ y then ((y.toNat - (y.toNat &&& (inot x).toNat) : Nat) : Int)
    else inot (((inot x).toNat ||| (inot y).toNat : Nat) : Int)

def ior (x y : Int) : Int := inot (iand (inot x) (inot y))
def ixor (x y : Int) : Int := ior (iand x (inot y)) (iand (inot x) y)
def iandNot (x y : Int) : Int := iand x (inot y)
def ishl (x : Int) (s : Nat) : Int := x * (2 ^ s : Int)
/-- arithmetic shift right: floor division by 2^s -/
def ishr (x : Int) (s : Nat) : Int := x / (2 ^ s : Int)

/-- wrap an integer to the value range of a kind (what `reflect.Value.SetInt/SetUint`/`Convert` keep) -/
def wrapK (k : IKind) (v : Int) : Int :=
  let m : Int := 2 ^ k.bits
  let r := v % m
  if k.signed && decide (2 ^ (k.bits - 1) ≤ r) then r - m else r

/-- UTF-8 encoding of `string(rune(v))`; values that are not valid code points give U+FFFD -/
def utf8 (v : Int) : List Nat :=
  let r : Nat := if v < 0 || v > 0x10FFFF || (0xD800 ≤ v && v ≤ 0xDFFF) then 0xFFFD else v.toNat
  if r < 0x80 then [r]
  else if r < 0x800 then [0xC0 + r / 64, 0x80 + r % 64]
  else if r < 0x10000 then [0xE0 + r / 4096, 0x80 + (r / 64) % 64, 0x80 + r % 64]
  else [0xF0 + r / 262144, 0x80 + (r / 4096) % 64, 0x80 + (r / 64) % 64, 0x80 + r % 64]

/-! ### IEEE-754 rounding of an exact rational (round to nearest, ties to even) -/

/-- `p` bits of precision, smallest exponent of the unit in the last place `eminUlp` (−1074 / −149),
    overflow threshold `2^emaxP1` (1024 / 128). `none` = rounds to ±Inf. -/
def roundFloat (p : Nat) (eminUlp : Int) (emaxP1 : Nat) (q : Q) : Option Q :=
  if q.num = 0 then some ⟨0, 1⟩
  else
    let a : Nat := q.num.natAbs
    let d : Nat := q.den
    let e0 : Int := (bitLen a : Int) - (bitLen d : Int)
    -- e = floor(log2(a/d))
    let ge : Bool := if 0 ≤ e0 then decide (d * 2 ^ e0.toNat ≤ a) else decide (d ≤ a * 2 ^ (-e0).toNat)
    let e : Int := if ge then e0 else e0 - 1
    let u0 : Int := e - ((p : Int) - 1)
    let u : Int := if u0 < eminUlp then eminUlp else u0
    let numer : Nat := if 0 ≤ u then a else a * 2 ^ (-u).toNat
    let denom : Nat := if 0 ≤ u then d * 2 ^ u.toNat else d
    let qn := numer / denom
    let r := numer % denom
    let m : Nat := if 2 * r > denom then qn + 1 else if 2 * r = denom then qn + qn % 2 else qn
    -- value m * 2^u ; overflow iff m * 2^u ≥ 2^emaxP1
    let over : Bool := if 0 ≤ u then decide (2 ^ emaxP1 ≤ m * 2 ^ u.toNat) else false
    if over then none
    else
      let v : Q := if 0 ≤ u then ⟨(m * 2 ^ u.toNat : Nat), 1⟩ else Q.norm (m : Int) (2 ^ (-u).toNat)
      some (if q.num < 0 then v.neg else v)

def round64 (q : Q) : Option Q := roundFloat 53 (-1074) 1024 q
def round32 (q : Q) : Option Q := roundFloat 24 (-149) 128 q

/-! ### go/constant values -/

/-- a `constant.Value`: kind Int / Float / Bool / String / Unknown; strings are byte lists -/
inductive CV where
  | int (v : Int)
  | flt (q : Q)
  | bool (b : Bool)
  | str (s : List Nat)
  | unknown
  deriving DecidableEq, Repr, Inhabited

namespace CV
/-- `constant.ToInt` -/
def toInt : CV → CV
  | int v => int v
  | flt q => if q.isInt then int q.num else unknown
  | _ => unknown
/-- `constant.ToFloat` -/
def toFloat : CV → CV
  | int v => flt (Q.ofInt v)
  | flt q => flt q
  | _ => unknown
/-- `constant.Sign` (0 for non-numeric kinds other than Unknown, which is 1) -/
def sign : CV → Int
  | int v => if v < 0 then -1 else if v = 0 then 0 else 1
  | flt q => q.sign
  | unknown => 1
  | _ => 0
def isIntKind : CV → Bool
  | int _ => true
  | _ => false
end CV

/-- outcome of evaluating something: a value, a compile error, a Go panic escaping, or outside the model -/
inductive Res (α : Type) where
  | ok (a : α)
  | reject
  | crash
  | unm (why : String)
  deriving Repr, DecidableEq, Inhabited

namespace Res
@[inline] def bind {α β : Type} (r : Res α) (f : α → Res β) : Res β :=
  match r with
  | ok a => f a
  | reject => reject
  | crash => crash
  | unm w => unm w
instance : Monad Res where
  pure := ok
  bind := bind
end Res

/-- `constant.BinaryOp(x, tok, y)` for the arithmetic tokens. `match` first brings both operands to the larger
    kind (Int < Float). A panic of go/constant or math/big is `crash`. -/
def cBinary (tok : Tok) (x y : CV) : Res CV :=
  match x, y with
  | .int a, .int b =>
    (match tok with
     | .add => .ok (.int (a + b))
     | .sub => .ok (.int (a - b))
     | .mul => .ok (.int (a * b))
     | .quo => if b = 0 then .crash else .ok (.flt (Q.ofFrac a b))
     | .quoAssign => if b = 0 then .crash else .ok (.int (a.tdiv b))
     | .rem => if b = 0 then .crash else .ok (.int (a.tmod b))
     | .and => .ok (.int (iand a b))
     | .or => .ok (.int (ior a b))
     | .xor => .ok (.int (ixor a b))
     | .andNot => .ok (.int (iandNot a b))
     | _ => .crash)
  | .int a, .flt q => cBinaryQ tok (Q.ofInt a) q
  | .flt q, .int b => cBinaryQ tok q (Q.ofInt b)
  | .flt p, .flt q => cBinaryQ tok p q
  | .str s, .str t => (match tok with | .add => .ok (.str (s ++ t)) | _ => .crash)
  | .unknown, _ => .ok .unknown
  | _, .unknown => .ok .unknown
  | _, _ => .crash
where
  cBinaryQ (tok : Tok) (p q : Q) : Res CV :=
    match tok with
    | .add => .ok (.flt (p.add q))
    | .sub => .ok (.flt (p.sub q))
    | .mul => .ok (.flt (p.mul q))
    | .quo => if q.num = 0 then .crash else .ok (.flt (p.div q))
    | _ => .crash

/-- byte-wise order of strings (Go's `<` on strings) -/
def bytesLt : List Nat → List Nat → Bool
  | [], [] => false
  | [], _ :: _ => true
  | _ :: _, [] => false
  | a :: as, b :: bs => if a < b then true else if a > b then false else bytesLt as bs

/-- `constant.Compare(x, tok, y)`: `match` brings numeric operands to the larger kind; Unknown compares false;
    operands of different non-numeric kinds, or an ordering of booleans, are a panic of go/constant -/
def cCompare (tok : Tok) (x y : CV) : Res Bool :=
  let ord (lt eq : Bool) : Res Bool :=
    match tok with
    | .eql => .ok eq
    | .neq => .ok (!eq)
    | .lss => .ok lt
    | .leq => .ok (lt || eq)
    | .gtr => .ok (!(lt || eq))
    | .geq => .ok (!lt)
    | _ => .crash
  match x, y with
  | .unknown, _ => .ok false
  | _, .unknown => .ok false
  | .int a, .int b => ord (decide (a < b)) (decide (a = b))
  | .int a, .flt q => ord ((Q.ofInt a).lt q) (Q.ofInt a == q)
  | .flt p, .int b => ord (p.lt (Q.ofInt b)) (p == Q.ofInt b)
  | .flt p, .flt q => ord (p.lt q) (p == q)
  | .str s, .str t => ord (bytesLt s t) (s == t)
  | .bool a, .bool b =>
    (match tok with
     | .eql => .ok (a == b)
     | .neq => .ok (a != b)
     | _ => .crash)
  | _, _ => .crash

end YaegiVerif.Const
