import YaegiVerif.Model.Method
import YaegiVerif.Spec.GoSelector
/-
  C05 — script values behind host interfaces: which methods host code can see.

  A script value converted to a host interface `I` is handed to host code as a wrapper struct that
  has one func field per method (interp/run.go `genInterfaceWrapper`); the struct is chosen by
  interp/use.go `getWrapper`: the first *composed* wrapper of `I` (stdlib/wrapper-composed.go, table
  `MapTypes`: `I` plus one optional interface, e.g. io.Reader + io.WriterTo) all of whose methods
  the script type has, else the plain wrapper of `I`. Host code that probes its argument for an
  optional interface `J` (`x.(io.WriterTo)` in io.Copy) sees the methods of that struct and nothing
  else. In compiled Go the probe succeeds exactly when the value implements `J`.
  Host interfaces are represented by the names of their methods. Core Lean only.
-/
namespace YaegiVerif.MethodHost
open YaegiVerif.Method YaegiVerif.Spec.Selector

/-- the composed wrappers: host interface (name of its plain wrapper) ↦ the method lists of its
    composed wrappers, most complex first (`Generated.C05.composedWrappers`) -/
abbrev Composed := List (String × List (List String))

/-- the method names `getWrapper` tests against: `methods()` of the script type (own and promoted
    methods, whatever their receiver kind, identically for `T` and `*T`), or — would it use
    `getMethod` — the methods declared on the type itself -/
def visibleNamesY (F : Facts) (D : Decls) (t : Nat) : List String :=
  if F.wrapperUsesMethodSet then (methodsY D t).map (·.1) else (methsOf D t).map (·.name)

def composedOf (C : Composed) (base : String) : List (List String) :=
  ((C.find? (fun e => e.1 == base)).map (·.2)).getD []

/-- `getWrapper`: the methods of the wrapper struct chosen for a value of type `t` (or `*t`)
    converted to the host interface `base`, whose own methods are `im` -/
def chooseWrapperY (F : Facts) (C : Composed) (D : Decls) (t : Nat) (base : String) (im : List String) : List String :=
  match (composedOf C base).find? (fun ms => ms.all (fun m => (visibleNamesY F D t).contains m)) with
  | some ms => ms
  | none => im

/-- does a host-side probe `x.(J)` succeed, `J` having the methods `jm` -/
def hostProbeY (F : Facts) (C : Composed) (D : Decls) (t : Nat) (base : String) (im jm : List String) : Bool :=
  jm.all (fun j => (chooseWrapperY F C D t base im).contains j)

/-- Go: the probe succeeds iff the dynamic type implements `J` (names; the host interfaces of the
    fragment have one signature per name) -/
def hostProbeG (D : Decls) (d : DynT) (jm : List String) : Bool :=
  jm.all (fun j => ((methodSet D d).map (·.name)).contains j)

end YaegiVerif.MethodHost
