import YaegiVerif.Model.Cfg
/-
  C01 — level 2 of the model: *frame slots*.

  Level 1 (Model/Cfg.lean) keeps expressions whole: one node evaluates `e` in one go.  yaegi does not:
  cfg.go gives every expression node its own frame slot (`n.findex = sc.add(n.typ)`), constants stay
  out of the frame (`n.rval`), a variable is read from its own slot, and every operator node is a
  closure (op.go `add`, `sub`, …; run.go `neg`, `bitNot`) that reads its two operands — slot or
  constant —, writes its own slot and returns `tnext`.  On top of that cfg.go *rewrites the
  destination* of the top node of a right-hand side so that no copy is needed:

    x = a op b   (case assignStmt: `len(n.child) < 4 && n.kind != defineStmt && isArithmeticAction(src)`,
                  case binaryExpr / unaryExpr: `n.anc.kind == assignStmt && n.anc.action == aAssign`)
                 the operator node gets `findex = x`, the assign node becomes `nop`
    x = f(args)  (`isCall(src) && n.kind != defineStmt`) the call writes its result into x's slot,
                 the assign node becomes `nop`
    return a op b  (`n.anc.kind == returnStmt`: `n.findex = childPos(n)`) the operator node writes
                 the frame's result slot, `_return` has nothing to copy
    x = y, x = 5   keep the assign closure (run.go `assign`: `d(f).Set(s(f))`), here `mov`
    a < b as a condition   one fused closure (op.go `lower` with `n.fnext != nil`) reading two operands

  Only the TOP node of the right-hand side gets the destination; its children keep their own slots
  (`n.anc.kind` is then `binaryExpr` / `parenExpr`: the `default:` arm, `sc.add`).

  This file: operands, straight-line operator code `Pre`, `compileExpr`, the slot instructions
  `Instr2` with their machine (`step2`, `steps2`, `runFuel2`), and the *generic* expansion `expand` of a
  level-1 graph: every level-1 node becomes a block (operator closures of its expressions in
  evaluation order, then the node's own closure), every jump target is remapped through `addrOf`.
  `expand` knows nothing about statements, so the refinement proof (Proofs/C01Slots.lean) is a
  node-by-node simulation and needs no new induction over statements.

  Frame layout of the model: slots `< nv` are the variables (parameters first), slot `nv` is the
  function's result slot (yaegi: slot 0 — the numbering is a naming choice), slots `> nv` are the
  temporaries of expression nodes, allocated in post-order (children first) and never reused.
  Not modelled: constant folding of operator nodes whose children are all constants (`constOp`), the
  `parenExpr` pass-through nodes, the boolean slot a fused comparison also writes.
-/
namespace YaegiVerif.Core

inductive UnOp where | neg | cpl
  deriving Repr, DecidableEq

/-- what a closure reads: a frame slot, or a constant captured at compile time (`rval`) -/
inductive Operand where
  | slot (i : Nat)
  | const (v : Val)
  deriving Repr, DecidableEq

def Operand.get (fr : Nat → Val) : Operand → Val
  | .slot i => fr i
  | .const v => v

/-- the binary operator closures; `none` = run-time panic (integer divide by zero) -/
def BinOp.apply (op : BinOp) (x y : Val) : Option Val :=
  match op with
  | .add => some (x + y) | .sub => some (x - y) | .mul => some (x * y)
  | .and => some (x &&& y) | .or => some (x ||| y) | .xor => some (x ^^^ y)
  | .quo => if y = 0 then none else some (BitVec.sdiv x y)
  | .rem => if y = 0 then none else some (BitVec.srem x y)

def UnOp.apply (op : UnOp) (x : Val) : Val :=
  match op with
  | .neg => -x
  | .cpl => ~~~x

def setSlot (fr : Nat → Val) (i : Nat) (v : Val) : Nat → Val := fun j => if j = i then v else fr j

/-- an operator closure whose successor is the next closure of the same straight-line sequence
    (cfg.go `wireChild`: operands are wired in evaluation order, the last one to the node itself) -/
inductive Pre where
  | op (dst : Nat) (o : BinOp) (a b : Operand)
  | un (dst : Nat) (o : UnOp) (a : Operand)
  deriving Repr, DecidableEq

/-- effect of one operator closure on the frame; `none` = panic -/
def Pre.exec (fr : Nat → Val) : Pre → Option (Nat → Val)
  | .op d o a b => (o.apply (a.get fr) (b.get fr)).map (setSlot fr d)
  | .un d o a => some (setSlot fr d (o.apply (a.get fr)))

/-- effect of a straight-line sequence of operator closures -/
def evalPre : List Pre → (Nat → Val) → Option (Nat → Val)
  | [], fr => some fr
  | p :: ps, fr => (p.exec fr).bind (evalPre ps)

/-- is the node an operator node (a closure with a frame slot of its own)? -/
def Expr.isOp : Expr → Bool
  | .lit _ => false
  | .var _ => false
  | _ => true

/-- code of an expression: the operator closures in evaluation order, the operand that denotes its
    value afterwards, and the next free temporary.  `tmp` = first free temporary; `dst` = the
    destination hint, used by the TOP node only (children are compiled with `none`).
    Leaves produce no code: a constant is `rval`, a variable is read from its own slot. -/
def compileExpr : Expr → (tmp : Nat) → (dst : Option Nat) → List Pre × Operand × Nat
  | .lit v, tmp, _ => ([], .const v, tmp)
  | .var x, tmp, _ => ([], .slot x, tmp)
  | .bin o a b, tmp, dst =>
    let ra := compileExpr a tmp none
    let rb := compileExpr b ra.2.2 none
    match dst with
    | some d => (ra.1 ++ rb.1 ++ [.op d o ra.2.1 rb.2.1], .slot d, rb.2.2)
    | none => (ra.1 ++ rb.1 ++ [.op rb.2.2 o ra.2.1 rb.2.1], .slot rb.2.2, rb.2.2 + 1)
  | .neg a, tmp, dst =>
    let ra := compileExpr a tmp none
    match dst with
    | some d => (ra.1 ++ [.un d .neg ra.2.1], .slot d, ra.2.2)
    | none => (ra.1 ++ [.un ra.2.2 .neg ra.2.1], .slot ra.2.2, ra.2.2 + 1)
  | .cpl a, tmp, dst =>
    let ra := compileExpr a tmp none
    match dst with
    | some d => (ra.1 ++ [.un d .cpl ra.2.1], .slot d, ra.2.2)
    | none => (ra.1 ++ [.un ra.2.2 .cpl ra.2.1], .slot ra.2.2, ra.2.2 + 1)

/-- call arguments, left to right, each operator node in a temporary of its own -/
def compileArgs : List Expr → (tmp : Nat) → List Pre × List Operand × Nat
  | [], tmp => ([], [], tmp)
  | e :: es, tmp =>
    let r := compileExpr e tmp none
    let rs := compileArgs es r.2.2
    (r.1 ++ rs.1, r.2.1 :: rs.2.1, rs.2.2)

/-- the closures of the slot level, each carrying its successor(s) -/
inductive Instr2 where
  | op (dst : Nat) (o : BinOp) (a b : Operand) (next : Nat)
  | un (dst : Nat) (o : UnOp) (a : Operand) (next : Nat)
  | mov (dst : Nat) (a : Operand) (next : Nat)                    -- run.go `assign`
  | branch (o : CmpOp) (a b : Operand) (t f : Nat)                -- fused compare-and-branch
  | print (a : Operand) (next : Nat)
  | nop (next : Nat)                                              -- run.go `nop`
  | call (dst : Nat) (entry : Nat) (args : List Operand) (next : Nat)   -- result written straight into `dst`
  | ret (a : Operand)
  deriving Repr, DecidableEq

def Pre.link (next : Nat) : Pre → Instr2
  | .op d o a b => .op d o a b next
  | .un d o a => .un d o a next

/-- a straight-line sequence placed at `base`: every closure's successor is the next address -/
def linkSeq : Nat → List Pre → List Instr2
  | _, [] => []
  | base, p :: ps => p.link (base + 1) :: linkSeq (base + 1) ps

/-- a suspended caller: where to resume, its whole frame, the slot that receives the result -/
structure Frame2 where
  ret : Nat
  saved : Nat → Val
  dst : Nat

inductive MState2 where
  | run (pc : Nat) (fr : Nat → Val) (out : List Val) (σ : List Frame2)
  | panicked (out : List Val)
  | done (out : List Val)

def doReturn2 (v : Val) (out : List Val) : List Frame2 → MState2
  | [] => .done out
  | f :: σ => .run f.ret (setSlot f.saved f.dst v) out σ

/-- one closure -/
def exec2 (fr : Nat → Val) (out : List Val) (σ : List Frame2) : Instr2 → MState2
  | .op d o a b next =>
    (match o.apply (a.get fr) (b.get fr) with
     | some v => .run next (setSlot fr d v) out σ
     | none => .panicked out)
  | .un d o a next => .run next (setSlot fr d (o.apply (a.get fr))) out σ
  | .mov d a next => .run next (setSlot fr d (a.get fr)) out σ
  | .branch o a b t f => .run (if o.eval (a.get fr) (b.get fr) then t else f) fr out σ
  | .print a next => .run next fr (out ++ [a.get fr]) σ
  | .nop next => .run next fr out σ
  | .call d entry args next => .run entry (bindArgs (args.map (Operand.get fr))) out (⟨next, fr, d⟩ :: σ)
  | .ret a => doReturn2 (a.get fr) out σ

/-- one iteration of `exec = exec(f)` at the slot level -/
def step2 (code : List Instr2) : MState2 → Option MState2
  | .panicked _ => none
  | .done _ => none
  | .run pc fr out σ => (code[pc]?).map (exec2 fr out σ)

def steps2 (code : List Instr2) : Nat → MState2 → Option MState2
  | 0, m => some m
  | n + 1, m => (step2 code m).bind (steps2 code n)

def runFuel2 (code : List Instr2) : Nat → MState2 → Option MState2
  | 0, _ => none
  | n + 1, m =>
    match step2 code m with
    | none => some m
    | some m' => runFuel2 code n m'

/-! ### generic expansion of a level-1 graph -/

/-- the operator closures that run before the node's own closure -/
def blockPre (nv : Nat) : Instr → List Pre
  | .nop _ => []
  | .assign x e _ => (compileExpr e (nv + 1) (some x)).1          -- top node writes x (skip-assign)
  | .print e _ => (compileExpr e (nv + 1) none).1
  | .branch _ a b _ _ =>
    (compileExpr a (nv + 1) none).1 ++ (compileExpr b (compileExpr a (nv + 1) none).2.2 none).1
  | .call _ _ args _ => (compileArgs args (nv + 1)).1
  | .ret e => (compileExpr e (nv + 1) (some nv)).1                -- top node writes the result slot

/-- the node's own closure(s), placed at `pos`; `A` maps level-1 addresses to block addresses -/
def blockTail (nv : Nat) (A : Nat → Nat) (pos : Nat) : Instr → List Instr2
  | .nop next => [.nop (A next)]
  | .assign x e next =>
    if e.isOp then [.nop (A next)]                                 -- `n.gen = nop`: the value is already in x
    else [.mov x (compileExpr e (nv + 1) (some x)).2.1 (A next)]   -- x = y, x = 5: the assign closure stays
  | .print e next => [.print (compileExpr e (nv + 1) none).2.1 (A next)]
  | .branch o a b t f =>
    [.branch o (compileExpr a (nv + 1) none).2.1
      (compileExpr b (compileExpr a (nv + 1) none).2.2 none).2.1 (A t) (A f)]
  | .call x entry args next =>
    [.call x (A entry) (compileArgs args (nv + 1)).2.1 (pos + 1), .nop (A next)]   -- assign node: `nop`
  | .ret e => [.ret (compileExpr e (nv + 1) (some nv)).2.1]

def tailLen : Instr → Nat
  | .call _ _ _ _ => 2
  | _ => 1

def blockSize (nv : Nat) (i : Instr) : Nat := (blockPre nv i).length + tailLen i

/-- the block of one level-1 node placed at `base` -/
def block (nv : Nat) (A : Nat → Nat) (base : Nat) (i : Instr) : List Instr2 :=
  linkSeq base (blockPre nv i) ++ blockTail nv A (base + (blockPre nv i).length) i

/-- address of the block of level-1 node `i`: the sizes of the blocks before it
    (for `i` past the end: the length of the expanded graph) -/
def addrOf (nv : Nat) : List Instr → Nat → Nat
  | [], _ => 0
  | _ :: _, 0 => 0
  | i :: rest, k + 1 => blockSize nv i + addrOf nv rest k

def expandFrom (nv : Nat) (A : Nat → Nat) : List Instr → Nat → List Instr2
  | [], _ => []
  | i :: rest, base => block nv A base i ++ expandFrom nv A rest (base + blockSize nv i)

/-- the slot-level graph of a level-1 graph -/
def expand (nv : Nat) (code : List Instr) : List Instr2 := expandFrom nv (addrOf nv code) code 0

/-! ### variable bounds (which slots are variables) -/

def Expr.varsLt (nv : Nat) : Expr → Bool
  | .lit _ => true
  | .var x => x < nv
  | .bin _ a b => a.varsLt nv && b.varsLt nv
  | .neg a => a.varsLt nv
  | .cpl a => a.varsLt nv

def Instr.varsLt (nv : Nat) : Instr → Bool
  | .nop _ => true
  | .assign x e _ => decide (x < nv) && e.varsLt nv
  | .print e _ => e.varsLt nv
  | .branch _ a b _ _ => a.varsLt nv && b.varsLt nv
  | .call x _ args _ => decide (x < nv) && args.all (Expr.varsLt nv)
  | .ret e => e.varsLt nv

/-- 1 + the largest variable index of an expression / a node (driver: choice of `nv`) -/
def Expr.bound : Expr → Nat
  | .lit _ => 0
  | .var x => x + 1
  | .bin _ a b => max a.bound b.bound
  | .neg a => a.bound
  | .cpl a => a.bound

def Instr.bound : Instr → Nat
  | .nop _ => 0
  | .assign x e _ => max (x + 1) e.bound
  | .print e _ => e.bound
  | .branch _ a b _ _ => max a.bound b.bound
  | .call x _ args _ => args.foldl (fun m e => max m e.bound) (x + 1)
  | .ret e => e.bound

def codeBound (code : List Instr) : Nat := code.foldl (fun m i => max m i.bound) 0

end YaegiVerif.Core
