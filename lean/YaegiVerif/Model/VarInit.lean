/-
  C15 — executable model of how yaegi orders and runs the initialisation of a package
  (interp/cfg.go `getVars`, `getVarDependencies`, `genGlobalVarDecl`, `genGlobalVars`;
   interp/program.go `CompileAST` / `Execute`; interp/src.go `importSrc`; the registration of init
   functions in the `funcDecl` case of `cfg` and of `gta`).

  Three layers:
  * the *graph layer* the theorems talk about: variable specifications are numbered `0 … n-1`
    in source order (the list `getVars` builds), `g : Deps` gives for each its collected
    dependencies, `orderY g` is the loop of `genGlobalVarDecl` exactly as written (since the repair
    of F15: the scan restarts from the earliest remaining specification after every append);
  * the *package layer* the driver runs: a package is a list of variable specifications with the
    identifiers occurring in their initialisers and a list of functions/methods with the identifiers
    of their bodies; `specsY` is the splitting of `var a, b = x, y` done by `ast`, `collectDepsY` is
    `getVarDependencies` (a walk that follows references to functions and methods, `walkIds`),
    `runY` is `Execute`; the decisions the repairs of round 3 introduced are parameters (`DepFacts`);
  * the *declaration layer*: a package as source — files, each a list of declarations (variable
    specifications, function declarations with receiver / name / parameter counts, types);
    `pkgInits` is the list `initNodes` that `cfg` and `importSrc` build under the registration
    condition read from the source (`InitFacts`), `SrcPkg.toPkg` feeds it to the package layer.
  Core Lean only.
-/
namespace YaegiVerif.VarInit

/-! ### graph layer -/

/-- `deps` of `genGlobalVarDecl`: for every specification (by index) the specifications it was
    found to depend on -/
abbrev Deps := List (List Nat)

def depsOf (g : Deps) (i : Nat) : List Nat := g.getD i []

/-- `canInit`: no collected dependency is `pending`. `pending` starts as the set of all the
    specifications of the list and loses one whenever `varNode.child` (`done`) gains it, so a
    specification of the list is pending iff it is not in `done`. (A dependency outside the list — a
    variable of an earlier `Eval`, or of another package — is never pending; the model describes one
    evaluation of one package, where every collected dependency is a specification of the list.) -/
def ready (g : Deps) (done : List Nat) (i : Nat) : Bool :=
  (depsOf g i).all (fun d => done.contains d)

/-- one execution of `for i, n := range nodes { … }`: the specifications that are not ready are
    put on `revisit`; the first one that is ready is appended to `varNode.child`, the rest of the
    list goes to `revisit` unexamined (`revisit = append(revisit, nodes[i+1:]...)`) and the scan
    stops (`break`). Result: (`varNode.child`, `revisit`) -/
def pass (g : Deps) : List Nat → List Nat → List Nat × List Nat
  | [], done => (done, [])
  | n :: ns, done =>
    if ready g done n then (done ++ [n], ns)
    else ((pass g ns done).1, n :: (pass g ns done).2)

/-- result of the ordering: the order, the "variable definition loop" error, or fuel exhausted
    (shown impossible: `orderY_terminates`) -/
inductive Res where
  | ok (order : List Nat)
  | loop
  | fuel
  deriving DecidableEq, Repr

/-- the outer `for { … }` of `genGlobalVarDecl`:
    `if len(revisit) == 0 || equalNodes(nodes, revisit) { break }; nodes = revisit`
    followed by `if len(revisit) > 0 { return error }` -/
def loopY (g : Deps) : Nat → List Nat → List Nat → Res
  | 0, _, _ => .fuel
  | fuel + 1, nodes, done =>
    let r := pass g nodes done
    if r.2.isEmpty then .ok r.1
    else if r.2 == nodes then .loop
    else loopY g fuel r.2 r.1

/-- `genGlobalVarDecl(nodes, sc)` on `n` specifications; the fuel is the number of
    specifications plus one (every iteration that does not stop removes exactly one) -/
def orderY (g : Deps) : Res := loopY g (g.length + 1) (List.range g.length) []

/-- "every element's dependencies occur before it" -/
def respectsFrom (g : Deps) : List Nat → List Nat → Bool
  | _, [] => true
  | pre, i :: rest => ready g pre i && respectsFrom g (pre ++ [i]) rest

def Respects (g : Deps) (l : List Nat) : Prop := respectsFrom g [] l = true

/-! ### package layer -/

/-- an identifier occurring in an initialiser or a function body. `pkgLevel = false`: in Go it
    does not denote the package-level object of that name (a local variable that shadows it, a
    struct field key). Since the repair of F15-4 `getVarDependencies` resolves an identifier by the
    symbol `cfg` attached to it (`n.sym`), so such an identifier is never a dependency; before, it
    looked every identifier up in the package scope by name only. -/
structure Ident where
  name : String
  pkgLevel : Bool := true
  /-- the identifier stands for a method *expression* `T.m` / `(*T).m` (the method as a function
      with the receiver as first argument), not for a method selected on a value (`t.m`, `t.m()`) -/
  mexpr : Bool := false
  deriving DecidableEq, Repr

/-- one initialisation expression; it logs `label` when evaluated. `label = ""`: the expression is
    a function literal (`var get = func() int { return x }`): evaluating it runs nothing and logs
    nothing; `ids` are then the identifiers of the literal's body. -/
structure Init where
  label : String
  ids : List Ident
  deriving DecidableEq, Repr

/-- the initialisation expression is a function literal -/
def Init.funcLit (i : Init) : Bool := i.label == ""

/-- one variable specification of the source (a child of a `varDecl` node as written).
    `inits.length = 0`: `var z T`; `= 1` with several names: `var a, b = f()` (`multi`);
    `= names.length ≥ 2`: `var a, b = x, y` (`paired`). -/
structure VarSpec where
  names : List String
  inits : List Init
  /-- only for `var a, b = f()`: `f` is declared later in the source than this specification
      (before the repair of F15-7 `gta` typed the specification when it met it and did not come
      back: "assignment mismatch: 2 variables but f returns 0 values") -/
  calleeLater : Bool := false
  /-- only for `var v, ok = m[k]` and `var v, ok = <-c` (package-level comma-ok declarations,
      accepted since e4c80e1): the map / channel variable is declared later in the source than this
      specification. `compDefineX`, called by `gta` when it meets the specification, needs the type
      of that operand; before the repair of F15-9 (fb8122a) only a *call* source was retried and the
      interpreter stopped with a Go panic ("incomplete type", "nil type"). -/
  operandLater : Bool := false
  deriving DecidableEq, Repr

/-- `defineXStmt`: several names, one multi-valued expression -/
def VarSpec.multi (v : VarSpec) : Bool := v.names.length ≥ 2 && v.inits.length == 1

/-- `var a, b = x, y`: two independently initialised variables -/
def VarSpec.paired (v : VarSpec) : Bool := v.names.length ≥ 2 && v.inits.length == v.names.length

def VarSpec.ids (v : VarSpec) : List Ident := v.inits.flatMap (·.ids)
def VarSpec.labels (v : VarSpec) : List String := (v.inits.map (·.label)).filter (· != "")

/-- `n.kind == defineStmt && n.lastChild().kind == funcLit`: one name, one value, a function literal -/
def VarSpec.funcLitInit (v : VarSpec) : Bool :=
  v.names.length == 1 && (match v.inits with | [i] => i.funcLit | _ => false)

/-- a function or method (methods are named `T.m`, `meth = true`) with the identifiers of its
    body in the order in which a walk of the declaration meets them -/
structure Func where
  name : String
  ids : List Ident
  meth : Bool
  deriving DecidableEq, Repr

structure Pkg where
  vars : List VarSpec      -- the variable specifications as written, in source order
  funcs : List Func
  inits : List String      -- labels logged by the `init` functions, in source order
  main : Option String     -- label logged by `main`
  deriving DecidableEq, Repr

def isFunc (funcs : List Func) (name : String) : Bool := funcs.any (fun f => f.name == name)

def bodyOf (funcs : List Func) (name : String) : List Ident :=
  match funcs.find? (fun f => f.name == name) with
  | some f => f.ids
  | none => []

/-- how `getVarDependencies` finds what an identifier denotes -/
inductive Resolve where
  /-- `sc.lookup(n.ident)`: by name in the package scope (before the repair of F15-4/F15-5) -/
  | byName
  /-- `n.sym`: the symbol attached to the node by `cfg` -/
  | lexical
  | other (text : String)
  deriving DecidableEq, Repr

/-- which specifications the loop `for _, n := range nodes { deps[n] = getVarDependencies(n, sc) }`
    of `genGlobalVarDecl` leaves without dependencies -/
inductive CollectSkip where
  /-- none: the body of the loop is the assignment alone -/
  | none
  /-- `if n.kind == defineStmt && n.lastChild().kind == funcLit { continue }` before it -/
  | funcLit
  | other (text : String)
  deriving DecidableEq, Repr

/-- which selector nodes resolved to a method of a source type `matchSelectorMethod` (interp/cfg.go,
    branch `if m, lind := n.typ.lookupMethod(name); m != nil`) tags with `n.action = aGetMethod` —
    the tag `getVarDependencies` looks for -/
inductive MethodTag where
  /-- before the test `n.child[0].isType(sc)`: method expressions and methods with receiver -/
  | both
  /-- only in the "method with receiver" branch -/
  | recvOnly
  /-- only in the "method as a function with receiver in 1st argument" branch -/
  | exprOnly
  | none
  | other (text : String)
  deriving DecidableEq, Repr

/-- Facts read from `getVarDependencies` (interp/cfg.go), from the `defineXStmt` case of `gta`
    (interp/gta.go) and from the `token.VAR` case of `ast` (interp/ast.go), regenerated by the
    extractor. Each is a decision one of the repairs of round 3 introduced; the record of the code
    before them is `Expected.C15.depFactsBefore`. -/
structure DepFacts where
  /-- how an identifier is resolved -/
  resolve : Resolve
  /-- `case n.sym.kind == funcSym: fn = n.sym.node` followed by the walk of `fn` (F14) -/
  followFuncs : Bool
  /-- `case n.kind == selectorExpr && n.action == aGetMethod: fn, _ = n.val.(*node)` (F14) -/
  followMethods : Bool
  /-- the test of a global variable symbol also requires `sym.node != nod` (F15-6: gone) -/
  skipSelf : Bool
  /-- `gta`, `case defineXStmt`: `sym.global, sym.node = true, n` for the declared names (F15-1, F15-2) -/
  multiGlobal : Bool
  /-- `gta`, `case defineXStmt`: `revisit = append(revisit, n)` while the callee is incomplete (F15-7) -/
  multiRetry : Bool
  /-- `gta`, `case defineXStmt`: the retry also awaits the map / channel / asserted type of a comma-ok
      source (`case src.kind == callExpr, src.kind == indexExpr, src.kind == unaryExpr && …`; F15-9) -/
  operandRetry : Bool
  /-- `ast`, `case token.VAR` under a `fileStmt`: `a.Specs = splitVarSpecs(a.Specs)` (F15-3) -/
  splitPaired : Bool
  /-- `genGlobalVarDecl`: the specifications for which `getVarDependencies` is not called -/
  collectSkip : CollectSkip
  /-- `matchSelectorMethod`: which method selectors carry the action `aGetMethod` -/
  methodTag : MethodTag
  deriving DecidableEq, Repr

/-- `splitVarSpecs` (interp/ast.go) on one specification: `a, b = x, y` becomes `a = x`, `b = y`;
    anything else (`len(vs.Names) < 2 || len(vs.Values) != len(vs.Names)`) is kept -/
def splitSpec (v : VarSpec) : List VarSpec :=
  if v.paired then (v.names.zip v.inits).map (fun ni => ⟨[ni.1], [ni.2], false, false⟩) else [v]

/-- the specifications the ordering code sees (the list `getVars` builds) -/
def specsY (d : DepFacts) (vars : List VarSpec) : List VarSpec :=
  if d.splitPaired then vars.flatMap splitSpec else vars

/-- the package as the ordering and execution code sees it -/
def Pkg.seenBy (p : Pkg) (d : DepFacts) : Pkg := { p with vars := specsY d p.vars }

/-- the identifiers `getVarDependencies` meets when it walks the specification: the declared
    names first, then those of the initialisation expressions -/
def VarSpec.walk (v : VarSpec) : List Ident := v.names.map (fun n => ⟨n, true, false⟩) ++ v.ids

/-- the package scope after `gta`: `sc.sym[name]` was written by every specification declaring
    `name`, in source order, so the last one stays (only `_` can be declared twice). Index and
    specification of that last one. -/
def lastDecl (name : String) : Nat → List VarSpec → Option (Nat × VarSpec)
  | _, [] => none
  | i, v :: vs =>
    match lastDecl name (i + 1) vs with
    | some r => some r
    | none => if v.names.contains name then some (i, v) else none

/-- the specification that declares the variable `name` (the blank identifier declares nothing) -/
def declIdx (vars : List VarSpec) (name : String) : Option Nat :=
  if name = "_" then none else vars.findIdx? (fun v => v.names.contains name)

/-- the symbol of a variable declared by specification `v` is a global variable symbol carrying
    its node: always for `defineStmt` / `valueSpec`; for `var a, b = f()` only since the repair of F15-1 -/
def globalSym (d : DepFacts) (v : VarSpec) : Bool := !v.multi || d.multiGlobal

/-- the symbol found for specification `i` passes the test `sym.kind == varSym && sym.global` -/
def globalAt (d : DepFacts) (vars : List VarSpec) (i : Nat) : Bool :=
  match vars[i]? with
  | some v => globalSym d v
  | none => true

/-- the test `sym.kind == varSym && sym.global` and the node of the symbol: index of the
    specification an identifier makes the walked one depend on -/
def resolveVar (d : DepFacts) (vars : List VarSpec) (id : Ident) : Option Nat :=
  match d.resolve with
  | .byName =>
    (match lastDecl id.name 0 vars with
     | some (i, v) => if globalSym d v then some i else none
     | none => none)
  | _ =>
    if id.pkgLevel then
      (match declIdx vars id.name with
       | some i => if globalAt d vars i then some i else none
       | none => none)
    else none

/-- the selector node of this reference to a method carries `aGetMethod` -/
def tagged (d : DepFacts) (id : Ident) : Bool :=
  match d.methodTag with
  | .both => true
  | .recvOnly => !id.mexpr
  | .exprOnly => id.mexpr
  | _ => false

/-- the identifier refers to a declared function or method whose declaration `getVarDependencies`
    goes on to walk -/
def follows (d : DepFacts) (funcs : List Func) (id : Ident) : Bool :=
  id.pkgLevel && (match funcs.find? (fun f => f.name == id.name) with
    | some g => if g.meth then d.followMethods && tagged d id else d.followFuncs
    | none => false)

/-- `n.Walk(visit, nil)` over a list of sibling identifiers, threading the `seen` set -/
def visitList (step : List String → Ident → List Ident × List String) :
    List String → List Ident → List Ident × List String
  | seen, [] => ([], seen)
  | seen, id :: rest =>
    let r1 := step seen id
    let r2 := visitList step r1.2 rest
    (r1.1 ++ r2.1, r2.2)

/-- `visit` on one identifier: it is met; when it refers to a function or method that was not
    seen, that one is marked and its declaration is walked at once (`fn.Walk(visit, nil)`).
    The fuel bounds the nesting (every nested walk marks a new function: `walkIds_fuel`). -/
def visitId (follows : Ident → Bool) (body : String → List Ident) :
    Nat → List String → Ident → List Ident × List String
  | 0, seen, id => ([id], seen)
  | fuel + 1, seen, id =>
    if follows id && !seen.contains id.name then
      let r := visitList (visitId follows body fuel) (id.name :: seen) (body id.name)
      (id :: r.1, r.2)
    else ([id], seen)

/-- all identifiers `getVarDependencies` meets, in the order in which it meets them, and the
    functions it has marked -/
def walkIds (follows : Ident → Bool) (body : String → List Ident) (fuel : Nat) (seen : List String)
    (ids : List Ident) : List Ident × List String :=
  visitList (visitId follows body fuel) seen ids

/-- where the walk of a specification starts: the whole node, but the declared names carry no
    symbol (`isNewDefine`), so with lexical resolution only the initialisers count -/
def startIds (d : DepFacts) (v : VarSpec) : List Ident :=
  match d.resolve with
  | .byName => v.walk
  | _ => v.ids

/-- `getVarDependencies(nod, sc)`: walk the specification (and, transitively, the functions and
    methods it refers to); keep the identifiers that resolve to a global variable, as the index of
    the specification that declares it -/
def collectSpec (d : DepFacts) (vars : List VarSpec) (funcs : List Func) (self : Nat) (v : VarSpec) : List Nat :=
  (walkIds (follows d funcs) (bodyOf funcs) funcs.length [] (startIds d v)).1.filterMap (fun id =>
    match resolveVar d vars id with
    | some k => if d.skipSelf && k == self then none else some k
    | none => none)

/-- the loop of `genGlobalVarDecl` skips this specification (`deps[n]` stays empty) -/
def skipped (d : DepFacts) (v : VarSpec) : Bool :=
  match d.collectSkip with
  | .funcLit => v.funcLitInit
  | _ => false

def collectAux (d : DepFacts) (vars : List VarSpec) (funcs : List Func) : Nat → List VarSpec → Deps
  | _, [] => []
  | i, v :: vs =>
    (if skipped d v then [] else collectSpec d vars funcs i v) :: collectAux d vars funcs (i + 1) vs

/-- `deps[n] = getVarDependencies(n, sc)` for every specification of the list `getVars` built -/
def collectDepsY (d : DepFacts) (p : Pkg) : Deps :=
  collectAux d (specsY d p.vars) p.funcs 0 (specsY d p.vars)

def labelsOf (vars : List VarSpec) (order : List Nat) : List String :=
  order.flatMap (fun i => match vars[i]? with | some v => v.labels | none => [])

/-- what the program logs, and whether it then stopped with an error -/
structure Trace where
  events : List String
  err : Bool
  deriving DecidableEq, Repr

/-- Facts read from `Execute`, `CompileAST` (interp/program.go) and `importSrc` (interp/src.go),
    regenerated by the extractor: the steps of each function as tokens in source order.
    `root` = run the file's root node(s), `gen` = `genGlobalVars` (may fail), `globals` = run the
    node it returned, `main-last` = `initNodes = append(initNodes, m.node)`, `init` = run the list
    of init nodes; `once` = return early when `srcPkg[importPath]` is set, `register` = set it;
    `gta` = global type analysis (imports are processed there), `cfg`. -/
structure ExecFacts where
  execute : List String
  compile : List String
  importSrc : List String
  deriving DecidableEq, Repr

/-- run the steps in order (`p`: the package as the execution code sees it) -/
def runSteps (order : Res) (p : Pkg) : Bool → List String → Trace
  | _, [] => ⟨[], false⟩
  | mainIn, st :: rest =>
    if st = "gen" then
      match order with
      | .ok _ => runSteps order p mainIn rest
      | _ => ⟨[], true⟩
    else if st = "globals" then
      match order with
      | .ok o => let t := runSteps order p mainIn rest; ⟨labelsOf p.vars o ++ t.events, t.err⟩
      | _ => ⟨[], true⟩
    else if st = "main-last" then runSteps order p true rest
    else if st = "init" then
      let t := runSteps order p mainIn rest
      ⟨p.inits ++ (if mainIn then p.main.toList else []) ++ t.events, t.err⟩
    else runSteps order p mainIn rest

/-- a comma-ok declaration stands before the declaration of its map / channel operand
    (`VarSpec.operandLater`): `gta` panics -/
def operandLate (p : Pkg) : Bool := p.vars.any (fun v => v.multi && v.operandLater)

/-- `gta` panics at a comma-ok declaration whose operand is declared later, unless it comes back
    to such declarations too (`DepFacts.operandRetry`) -/
def gtaPanics (d : DepFacts) (p : Pkg) : Bool := !(d.multiRetry && d.operandRetry) && operandLate p

/-- `gta` fails before anything runs: a multi-value declaration whose callee is declared later,
    unless `gta` comes back to it (see `VarSpec.calleeLater`, `DepFacts.multiRetry`); a comma-ok
    declaration whose operand is declared later, unless `gta` comes back to that too -/
def gtaRejects (d : DepFacts) (p : Pkg) : Bool :=
  (!d.multiRetry && p.vars.any (fun v => v.multi && v.calleeLater)) || gtaPanics d p

/-- `Eval` of a complete file = `CompileAST` (which appends `main` to the init list) then
    `Execute`: the root node (declarations only, logs nothing), the ordered global variables, the
    init list -/
def runY (f : ExecFacts) (d : DepFacts) (p : Pkg) : Trace :=
  if gtaRejects d p then ⟨[], true⟩ else
  runSteps (orderY (collectDepsY d p)) (p.seenBy d) (f.compile.contains "main-last") f.execute

/-- `importSrc` of a directory holding the package (several files: their specifications,
    functions and `init`s concatenated in file order) -/
def runImportY (f : ExecFacts) (d : DepFacts) (p : Pkg) : Trace :=
  if gtaRejects d p then ⟨[], true⟩ else
  runSteps (orderY (collectDepsY d p)) (p.seenBy d) false f.importSrc

/-! ### declaration layer: which declarations are init functions

  `cfg` (interp/cfg.go) walks the declarations of one file in source order; in the pre-order
  processing of a `funcDecl` node it tests a condition on the node and, when it holds, adds the node
  to the list `initNodes` it returns. `CompileAST` (one file) takes that list, `importSrc` joins the
  lists of the files of the directory in file order; `Execute` / `importSrc` then run the list from
  first to last (the `init` step of `runSteps`). `gta` decides in a `switch` which function
  declarations get a symbol in the package scope. The condition, the way the node is added, the way
  the per-file lists are joined and the cases of the `switch` are *facts read from the source*
  (`InitFacts`, regenerated by the extractor). -/

/-- receiver of a function declaration: none (a function), `(r T)`, `(r *T)` -/
inductive Recv where
  | none
  | value
  | pointer
  deriving DecidableEq, Repr

/-- a `funcDecl` node. `label`: what the body logs when it runs; `ids`: the identifiers of the body
    (as in `Func`); `locals`: the local variables the body declares (a local may be called `init`);
    `pos`: ordinal of the declaration among the function declarations of its file (display only). -/
structure FuncDecl where
  name : String
  recv : Recv := .none
  recvType : String := ""
  tparams : Nat := 0
  params : Nat := 0
  results : Nat := 0
  label : String := ""
  ids : List Ident := []
  locals : List String := []
  pos : Nat := 0
  deriving DecidableEq, Repr

/-- a top-level declaration of a file -/
inductive Decl where
  | var (v : VarSpec)
  | func (f : FuncDecl)
  | type (name : String) (fields : List String)
  deriving DecidableEq, Repr

/-- one conjunct of the condition under which `cfg` adds a `funcDecl` node to `initNodes`:
    `n.child[1].ident == "s"`, `len(n.child[0].child) == 0` (no receiver),
    `len(n.child[2].child[k].child) == 0` for k = 0, 1, 2 (no type parameter / parameter / result);
    `strings.HasPrefix(n.child[1].ident, "s")`, `strings.EqualFold(n.child[1].ident, "s")` (ASCII);
    `other`: a conjunct the extractor does not know (the model cannot evaluate it: taken as true,
    the tie theorem fails) -/
inductive RegCond where
  | nameIs (s : String)
  | namePrefix (s : String)
  | nameFold (s : String)
  | recvEmpty
  | tparamsEmpty
  | paramsEmpty
  | resultsEmpty
  | other (text : String)
  deriving DecidableEq, Repr

/-- `initNodes = append(initNodes, n)` / `append([]*node{n}, initNodes...)`; for the per-file lists
    `initNodes = append(initNodes, nodes...)` / `append(nodes, initNodes...)` -/
inductive AddMode where
  | append
  | prepend
  | other (text : String)
  deriving DecidableEq, Repr

/-- one case of the `switch` of `gta` over a `funcDecl`: `isMethod(n)`, `ident == "s"` (no symbol
    is declared), `default` (the function symbol is written to the package scope) -/
inductive GtaCase where
  | method
  | nameIs (s : String)
  | default
  | other (text : String)
  deriving DecidableEq, Repr

structure InitFacts where
  /-- conjuncts of the registration condition, in source order -/
  register : List RegCond
  /-- how `cfg` adds the node -/
  add : AddMode
  /-- how `importSrc` joins the list of one file to those of the files before it -/
  join : AddMode
  /-- cases of the `switch` in `gta`, in source order -/
  gta : List GtaCase
  deriving DecidableEq, Repr

def RegCond.holds (f : FuncDecl) : RegCond → Bool
  | .nameIs s => f.name == s
  | .namePrefix s => s.toList.isPrefixOf f.name.toList
  | .nameFold s => f.name.toList.map Char.toLower == s.toList.map Char.toLower
  | .recvEmpty => f.recv == .none
  | .tparamsEmpty => f.tparams == 0
  | .paramsEmpty => f.params == 0
  | .resultsEmpty => f.results == 0
  | .other _ => true

/-- the condition of `cfg`: all conjuncts hold -/
def registers (c : List RegCond) (f : FuncDecl) : Bool := c.all (RegCond.holds f)

def AddMode.add {α : Type} (m : AddMode) (acc new : List α) : List α :=
  match m with
  | .prepend => new ++ acc
  | _ => acc ++ new

/-- `cfg(root, …)` restricted to what it returns: walk the declarations of the file in source
    order, add the function declarations for which the condition holds -/
def cfgInits (i : InitFacts) : List Decl → List FuncDecl → List FuncDecl
  | [], acc => acc
  | .func f :: ds, acc => cfgInits i ds (if registers i.register f then i.add.add acc [f] else acc)
  | _ :: ds, acc => cfgInits i ds acc

/-- the `initNodes` of a package: the lists of its files joined in file order (`importSrc`; for
    `CompileAST` the package is one file) -/
def pkgInits (i : InitFacts) (files : List (List Decl)) : List FuncDecl :=
  files.foldl (fun acc file => i.join.add acc (cfgInits i file [])) []

def GtaCase.hits (f : FuncDecl) : GtaCase → Bool
  | .method => f.recv != .none
  | .nameIs s => f.name == s
  | .default => true
  | .other _ => false

/-- the first case of the `switch` that applies -/
def gtaCase (cs : List GtaCase) (f : FuncDecl) : Option GtaCase := cs.find? (GtaCase.hits f)

/-- names for which `gta` writes a function symbol to the package scope (`default` case) -/
def declaredFuncs (i : InitFacts) (ds : List Decl) : List String :=
  ds.filterMap (fun d => match d with
    | .func f => if gtaCase i.gta f = some .default then some f.name else none
    | _ => none)

def declVars (ds : List Decl) : List VarSpec :=
  ds.filterMap (fun d => match d with | .var v => some v | _ => none)

def declFuncs (ds : List Decl) : List FuncDecl :=
  ds.filterMap (fun d => match d with | .func f => some f | _ => none)

/-- the name under which the identifier lists refer to the function: `f`, `T.m` -/
def FuncDecl.key (f : FuncDecl) : String :=
  match f.recv with
  | .none => f.name
  | _ => f.recvType ++ "." ++ f.name

def FuncDecl.toFunc (f : FuncDecl) : Func := ⟨f.key, f.ids, f.recv != .none⟩

/-- a package as source: its files in the order in which they are read, each a list of
    declarations in source order; `main`: label logged by `main`; `after`: what the ordinary calls
    made by `main` log after that (calls of functions and methods that look like init functions) -/
structure SrcPkg where
  files : List (List Decl)
  main : Option String
  after : List String := []
  deriving DecidableEq, Repr

def SrcPkg.decls (s : SrcPkg) : List Decl := s.files.flatten

/-- the package the ordering and execution code sees: the variable specifications and functions of
    all files in order, the labels of the registered init nodes -/
def SrcPkg.toPkg (i : InitFacts) (s : SrcPkg) : Pkg :=
  ⟨declVars s.decls, (declFuncs s.decls).map FuncDecl.toFunc, (pkgInits i s.files).map (·.label), s.main⟩

/-- `main` goes on with its calls unless the run stopped with an error -/
def Trace.andThen (t : Trace) (after : List String) : Trace :=
  if t.err then t else ⟨t.events ++ after, false⟩

/-- `Eval` of the package given as one file -/
def runSrcY (f : ExecFacts) (i : InitFacts) (d : DepFacts) (s : SrcPkg) : Trace :=
  (runY f d (s.toPkg i)).andThen s.after

/-- `importSrc` of the package given as a directory -/
def runSrcImportY (f : ExecFacts) (i : InitFacts) (d : DepFacts) (s : SrcPkg) : Trace :=
  (runImportY f d (s.toPkg i)).andThen s.after

/-! ### several packages: `importSrc` -/

/-- an imported package: its import path, the paths it imports (in source order) and its
    declarations -/
structure SubPkg where
  path : String
  imports : List String
  pkg : Pkg
  deriving DecidableEq, Repr

/-- a program: the imported packages, and the main package (given as one file to `Eval`, or as a
    directory to `EvalPath`) -/
structure Prog where
  subs : List SubPkg
  mainImports : List String
  main : Pkg
  dirMode : Bool
  deriving DecidableEq, Repr

/-- the part of the interpreter state `importSrc` reads and writes, plus what was logged:
    `srcPkg` = import paths registered in `interp.srcPkg`, `rdir` = paths being imported
    (`interp.rdir`), `seq` = packages in the order in which their own initialisation ran -/
structure ISt where
  srcPkg : List String := []
  rdir : List String := []
  seq : List String := []
  events : List String := []
  err : Bool := false
  deriving DecidableEq, Repr

/-- the steps of `importSrc` for one package, in the order read from the source. `once`: return
    at once if the path is registered; `rdir-check` / `rdir-set`: the import-cycle guard; `gta`:
    global type analysis, which imports (recursively, `rec`) what the package imports; `register`;
    `init`: the last step of the package's own initialisation, whose whole log is `own path`. -/
def importSteps (own : String → Trace) (importsOf : String → List String) (rec : ISt → String → ISt)
    (path : String) : List String → ISt → ISt
  | [], st => st
  | tok :: rest, st =>
    if st.err then st
    else if tok = "once" then
      (if st.srcPkg.contains path then st else importSteps own importsOf rec path rest st)
    else if tok = "rdir-check" then
      (if st.rdir.contains path then { st with err := true } else importSteps own importsOf rec path rest st)
    else if tok = "rdir-set" then importSteps own importsOf rec path rest { st with rdir := path :: st.rdir }
    else if tok = "gta" then importSteps own importsOf rec path rest ((importsOf path).foldl rec st)
    else if tok = "register" then importSteps own importsOf rec path rest { st with srcPkg := path :: st.srcPkg }
    else if tok = "init" then
      importSteps own importsOf rec path rest
        { st with seq := st.seq ++ [path], events := st.events ++ (own path).events, err := (own path).err }
    else importSteps own importsOf rec path rest st

/-- `importSrc(rPath, importPath, …)`; the fuel bounds the depth of nested imports -/
def importY (toks : List String) (own : String → Trace) (importsOf : String → List String) :
    Nat → ISt → String → ISt
  | 0, st, _ => { st with err := true }
  | fuel + 1, st, path => importSteps own importsOf (importY toks own importsOf fuel) path toks st

def Prog.find (pr : Prog) (path : String) : Option SubPkg := pr.subs.find? (fun s => s.path == path)

def Prog.importsOf (pr : Prog) (path : String) : List String :=
  if path = "main" then pr.mainImports else
  match pr.find path with
  | some s => s.imports
  | none => []

def Prog.ownY (f : ExecFacts) (d : DepFacts) (pr : Prog) (path : String) : Trace :=
  if path = "main" then runImportY f d pr.main else
  match pr.find path with
  | some s => runImportY f d s.pkg
  | none => ⟨[], false⟩

/-- the whole program. File mode: `CompileAST` runs `gta` (which imports), then `Execute` runs the
    main package; directory mode: `importSrc` of the main package like any other. -/
def progY (f : ExecFacts) (d : DepFacts) (pr : Prog) : ISt :=
  let fuel := pr.subs.length + 2
  if pr.dirMode then importY f.importSrc (pr.ownY f d) pr.importsOf fuel {} "main"
  else
    let st := pr.mainImports.foldl (importY f.importSrc (pr.ownY f d) pr.importsOf fuel) {}
    if st.err then st else
    let t := runY f d pr.main
    { st with seq := st.seq ++ ["main"], events := st.events ++ t.events, err := t.err }

end YaegiVerif.VarInit
