/-
  C15 — executable model of how yaegi orders and runs the initialisation of a package
  (interp/cfg.go `getVars`, `getVarDependencies`, `genGlobalVarDecl`, `genGlobalVars`;
   interp/program.go `CompileAST` / `Execute`; interp/src.go `importSrc`; the registration of init
   functions in the `funcDecl` case of `cfg` and of `gta`).

  Three layers:
  * the *graph layer* the theorems talk about: variable specifications are numbered `0 … n-1`
    in source order (the list `getVars` builds), `g : Deps` gives for each its collected
    dependencies, `orderY g` is the loop of `genGlobalVarDecl` exactly as written (since the repair
    of F15: the scan restarts from the earliest remaining specification after every append);
  * the *package layer* the driver runs: a package is a list of variable specifications with the
    identifiers occurring in their initialisers and a list of functions/methods with the identifiers
    of their bodies; `collectDepsY` is `getVarDependencies`, `runY` is `Execute`;
  * the *declaration layer*: a package as source — files, each a list of declarations (variable
    specifications, function declarations with receiver / name / parameter counts, types);
    `pkgInits` is the list `initNodes` that `cfg` and `importSrc` build under the registration
    condition read from the source (`InitFacts`), `SrcPkg.toPkg` feeds it to the package layer.
  Core Lean only.
-/
namespace YaegiVerif.VarInit

/-! ### graph layer -/

/-- `deps` of `genGlobalVarDecl`: for every specification (by index) the specifications it was
    found to depend on -/
abbrev Deps := List (List Nat)

def depsOf (g : Deps) (i : Nat) : List Nat := g.getD i []

/-- `canInit`: every collected dependency is in `inited` (`done` lists `varNode.child`, which is
    the same set as the `inited` map: both are extended together) -/
def ready (g : Deps) (done : List Nat) (i : Nat) : Bool :=
  (depsOf g i).all (fun d => done.contains d)

/-- one execution of `for i, n := range nodes { … }`: the specifications that are not ready are
    put on `revisit`; the first one that is ready is appended to `varNode.child`, the rest of the
    list goes to `revisit` unexamined (`revisit = append(revisit, nodes[i+1:]...)`) and the scan
    stops (`break`). Result: (`varNode.child`, `revisit`) -/
def pass (g : Deps) : List Nat → List Nat → List Nat × List Nat
  | [], done => (done, [])
  | n :: ns, done =>
    if ready g done n then (done ++ [n], ns)
    else ((pass g ns done).1, n :: (pass g ns done).2)

/-- result of the ordering: the order, the "variable definition loop" error, or fuel exhausted
    (shown impossible: `orderY_terminates`) -/
inductive Res where
  | ok (order : List Nat)
  | loop
  | fuel
  deriving DecidableEq, Repr

/-- the outer `for { … }` of `genGlobalVarDecl`:
    `if len(revisit) == 0 || equalNodes(nodes, revisit) { break }; nodes = revisit`
    followed by `if len(revisit) > 0 { return error }` -/
def loopY (g : Deps) : Nat → List Nat → List Nat → Res
  | 0, _, _ => .fuel
  | fuel + 1, nodes, done =>
    let r := pass g nodes done
    if r.2.isEmpty then .ok r.1
    else if r.2 == nodes then .loop
    else loopY g fuel r.2 r.1

/-- `genGlobalVarDecl(nodes, sc)` on `n` specifications; the fuel is the number of
    specifications plus one (every iteration that does not stop removes exactly one) -/
def orderY (g : Deps) : Res := loopY g (g.length + 1) (List.range g.length) []

/-- "every element's dependencies occur before it" -/
def respectsFrom (g : Deps) : List Nat → List Nat → Bool
  | _, [] => true
  | pre, i :: rest => ready g pre i && respectsFrom g (pre ++ [i]) rest

def Respects (g : Deps) (l : List Nat) : Prop := respectsFrom g [] l = true

/-! ### package layer -/

/-- an identifier occurring in an initialiser or a function body. `pkgLevel = false`: in Go it
    does not denote the package-level object of that name (a local variable that shadows it, a
    struct field key); `getVarDependencies` looks every identifier up in the package scope by name
    only. -/
structure Ident where
  name : String
  pkgLevel : Bool := true
  deriving DecidableEq, Repr

/-- one initialisation expression; it logs `label` when evaluated -/
structure Init where
  label : String
  ids : List Ident
  deriving DecidableEq, Repr

/-- one variable specification (a child of a `varDecl` node).
    `inits.length = 0`: `var z T`; `= 1` with several names: `var a, b = f()` (`multi`);
    `= names.length ≥ 2`: `var a, b = x, y`. -/
structure VarSpec where
  names : List String
  inits : List Init
  /-- only for `var a, b = f()`: `f` is declared later in the source than this specification.
      `gta` types the specification (`compDefineX`) when it meets it and does not come back:
      "assignment mismatch: 2 variables but f returns 0 values". -/
  calleeLater : Bool := false
  deriving DecidableEq, Repr

/-- `defineXStmt`: several names, one multi-valued expression. Its symbols are created by
    `compDefineX` without `global` and without `node`. -/
def VarSpec.multi (v : VarSpec) : Bool := v.names.length ≥ 2 && v.inits.length == 1

/-- `var a, b = x, y`: one specification node, two independently initialised variables -/
def VarSpec.paired (v : VarSpec) : Bool := v.inits.length ≥ 2

def VarSpec.ids (v : VarSpec) : List Ident := v.inits.flatMap (·.ids)
def VarSpec.labels (v : VarSpec) : List String := v.inits.map (·.label)

/-- a function or method (methods are named `T.m`) with the identifiers of its body -/
structure Func where
  name : String
  ids : List Ident
  deriving DecidableEq, Repr

structure Pkg where
  vars : List VarSpec
  funcs : List Func
  inits : List String      -- labels logged by the `init` functions, in source order
  main : Option String     -- label logged by `main`
  deriving DecidableEq, Repr

/-- the identifiers `getVarDependencies` meets when it walks the specification: the declared
    names first, then those of the initialisation expressions -/
def VarSpec.walk (v : VarSpec) : List Ident := v.names.map (fun n => ⟨n, true⟩) ++ v.ids

/-- the package scope after `gta`: `sc.sym[name]` was written by every specification declaring
    `name`, in source order, so the last one stays (only `_` can be declared twice). Index and
    specification of that last one. -/
def lastDecl (name : String) : Nat → List VarSpec → Option (Nat × VarSpec)
  | _, [] => none
  | i, v :: vs =>
    match lastDecl name (i + 1) vs with
    | some r => some r
    | none => if v.names.contains name then some (i, v) else none

/-- `sc.lookup(n.ident)` followed by `sym.kind == varSym && sym.global`: index of the
    specification whose node the *global variable* symbol of that name carries (symbols made by
    `compDefineX` for `var a, b = f()` are not global) -/
def lookupVar (vars : List VarSpec) (name : String) : Option Nat :=
  match lastDecl name 0 vars with
  | some (i, v) => if v.multi then none else some i
  | none => none

/-- `getVarDependencies(nod, sc)`: walk the identifiers of the specification; keep those that
    resolve to a global variable whose `sym.node` is another specification -/
def collectSpec (vars : List VarSpec) (self : Nat) (ids : List Ident) : List Nat :=
  ids.filterMap (fun id => match lookupVar vars id.name with
    | some k => if k = self then none else some k
    | none => none)

def collectAux (vars : List VarSpec) : Nat → List VarSpec → Deps
  | _, [] => []
  | i, v :: vs => collectSpec vars i v.walk :: collectAux vars (i + 1) vs

/-- `deps[n] = getVarDependencies(n, sc)` for every specification -/
def collectDepsY (p : Pkg) : Deps := collectAux p.vars 0 p.vars

def labelsOf (vars : List VarSpec) (order : List Nat) : List String :=
  order.flatMap (fun i => match vars[i]? with | some v => v.labels | none => [])

/-- what the program logs, and whether it then stopped with an error -/
structure Trace where
  events : List String
  err : Bool
  deriving DecidableEq, Repr

/-- Facts read from `Execute`, `CompileAST` (interp/program.go) and `importSrc` (interp/src.go),
    regenerated by the extractor: the steps of each function as tokens in source order.
    `root` = run the file's root node(s), `gen` = `genGlobalVars` (may fail), `globals` = run the
    node it returned, `main-last` = `initNodes = append(initNodes, m.node)`, `init` = run the list
    of init nodes; `once` = return early when `srcPkg[importPath]` is set, `register` = set it;
    `gta` = global type analysis (imports are processed there), `cfg`. -/
structure ExecFacts where
  execute : List String
  compile : List String
  importSrc : List String
  deriving DecidableEq, Repr

/-- run the steps in order -/
def runSteps (order : Res) (p : Pkg) : Bool → List String → Trace
  | _, [] => ⟨[], false⟩
  | mainIn, st :: rest =>
    if st = "gen" then
      match order with
      | .ok _ => runSteps order p mainIn rest
      | _ => ⟨[], true⟩
    else if st = "globals" then
      match order with
      | .ok o => let t := runSteps order p mainIn rest; ⟨labelsOf p.vars o ++ t.events, t.err⟩
      | _ => ⟨[], true⟩
    else if st = "main-last" then runSteps order p true rest
    else if st = "init" then
      let t := runSteps order p mainIn rest
      ⟨p.inits ++ (if mainIn then p.main.toList else []) ++ t.events, t.err⟩
    else runSteps order p mainIn rest

/-- `gta` fails before anything runs (see `VarSpec.calleeLater`) -/
def gtaRejects (p : Pkg) : Bool := p.vars.any (fun v => v.multi && v.calleeLater)

/-- `Eval` of a complete file = `CompileAST` (which appends `main` to the init list) then
    `Execute`: the root node (declarations only, logs nothing), the ordered global variables, the
    init list -/
def runY (f : ExecFacts) (p : Pkg) : Trace :=
  if gtaRejects p then ⟨[], true⟩ else
  runSteps (orderY (collectDepsY p)) p (f.compile.contains "main-last") f.execute

/-- `importSrc` of a directory holding the package (several files: their specifications,
    functions and `init`s concatenated in file order) -/
def runImportY (f : ExecFacts) (p : Pkg) : Trace :=
  if gtaRejects p then ⟨[], true⟩ else
  runSteps (orderY (collectDepsY p)) p false f.importSrc

/-! ### declaration layer: which declarations are init functions

  `cfg` (interp/cfg.go) walks the declarations of one file in source order; in the pre-order
  processing of a `funcDecl` node it tests a condition on the node and, when it holds, adds the node
  to the list `initNodes` it returns. `CompileAST` (one file) takes that list, `importSrc` joins the
  lists of the files of the directory in file order; `Execute` / `importSrc` then run the list from
  first to last (the `init` step of `runSteps`). `gta` decides in a `switch` which function
  declarations get a symbol in the package scope. The condition, the way the node is added, the way
  the per-file lists are joined and the cases of the `switch` are *facts read from the source*
  (`InitFacts`, regenerated by the extractor). -/

/-- receiver of a function declaration: none (a function), `(r T)`, `(r *T)` -/
inductive Recv where
  | none
  | value
  | pointer
  deriving DecidableEq, Repr

/-- a `funcDecl` node. `label`: what the body logs when it runs; `ids`: the identifiers of the body
    (as in `Func`); `locals`: the local variables the body declares (a local may be called `init`);
    `pos`: ordinal of the declaration among the function declarations of its file (display only). -/
structure FuncDecl where
  name : String
  recv : Recv := .none
  recvType : String := ""
  tparams : Nat := 0
  params : Nat := 0
  results : Nat := 0
  label : String := ""
  ids : List Ident := []
  locals : List String := []
  pos : Nat := 0
  deriving DecidableEq, Repr

/-- a top-level declaration of a file -/
inductive Decl where
  | var (v : VarSpec)
  | func (f : FuncDecl)
  | type (name : String) (fields : List String)
  deriving DecidableEq, Repr

/-- one conjunct of the condition under which `cfg` adds a `funcDecl` node to `initNodes`:
    `n.child[1].ident == "s"`, `len(n.child[0].child) == 0` (no receiver),
    `len(n.child[2].child[k].child) == 0` for k = 0, 1, 2 (no type parameter / parameter / result);
    `strings.HasPrefix(n.child[1].ident, "s")`, `strings.EqualFold(n.child[1].ident, "s")` (ASCII);
    `other`: a conjunct the extractor does not know (the model cannot evaluate it: taken as true,
    the tie theorem fails) -/
inductive RegCond where
  | nameIs (s : String)
  | namePrefix (s : String)
  | nameFold (s : String)
  | recvEmpty
  | tparamsEmpty
  | paramsEmpty
  | resultsEmpty
  | other (text : String)
  deriving DecidableEq, Repr

/-- `initNodes = append(initNodes, n)` / `append([]*node{n}, initNodes...)`; for the per-file lists
    `initNodes = append(initNodes, nodes...)` / `append(nodes, initNodes...)` -/
inductive AddMode where
  | append
  | prepend
  | other (text : String)
  deriving DecidableEq, Repr

/-- one case of the `switch` of `gta` over a `funcDecl`: `isMethod(n)`, `ident == "s"` (no symbol
    is declared), `default` (the function symbol is written to the package scope) -/
inductive GtaCase where
  | method
  | nameIs (s : String)
  | default
  | other (text : String)
  deriving DecidableEq, Repr

structure InitFacts where
  /-- conjuncts of the registration condition, in source order -/
  register : List RegCond
  /-- how `cfg` adds the node -/
  add : AddMode
  /-- how `importSrc` joins the list of one file to those of the files before it -/
  join : AddMode
  /-- cases of the `switch` in `gta`, in source order -/
  gta : List GtaCase
  deriving DecidableEq, Repr

def RegCond.holds (f : FuncDecl) : RegCond → Bool
  | .nameIs s => f.name == s
  | .namePrefix s => s.toList.isPrefixOf f.name.toList
  | .nameFold s => f.name.toList.map Char.toLower == s.toList.map Char.toLower
  | .recvEmpty => f.recv == .none
  | .tparamsEmpty => f.tparams == 0
  | .paramsEmpty => f.params == 0
  | .resultsEmpty => f.results == 0
  | .other _ => true

/-- the condition of `cfg`: all conjuncts hold -/
def registers (c : List RegCond) (f : FuncDecl) : Bool := c.all (RegCond.holds f)

def AddMode.add {α : Type} (m : AddMode) (acc new : List α) : List α :=
  match m with
  | .prepend => new ++ acc
  | _ => acc ++ new

/-- `cfg(root, …)` restricted to what it returns: walk the declarations of the file in source
    order, add the function declarations for which the condition holds -/
def cfgInits (i : InitFacts) : List Decl → List FuncDecl → List FuncDecl
  | [], acc => acc
  | .func f :: ds, acc => cfgInits i ds (if registers i.register f then i.add.add acc [f] else acc)
  | _ :: ds, acc => cfgInits i ds acc

/-- the `initNodes` of a package: the lists of its files joined in file order (`importSrc`; for
    `CompileAST` the package is one file) -/
def pkgInits (i : InitFacts) (files : List (List Decl)) : List FuncDecl :=
  files.foldl (fun acc file => i.join.add acc (cfgInits i file [])) []

def GtaCase.hits (f : FuncDecl) : GtaCase → Bool
  | .method => f.recv != .none
  | .nameIs s => f.name == s
  | .default => true
  | .other _ => false

/-- the first case of the `switch` that applies -/
def gtaCase (cs : List GtaCase) (f : FuncDecl) : Option GtaCase := cs.find? (GtaCase.hits f)

/-- names for which `gta` writes a function symbol to the package scope (`default` case) -/
def declaredFuncs (i : InitFacts) (ds : List Decl) : List String :=
  ds.filterMap (fun d => match d with
    | .func f => if gtaCase i.gta f = some .default then some f.name else none
    | _ => none)

def declVars (ds : List Decl) : List VarSpec :=
  ds.filterMap (fun d => match d with | .var v => some v | _ => none)

def declFuncs (ds : List Decl) : List FuncDecl :=
  ds.filterMap (fun d => match d with | .func f => some f | _ => none)

/-- the name under which the identifier lists refer to the function: `f`, `T.m` -/
def FuncDecl.key (f : FuncDecl) : String :=
  match f.recv with
  | .none => f.name
  | _ => f.recvType ++ "." ++ f.name

def FuncDecl.toFunc (f : FuncDecl) : Func := ⟨f.key, f.ids⟩

/-- a package as source: its files in the order in which they are read, each a list of
    declarations in source order; `main`: label logged by `main`; `after`: what the ordinary calls
    made by `main` log after that (calls of functions and methods that look like init functions) -/
structure SrcPkg where
  files : List (List Decl)
  main : Option String
  after : List String := []
  deriving DecidableEq, Repr

def SrcPkg.decls (s : SrcPkg) : List Decl := s.files.flatten

/-- the package the ordering and execution code sees: the variable specifications and functions of
    all files in order, the labels of the registered init nodes -/
def SrcPkg.toPkg (i : InitFacts) (s : SrcPkg) : Pkg :=
  ⟨declVars s.decls, (declFuncs s.decls).map FuncDecl.toFunc, (pkgInits i s.files).map (·.label), s.main⟩

/-- `main` goes on with its calls unless the run stopped with an error -/
def Trace.andThen (t : Trace) (after : List String) : Trace :=
  if t.err then t else ⟨t.events ++ after, false⟩

/-- `Eval` of the package given as one file -/
def runSrcY (f : ExecFacts) (i : InitFacts) (s : SrcPkg) : Trace := (runY f (s.toPkg i)).andThen s.after

/-- `importSrc` of the package given as a directory -/
def runSrcImportY (f : ExecFacts) (i : InitFacts) (s : SrcPkg) : Trace := (runImportY f (s.toPkg i)).andThen s.after

/-! ### several packages: `importSrc` -/

/-- an imported package: its import path, the paths it imports (in source order) and its
    declarations -/
structure SubPkg where
  path : String
  imports : List String
  pkg : Pkg
  deriving DecidableEq, Repr

/-- a program: the imported packages, and the main package (given as one file to `Eval`, or as a
    directory to `EvalPath`) -/
structure Prog where
  subs : List SubPkg
  mainImports : List String
  main : Pkg
  dirMode : Bool
  deriving DecidableEq, Repr

/-- the part of the interpreter state `importSrc` reads and writes, plus what was logged:
    `srcPkg` = import paths registered in `interp.srcPkg`, `rdir` = paths being imported
    (`interp.rdir`), `seq` = packages in the order in which their own initialisation ran -/
structure ISt where
  srcPkg : List String := []
  rdir : List String := []
  seq : List String := []
  events : List String := []
  err : Bool := false
  deriving DecidableEq, Repr

/-- the steps of `importSrc` for one package, in the order read from the source. `once`: return
    at once if the path is registered; `rdir-check` / `rdir-set`: the import-cycle guard; `gta`:
    global type analysis, which imports (recursively, `rec`) what the package imports; `register`;
    `init`: the last step of the package's own initialisation, whose whole log is `own path`. -/
def importSteps (own : String → Trace) (importsOf : String → List String) (rec : ISt → String → ISt)
    (path : String) : List String → ISt → ISt
  | [], st => st
  | tok :: rest, st =>
    if st.err then st
    else if tok = "once" then
      (if st.srcPkg.contains path then st else importSteps own importsOf rec path rest st)
    else if tok = "rdir-check" then
      (if st.rdir.contains path then { st with err := true } else importSteps own importsOf rec path rest st)
    else if tok = "rdir-set" then importSteps own importsOf rec path rest { st with rdir := path :: st.rdir }
    else if tok = "gta" then importSteps own importsOf rec path rest ((importsOf path).foldl rec st)
    else if tok = "register" then importSteps own importsOf rec path rest { st with srcPkg := path :: st.srcPkg }
    else if tok = "init" then
      importSteps own importsOf rec path rest
        { st with seq := st.seq ++ [path], events := st.events ++ (own path).events, err := (own path).err }
    else importSteps own importsOf rec path rest st

/-- `importSrc(rPath, importPath, …)`; the fuel bounds the depth of nested imports -/
def importY (toks : List String) (own : String → Trace) (importsOf : String → List String) :
    Nat → ISt → String → ISt
  | 0, st, _ => { st with err := true }
  | fuel + 1, st, path => importSteps own importsOf (importY toks own importsOf fuel) path toks st

def Prog.find (pr : Prog) (path : String) : Option SubPkg := pr.subs.find? (fun s => s.path == path)

def Prog.importsOf (pr : Prog) (path : String) : List String :=
  if path = "main" then pr.mainImports else
  match pr.find path with
  | some s => s.imports
  | none => []

def Prog.ownY (f : ExecFacts) (pr : Prog) (path : String) : Trace :=
  if path = "main" then runImportY f pr.main else
  match pr.find path with
  | some s => runImportY f s.pkg
  | none => ⟨[], false⟩

/-- the whole program. File mode: `CompileAST` runs `gta` (which imports), then `Execute` runs the
    main package; directory mode: `importSrc` of the main package like any other. -/
def progY (f : ExecFacts) (pr : Prog) : ISt :=
  let fuel := pr.subs.length + 2
  if pr.dirMode then importY f.importSrc (pr.ownY f) pr.importsOf fuel {} "main"
  else
    let st := pr.mainImports.foldl (importY f.importSrc (pr.ownY f) pr.importsOf fuel) {}
    if st.err then st else
    let t := runY f pr.main
    { st with seq := st.seq ++ ["main"], events := st.events ++ t.events, err := t.err }

end YaegiVerif.VarInit
