import YaegiVerif.Model.ConstDecl
import YaegiVerif.Spec.GoConst
/-
  C03 — divergence classes. A class is a decidable predicate of the *input* (a declaration context and an
  expression tree): it is computed from the two models only, never from an observed outcome. The label names the
  first place (post-order) where the model of the unchanged interpreter and the Go-spec model part ways.
  The harness attaches the label to a failing input; KNOWN_FINDINGS.json lists the classes that are known
  (after the repairs of the fifth round none of the labels is listed: the classes `typed-decl-mismatch` F03-18,
  `bool-shift-panic` F03-19, `unmodelled:len-at-run-time` F03-20, `huge-literal` F03-21, `string-codepoint-wrap` F03-22,
  `const-second-walk` / `block-interplay` F03-14 belonged to findings that are fixed).
  (Glue for reporting; no theorem depends on it.)
-/
namespace YaegiVerif.Const.Class
open YaegiVerif.Const

def absRV : RV → CV
  | .c v => v
  | .r _ v => v

/-- same value, reading an Int-kinded constant under a float type as the float it denotes -/
def sameVal (t : Ty) (a b : CV) : Bool :=
  if Spec.isFloatTy t then a.toFloat == b.toFloat else a == b

inductive Cmp3 where
  | same | typeOnly | value | yOkGReject | yRejectGOk | yCrash | yUnm
  deriving DecidableEq, Repr

/-- same type; the result of a comparison, an untyped boolean constant for the specification, has type `bool` in the
    interpreter (cfg.go: `n.typ = sc.getType("bool")`), which no program over the basic types can tell apart -/
def tyAgree (a b : Ty) : Bool := a == b || (a == .t .bool && b == .u .bool)

def compare (y : Res NS) (g : Res Spec.GV) : Cmp3 :=
  match y, g with
  | .ok n, .ok v =>
    if tyAgree n.ty v.ty then (if sameVal v.ty (absRV n.rv) v.v then .same else .value)
    else if sameVal v.ty (absRV n.rv) v.v || sameVal n.ty (absRV n.rv) v.v then .typeOnly else .value
  | .reject, .reject => .same
  | .ok _, _ => .yOkGReject
  | .reject, _ => .yRejectGOk
  | .crash, _ => .yCrash
  | .unm _, _ => .yUnm

def children : CExpr → List CExpr
  | .un _ x => [x]
  | .bin _ x y => [x, y]
  | .conv _ x => [x]
  | .par x => [x]
  | .len x => [x]
  | _ => []

/-- first sub-expression (post-order) on which one walk of the interpreter model and the spec differ -/
def firstDiv (F : Facts) (env : Env) : CExpr → Option CExpr
  | .un a x => (firstDiv F env x).orElse fun _ => here F env (.un a x)
  | .bin a x y => ((firstDiv F env x).orElse fun _ => firstDiv F env y).orElse fun _ => here F env (.bin a x y)
  | .conv t x => (firstDiv F env x).orElse fun _ => here F env (.conv t x)
  | .par x => (firstDiv F env x).orElse fun _ => here F env (.par x)
  | .len x => (firstDiv F env x).orElse fun _ => here F env (.len x)
  | e => here F env e
where
  here (F : Facts) (env : Env) (e : CExpr) : Option CExpr :=
    if compare (evalY F env none e) (Spec.evalGo env.iota e) == .same then none else some e

def goTy (iota : Nat) (e : CExpr) : Option Ty :=
  match Spec.evalGo iota e with
  | .ok v => some v.ty
  | _ => none

/-- label of a node-level divergence. After the repairs of the fifth round no class of node-level divergences is
    listed any more (the former `bool-shift-panic` F03-19, `huge-literal` F03-21, `string-codepoint-wrap` F03-22 are
    fixed): every label below is one that no finding lists, so a divergence is reported. -/
def labelNode (F : Facts) (env : Env) (e : CExpr) : String :=
  let c := compare (evalY F env none e) (Spec.evalGo env.iota e)
  match evalY F env none e with
  | .unm w => "unmodelled:" ++ w
  | _ =>
    (match c with
     | .yCrash => "node-panic"
     | .yOkGReject => "node-accepts-invalid"
     | .yRejectGOk => "node-rejects-valid"
     | .typeOnly => "node-type"
     | .value => "node-value"
     | _ => "node-other")

inductive Ctx where
  | var | const
  deriving DecidableEq, Repr

/-- class of one declaration (`"-"` = the models agree) -/
def classifyDecl (F : Facts) (ctx : Ctx) (iota : Nat) (declT : Option BT) (e : CExpr) (y : Out) (g : Res (CV × BT)) : String :=
  let agree : Bool := match y, g with
    | .ok [v], .ok w => v == w
    | .reject, .reject => true
    | _, _ => false
  let env : Env := { iota := iota, inConst := ctx == .const }
  if agree then "-"
  else if y == .rejectOrCrash && (match g with | .reject => true | _ => false) then
    -- the first walk rejects and so does Go; the harness accepts only `reject` from the real code, unless a
    -- sub-expression is one on which a walk panics (then the retry of the declaration panics too)
    (match firstDiv F env e with
     | some s => if compare (evalY F env none s) (Spec.evalGo iota s) == .yCrash then labelNode F env s else "-"
     | none => "-")
  else match y with
    | .unm w => "unmodelled:" ++ w
    | _ =>
      match firstDiv F env e with
      | some s => labelNode F env s
      | none =>
        -- every sub-expression agrees in a single walk: the declaration context makes the difference
        if ctx == .const then "const-second-walk"
        else (match declT with
          | some _ => "typed-decl-other"
          | none => "var-decl-other")

end YaegiVerif.Const.Class
