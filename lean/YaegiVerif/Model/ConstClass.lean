import YaegiVerif.Model.ConstDecl
import YaegiVerif.Spec.GoConst
/-
  C03 — divergence classes. A class is a decidable predicate of the *input* (a declaration context and an
  expression tree): it is computed from the two models only, never from an observed outcome. The label names the
  first place (post-order) where the model of the unchanged interpreter and the Go-spec model part ways.
  The harness attaches the label to a failing input; KNOWN_FINDINGS.json lists the classes that are known.
  (Glue for reporting; no theorem depends on it.)
-/
namespace YaegiVerif.Const.Class
open YaegiVerif.Const

def absRV : RV → CV
  | .c v => v
  | .r _ v => v

/-- same value, reading an Int-kinded constant under a float type as the float it denotes -/
def sameVal (t : Ty) (a b : CV) : Bool :=
  if Spec.isFloatTy t then a.toFloat == b.toFloat else a == b

inductive Cmp3 where
  | same | typeOnly | value | yOkGReject | yRejectGOk | yCrash | yUnm
  deriving DecidableEq, Repr

def compare (y : Res NS) (g : Res Spec.GV) : Cmp3 :=
  match y, g with
  | .ok n, .ok v =>
    if n.ty == v.ty then (if sameVal v.ty (absRV n.rv) v.v then .same else .value)
    else if sameVal v.ty (absRV n.rv) v.v || sameVal n.ty (absRV n.rv) v.v then .typeOnly else .value
  | .reject, .reject => .same
  | .ok _, _ => .yOkGReject
  | .reject, _ => .yRejectGOk
  | .crash, _ => .yCrash
  | .unm _, _ => .yUnm

def children : CExpr → List CExpr
  | .un _ x => [x]
  | .bin _ x y => [x, y]
  | .conv _ x => [x]
  | .par x => [x]
  | .len x => [x]
  | _ => []

/-- first sub-expression (post-order) on which one walk of the interpreter model and the spec differ -/
def firstDiv (F : Facts) (env : Env) : CExpr → Option CExpr
  | .un a x => (firstDiv F env x).orElse fun _ => here F env (.un a x)
  | .bin a x y => ((firstDiv F env x).orElse fun _ => firstDiv F env y).orElse fun _ => here F env (.bin a x y)
  | .conv t x => (firstDiv F env x).orElse fun _ => here F env (.conv t x)
  | .par x => (firstDiv F env x).orElse fun _ => here F env (.par x)
  | .len x => (firstDiv F env x).orElse fun _ => here F env (.len x)
  | e => here F env e
where
  here (F : Facts) (env : Env) (e : CExpr) : Option CExpr :=
    if compare (evalY F env none e) (Spec.evalGo env.iota e) == .same then none else some e

def goTy (iota : Nat) (e : CExpr) : Option Ty :=
  match Spec.evalGo iota e with
  | .ok v => some v.ty
  | _ => none

/-- label of a node-level divergence -/
def labelNode (F : Facts) (env : Env) (e : CExpr) : String :=
  let c := compare (evalY F env none e) (Spec.evalGo env.iota e)
  match evalY F env none e with
  | .unm w => "unmodelled:" ++ w
  | _ =>
  match e with
  | .conv _ x =>
    (match c with
     | .yOkGReject =>
       if (goTy env.iota x).any Ty.untyped then "conv-untyped-unchecked"
       else "conv-typed-unchecked"
     | .yCrash => "fold-panic"
     | .yRejectGOk => "rejects-valid"
     | .value => "conv-value"
     | _ => "conv-other")
  | .bin a x y =>
    let tx := goTy env.iota x
    let ty := goTy env.iota y
    (match c with
     | .yCrash => if a == .quo || a == .rem then "typed-div-zero-panic" else "fold-panic"
     | .yOkGReject =>
       let typedSide : Option Ty := match tx, ty with
         | some (.t b), _ => some (.t b)
         | _, some (.t b) => some (.t b)
         | _, _ => none
       (match typedSide with
        | some _ =>
          if isShiftAct a then "typed-arith-wraps"
          else if a == .quo && tx != ty then "quo-unchecked"
          else "typed-arith-wraps"
        | none => "untyped-limit")
     | .typeOnly => if a == .quo then "rune-quo-type" else "type-differs"
     | .value => if a == .quo then "quo-unchecked" else "value-differs"
     | .yRejectGOk => "rejects-valid"
     | _ => "bin-other")
  | .un _ _ =>
    (match c with
     | .yOkGReject => "typed-arith-wraps"
     | .yCrash => "fold-panic"
     | _ => "un-other")
  | _ => "leaf-other"

/-- does the tree contain a rune literal? -/
def hasRune : CExpr → Bool
  | .rune _ => true
  | .un _ x => hasRune x
  | .bin _ x y => hasRune x || hasRune y
  | .conv _ x => hasRune x
  | .par x => hasRune x
  | .len x => hasRune x
  | _ => false

inductive Ctx where
  | var | const
  deriving DecidableEq, Repr

/-- class of one declaration (`"-"` = the models agree) -/
def classifyDecl (F : Facts) (ctx : Ctx) (iota : Nat) (declT : Option BT) (e : CExpr) (y : Out) (g : Res (CV × BT)) : String :=
  let agree : Bool := match y, g with
    | .ok [v], .ok w => v == w
    | .reject, .reject => true
    | _, _ => false
  if y == .rejectOrCrash then "const-reject-retry"
  else if agree then "-"
  else match unmodelled e with
  | some w => "unmodelled:" ++ w
  | none =>
    match y with
    | .unm w => "unmodelled:" ++ w
    | _ =>
      let env : Env := { iota := iota, inConst := ctx == .const }
      match firstDiv F env e with
      | some s => labelNode F env s
      | none =>
        -- every sub-expression agrees in a single walk: the declaration context makes the difference
        (match declT with
         | some _ => "typed-decl-unchecked"
         | none =>
           if ctx == .var then (if hasRune e then "global-var-rune" else "var-decl-other")
           else "const-second-walk")

end YaegiVerif.Const.Class
