/-
  C07 — the host/script boundary of the interpreter (interp/run.go callBin, genFunctionWrapper, getFunc, call;
  interp/value.go genValueInterface, genInterfaceWrapper, genFuncValue; interp/program.go Execute).

  Executable model, core Lean only.  Layers:

  1. the type grammar `Ty` and the abstract data `Val t` a value of that type denotes;
  2. representations `Rep` (what a reflect.Value holds on either side): besides plain data there are the four
     boundary artefacts — `node` (an interpreted function declaration, a `*node` in the frame), `mkfunc` (a
     reflect.MakeFunc wrapper around an interpreted function), `vi` (a `valueInterface` box) and `iwrap`
     (an `_Iface` wrapper struct of the exports);
  3. `srep` (how the script's frame represents a datum), `toHost` (what a compiled host has to see), `fromHost`
     (reading a representation back: wrappers are transparent) — the identity contract is
     `fromHost (toHost v) = v`;
  4. callBin's decision table: static argument classes `ArgTy`, the ordered arms `Arm` (a FACT regenerated from
     the source), `argPrepY`, the receiver offset `rcvrOffsetY`, the type index chosen for argument i
     `argTypeIndexY`, variadic packing — the guarded choice between Call, CallSlice and the helper `callVariadicY`
     (`packBinY` for callBin, `packFnValueY` for a host function reached through `call`, `packDeferY` for the record a defer
     statement stores and runDeferred calls) —, result routing `routeY`;
  5. the reflect.MakeFunc wrapper `wrapperCall` (allocate frame, copy arguments, run body, return data[lo:lo+numRet]) and the
     wrapper of a method `methodWrapperCall` (a receiver read from the script is bound when the wrapper is made, the value held by
     an interface is reached at each call).

  `reflect` itself (Call / CallSlice packing, assignability, MakeFunc) appears only through documented behaviour
  (`reflectCallPack`, `hostAssignable`): trusted base, exercised by the correspondence run.
-/
namespace YaegiVerif.Boundary

/-! ## 1. Types and abstract values -/

inductive Basic where
  | bool | int | uint | float | complex | string
  deriving DecidableEq, Repr, Inhabited

/-- where a named type is declared -/
inductive Decl where
  | host | script
  deriving DecidableEq, Repr, Inhabited

/-- kinds of interface types the boundary distinguishes -/
inductive IfaceK where
  | empty      -- interface{}
  | host       -- host-declared, with methods (fmt.Stringer, error, io.Writer, sort.Interface …)
  | script     -- declared by the script, with methods
  deriving DecidableEq, Repr, Inhabited

mutual
  inductive Ty where
    | basic (k : Basic)
    | struct (fs : TyL)
    | ptr (t : Ty)
    | array (n : Nat) (t : Ty)
    | slice (t : Ty)
    | map (k v : Ty)
    | func (ps rs : TyL) (variadic : Bool)
    | iface (k : IfaceK)
    | named (d : Decl) (methods : Bool) (under : Ty)
  inductive TyL where
    | nil
    | cons (t : Ty) (ts : TyL)
end

/-- a function datum: which function it is -/
inductive FnRef where
  | decl (id : Nat)     -- function declared by the script (`func F(…)`): a `*node` in the frame
  | closure (id : Nat)  -- function literal of the script: getFunc already made it a reflect.MakeFunc value
  | host (id : Nat)     -- compiled host function
  deriving DecidableEq, Repr

/-- the dynamic content of an interface value -/
structure Dyn where
  tid : Nat
  interp : Bool     -- its type is declared by the script
  methods : Bool    -- that type has methods
  payload : Int
  deriving DecidableEq, Repr

mutual
  /-- the abstract datum of a type (representation free) -/
  def Val : Ty → Type
    | .basic _ => Int
    | .struct fs => ValL fs
    | .ptr t => Option (Val t)
    | .array _ t => List (Val t)
    | .slice t => Option (List (Val t))
    | .map k v => Option (List (Val k × Val v))
    | .func _ _ _ => Option FnRef
    | .iface _ => Option Dyn
    | .named _ _ u => Val u
  def ValL : TyL → Type
    | .nil => Unit
    | .cons t ts => Val t × ValL ts
end

/-! ## 2. Representations -/

mutual
  inductive Rep where
    | int (n : Int)
    | nil
    | tuple (xs : RepL)                     -- struct fields / array, slice elements / map entries
    | ptr (r : Rep)
    | node (id : Nat)                       -- *node: interpreted function declaration (not callable by the host)
    | mkfunc (id : Nat) (closure : Bool)    -- reflect.MakeFunc wrapper around interpreted function `id`
    | native (id : Nat)                     -- host function value
    | vi (r : Rep)                          -- valueInterface{node, value}
    | dyn (d : Dyn)                         -- concrete dynamic value held by an interface
    | iwrap (r : Rep)                       -- `_Iface` wrapper struct: field 0 = value, other fields = method wrappers
  inductive RepL where
    | nil
    | cons (r : Rep) (rs : RepL)
end

def listRep {α : Type} (f : α → Rep) : List α → RepL
  | [] => .nil
  | a :: as => .cons (f a) (listRep f as)

def listFrom {α : Type} (g : Rep → Option α) : RepL → Option (List α)
  | .nil => some []
  | .cons r rs =>
    match g r, listFrom g rs with
    | some a, some as => some (a :: as)
    | _, _ => none

def pairRep {α β : Type} (f : α → Rep) (g : β → Rep) (p : α × β) : Rep :=
  .tuple (.cons (f p.1) (.cons (g p.2) .nil))

def pairFrom {α β : Type} (f : Rep → Option α) (g : Rep → Option β) : Rep → Option (α × β)
  | .tuple (.cons a (.cons b .nil)) =>
    (match f a, g b with
     | some x, some y => some (x, y)
     | _, _ => none)
  | _ => none

/-- boxes are transparent for the datum -/
def unbox : Rep → Rep
  | .vi r => unbox r
  | .iwrap r => unbox r
  | r => r

def fnRep (hostSide : Bool) : Option FnRef → Rep
  | none => .nil
  | some (.decl id) => if hostSide then .mkfunc id false else .node id
  | some (.closure id) => .mkfunc id true
  | some (.host id) => .native id

def fnFrom : Rep → Option (Option FnRef)
  | .nil => some none
  | .node id => some (some (.decl id))
  | .mkfunc id false => some (some (.decl id))
  | .mkfunc id true => some (some (.closure id))
  | .native id => some (some (.host id))
  | _ => none

/-- an interface value as the SCRIPT's frame holds it -/
def ifaceSRep (k : IfaceK) : Option Dyn → Rep
  | none => .nil
  | some d =>
    match k with
    | .empty => if d.interp && d.methods then .vi (.dyn d) else .dyn d
    | .host => if d.interp then .iwrap (.dyn d) else .dyn d
    | .script => .vi (.dyn d)

/-- … and as a compiled HOST has to see it -/
def ifaceHRep (k : IfaceK) : Option Dyn → Rep
  | none => .nil
  | some d =>
    match k with
    | .host => if d.interp then .iwrap (.dyn d) else .dyn d
    | _ => .dyn d

def ifaceFrom (r : Rep) : Option (Option Dyn) :=
  match unbox r with
  | .nil => some none
  | .dyn d => some (some d)
  | _ => none

mutual
  /-- representation of a datum in the script's frame -/
  def srep : (t : Ty) → Val t → Rep
    | .basic _, n => .int n
    | .struct fs, v => .tuple (srepL fs v)
    | .ptr _, none => .nil
    | .ptr t, some x => .ptr (srep t x)
    | .array _ t, l => .tuple (listRep (srep t) l)
    | .slice _, none => .nil
    | .slice t, some l => .tuple (listRep (srep t) l)
    | .map _ _, none => .nil
    | .map k v, some l => .tuple (listRep (pairRep (srep k) (srep v)) l)
    | .func _ _ _, f => fnRep false f
    | .iface k, d => ifaceSRep k d
    | .named _ _ u, v => srep u v
  def srepL : (ts : TyL) → ValL ts → RepL
    | .nil, _ => .nil
    | .cons t ts, (v, vs) => .cons (srep t v) (srepL ts vs)
end

mutual
  /-- the representation a compiled host works with (the target of marshalling) -/
  def toHost : (t : Ty) → Val t → Rep
    | .basic _, n => .int n
    | .struct fs, v => .tuple (toHostL fs v)
    | .ptr _, none => .nil
    | .ptr t, some x => .ptr (toHost t x)
    | .array _ t, l => .tuple (listRep (toHost t) l)
    | .slice _, none => .nil
    | .slice t, some l => .tuple (listRep (toHost t) l)
    | .map _ _, none => .nil
    | .map k v, some l => .tuple (listRep (pairRep (toHost k) (toHost v)) l)
    | .func _ _ _, f => fnRep true f
    | .iface k, d => ifaceHRep k d
    | .named _ _ u, v => toHost u v
  def toHostL : (ts : TyL) → ValL ts → RepL
    | .nil, _ => .nil
    | .cons t ts, (v, vs) => .cons (toHost t v) (toHostL ts vs)
end

def intFrom : Rep → Option Int
  | .int n => some n
  | _ => none

/-- the element list of a composite, `none` when the representation is not a composite -/
def tupleOf : Rep → Option RepL
  | .tuple rs => some rs
  | _ => none

mutual
  /-- reading a representation back as a datum of type `t` (either side's representation is accepted) -/
  def fromHost : (t : Ty) → Rep → Option (Val t)
    | .basic _, r => intFrom r
    | .struct fs, r =>
      (match r with
       | .tuple rs => fromHostL fs rs
       | _ => none)
    | .ptr t, r =>
      (match r with
       | .nil => some none
       | .ptr x => (fromHost t x).map some
       | _ => none)
    | .array _ t, r =>
      (match r with
       | .tuple rs => listFrom (fromHost t) rs
       | _ => none)
    | .slice t, r =>
      (match r with
       | .nil => some none
       | .tuple rs => (listFrom (fromHost t) rs).map some
       | _ => none)
    | .map k v, r =>
      (match r with
       | .nil => some none
       | .tuple rs => (listFrom (pairFrom (fromHost k) (fromHost v)) rs).map some
       | _ => none)
    | .func _ _ _, r => fnFrom r
    | .iface _, r => ifaceFrom r
    | .named _ _ u, r => fromHost u r
  def fromHostL : (ts : TyL) → RepL → Option (ValL ts)
    | .nil, rs =>
      (match rs with
       | .nil => some ()
       | _ => none)
    | .cons t ts, rs =>
      (match rs with
       | .cons r rs' =>
         (match fromHost t r, fromHostL ts rs' with
          | some v, some vs => some (v, vs)
          | _, _ => none)
       | .nil => none)
end

/-! ## 4. callBin: the per-argument decision table

  `ArgTy` is what callBin's predicates see of the static type of an argument node (`c.typ`). The ordered list of
  arms of its inner `switch` is a fact regenerated from interp/run.go (`Generated.C07.facts.arms`). -/

structure ArgTy where
  emptyIface : Bool := false       -- isEmptyInterface(c.typ)
  ifaceSrc : Bool := false         -- isInterfaceSrc(c.typ) (also true for interface{})
  funcSrc : Bool := false          -- isFuncSrc(c.typ)
  arrayOrVariadic : Bool := false  -- c.typ.cat == arrayT || c.typ.cat == variadicT
  elemEmptyIface : Bool := false   -- isEmptyInterface(c.typ.val)
  ptrSrc : Bool := false           -- isPtrSrc(c.typ)
  elemValueT : Bool := false       -- c.typ.val.cat == valueT
  valueT : Bool := false           -- c.typ.cat == valueT (host-declared type, host interface included)
  deriving DecidableEq, Repr

def isHostTy : Ty → Bool
  | .named .host _ _ => true
  | .iface .host => true
  | _ => false

/-- yaegi's predicates on the grammar -/
def classify : Ty → ArgTy
  | .iface .empty => { emptyIface := true, ifaceSrc := true }
  | .iface .script => { ifaceSrc := true }
  | .iface .host => { valueT := true }
  | .func _ _ _ => { funcSrc := true }
  | .array _ t => { arrayOrVariadic := true, elemEmptyIface := (match t with | .iface .empty => true | _ => false) }
  | .ptr t => { ptrSrc := true, elemValueT := isHostTy t }
  | .named .host _ _ => { valueT := true }
  | .named .script _ (.func _ _ _) => { funcSrc := true }
  | .named .script _ (.iface .script) => { ifaceSrc := true }
  | .named .script _ (.iface .empty) => { emptyIface := true, ifaceSrc := true }
  | .named .script _ (.ptr t) => { ptrSrc := true, elemValueT := isHostTy t }
  | _ => {}

inductive Guard where
  | emptyIface | ifaceSrc | funcSrc | arrayOrVariadic | ptrSrc | valueT | default
  deriving DecidableEq, Repr

inductive Effect where
  | genValue              -- values = append(values, genValue(c))
  | unwrapIface           -- genValueInterfaceValue(c)
  | funcWrapper           -- genFunctionWrapper(c)
  | splitElemEmptyIface   -- if isEmptyInterface(c.typ.val) { genValueArray(c) } else { genInterfaceWrapper(c, defType) }
  | splitElemValueT       -- if c.typ.val.cat == valueT { genValue(c) } else { genInterfaceWrapper(c, defType) }
  | ifaceWrapper          -- genInterfaceWrapper(c, defType)
  | unrecognised
  deriving DecidableEq, Repr

structure Arm where
  guard : Guard
  effect : Effect
  deriving DecidableEq, Repr

def Guard.holds (a : ArgTy) : Guard → Bool
  | .emptyIface => a.emptyIface
  | .ifaceSrc => a.ifaceSrc
  | .funcSrc => a.funcSrc
  | .arrayOrVariadic => a.arrayOrVariadic
  | .ptrSrc => a.ptrSrc
  | .valueT => a.valueT
  | .default => true

def firstArm (a : ArgTy) : List Arm → Option Arm
  | [] => none
  | arm :: rest => if arm.guard.holds a then some arm else firstArm a rest

/-- the preparation applied to the argument value -/
inductive Prep where
  | raw          -- the frame value itself
  | unwrap       -- valueInterfaceValue: strip valueInterface boxes
  | funcWrap     -- genFunctionWrapper: a *node becomes a reflect.MakeFunc wrapper, a func value stays
  | derefArray   -- genValueArray: dereference a pointer to array
  | ifaceWrap    -- genInterfaceWrapper(c, defType): decided at run time by defType and the value
  deriving DecidableEq, Repr

def Effect.resolve (a : ArgTy) : Effect → Prep
  | .genValue => .raw
  | .unwrapIface => .unwrap
  | .funcWrapper => .funcWrap
  | .splitElemEmptyIface => if a.elemEmptyIface then .derefArray else .ifaceWrap
  | .splitElemValueT => if a.elemValueT then .raw else .ifaceWrap
  | .ifaceWrapper => .ifaceWrap
  | .unrecognised => .raw

def argPrepY (arms : List Arm) (a : ArgTy) : Prep :=
  match firstArm a arms with
  | some arm => arm.effect.resolve a
  | none => .raw

/-- what the host parameter is -/
inductive ParamKind where
  | concrete     -- the argument's own type (identical types)
  | emptyIface   -- interface{}
  | hostIface    -- a host interface with methods
  deriving DecidableEq, Repr

def stripVi : Rep → Rep
  | .vi r => stripVi r
  | r => r

/-- genInterfaceWrapper(c, defType)(f): only a host interface with methods is wrapped, and only a value whose
    type does not implement it natively (an interpreted type); nil stays nil -/
def genInterfaceWrapperY (defK : ParamKind) (r : Rep) : Rep :=
  match defK with
  | .hostIface =>
    (match stripVi r with
     | .dyn d => if d.interp then .iwrap (.dyn d) else .dyn d
     | x => x)
  | _ => r

def applyPrep (p : Prep) (defK : ParamKind) (r : Rep) : Rep :=
  match p with
  | .raw => r
  | .unwrap => stripVi r
  | .funcWrap => (match r with | .node id => .mkfunc id false | x => x)
  | .derefArray => (match r with | .ptr x => x | x => x)
  | .ifaceWrap => genInterfaceWrapperY defK r

mutual
  /-- nothing the host cannot use: no *node, no valueInterface anywhere -/
  def hostClean : Rep → Bool
    | .node _ => false
    | .vi _ => false
    | .tuple xs => hostCleanL xs
    | .ptr r => hostClean r
    | .iwrap r => hostClean r
    | _ => true
  def hostCleanL : RepL → Bool
    | .nil => true
    | .cons r rs => hostClean r && hostCleanL rs
end

/-- reflect's assignability of the prepared value to the host parameter (documented behaviour of reflect.Value.Call) -/
def hostAssignable (p : ParamKind) (h : Rep) : Bool :=
  match p with
  | .hostIface =>
    (match h with
     | .nil => true
     | .iwrap _ => true
     | .dyn d => !d.interp      -- a host type implementing the interface natively
     | _ => false)
  | _ => (match h with | .node _ => false | .vi _ => false | _ => true)

/-- the datum a representation stands for at top level: boxes are transparent, a *node and its wrapper are the same function -/
def datum : Rep → Rep
  | .vi r => datum r
  | .iwrap r => datum r
  | .node id => .mkfunc id false
  | r => r

/-! ## 5. callBin: receiver offset, type index per argument, variadic packing -/

/-- the condition language of `rcvrOffset` -/
inductive CExpr where
  | variadicGt0          -- variadic > 0
  | numInGtArgs          -- funcType.NumIn() > len(child)
  | or (a b : CExpr)
  | and (a b : CExpr)
  | not (a : CExpr)
  | unrecognised
  deriving DecidableEq, Repr

def CExpr.eval (variadic : Int) (numIn nArgs : Nat) : CExpr → Bool
  | .variadicGt0 => decide (variadic > 0)
  | .numInGtArgs => decide (numIn > nArgs)
  | .or a b => a.eval variadic numIn nArgs || b.eval variadic numIn nArgs
  | .and a b => a.eval variadic numIn nArgs && b.eval variadic numIn nArgs
  | .not a => !a.eval variadic numIn nArgs
  | .unrecognised => false

inductive Cmp where
  | ge | gt | le | lt | eq | unrecognised
  deriving DecidableEq, Repr

def Cmp.holds (a b : Int) : Cmp → Bool
  | .ge => decide (a ≥ b) | .gt => decide (a > b) | .le => decide (a ≤ b) | .lt => decide (a < b)
  | .eq => decide (a = b) | .unrecognised => false

inductive CallKind where
  | call            -- reflect.Value.Call
  | callSlice       -- reflect.Value.CallSlice
  | callVariadic    -- the helper callVariadic (interp/run.go): CallSlice with the zero slice when no variadic argument is passed
  | unrecognised
  deriving DecidableEq, Repr

/-- the guards under which callBin (`callFn`) and the function-value branch of `call` (`callf`) choose how to call -/
inductive CGuard where
  | ellipsis      -- n.action == aCallSlice (hasVariadicArgs): the call is written `f(a, xs...)`
  | variadic      -- variadic >= 0: the callee's type is variadic
  | always        -- the default
  | unrecognised
  deriving DecidableEq, Repr

structure CallArm where
  guard : CGuard
  kind : CallKind
  deriving DecidableEq, Repr

def CGuard.holds (isVariadic ellipsis : Bool) : CGuard → Bool
  | .ellipsis => ellipsis
  | .variadic => isVariadic
  | .always => true
  | .unrecognised => false

/-- the first arm whose guard holds -/
def selectCall (isVariadic ellipsis : Bool) : List CallArm → CallKind
  | [] => .unrecognised
  | a :: rest => if a.guard.holds isVariadic ellipsis then a.kind else selectCall isVariadic ellipsis rest

/-- `call` (the callee expression has a script-written function type): the guards of its per-argument switch, on the PARAMETER
    type `arg` -/
inductive CAGuard where
  | spreadArg      -- spread: hasVariadicArgs && i == len(child)-1 — this argument is the slice followed by `...`
  | ellipsisCall   -- hasVariadicArgs: the call has an ellipsis (whatever the argument) — the source before 5b28270
  | ifaceSrc       -- isInterfaceSrc(arg) && (!isEmptyInterface(arg) || len(c.typ.method) > 0)
  | ifaceBin       -- isInterfaceBin(arg): a host interface
  | funcSrc        -- isFuncSrc(arg)
  | default
  | unrecognised
  deriving DecidableEq, Repr

inductive CAEffect where
  | raw          -- genValue(c)
  | boxIface     -- genValueInterface(c)
  | ifaceWrap    -- genInterfaceWrapper(c, arg.rtype)
  | funcValue    -- genFuncValue(c): a *node becomes its reflect.MakeFunc wrapper
  | unrecognised
  deriving DecidableEq, Repr

structure CallArgArm where
  guard : CAGuard
  effect : CAEffect
  deriving DecidableEq, Repr

/-- index expressions of the result stores -/
inductive IExpr where
  | i | base | add (a b : IExpr) | lit (n : Nat) | unrecognised
  deriving DecidableEq, Repr

def IExpr.eval (i base : Nat) : IExpr → Nat
  | .i => i | .base => base | .add a b => a.eval i base + b.eval i base | .lit n => n | .unrecognised => 1000000

/-- on which outcomes the branch arm of callBin (`case fnext != nil`: the host call is a condition) writes the call's frame slot -/
inductive BranchStore where
  | both | trueOnly | falseOnly | never | unrecognised
  deriving DecidableEq, Repr

/-- `q, r := hp.F(…)` (aAssignX under a defineXStmt): when the cell of a declared variable is re-created before the result is stored -/
inductive DefineCell where
  | always | whenNonZero | never | unrecognised
  deriving DecidableEq, Repr

/-- callBin's aReturn arm: the base `b` of `dest := f.data[b+i]` -/
inductive RetBase where
  | childPos    -- b := childPos(n): the result slot of the operand, written while the operands are evaluated (until 28d3d87)
  | zeroOrOwn   -- b := 0; if len(n.anc.child) > 1 { b = n.findex }: result slot 0 for a sole operand, else the call's own cell
  | unrecognised
  deriving DecidableEq, Repr

/-- the choices of the source text (regenerated by extract/cmd/c07) -/
structure Facts where
  arms : List Arm                 -- inner switch of callBin, in order
  outerArms : List String         -- outer switch: isBinCall / isRegularCall / default, in order
  recvGuardNonIface : Bool        -- `recv != nil && … && !isInterface(recv.node.typ)`
  recvGuardGetMethod : Bool       -- `… && c0.action == aGetMethod && …`: the method is selected at the call, the callee is not a variable holding a method value
  rcvrCond : CExpr                -- `variadic > 0 || funcType.NumIn() > len(child)`
  variadicSub : Nat               -- variadic = funcType.NumIn() - variadicSub
  argTypeCmp : Cmp                -- `i+rcvrOffset >= variadic` (conversion of constants)
  argTypeElem : Bool              -- argType = funcType.In(variadic).Elem()
  argTypeSpreadArm : Bool         -- `case n.action == aCallSlice && i+rcvrOffset == variadic: argType = funcType.In(variadic)` comes first
  defTypeCmp : Cmp                -- `i+rcvrOffset >= variadic` (target of the interface wrapper)
  defTypeElem : Bool              -- defType = funcType.In(variadic).Elem()  (the source says In(variadic))
  callArms : List CallArm         -- callBin's callFn, in order of precedence: aCallSlice → CallSlice, variadic → callVariadic, else Call
  fvArms : List CallArm           -- `call`, host function held in a variable: callf, the same three arms
  callArgArms : List CallArgArm   -- `call`: the per-argument switch, in order
  hostMethodBindsRecv : Bool      -- getIndexBinMethod / getIndexBinElemMethod: `bindRecv(…).Method(m)`
  bindRecvCopies : Bool           -- bindRecv: a copy of an addressable value (`if !v.CanAddr() { return v }; c := New; c.Set(v); return c`)
  cvGuardVariadic : Bool          -- callVariadic: `t.IsVariadic() && …`
  cvCmp : Cmp                     -- … `len(in) == t.NumIn()-1`
  cvSub : Nat
  cvThen : CallKind               -- v.CallSlice(append(in, reflect.Zero(t.In(len(in)))))
  cvAppendZero : Bool
  cvElse : CallKind               -- v.Call(in)
  deferCall : CallKind            -- runCfg → runDeferred: callVariadic(val[0], val[1:])
  deferWrapBin : Bool             -- callBin, deferStmt arm: `if n.action == aCallSlice { val[0] = deferCallSlice(val[0]) }`
  deferWrapCall : Bool            -- call, deferStmt arm: `if hasVariadicArgs { val[0] = deferCallSlice(val[0]) }`
  deferWrapKind : CallKind        -- deferCallSlice: the wrapper calls fn.CallSlice(args)
  deferWrapVariadic : Bool        -- … and has the type reflect.FuncOf(in, out, false)
  assignSrcIdx : IExpr            -- aAssignX: v(f).Set(out[<idx>]) for rvalues[i]
  assignDstIdx : IExpr            -- rvalues[i] = … n.anc.child[<idx>]
  returnDstIdx : IExpr            -- aReturn: f.data[b+i]
  returnBase : RetBase            -- aReturn: b := 0; if len(n.anc.child) > 1 { b = n.findex }
  defaultDstIdx : IExpr           -- default: data[n.findex+i]
  defineXCell : DefineCell        -- aAssignX, defineXStmt && !c.redeclared: data[c.findex] = reflect.New(…).Elem() before the store, unconditionally
  branchDstIdx : IExpr            -- branch arm: index := n.findex; getFrame(f, level).data[index].SetBool(b)
  branchStore : BranchStore       -- … written before `if b { return tnext }; return fnext`: on both outcomes
  nestedReadIdx : IExpr           -- consumer of nested call results: ind := c.findex + j
  wrapFrameIsDefTypes : Bool      -- newFrame(f, len(def.types), …)
  wrapFramePerCall : Bool         -- … and that newFrame call is INSIDE the function literal given to reflect.MakeFunc
  wrapRecvAtCreation : Bool       -- a receiver read from the script (`n.recv.node != nil`) is bound OUTSIDE that literal: when the wrapper is made
  wrapRecvHeldAtCall : Bool       -- a receiver record without node (`late`: the value held by an interface) is reached INSIDE it: at each call
  ifaceWrapRecvHeld : Bool        -- genInterfaceWrapper: the method wrappers of a conversion get `receiver{val: rv}`, rv a copy of the converted value
  getFuncFramePerCall : Bool      -- getFunc: fr2 := newFrame(…) inside its reflect.MakeFunc literal
  wrapArgBase : IExpr             -- d = d[numRet:]  (base = numRet)
  wrapRcvrShift : Nat             -- d = d[numRet+1:]
  wrapResLo : Nat                 -- fr.data[lo:hi]
  wrapResHi : IExpr               -- hi, in terms of numRet (= base)
  wrapSkipShort : Bool            -- `if i >= len(d) { break }`
  getFuncResLo : Nat
  getFuncResHi : IExpr
  deriving DecidableEq, Repr

def variadicIdxY (f : Facts) (isVariadic : Bool) (numIn : Nat) : Int :=
  if isVariadic then (numIn : Int) - f.variadicSub else -1

/-- `rcvrOffset` of callBin -/
def rcvrOffsetY (f : Facts) (hasRecv recvIsIface methodValue isVariadic : Bool) (numIn nArgs : Nat) : Nat :=
  if hasRecv && (!f.recvGuardGetMethod || !methodValue) && (!f.recvGuardNonIface || !recvIsIface) then
    (if f.rcvrCond.eval (variadicIdxY f isVariadic numIn) numIn nArgs then 1 else 0)
  else 0

/-- which `funcType.In(k)` (and whether its `.Elem()`) is taken as the type of argument `i` -/
def typeIndexY (cmp : Cmp) (elem : Bool) (variadic : Int) (off i : Nat) : Nat × Bool :=
  if decide (variadic ≥ 0) && cmp.holds ((i : Int) + off) variadic then (variadic.toNat, elem) else (i + off, false)

def argTypeIndexY (f : Facts) (isVariadic : Bool) (numIn off i : Nat) : Nat × Bool :=
  typeIndexY f.argTypeCmp f.argTypeElem (variadicIdxY f isVariadic numIn) off i

/-- the same choice for a call written with `...` (`n.action == aCallSlice`): the arm for the spread argument comes first -/
def argTypeIndexEY (f : Facts) (isVariadic ellipsis : Bool) (numIn off i : Nat) : Nat × Bool :=
  let v := variadicIdxY f isVariadic numIn
  if f.argTypeSpreadArm && ellipsis && decide (v ≥ 0) && decide ((i : Int) + off = v) then (v.toNat, false)
  else argTypeIndexY f isVariadic numIn off i

def defTypeIndexY (f : Facts) (isVariadic : Bool) (numIn off i : Nat) : Nat × Bool :=
  typeIndexY f.defTypeCmp f.defTypeElem (variadicIdxY f isVariadic numIn) off i

/-- Go: the parameter (index in a signature that starts with `off` receiver slots) an argument is assigned to -/
def typeIndexSpec (isVariadic : Bool) (numIn off i : Nat) : Nat × Bool :=
  if isVariadic && decide (i + off + 1 ≥ numIn) then (numIn - 1, true) else (i + off, false)

/-- Go: with `...` every argument is assigned to the parameter of its own position, the last one to the variadic parameter
    itself (its slice type) -/
def typeIndexSpecE (isVariadic ellipsis : Bool) (numIn off i : Nat) : Nat × Bool :=
  if ellipsis then (i + off, false) else typeIndexSpec isVariadic numIn off i

def listToRepL : List Rep → RepL
  | [] => .nil
  | r :: rs => .cons r (listToRepL rs)

/-- reflect.Value.Call on a variadic function (documented): the arguments beyond the fixed ones are copied into a
    NEW slice — an empty, non-nil one when there are none. reflect.Value.CallSlice takes the slice as given. -/
def reflectCall (isVariadic : Bool) (nFixed : Nat) (args : List Rep) : List Rep :=
  if isVariadic then args.take nFixed ++ [.tuple (listToRepL (args.drop nFixed))] else args

def reflectCallSlice (args : List Rep) : List Rep := args

/-- Go: what the callee's parameters receive -/
def goPack (isVariadic ellipsis : Bool) (nFixed : Nat) (args : List Rep) : List Rep :=
  if !isVariadic || ellipsis then args
  else args.take nFixed ++ [if (args.drop nFixed).isEmpty then .nil else .tuple (listToRepL (args.drop nFixed))]

/-- the two reflect entry points (documented behaviour) -/
def CallKind.runR (isVariadic : Bool) (nFixed : Nat) (args : List Rep) : CallKind → List Rep
  | .call => reflectCall isVariadic nFixed args
  | .callSlice => reflectCallSlice args
  | _ => []

/-- `callVariadic(v, in)`: `if t := v.Type(); t.IsVariadic() && len(in) == t.NumIn()-1 { return v.CallSlice(append(in,
    reflect.Zero(t.In(len(in))))) }; return v.Call(in)` — the zero value of the variadic parameter's slice type is nil.
    `nFixed` is the number of non-variadic parameters (NumIn = nFixed + 1 for a variadic function). -/
def callVariadicY (f : Facts) (isVariadic : Bool) (nFixed : Nat) (args : List Rep) : List Rep :=
  let numIn : Int := (nFixed : Int) + (if isVariadic then 1 else 0)
  if (!f.cvGuardVariadic || isVariadic) && f.cvCmp.holds (args.length : Int) (numIn - (f.cvSub : Int)) then
    f.cvThen.runR isVariadic nFixed (if f.cvAppendZero then args ++ [Rep.nil] else args)
  else f.cvElse.runR isVariadic nFixed args

def CallKind.run (f : Facts) (isVariadic : Bool) (nFixed : Nat) (args : List Rep) : CallKind → List Rep
  | .callVariadic => callVariadicY f isVariadic nFixed args
  | k => k.runR isVariadic nFixed args

/-- callBin's call of the host function -/
def packBinY (f : Facts) (isVariadic ellipsis : Bool) (nFixed : Nat) (args : List Rep) : List Rep :=
  (selectCall isVariadic ellipsis f.callArms).run f isVariadic nFixed args

/-- `call` when the function value turns out to be a host function (`fv := hp.F; fv(…)`, a method value, a function result) -/
def packFnValueY (f : Facts) (isVariadic ellipsis : Bool) (nFixed : Nat) (args : List Rep) : List Rep :=
  (selectCall isVariadic ellipsis f.fvArms).run f isVariadic nFixed args

/-- A deferred call. The defer statement stores the record `[fn, args…]` — with `fn` replaced by `deferCallSlice(fn)` when the
    call has an ellipsis and the arm (`viaBin`: callBin's, else call's) does that —; runCfg → runDeferred calls the record's
    function on the record's arguments with `deferCall`. The wrapper made by deferCallSlice has the plain (or, were the flag
    set, variadic) signature of `fn` and hands what it receives to `fn` with `deferWrapKind`. -/
def packDeferY (f : Facts) (viaBin isVariadic ellipsis : Bool) (nFixed : Nat) (args : List Rep) : List Rep :=
  if ellipsis && (if viaBin then f.deferWrapBin else f.deferWrapCall) then
    let wv := isVariadic && f.deferWrapVariadic
    let got := f.deferCall.run f wv (if isVariadic && !wv then nFixed + 1 else nFixed) args
    f.deferWrapKind.runR isVariadic nFixed got
  else f.deferCall.run f isVariadic nFixed args

/-! ### `call` with a host function as function value: the preparation of one argument -/

/-- what `call`'s predicates see of the PARAMETER type written by the script -/
inductive CallParam where
  | scriptIface                 -- a script-declared interface with methods
  | emptyIface (argMethodful : Bool)   -- interface{}; the argument's static type has methods
  | hostIface                   -- a host interface (isInterfaceBin)
  | func
  | other
  deriving DecidableEq, Repr

def CAGuard.holds (ellipsis isSpreadArg : Bool) (p : CallParam) : CAGuard → Bool
  | .spreadArg => isSpreadArg
  | .ellipsisCall => ellipsis
  | .ifaceSrc => (match p with | .scriptIface => true | .emptyIface m => m | _ => false)
  | .ifaceBin => (match p with | .hostIface => true | _ => false)
  | .funcSrc => (match p with | .func => true | _ => false)
  | .default => true
  | .unrecognised => false

def firstCallArm (ellipsis isSpreadArg : Bool) (p : CallParam) : List CallArgArm → CAEffect
  | [] => .raw
  | a :: rest => if a.guard.holds ellipsis isSpreadArg p then a.effect else firstCallArm ellipsis isSpreadArg p rest

/-- the value `call` hands to reflect for one argument when the function value is a host function -/
def callPrepareY (arms : List CallArgArm) (ellipsis isSpreadArg : Bool) (p : CallParam) (r : Rep) : Rep :=
  match firstCallArm ellipsis isSpreadArg p arms with
  | .raw => r
  | .boxIface => .vi r
  | .ifaceWrap => genInterfaceWrapperY .hostIface r
  | .funcValue => (match r with | .node id => .mkfunc id false | x => x)
  | .unrecognised => r

def RepL.snoc : RepL → Rep → RepL
  | .nil, v => .cons v .nil
  | .cons r rs, v => .cons r (RepL.snoc rs v)

/-- reflect.Append(vararg, v) on the representation of a slice -/
def appendRep : Rep → Rep → Rep
  | .nil, v => .tuple (.cons v .nil)
  | .tuple xs, v => .tuple (xs.snoc v)
  | r, _ => r

/-- `call` (script → script): the explicit loop over the arguments. Each argument carries whether its reflect type
    is the variadic parameter's own slice type (`v(f).Type() == vararg.Type()` → `vararg.Set(v)`, else
    `vararg.Set(reflect.Append(vararg, v))`); the vararg cell starts as the zero value (nil). -/
def packCallLoop (variadic : Nat) : (i : Nat) → List (Rep × Bool) → (fixed : List Rep) → (vararg : Rep) → List Rep × Rep
  | _, [], fixed, va => (fixed.reverse, va)
  | i, (v, same) :: rest, fixed, va =>
    if i ≥ variadic then packCallLoop variadic (i + 1) rest fixed (if same then v else appendRep va v)
    else packCallLoop variadic (i + 1) rest (v :: fixed) va

def packCallY (variadic : Nat) (args : List (Rep × Bool)) : List Rep :=
  let r := packCallLoop variadic 0 args [] .nil
  r.1 ++ [r.2]

/-! ## 6. Result routing -/

inductive Ctx where
  | assignX (blanks : List Bool)   -- a, _, c := f()  /  a, b = f()
  | ret (childPos nOps : Nat)      -- return …, f(), … : f is operand number childPos of nOps operands
  | deflt (findex : Nat)           -- results stay in the call node's frame cells (expression, nested call, statement)
  | cond (findex : Nat)            -- the call is a condition (if / for / operand of && || !): the bool result goes to the call's cell
  deriving DecidableEq, Repr

inductive Slot where
  | lhs (i : Nat)       -- the i-th left-hand side
  | result (i : Nat)    -- result cell i of the current function's frame
  | tmp (i : Nat)       -- frame cell i
  | dropped
  deriving DecidableEq, Repr

/-- where callBin stores result `src` … -/
def routeOneY (f : Facts) (c : Ctx) (i : Nat) : Nat × Slot :=
  match c with
  | .assignX blanks =>
    let d := f.assignDstIdx.eval i 0
    (f.assignSrcIdx.eval i 0, if blanks.getD d false then .dropped else .lhs d)
  | .ret pos nOps =>
    (match f.returnBase with
     | .childPos => (i, .result (f.returnDstIdx.eval i pos))
     | .zeroOrOwn =>
       -- a sole operand: straight into the result slots; otherwise into the call's own cell, from where the return statement
       -- assigns operand `pos` to result slot `pos` (`retStmtY` below is about the order of those reads and writes)
       if nOps > 1 then (i, .result (pos + i)) else (i, .result (f.returnDstIdx.eval i 0))
     | .unrecognised => (i, .dropped))
  | .deflt fi => (i, .tmp (f.defaultDstIdx.eval i fi))
  | .cond fi => (i, .tmp (f.branchDstIdx.eval i fi + i))

def routeY (f : Facts) (c : Ctx) (nOut : Nat) : List (Nat × Slot) :=
  (List.range nOut).map (routeOneY f c)

/-- … and where the context reads result `i` (Go: the i-th value of the call) -/
def routeSpecOne (c : Ctx) (i : Nat) : Nat × Slot :=
  match c with
  | .assignX blanks => (i, if blanks.getD i false then .dropped else .lhs i)
  | .ret pos _ => (i, .result (pos + i))
  | .deflt fi => (i, .tmp (fi + i))
  | .cond fi => (i, .tmp (fi + i))

def routeSpec (c : Ctx) (nOut : Nat) : List (Nat × Slot) :=
  (List.range nOut).map (routeSpecOne c)

/-! ### a host call as a condition, executed repeatedly in one frame

  The call's cell is what the enclosing `&&` / `||` (or the assignment `ok := hp.F(x) || y`) reads after the call branched. In
  a loop the same cell is written by every execution of the call. -/

def branchStep (s : BranchStore) (slot r : Bool) : Bool :=
  match s with
  | .both => r
  | .trueOnly => if r then true else slot
  | .falseOnly => if r then slot else false
  | _ => slot

/-- the content of the call's cell after each of the successive executions of the call (`slot`: what the cell held before) -/
def branchReadsY (s : BranchStore) : Bool → List Bool → List Bool
  | _, [] => []
  | slot, r :: rs => branchStep s slot r :: branchReadsY s (branchStep s slot r) rs

/-- well-formed contexts: the operand position is one of the operands -/
def Ctx.wf : Ctx → Bool
  | .ret pos nOps => decide (pos < nOps)
  | _ => true

/-! ### a return statement with several operands

  `return hp.F(b), a` in a function with named results: the operands are evaluated (the calls run), then all of them are read,
  then the results are assigned. A call that wrote its result slot while the operands were evaluated would change what a later
  operand reads from that result variable. -/

inductive RetOperand where
  | call (v : Rep)      -- a host call with one result
  | named (k : Nat)     -- the current value of result variable k
  | other (v : Rep)     -- anything else (a constant, a local)

/-- result slots after the calls ran: the old arm writes slot `p` for a call at operand position `p` -/
def retAfterCalls (writes : Bool) : Nat → List RetOperand → List Rep → List Rep
  | _, [], slots => slots
  | p, .call v :: rest, slots => retAfterCalls writes (p + 1) rest (if writes then slots.set p v else slots)
  | p, _ :: rest, slots => retAfterCalls writes (p + 1) rest slots

def RetOperand.value (slots : List Rep) : RetOperand → Rep
  | .call v => v
  | .named k => slots.getD k .nil
  | .other v => v

/-- the results a return statement with these operands assigns, `init` being the result variables before it -/
def retStmtY (b : RetBase) (ops : List RetOperand) (init : List Rep) : List Rep :=
  let writes := match b with
    | .childPos => true
    | .zeroOrOwn => decide (ops.length ≤ 1)
    | .unrecognised => true
  ops.map (RetOperand.value (retAfterCalls writes 0 ops init))

/-- Go: every operand is evaluated against the result variables as they were -/
def retStmtSpec (ops : List RetOperand) (init : List Rep) : List Rep := ops.map (RetOperand.value init)

/-! ### `q, r := hp.F(…)` executed repeatedly in one frame, the variables of earlier executions still referenced

  Each execution of a short variable declaration declares NEW variables; a pointer to, or a closure over, the variable of an
  earlier execution must keep seeing that execution's value. callBin stores the results into the frame cells of the declared
  variables, after re-creating the cell. -/

mutual
  /-- the zero value of its type (what reflect.Value.IsZero answers), on representations -/
  def isZeroRep : Rep → Bool
    | .int n => n == 0
    | .nil => true
    | .tuple xs => isZeroRepL xs
    | _ => false
  def isZeroRepL : RepL → Bool
    | .nil => true
    | .cons r rs => isZeroRep r && isZeroRepL rs
end

/-- does the next execution give the variable a new cell, given what the current cell holds -/
def DefineCell.recreates (m : DefineCell) (cur : Rep) : Bool :=
  match m with
  | .always => true
  | .whenNonZero => !isZeroRep cur
  | _ => false

/-- `rs`: the result stored into one declared variable by the successive executions. What the reference taken after each
    execution (a pointer to the variable, a closure over it) reads once ALL executions are done: if the next execution does not
    re-create the cell, the reference shares the cell with the next one. -/
def defineReadsY (m : DefineCell) : List Rep → List Rep
  | [] => []
  | [r] => [r]
  | r :: r' :: rest =>
    (if m.recreates r then r else (defineReadsY m (r' :: rest)).headD r) :: defineReadsY m (r' :: rest)

/-- how the enclosing construct consumes the call's result: `if` / `for` / `!` and a right operand only follow the branch the
    call took (tnext / fnext); `&&` / `||` with the call as LEFT operand read the call's cell again when they compute their value
    (which constructs do is a property of cfg.go, observed by the correspondence run, not extracted) -/
inductive CondUse where
  | branchOnly | rereadsCell
  deriving DecidableEq, Repr

/-- what the consumer sees after each of the successive calls; the cell of a fresh frame holds false -/
def condSeenY (s : BranchStore) (u : CondUse) (rs : List Bool) : List Bool :=
  match u with
  | .branchOnly => rs
  | .rereadsCell => branchReadsY s false rs

/-! ## 7. The reflect.MakeFunc wrapper (genFunctionWrapper, getFunc) and the in-script call -/

/-- how a parameter of the interpreted function is declared -/
inductive PKind where
  | plain | emptyIface | scriptIface
  deriving DecidableEq, Repr

/-- An interpreted function: `body` runs the CFG on the frame data; it may call function values through the
    oracle it is given (`call r args`). -/
structure FnDef where
  numRet : Nat
  params : List PKind
  nLocals : Nat
  body : (Rep → List Rep → List Rep) → List Rep → List Rep

def FnDef.frameLen (d : FnDef) : Nat := d.numRet + d.params.length + d.nLocals

def setAt (l : List Rep) (i : Nat) (v : Rep) : List Rep := l.set i v

/-- copy of one argument into its frame cell -/
def copyArg (k : PKind) (arg : Rep) : Rep :=
  match k with
  | .scriptIface => (match arg with | .nil => .vi .nil | r => .vi (unbox r))   -- valueInterface{value: arg.Elem()}
  | _ => arg

def fillArgs (skipShort : Bool) : (frame : List Rep) → (base : Nat) → List PKind → List Rep → List Rep
  | fr, _, _, [] => fr
  | fr, _, [], _ :: _ => fr
  | fr, base, k :: ks, a :: as =>
    if skipShort && base ≥ fr.length then fr
    else fillArgs skipShort (setAt fr base (copyArg k a)) (base + 1) ks as

/-- calling the reflect.MakeFunc wrapper of an interpreted function -/
def wrapperCallWith (lo : Nat) (hi : IExpr) (f : Facts) (d : FnDef) (call : Rep → List Rep → List Rep) (ins : List Rep) : List Rep :=
  let fr0 := List.replicate (if f.wrapFrameIsDefTypes then d.frameLen else 0) Rep.nil
  let fr1 := fillArgs f.wrapSkipShort fr0 (f.wrapArgBase.eval 0 d.numRet) d.params ins
  let fr2 := d.body call fr1
  (fr2.drop lo).take (hi.eval 0 d.numRet - lo)

def wrapperCall (f : Facts) := wrapperCallWith f.wrapResLo f.wrapResHi f
def closureCall (f : Facts) := wrapperCallWith f.getFuncResLo f.getFuncResHi f

/-- Where the wrapper of a method finds its receiver (`n.recv`). -/
inductive RecvSrc where
  | var (made now : Rep)   -- an expression of the script (`recv.node`): what it yields when the wrapper is MADE / when it is CALLED
  | held (v : Rep)         -- the value held by an interface (`receiver{val: rv}`, no node): fixed by the conversion

/-- `bindRecv`: reaching the receiver from the value the method is selected on, in a given state of the heap (`deref`, by
    address): a value-receiver method selected on a pointer `.ptr (.int a)` gets a copy of the pointee, every other combination the
    value itself (a pointer-receiver method of an addressable value takes the address of the cell: cells have no identity in
    this model, that case is exercised by the harness only). -/
def bindRecvY (deref : Nat → Rep) (wantsPtr : Bool) : Rep → Rep
  | .ptr (.int a) => if wantsPtr then .ptr (.int a) else deref a.toNat
  | r => r

/-- the receiver genFunctionWrapper stores in `d[numRet]`; `hMade` / `hNow` are the heap when the wrapper is made / called -/
def wrapperRecvY (f : Facts) (wantsPtr : Bool) (hMade hNow : Nat → Rep) : RecvSrc → Rep
  | .var made now => if f.wrapRecvAtCreation then bindRecvY hMade wantsPtr made else bindRecvY hNow wantsPtr now
  | .held v => if f.wrapRecvHeldAtCall then bindRecvY hNow wantsPtr v else bindRecvY hMade wantsPtr v

/-- Go: a method value `x.M` (also `defer x.M()`, `go x.M()`) evaluates and copies its receiver when it is evaluated; a method
    called through an interface value reaches the receiver from the value the interface holds at each call -/
def recvSpec (wantsPtr : Bool) (hMade hNow : Nat → Rep) : RecvSrc → Rep
  | .var made _ => bindRecvY hMade wantsPtr made
  | .held v => bindRecvY hNow wantsPtr v

/-! ### method values of HOST values (getIndexBinMethod & co) -/

/-- The receiver a method value `mv := x.M` of a host value is called with. reflect reads the receiver of `v.Method(i)` when
    the method value is CALLED if `v` is addressable (documented behaviour of reflect's method values over a variable: trusted);
    bindRecv hands reflect a copy, so the receiver is the one reached when the method value was EVALUATED. -/
def hostMethodRecvY (f : Facts) (wantsPtr : Bool) (hMade hNow : Nat → Rep) (made now : Rep) : Rep :=
  if f.hostMethodBindsRecv && f.bindRecvCopies then bindRecvY hMade wantsPtr made else bindRecvY hNow wantsPtr now

/-- the receiver record genInterfaceWrapper gives the method wrappers of a conversion `var s I = x` (`xConv`: what `x` yields at
    the conversion, `xNow`: when a method is called) -/
def ifaceRecvSrcY (f : Facts) (xConv xNow : Rep) : RecvSrc :=
  if f.ifaceWrapRecvHeld then .held xConv else .var xConv xNow

/-- Calling the reflect.MakeFunc wrapper of an interpreted METHOD (`n.recv != nil`; `d.params` starts with the receiver).
    The literal stores the receiver in `d[numRet]` and the arguments behind it (`d = d[numRet+1:]`). -/
def methodWrapperCall (f : Facts) (d : FnDef) (call : Rep → List Rep → List Rep) (wantsPtr : Bool) (hMade hNow : Nat → Rep)
    (src : RecvSrc) (ins : List Rep) : List Rep :=
  let fr0 := List.replicate (if f.wrapFrameIsDefTypes then d.frameLen else 0) Rep.nil
  let fr1 := setAt fr0 d.numRet (wrapperRecvY f wantsPtr hMade hNow src)
  let fr2 := fillArgs f.wrapSkipShort fr1 (d.numRet + f.wrapRcvrShift) d.params.tail ins
  let fr3 := d.body call fr2
  (fr3.drop f.wrapResLo).take (f.wrapResHi.eval 0 d.numRet - f.wrapResLo)

/-- the same function called inside the script (`call`): fresh frame, arguments copied behind the results, the
    results are the first `numRet` cells -/
def innerCall (d : FnDef) (call : Rep → List Rep → List Rep) (args : List Rep) : List Rep :=
  let fr0 := List.replicate d.frameLen Rep.nil
  let fr1 := fillArgs false fr0 d.numRet d.params args
  (d.body call fr1).take d.numRet

/-- applying a function representation: a wrapper runs `wrapperCall`, a *node the in-script call; calls made by the
    body go through the same oracle one level down (so callbacks cross the boundary again) -/
def applyFn (f : Facts) (env : Nat → FnDef) (host : Nat → List Rep → List Rep) : Nat → Rep → List Rep → List Rep
  | 0, _, _ => []
  | n + 1, .mkfunc id false, args => wrapperCall f (env id) (applyFn f env host n) args
  | n + 1, .mkfunc id true, args => closureCall f (env id) (applyFn f env host n) args
  | n + 1, .node id, args => innerCall (env id) (applyFn f env host n) args
  | _ + 1, .native id, args => host id args
  | _ + 1, _, _ => []

/-! ## 8. One wrapper value, several invocations

  A wrapper value may be invoked again while one of its own invocations is still active (a stored callback that re-enters
  itself through the host). `ReFn` is a function whose body runs `pre`, makes ONE nested invocation of the same wrapper
  (unless it is at the last level: `leaf`) and then runs `post` on ITS frame and the nested results. `perCall` is the fact
  "the frame is allocated inside the reflect.MakeFunc closure"; with `perCall = false` all invocations of the value share
  one frame, which every invocation re-initialises. -/

structure ReFn where
  numRet : Nat
  params : List PKind
  nLocals : Nat
  pre : List Rep → List Rep               -- up to the nested call
  post : List Rep → List Rep → List Rep    -- frame, results of the nested call ↦ frame
  leaf : List Rep → List Rep               -- the innermost level makes no call

def ReFn.frameLen (d : ReFn) : Nat := d.numRet + d.params.length + d.nLocals

/-- `d[i] = reflect.New(t).Elem()` for every cell, then the arguments behind the result cells -/
def ReFn.init (d : ReFn) (args : List Rep) : List Rep :=
  fillArgs true (List.replicate d.frameLen Rep.nil) d.numRet d.params args

/-- nested invocations of ONE wrapper value, outermost first; `shared` is the value's frame when `perCall = false`.
    Returns the results of the outermost invocation and the shared frame afterwards. -/
def runLevels (perCall : Bool) (d : ReFn) : List (List Rep) → List Rep → List Rep × List Rep
  | [], sh => ([], sh)
  | [args], sh =>
    let fr := d.leaf (d.init args)
    (fr.take d.numRet, if perCall then sh else fr)
  | args :: rest, sh =>
    let fr := d.pre (d.init args)
    let r := runLevels perCall d rest (if perCall then sh else fr)
    -- after the nested invocation returned, this invocation goes on with ITS frame — or with the shared one
    let frNow := if perCall then fr else r.2
    let fr' := d.post frNow r.1
    (fr'.take d.numRet, if perCall then sh else fr')

/-- the contract: every level has its own activation -/
def specLevels (d : ReFn) : List (List Rep) → List Rep
  | [] => []
  | [args] => (d.leaf (d.init args)).take d.numRet
  | args :: rest => (d.post (d.pre (d.init args)) (specLevels d rest)).take d.numRet

/-- Sum(n) = n + Sum(n-1) through the host: cell 0 the result, cell 1 the parameter n -/
def sumFn : ReFn :=
  { numRet := 1, params := [.plain], nLocals := 0,
    pre := fun fr => fr,
    post := fun fr r =>
      match fr.getD 1 .nil, r.headD .nil with
      | .int n, .int s => fr.set 0 (.int (n + s))
      | _, _ => fr,
    leaf := fun fr => fr.set 0 (.int 0) }

end YaegiVerif.Boundary
