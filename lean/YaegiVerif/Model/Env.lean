import YaegiVerif.Spec.OsEnv
/-
  C13 — model of the environment of a yaegi interpreter (interp/interp.go `New`: Options.Env parsing;
  interp/use.go `fixStdlib`: the seven overrides over `interp.env`). Core Lean only.

  State = the host process environment × the interpreter's own map. Which of the seven os functions work on
  the interpreter's map is a parameter (`virt`, computed from the regenerated facts by
  `Restricted.envVirtual`): a function that is not overridden is the host's own and works on the host
  environment.

  The interpreter's map is a Go `map[string]string`; it is modelled as an association list in some iteration
  order whose names are pairwise distinct (`WF`).
-/
namespace YaegiVerif.Env
open YaegiVerif.Spec.OsEnv

abbrev Env := List (String × String)

def get? : Env → String → Option String
  | [], _ => none
  | (k', v) :: r, k => if k' = k then some v else get? r k

/-- `m[k] = v` -/
def set : Env → String → String → Env
  | [], k, v => [(k, v)]
  | (k', v') :: r, k, v => if k' = k then (k, v) :: r else (k', v') :: set r k v

/-- `delete(m, k)` -/
def unset : Env → String → Env
  | [], _ => []
  | (k', v') :: r, k => if k' = k then unset r k else (k', v') :: unset r k

structure St where
  host : Env
  virt : Env
  deriving DecidableEq, Repr, Inhabited

/-- the bodies of the overrides of `fixStdlib`, on the interpreter's map:
      Clearenv  : interp.env = map[string]string{}
      ExpandEnv : os.Expand(s, getenv)          getenv := func(key) string { return interp.env[key] }
      Getenv    : getenv
      LookupEnv : s, ok = interp.env[key]
      Setenv    : interp.env[key] = value; return nil
      Unsetenv  : delete(interp.env, key); return nil
      Environ   : for k, v := range interp.env { a = append(a, k+"="+v) } -/
def applyVirt (e : Env) : Op → Env × Out
  | .setenv k v => (set e k v, .err none)
  | .unsetenv k => (unset e k, .err none)
  | .clearenv => ([], .unit)
  | .getenv k => (e, .str ((get? e k).getD ""))
  | .lookupEnv k => (e, .strOk ((get? e k).getD "") (get? e k).isSome)
  | .environ => (e, .pairs e)
  | .expandEnv s => (e, .str (String.ofList (expand (fun n => ((get? e (String.ofList n)).getD "").toList) s.toList)))

/-- the host's own functions on the process environment (package os / syscall on unix: Setenv rejects an empty
    name, a name containing `=` or NUL and a value containing NUL; Unsetenv of such a name is a no-op) -/
def badName (k : String) : Bool := k.isEmpty || k.toList.any (fun c => c == '=' || c.toNat == 0)
def badValue (v : String) : Bool := v.toList.any (fun c => c.toNat == 0)

def applyHost (e : Env) : Op → Env × Out
  | .setenv k v => if badName k || badValue v then (e, .err (some "invalid argument")) else (set e k v, .err none)
  | .unsetenv k => (unset e k, .err none)
  | .clearenv => ([], .unit)
  | .getenv k => (e, .str ((get? e k).getD ""))
  | .lookupEnv k => (e, .strOk ((get? e k).getD "") (get? e k).isSome)
  | .environ => (e, .pairs e)
  | .expandEnv s => (e, .str (String.ofList (expand (fun n => ((get? e (String.ofList n)).getD "").toList) s.toList)))

/-- one call of `os.<fn>` by a script; `virt` = names of the functions that work on the interpreter's map -/
def step (virt : List String) (s : St) (op : Op) : St × Out :=
  if virt.contains op.fn then
    let r := applyVirt s.virt op
    ({ s with virt := r.1 }, r.2)
  else
    let r := applyHost s.host op
    ({ s with host := r.1 }, r.2)

def run (virt : List String) : St → List Op → St × List Out
  | s, [] => (s, [])
  | s, op :: ops =>
    let r := step virt s op
    let rest := run virt r.1 ops
    (rest.1, r.2 :: rest.2)

/-- interp.New: `a := strings.SplitN(e, "=", 2); if len(a) == 2 { env[a[0]] = a[1] } else { env[a[0]] = "" }` -/
def splitN2 (e : List Char) : List Char × List Char :=
  match e with
  | [] => ([], [])
  | c :: cs => if c == '=' then ([], cs) else let r := splitN2 cs; (c :: r.1, r.2)

def parseEnv (entries : List String) : Env :=
  entries.foldl (fun e s => let kv := splitN2 s.toList; set e (String.ofList kv.1) (String.ofList kv.2)) []

/-- `Options.Unrestricted` leaves the map empty -/
def initVirt (unrestricted : Bool) (entries : List String) : Env := if unrestricted then [] else parseEnv entries

end YaegiVerif.Env
