/-
  C13 — model of yaegi's restricted mode (stdlib symbol tables, `Use` + `fixStdlib`, `importSpec`,
  `ImportUsed`). Core Lean only.

  Everything that is a *choice made in the source text* is a field of `Facts` and is regenerated from
  the repository by extract/cmd/c13 (Generated/C13.lean):
    * the keys of the default table `stdlib.Symbols` (host file selection),
    * for the packages os, log, fmt, flag, log/slog: every exported name with the expression it is bound to,
    * the functions of the whole default table whose results mention `log.Logger` (go/types),
    * the functions and methods of stdlib/restricted.go with what they call,
    * every `p["Name"] = …` of interp/use.go `fixStdlib` with its guards and free identifiers,
    * the symbol sets loaded by cmd/yaegi/run.go and the flag that gates each,
    * the fields of interp.Options and, for each, the statement of interp.New that moves it into the
      interpreter (which condition guards the default: `== nil`, `len(…) > 0`, none).
  The functions below compute, for any value of those facts, what a script call reaches: a panic or the
  host's exit, the streams of `Options` or the host's, the virtual environment or the host's.
-/
namespace YaegiVerif.Restricted

/-! ### facts -/

/-- the Go expression a name of a symbol table is bound to -/
inductive Bind where
  | host (pkg name : String)       -- reflect.ValueOf(pkg.Name)           the host's own function / constant
  | hostVar (pkg name : String)    -- reflect.ValueOf(&pkg.Name).Elem()   the host's own variable
  | hostType (pkg name : String)   -- reflect.ValueOf((*pkg.Name)(nil))   the host's own type
  | const                          -- reflect.ValueOf(constant.MakeFromLiteral(…))
  | loc (ident : String)           -- reflect.ValueOf(ident)              a function of package stdlib itself
  | locType (ident : String)       -- reflect.ValueOf((*ident)(nil))      a type of package stdlib itself
  | other (text : String)
  deriving DecidableEq, Repr, Inhabited

structure Entry where
  name : String
  bind : Bind
  deriving DecidableEq, Repr, Inhabited

/-- one package of the default table -/
structure PkgTable where
  pkg : String
  entries : List Entry
  deriving DecidableEq, Repr, Inhabited

/-- a key of a symbol table with what `Interpreter.Use` derives from it (`path.Dir`, `path.Base`) -/
structure Key where
  key : String
  dir : String
  base : String
  deriving DecidableEq, Repr, Inhabited

/-- an identifier or selector chain as written in the source, with its first and last component
    (split by the extractor: the kernel does not evaluate string splitting) -/
structure Ident where
  text : String             -- "l.l.Panic"
  root : String             -- "l"
  last : String             -- "Panic"
  deriving DecidableEq, Repr, Inhabited

/-- a function or method declared in stdlib/restricted.go -/
structure Decl where
  name : String             -- "osExit", "logLogger.Fatal"
  results : List String     -- result types, a leading `*` removed: "logLogger"
  callees : List Ident      -- what the body calls, as written: "panic", "log.Panic", "l.l.Panic"
  deriving DecidableEq, Repr, Inhabited

/-- a function of the default table whose result types mention `log.Logger` -/
structure LoggerSrc where
  pkg : String
  name : String
  bind : Bind
  results : List String
  deriving DecidableEq, Repr, Inhabited

/-- the forms of an assigned expression of `fixStdlib` whose meaning the model reads (recognised by the extractor):
      method  : `recv.MethodByName("m")`                                            the method `m` of the local `recv`
      constFn : `reflect.MakeFunc(T, func(…) []reflect.Value { return []reflect.Value{x} })`   a function that returns the local `x`
      remap   : `reflect.ValueOf(func(a, b) R { if b == A { b = B } …; return fn(a, b) })`     the host's `fn` with a parameter
                value `A` replaced by `B`
      expr    : anything else — only the free identifiers are known -/
inductive RebindShape where
  | expr
  | method (recv m : String)
  | constFn (result : String)
  | remap (fn : String) (maps : List (Ident × Ident))
  deriving DecidableEq, Repr, Inhabited

/-- a `p["Name"] = …` assignment of `fixStdlib` (the body of `for _, name := range []string{…} { p[name] = … }` is
    emitted once per element) -/
structure Rebind where
  pkg : String
  name : String
  guards : List String      -- enclosing conditions (other than `binPkg[pkg] != nil`)
  free : List Ident         -- free identifiers / selector chains of the assigned expression
  shape : RebindShape := .expr
  deriving DecidableEq, Repr, Inhabited

/-- `name = expr` after the declaration of a local of `fixStdlib`, with the enclosing conditions -/
structure LocalAssign where
  guards : List String
  expr : String
  free : List Ident
  deriving DecidableEq, Repr, Inhabited

/-- a local of `fixStdlib` (`c := flag.NewFlagSet(prog, …)`): the free identifiers of everything that defines,
    configures or reassigns it, the section (`binPkg` key) it is declared in, the defining expression as written and
    the later assignments -/
structure LocalDef where
  name : String
  free : List Ident
  pkg : String := ""
  expr : String := ""
  assigns : List LocalAssign := []
  deriving DecidableEq, Repr, Inhabited

/-- `i.Use(set.Symbols)` in cmd/yaegi/run.go -/
structure UseCall where
  set : String              -- stdlib, interp, syscall, unsafe, unrestricted
  guard : String            -- "" or the variable of the enclosing `if`
  deriving DecidableEq, Repr, Inhabited

/-- `rflag.BoolVar(&v, "flag", v, …)` with `v, _ := strconv.ParseBool(os.Getenv("ENV"))` -/
structure GateFlag where
  var : String
  flag : String
  env : String
  deriving DecidableEq, Repr, Inhabited

/-- how one field of `interp.Options` reaches the interpreter's own state in `interp.New`:
      default-if : `if T = options.F; COND(T) { T = DFLT }`        (Stdin, Stdout, Stderr, Args)
      set-if     : `if COND(options.F) { T = options.F }`          (SourcecodeFilesystem, BuildTags); DFLT = what the
                   composite literal at the head of `New` puts into T
      always     : `T = options.F`                                  (GoPath)
      flag       : `if options.F { T = true }`                      (Unrestricted)
      range      : `for _, e := range options.F { T[…] = … }`       (Env); DFLT = the initial map of the literal
    `cond` is the condition as written with the tested value replaced by `_`; `outer` the enclosing conditions -/
structure OptFlow where
  field : String            -- "Args"
  slot : String             -- last component of the target: "args"
  target : String           -- "i.opt.args"
  kind : String
  cond : String             -- "_ == nil"
  dflt : String             -- "os.Args"
  outer : List String
  deriving DecidableEq, Repr, Inhabited

structure Facts where
  defaultKeys : List Key
  gated : List (String × List Key)        -- symbol sets of stdlib/unrestricted, stdlib/unsafe, stdlib/syscall
  tables : List PkgTable
  loggerReturning : List LoggerSrc
  decls : List Decl
  rebinds : List Rebind
  locals : List LocalDef
  builtins : List (String × List Ident)  -- interp/run.go _print, _println: free identifiers
  uses : List UseCall
  gateFlags : List GateFlag
  optionFields : List (String × String) := []   -- interp.Options: every field with its type
  optFlows : List OptFlow := []                  -- interp.New: one entry per statement that reads a field of Options
  deriving Repr, Inhabited

/-! ### configuration of one interpreter -/

structure Cfg where
  unrestricted : Bool := false
  specialStdio : Bool := false
  stdinFile : Bool := false      -- Options.Stdin is an *os.File
  stdoutFile : Bool := false
  stderrFile : Bool := false
  deriving DecidableEq, Repr, Inhabited

/-- the conditions `fixStdlib` tests, as the extractor renders them -/
def evalGuard (c : Cfg) (g : String) : Bool :=
  if g == "!interp.unrestricted" then !c.unrestricted
  else if g == "interp.specialStdio" then c.specialStdio
  else if g == "!(interp.specialStdio)" then !c.specialStdio
  else if g == "stdin.(*os.File)" then c.stdinFile
  else if g == "stdout.(*os.File)" then c.stdoutFile
  else if g == "stderr.(*os.File)" then c.stderrFile
  else false

/-! ### what a name denotes after `Use(stdlib.Symbols)` (which runs `fixStdlib`) -/

def lookupTable (F : Facts) (pkg name : String) : Option Bind :=
  match F.tables.find? (fun t => t.pkg == pkg) with
  | some t => (t.entries.find? (fun e => e.name == name)).map (·.bind)
  | none =>
    -- packages whose table is not carried in full: only their logger-returning functions are known
    (F.loggerReturning.find? (fun s => s.pkg == pkg && s.name == name)).map (·.bind)

/-- the last applicable assignment of `fixStdlib` wins -/
def lookupRebind (F : Facts) (c : Cfg) (pkg name : String) : Option Rebind :=
  F.rebinds.reverse.find? (fun r => r.pkg == pkg && r.name == name && r.guards.all (evalGuard c))

inductive Eff where
  | override (r : Rebind)
  | table (b : Bind)
  | absent
  deriving DecidableEq, Repr, Inhabited

def effective (F : Facts) (c : Cfg) (pkg name : String) : Eff :=
  match lookupRebind F c pkg name with
  | some r => .override r
  | none => match lookupTable F pkg name with
    | some b => .table b
    | none => .absent

/-- free identifiers of an override with the locals of `fixStdlib` resolved (two levels are enough:
    `ExpandEnv → getenv → interp.env`) -/
def resolve1 (F : Facts) (ids : List Ident) : List Ident :=
  ids.flatMap fun i =>
    match F.locals.find? (fun l => l.name == i.root) with
    | some l => i :: l.free
    | none => [i]

def closure (F : Facts) (ids : List Ident) : List Ident := resolve1 F (resolve1 F ids)

/-! ### process exit -/

inductive Outcome where
  | panics | exits | returns | unknown
  deriving DecidableEq, Repr, Inhabited

def panicNames : List String := ["Panic", "Panicf", "Panicln"]
def fatalNames : List String := ["Fatal", "Fatalf", "Fatalln"]

/-- what a called identifier of a replacement body does -/
def calleeOutcome (callee : Ident) : Outcome :=
  if callee.text == "panic" || panicNames.contains callee.last then .panics
  else if fatalNames.contains callee.last || callee.last == "Exit" then .exits
  else .returns

def bodyOutcome (callees : List Ident) : Outcome :=
  if callees.any (fun c => calleeOutcome c == .exits) then .exits
  else if callees.any (fun c => calleeOutcome c == .panics) then .panics
  else .returns

/-- the host's own functions (documented behaviour of os and log) -/
def hostFnOutcome (pkg name : String) : Outcome :=
  if pkg == "os" && name == "Exit" then .exits
  else if pkg == "log" && fatalNames.contains name then .exits
  else if pkg == "log" && panicNames.contains name then .panics
  else .returns

/-- methods of the host's `*log.Logger` -/
def hostLoggerMethod (m : String) : Outcome :=
  if fatalNames.contains m then .exits else if panicNames.contains m then .panics else .returns

def findDecl (F : Facts) (n : String) : Option Decl := F.decls.find? (fun d => d.name == n)

/-! #### loggers -/

/-- what a logger value is -/
inductive LoggerKind where
  | wrapper (type : String)   -- a value of a type of restricted.go (`logLogger`): its methods are the `Decl`s `type.m`
  | host                      -- the host's own `*log.Logger`
  | unknown
  deriving DecidableEq, Repr, Inhabited

/-- `logger.m(…)` -/
def loggerMethodOutcome (F : Facts) (k : LoggerKind) (m : String) : Outcome :=
  match k with
  | .wrapper t => match findDecl F (t ++ "." ++ m) with
    | some md => bodyOutcome md.callees
    | none => .unknown
  | .host => hostLoggerMethod m
  | .unknown => .unknown

/-- the logger a binding of a symbol table makes: a function of restricted.go returns its declared result type, a
    host function listed by the go/types scan returns the host's `*log.Logger` -/
def bindLogger (F : Facts) (pkg name : String) (b : Bind) : LoggerKind :=
  match b with
  | .loc d => match findDecl F d with
    | some dd => match dd.results with
      | [t] => .wrapper t
      | _ => .unknown
    | none => .unknown
  | .host _ _ => if F.loggerReturning.any (fun s => s.pkg == pkg && s.name == name) then .host else .unknown
  | _ => .unknown

def findLocal (F : Facts) (n : String) : Option LocalDef := F.locals.find? (fun l => l.name == n)

/-- the conditions on the locals of `fixStdlib`, as the extractor renders them -/
def evalLocalGuard (F : Facts) (c : Cfg) (g : String) : Option Bool :=
  if g == "interp.unrestricted || !newLogger.IsValid()" then some (c.unrestricted || (lookupTable F "log" "New").isNone)
  else if g == "interp.unrestricted" then some c.unrestricted
  else if g == "!interp.unrestricted" then some (!c.unrestricted)
  else none

def loggerCallExpr : String :=
  "newLogger.Call([]reflect.Value{reflect.ValueOf(stderr), reflect.ValueOf(\"\"), reflect.ValueOf(log.LstdFlags)})[0]"

/-- the logger held by a local of `fixStdlib`, read from the extracted definitions:
      l := log.New(stderr, "", log.LstdFlags)                                   (before 77e1d98) the host's logger
      newLogger := p["New"]; if G { newLogger = reflect.ValueOf(log.New) }; l := newLogger.Call(…)[0]
                                                                                the logger made by the script's own
                                                                                log.New (table entry), by the host's when G -/
def localLogger (F : Facts) (c : Cfg) (x : String) : LoggerKind :=
  match findLocal F x with
  | some lx =>
    if lx.assigns != [] then .unknown
    else if lx.expr == "log.New(stderr, \"\", log.LstdFlags)" then .host
    else if lx.expr == loggerCallExpr then
      match findLocal F "newLogger" with
      | some nl =>
        if nl.expr == "p[\"New\"]" && nl.pkg == lx.pkg && (F.rebinds.all fun r => !(r.pkg == nl.pkg && r.name == "New")) then
          let fromTable := match lookupTable F nl.pkg "New" with
            | some b => bindLogger F nl.pkg "New" b
            | none => .unknown
          match nl.assigns with
          | [] => fromTable
          | [a] =>
            if a.expr == "reflect.ValueOf(log.New)" then
              match a.guards.mapM (evalLocalGuard F c) with
              | some gs => if gs.all id then .host else fromTable
              | none => .unknown
            else .unknown
          | _ => .unknown
        else .unknown
      | none => .unknown
    else .unknown
  | none => .unknown

/-- what a call of an override of `fixStdlib` does -/
def rebindOutcome (F : Facts) (c : Cfg) (r : Rebind) : Outcome :=
  match r.shape with
  | .expr => bodyOutcome (closure F r.free)
  | .method recv m => loggerMethodOutcome F (localLogger F c recv) m
  | .constFn _ => .returns
  | .remap _ _ => .returns

/-- `pkg.name(…)` -/
def callOutcome (F : Facts) (c : Cfg) (pkg name : String) : Outcome :=
  match effective F c pkg name with
  | .override r => rebindOutcome F c r
  | .table (.host p n) => hostFnOutcome p n
  | .table (.loc d) => match findDecl F d with
    | some dd => bodyOutcome dd.callees
    | none => .unknown
  | _ => .unknown

/-- the logger `pkg.name(…)` returns -/
def loggerOf (F : Facts) (c : Cfg) (pkg name : String) : LoggerKind :=
  match effective F c pkg name with
  | .override r => match r.shape with
    | .constFn x => localLogger F c x
    | _ => .unknown
  | .table b => bindLogger F pkg name b
  | .absent => .unknown

/-- `pkg.name(…).m(…)` where `pkg.name` returns a logger -/
def methodOutcome (F : Facts) (c : Cfg) (pkg name m : String) : Outcome :=
  loggerMethodOutcome F (loggerOf F c pkg name) m

/-! #### flag sets -/

/-- the host's `flag.FlagSet` on a parse error, by error handling (documented behaviour of package flag) -/
def hostFlagError (handling : String) : Outcome :=
  if handling == "ExitOnError" then .exits else if handling == "PanicOnError" then .panics else .returns

/-- `if h == A { h = B }` … applied in order to the name of a constant -/
def remapConst (maps : List (Ident × Ident)) (h : String) : String :=
  maps.foldl (fun cur m => if m.1.last == cur then m.2.last else cur) h

/-- `flag.NewFlagSet("x", flag.<handling>).Parse(bad arguments)`: the host's constructor, directly or with the error
    handling remapped by the override of fixStdlib -/
def flagSetOutcome (F : Facts) (c : Cfg) (handling : String) : Outcome :=
  match effective F c "flag" handling with
  | .table (.host "flag" h) =>
    match effective F c "flag" "NewFlagSet" with
    | .table (.host "flag" "NewFlagSet") => hostFlagError h
    | .override r => match r.shape with
      | .remap fn maps =>
        if fn == "flag.NewFlagSet" && maps.all (fun m => m.1.root == "flag" && m.2.root == "flag") then hostFlagError (remapConst maps h)
        else .unknown
      | _ => .unknown
    | _ => .unknown
  | _ => .unknown

/-- `fs.Init("x", flag.<handling>); fs.Parse(bad arguments)` for any `*flag.FlagSet` (a zero value, the result of
    flag.NewFlagSet, flag.CommandLine): `Init` is a method of the host's type, no rebinding of a name reaches it -/
def flagSetInitOutcome (F : Facts) (c : Cfg) (handling : String) : Outcome :=
  match effective F c "flag" "FlagSet", effective F c "flag" handling with
  | .table (.hostType "flag" "FlagSet"), .table (.host "flag" h) => hostFlagError h
  | _, _ => .unknown

/-- a call a script can make to end the process -/
inductive ExitCall where
  | fn (pkg name : String)
  | method (pkg name m : String)
  | flagSet (handling : String)
  | flagSetInit (handling : String)
  deriving DecidableEq, Repr, Inhabited

def exitOutcome (F : Facts) (c : Cfg) : ExitCall → Outcome
  | .fn p n => callOutcome F c p n
  | .method p n m => methodOutcome F c p n m
  | .flagSet h => flagSetOutcome F c h
  | .flagSetInit h => flagSetInitOutcome F c h

/-! ### streams -/

inductive Stream where
  | optStdout | optStderr | optStdin | hostStdout | hostStderr | hostStdin | args | hostArgs | hostFlag | unknown
  deriving DecidableEq, Repr, Inhabited

/-- which stream the (resolved) free identifiers of an override reach -/
def hasId (ids : List Ident) (t : String) : Bool := ids.any (fun i => i.text == t)

def streamOfIds (ids : List Ident) : Stream :=
  if hasId ids "stdout" || hasId ids "n.interp.stdout" then .optStdout
  else if hasId ids "stderr" then .optStderr
  else if hasId ids "stdin" then .optStdin
  else if hasId ids "interp.args" then .args
  else if hasId ids "os.Stdout" then .hostStdout
  else if hasId ids "os.Stderr" then .hostStderr
  else if hasId ids "os.Stdin" then .hostStdin
  else if hasId ids "os.Args" then .hostArgs
  else .unknown

def fmtPrint : List String := ["Print", "Printf", "Println"]
def fmtScan : List String := ["Scan", "Scanf", "Scanln"]
def logOut : List String := ["Print", "Printf", "Println", "Panic", "Panicf", "Panicln", "Fatal", "Fatalf", "Fatalln", "Output"]
/-- package-level functions of log/slog that log through (or return, or derive a logger from) the default logger, which
    until slog.SetDefault is the host's standard logger of package log -/
def slogDefaultFns : List String :=
  ["Debug", "DebugContext", "Info", "InfoContext", "Warn", "WarnContext", "Error", "ErrorContext", "Log", "LogAttrs",
   "Default", "With"]
def flagCmdLineFns : List String :=
  ["Arg", "Args", "Bool", "BoolFunc", "BoolVar", "Duration", "DurationVar", "Float64", "Float64Var", "Func", "Int",
   "Int64", "Int64Var", "IntVar", "Lookup", "NArg", "NFlag", "Parse", "Parsed", "PrintDefaults", "Set", "String",
   "StringVar", "TextVar", "Uint", "Uint64", "Uint64Var", "UintVar", "Usage", "Var", "Visit", "VisitAll"]

/-- the host's own functions and variables (documented behaviour of fmt, log, os, flag) -/
def hostStream (pkg name : String) : Stream :=
  if pkg == "fmt" && fmtPrint.contains name then .hostStdout
  else if pkg == "fmt" && fmtScan.contains name then .hostStdin
  else if pkg == "log" && logOut.contains name then .hostStderr
  else if pkg == "os" && name == "Stdout" then .hostStdout
  else if pkg == "os" && name == "Stderr" then .hostStderr
  else if pkg == "os" && name == "Stdin" then .hostStdin
  else if pkg == "os" && name == "Args" then .hostArgs
  -- the host's flag.CommandLine: parses the host's os.Args, reports to the host's os.Stderr
  else if pkg == "flag" && name == "CommandLine" then .hostFlag
  else if pkg == "flag" && flagCmdLineFns.contains name then .hostFlag
  -- the default logger of log/slog hands its records to the host's log.Default(), which writes to the host's os.Stderr
  else if pkg == "slog" && slogDefaultFns.contains name then .hostStderr
  else .unknown

/-- the stream / argument vector `pkg.name` reaches -/
def ioStream (F : Facts) (c : Cfg) (pkg name : String) : Stream :=
  match effective F c pkg name with
  | .override r => streamOfIds (closure F r.free)
  | .table (.host p n) => hostStream p n
  | .table (.hostVar p n) => hostStream p n
  | _ => .unknown

/-- the builtins `print` / `println` (interp/run.go `_print`, `_println`) -/
def builtinStream (F : Facts) (b : String) : Stream :=
  match F.builtins.find? (fun x => x.1 == b) with
  | some x => streamOfIds x.2
  | none => .unknown

/-- output of `pkg.name(…).Print(…)` for a logger source -/
def loggerStream (F : Facts) (c : Cfg) (pkg name : String) : Stream :=
  match effective F c pkg name with
  | .override r => match r.shape with
    -- a function that returns a local of fixStdlib: the writer that local was created over
    | .constFn x => if localLogger F c x == .unknown then .unknown else streamOfIds (closure F [⟨x, x, x⟩])
    | _ => .unknown
  | .table (.host p n) =>
    -- the host's standard logger writes to the host's os.Stderr
    if F.loggerReturning.any (fun s => s.pkg == pkg && s.name == name) && p == "log" && n == "Default" then .hostStderr
    else .unknown
  | _ => .unknown

/-! ### environment functions: virtual or host -/

def envFns : List String := ["Setenv", "Unsetenv", "Clearenv", "Getenv", "LookupEnv", "Environ", "ExpandEnv"]

/-- does `os.name` work on the interpreter's own map (and on nothing else)? -/
def envVirtual (F : Facts) (c : Cfg) (name : String) : Bool :=
  match effective F c "os" name with
  | .override r =>
    let ids := closure F r.free
    hasId ids "interp.env" && !(ids.any fun i => (i.root == "os" && i.text != "os.Expand") || i.root == "syscall")
  | _ => false

/-- functions of package os that consult the process environment themselves (documented behaviour):
    HOME / XDG_CACHE_HOME / XDG_CONFIG_HOME / TMPDIR on unix -/
def hostEnvReaders : List String := ["UserHomeDir", "UserCacheDir", "UserConfigDir", "TempDir"]

inductive EnvSrc where
  | virt | host | unknown
  deriving DecidableEq, Repr, Inhabited

/-- which environment `os.name` consults -/
def envSource (F : Facts) (c : Cfg) (name : String) : EnvSrc :=
  if envVirtual F c name then .virt
  else match effective F c "os" name with
    | .table (.host "os" n) => if envFns.contains n || hostEnvReaders.contains n then .host else .unknown
    | _ => .unknown

/-! ### `Interpreter.Use`, `importSpec`, `ImportUsed` -/

def selfPrefix : String := "github.com/traefik/yaegi"

/-- import paths present in `binPkg` after `Use` of tables with these keys
    (the key "." carries MapTypes; keys directly under the interpreter's own path are hooks) -/
def binPkgOf (keys : List Key) : List String :=
  keys.filterMap fun k => if k.key == "." || k.dir == "." || k.dir == selfPrefix then none else some k.dir

/-- `pkgNames` -/
def pkgNameOf (keys : List Key) (path : String) : String :=
  match keys.find? (fun k => k.dir == path) with
  | some k => k.base
  | none => ""

inductive Form where
  | plain | named (n : String) | dot | blank
  deriving DecidableEq, Repr, Inhabited

/-- an import path together with `path.Dir` / `path.Base` of it -/
structure IPath where
  full : String
  dir : String
  base : String
  deriving DecidableEq, Repr, Inhabited

/-- `if packageName := path.Base(ipath); path.Dir(ipath) == packageName && interp.binPkg[packageName] != nil { ipath = packageName }`
    (since 444e842 only a binary package can be imported by the key of its exports, "fmt/fmt"; `import "x/x"` of a source
    package stays "x/x") -/
def IPath.norm (binPkg : List String) (p : IPath) : String :=
  if p.dir == p.base && binPkg.contains p.base then p.base else p.full

inductive ImportRes where
  | bin (path : String) (form : Form)     -- symbols of a binary package made visible
  | src (path : String) (form : Form)     -- a source package was loaded
  | error (path : String)
  deriving DecidableEq, Repr, Inhabited

/-- gta.go `case importSpec`: binary package first, then source; `srcHas` = importSrc finds and loads
    the package from the source tree (GOPATH / vendor / the source file system). `p` is the path after the rewriting
    of a relative path (`./x`, `../x` stay relative — `relativePath` — and so never name a binary package) -/
def importSpec (binPkg : List String) (srcHas : String → Bool) (form : Form) (p : IPath) : ImportRes :=
  let ip := p.norm binPkg
  if binPkg.contains ip then .bin ip form
  else if srcHas ip then .src ip form
  else .error ip

def ImportRes.isError : ImportRes → Bool
  | .error _ => true
  | _ => false

/-- a package of `binPkg` as `ImportUsed` sees it: `path.Base(k)` and `fixKey(k)` (the last "/"
    replaced by "_"; computed by the caller, the kernel does not evaluate string splitting) -/
structure UsedKey where
  path : String
  base : String
  alt : String
  deriving DecidableEq, Repr, Inhabited

/-- a package symbol of the universe scope -/
structure UsedSym where
  name : String
  key : UsedKey
  deriving DecidableEq, Repr, Inhabited

/-- one iteration of `ImportUsed`: on a name collision both entries are renamed -/
def importUsedStep (sc : List UsedSym) (k : UsedKey) : List UsedSym :=
  match sc.find? (fun e => e.name == k.base) with
  | some old => ⟨k.alt, k⟩ :: ⟨old.key.alt, old.key⟩ :: sc.filter (fun e => e.name != k.base && e.name != old.key.alt && e.name != k.alt)
  | none => ⟨k.base, k⟩ :: sc

/-- `ImportUsed`: package symbols of the universe scope after the loop (in some iteration order) -/
def importUsed (keys : List UsedKey) : List UsedSym := keys.foldl importUsedStep []

end YaegiVerif.Restricted
