import YaegiVerif.Model.Share
/-
  C04 — the capacity a new backing array gets from the Go runtime (go1.23 runtime/slice.go growslice →
  nextslicecap, runtime/msize.go roundupsize, runtime/sizeclasses.go).  The interpreter appends through
  reflect.Append → reflect.Value.grow → runtime.reflect_growslice → growslice with the same newLen and
  oldCap, so both sides of the correspondence use this one function.  Used by the driver only: every
  theorem is stated for an arbitrary `Growth`.
-/
namespace YaegiVerif.Share

def sizeClasses : List Nat :=
  [8, 16, 24, 32, 48, 64, 80, 96, 112, 128, 144, 160, 176, 192, 208, 224, 240, 256, 288, 320, 352, 384,
   416, 448, 480, 512, 576, 640, 704, 768, 896, 1024, 1152, 1280, 1408, 1536, 1792, 2048, 2304, 2688,
   3072, 3200, 3456, 4096, 4864, 5376, 6144, 6528, 6784, 6912, 8192, 9472, 9728, 10240, 10880, 12288,
   13568, 14336, 16384, 18432, 19072, 20480, 21760, 24576, 27264, 28672, 32768]

def roundUpSize (size : Nat) (noscan : Bool) : Nat :=
  if size ≤ 32768 - 8 then
    let req := if !noscan && size > 512 then size + 8 else size
    match sizeClasses.find? (fun c => req ≤ c) with
    | some c => c - (req - size)
    | none => size
  else (size + 8191) / 8192 * 8192

def nextSliceCapLoop : Nat → Nat → Nat → Nat
  | 0, newcap, _ => newcap
  | fuel + 1, newcap, newLen =>
    let nc := newcap + (newcap + 768) / 4
    if nc ≥ newLen then nc else nextSliceCapLoop fuel nc newLen

def nextSliceCap (newLen oldCap : Nat) : Nat :=
  if newLen > oldCap + oldCap then newLen
  else if oldCap < 256 then oldCap + oldCap
  else nextSliceCapLoop 64 oldCap newLen

def goGrowth : Growth := fun esz noscan oldCap newLen =>
  if esz = 0 then newLen
  else roundUpSize (nextSliceCap newLen oldCap * esz) noscan / esz

end YaegiVerif.Share
