import YaegiVerif.Model.ConstEval
/-
  C03 — model of yaegi's handling of the declaration around a constant expression:
  `var c [T] = e`, `const c [T] = e`, `const ( … )` blocks with iota and implicit repetition
  (interp/gta.go defineStmt case, interp/cfg.go pre-order `binaryExpr, unaryExpr, parenExpr` and post-order
  `assignStmt, defineStmt`, interp/typecheck.go assignExpr / assignment, interp/type.go defaultType,
  interp/run.go convertConstantValue, interp/ast.go implicit repetition).

  A global constant declaration is walked twice: once by `gta` (`interp.cfg(n, …)` on the defineStmt), once by
  the main `cfg` pass. Nodes keep the `typ` of the first walk, and the pre-order case pushes the type left on
  the declaration down the operator chain of the second walk.
-/
namespace YaegiVerif.Const

/-- facts about iota bookkeeping in gta.go / cfg.go: `if childPos(n) == len(n.anc.child)-1 { sc.iota = 0 } else { sc.iota++ }` -/
structure IotaFacts where
  /-- the else branch increments `sc.iota` -/
  incr : Bool
  /-- the then branch (last spec of the block) resets it to 0 -/
  reset : Bool
  /-- the ident `iota` is materialised from `sc.iota` -/
  fromScope : Bool
  deriving DecidableEq, Repr, Inhabited

structure DeclFacts where
  gta : IotaFacts          -- interp/gta.go (global declarations)
  cfg : IotaFacts          -- interp/cfg.go (the walk of function bodies, and the second walk of globals)
  /-- ast.go: an implicit spec duplicates type and expression of the spec at `childPos(a)-1` -/
  implicitPrev : Bool
  implicitType : Bool
  deriving DecidableEq, Repr, Inhabited

/-- `itype.defaultType(v, sc)` -/
def defaultTypeY (n : NS) : BT :=
  match n.ty with
  | .t b => b
  | .u k =>
    match n.rv with
    | .c (.str _) => .str
    | .c (.bool _) => .bool
    | .c (.int _) => if k == .rune then .i .int32 else .i .int
    | .c (.flt _) => .f64
    | _ => (match k with | .str => .str | .bool => .bool | .int => .i .int | .float => .f64 | .rune => .i .int32)

/-- `check.assignment(src, T, …)` -/
def assignY (F : Facts) (n : NS) (t : BT) : Res NS :=
  (if n.ty.untyped then
     (convertUntypedY F n (.t t)).bind fun r => match r with
       | some m => Res.ok m
       | none => Res.reject
   else Res.ok n).bind fun m =>
  if m.ty == .t t then .ok m else .reject

/-- the value that reaches a use site: `convertConstantValue` when `rval` still is a go/constant value.
    Its panic ("constant … overflows int64") happens in `genRun`, inside `Execute`, which returns it as an error. -/
def materialiseY (n : NS) : Res (CV × BT) :=
  match n.ty with
  | .u _ => .unm "untyped-at-use"
  | .t t =>
    match n.rv with
    | .r b v => if b == t then .ok (v, t) else .unm "kind-mismatch"
    | .c (.int v) =>
      if !int64Ok v then .reject
      else (match reflectConvert (.i .int) t (.int v) with
            | .ok (.r _ x) => .ok (x, t)
            | .unm w => .unm w
            | _ => .reject)
    | .c (.flt q) =>
      (match round64 q with
       | some r => (match reflectConvert .f64 t (.flt r) with
                    | .ok (.r _ x) => .ok (x, t)
                    | .unm w => .unm w
                    | _ => .reject)
       | none => .unm "float-inf")
    | .c (.str s) => if t == .str then .ok (.str s, t) else .reject
    | .c (.bool b) => if t == .bool then .ok (.bool b, t) else .reject
    | .c .unknown => .reject            -- reflect panics on the zero Value, inside Execute

/-- gta.go, defineStmt of a package-level `var` without a declared type: `nodeType(interp, sc, src)` is evaluated
    before any walk. type.go `nodeType2`, basicLit case, replaces the `rune` rval of a character literal by a
    go/constant value but only returns the type; the next `nodeType` on that literal (pre-order of the cfg walk)
    sees an Int constant and answers `untyped int`. The walk of nodeType2 visits: the first operand of a binary
    expression and, when that one is untyped and the operator is not a shift, the second; the operand of unary
    and parenthesised expressions; not the argument of a conversion. Returns the tree as the cfg walk sees it and
    whether the visited type was untyped. -/
def gtaNodeType : CExpr → CExpr × Bool
  | .rune v => (.int v, true)
  | .un a x => let (x', u) := gtaNodeType x; (.un a x', u)
  | .par x => let (x', u) := gtaNodeType x; (.par x', u)
  | .bin a x y =>
    let (x', u) := gtaNodeType x
    if u && !isShiftAct a then
      let (y', u') := gtaNodeType y
      (.bin a x' y', u')
    else (.bin a x' y, u)
  | .conv t x => (.conv t x, false)
  | .len x => (.len x, false)
  | e => (e, true)

/-- `var c = e` / `var c T = e` at package level: one walk -/
def varDeclY (F : Facts) (declT : Option BT) (e : CExpr) : Res (CV × BT) :=
  let env : Env := { iota := 0 }
  match unmodelled e with
  | some w => .unm w
  | none =>
  match declT with
  | none =>
    (evalY F env none (if F.eval.chk.runeLitKeepsType then e else (gtaNodeType e).1)).bind fun r =>
      (assignY F r (defaultTypeY r)).bind materialiseY
  | some t =>
    (evalY F env (some (.t t)) e).bind fun r =>
      (assignY F r t).bind materialiseY

/-- the gta walk of `const c [T] = e` with `iota = i` (`interp.cfg(n, …)` on the defineStmt, including the
    assignment check of a typed declaration). `first`: no package-level symbol has a frame slot yet. -/
def constGtaY (F : Facts) (i : Nat) (first : Bool) (declT : Option BT) (e : CExpr) : Res NS :=
  match unmodelled e with
  | some w => .unm w
  | none =>
    match declT with
    | none => evalY F { iota := i, inConst := true, noFrame := first } none e
    | some t => (evalY F { iota := i, inConst := true, noFrame := first } (some (.t t)) e).bind fun r1 => assignY F r1 t

/-- the cfg walk, given the node state the gta walk left on the declaration (including the assignment check of a
    typed declaration) -/
def constCfgY (F : Facts) (i : Nat) (declT : Option BT) (e : CExpr) (r1 : NS) : Res NS :=
  match declT with
  | none => evalY F { iota := i, inConst := true, pass2 := true } (some r1.ty) e
  | some t => (evalY F { iota := i, inConst := true, pass2 := true, typedDecl := true } (some (.t t)) e).bind fun r2 => assignY F r2 t

/-- a use of the constant as a value (conversion of an untyped constant to its default type), then the
    materialisation in code generation -/
def constUseY (F : Facts) (r2 : NS) : Res (CV × BT) :=
  if r2.ty.untyped then (assignY F r2 (defaultTypeY r2)).bind materialiseY
  else materialiseY r2

/-- outcome of a whole program: values, compile error, Go panic escaping `Eval`, "compile error, unless the
    retry of gta panics" (the model does not follow gta's revisit list), or outside the model -/
inductive Out where
  | ok (vs : List (CV × BT))
  | reject
  | crash
  | rejectOrCrash
  | unm (why : String)
  deriving Repr, DecidableEq, Inhabited

/-- one ConstSpec of a block: explicit `[T] = e`, or implicit repetition -/
inductive Spec where
  | explicit (t : Option BT) (e : CExpr)
  | implicit
  deriving Repr, Inhabited

/-- the running state while walking a block: the value of `sc.iota` and the (type, expression) of the previous spec -/
structure BlockState where
  iota : Nat
  first : Bool := true
  prev : Option (Option BT × CExpr)
  deriving Repr, Inhabited

/-- ast.go: the (type, expression) a spec stands for — its own, or a duplicate of the previous spec's -/
def resolveY (D : DeclFacts) (prev : Option (Option BT × CExpr)) (s : Spec) : Option (Option BT × CExpr) :=
  match s with
  | .explicit t e => some (t, e)
  | .implicit => if D.implicitPrev then prev.map (fun p => (if D.implicitType then p.1 else none, p.2)) else none

/-- what happens to one declaration: the gta walk; the cfg walk on what it left; the use -/
structure Stage where
  gta : Res NS
  cfg : NS → Res NS
  use : NS → Res (CV × BT)

/-- the stages of one resolved spec with `iota = i` -/
def stageY (F : Facts) (i : Nat) (first : Bool) (cur : Option (Option BT × CExpr)) : Stage :=
  match cur with
  | some (t, e) => { gta := constGtaY F i first t e, cfg := constCfgY F i t e, use := constUseY F }
  | none => { gta := .reject, cfg := fun _ => .reject, use := fun _ => .reject }

/-- `sc.iota` after a spec: unchanged if the spec was not accepted (gta returns before the update) -/
def nextIota (D : DeclFacts) (iota : Nat) (accepted isLast : Bool) : Nat :=
  if !accepted then iota
  else if isLast then (if D.cfg.reset then 0 else iota)
  else (if D.cfg.incr then iota + 1 else iota)

/-- walk the specs as gta does: resolve implicit repetition from the previous spec, evaluate with the current
    `sc.iota`, then — only if the spec was accepted — update `sc.iota` (`isLast` = the spec is the last child of the
    constDecl). Returns per spec the gta outcome and what remains to be done with it. -/
def blockWalkY (F : Facts) (D : DeclFacts) : BlockState → List Spec → List Stage
  | _, [] => []
  | st, s :: rest =>
    let cur := resolveY D st.prev s
    let g := stageY F (if D.cfg.fromScope then st.iota else 0) st.first cur
    let accepted : Bool := match g.gta with | .ok _ => true | _ => false
    g :: blockWalkY F D { iota := nextIota D st.iota accepted rest.isEmpty, first := st.first && !accepted, prev := cur } rest

def firstUnm (stages : List Stage) : Option String :=
  stages.findSome? (fun g => match g.gta with | .unm w => some w | _ => none)

/-- outcome of the first walk (gta's `cfg` on the whole constDecl): sequential, the first error stops it -/
def firstWalkY : List Stage → Res (List NS)
  | [] => .ok []
  | g :: rest => g.gta.bind fun n => (firstWalkY rest).bind fun ns => .ok (n :: ns)

/-- the later walks (gta per declaration, then the cfg pass): every declaration is walked again even after an
    error in another one, a Go panic aborts -/
def laterWalksY : List Stage → List NS → Res (List ((NS → Res (CV × BT)) × NS))
  | g :: rest, n :: ns =>
    (match g.cfg n, laterWalksY rest ns with
     | .crash, _ => .crash
     | _, .crash => .crash
     | .unm w, _ => .unm w
     | _, .unm w => .unm w
     | .ok m, .ok ms => .ok ((g.use, m) :: ms)
     | _, _ => .reject)
  | _, _ => .ok []

/-- the use sites and code generation, in source order -/
def usePhaseY : List ((NS → Res (CV × BT)) × NS) → Res (List (CV × BT))
  | [] => .ok []
  | (u, m) :: rest => (u m).bind fun v => (usePhaseY rest).bind fun vs => .ok (v :: vs)

/-- A package-level constant declaration (block) is walked three times: by gta's constDecl case (`cfg` on the
    whole block; an error silently stops it, a Go panic escapes), by gta's defineStmt case for each spec (`cfg`
    again, with the node types of the first walk; an error puts the spec on the revisit list), and by the cfg
    pass. When the first walk stops on an error the model does not follow the rest (the specs behind the error
    are then first walked with whatever `sc.iota` is left): the outcome is "compile error or panic". -/
def combineY (stages : List Stage) : Out :=
  match firstUnm stages with
  | some w => .unm w
  | none =>
    match firstWalkY stages with
    | .crash => .crash
    | .reject => .rejectOrCrash
    | .unm w => .unm w
    | .ok ns =>
      match (laterWalksY stages ns).bind usePhaseY with
      | .ok vs => .ok vs
      | .reject => .reject
      | .crash => .crash
      | .unm w => .unm w

def blockY (F : Facts) (D : DeclFacts) (specs : List Spec) : Out :=
  combineY (blockWalkY F D { iota := 0, first := true, prev := none } specs)

/-- `const c [T] = e` alone at package level -/
def constDeclY (F : Facts) (declT : Option BT) (e : CExpr) : Out :=
  combineY [stageY F 0 true (some (declT, e))]

def outOfRes (r : Res (CV × BT)) : Out :=
  match r with
  | .ok v => .ok [v]
  | .reject => .reject
  | .crash => .crash
  | .unm w => .unm w

end YaegiVerif.Const
