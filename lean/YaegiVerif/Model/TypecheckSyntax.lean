/-
  C12 — the typing fragment shared by the model of yaegi's checks (Model/Typecheck.lean) and the
  reading of the Go specification (Spec/GoTyping.lean): flat types, operands, expressions,
  statements, and ONE traversal parametrised by the per-context rules. Both sides run the same
  traversal with their own rules, so the comparison theorems reduce to per-rule lemmas.
  Core Lean only.
-/
namespace YaegiVerif.Typecheck

/-! ### types -/

inductive Basic where
  | bool | int | int8 | int16 | int32 | int64 | uint | uint8 | uint16 | uint32 | uint64 | uintptr
  | float32 | float64 | complex64 | complex128 | string
  deriving DecidableEq, Repr, Inhabited

/-- the kinds of package reflect (Invalid omitted) -/
inductive Kind where
  | bool | int | int8 | int16 | int32 | int64 | uint | uint8 | uint16 | uint32 | uint64 | uintptr
  | float32 | float64 | complex64 | complex128 | array | chan | func | interface | map | ptr | slice
  | string | struct | unsafePointer
  deriving DecidableEq, Repr, Inhabited

def Kind.all : List Kind :=
  [.bool, .int, .int8, .int16, .int32, .int64, .uint, .uint8, .uint16, .uint32, .uint64, .uintptr,
   .float32, .float64, .complex64, .complex128, .array, .chan, .func, .interface, .map, .ptr, .slice,
   .string, .struct, .unsafePointer]

def Basic.kind : Basic → Kind
  | .bool => .bool | .int => .int | .int8 => .int8 | .int16 => .int16 | .int32 => .int32 | .int64 => .int64
  | .uint => .uint | .uint8 => .uint8 | .uint16 => .uint16 | .uint32 => .uint32 | .uint64 => .uint64
  | .uintptr => .uintptr | .float32 => .float32 | .float64 => .float64 | .complex64 => .complex64
  | .complex128 => .complex128 | .string => .string

/-- kind classes used by both sides -/
def Kind.isSigned : Kind → Bool
  | .int | .int8 | .int16 | .int32 | .int64 => true | _ => false
def Kind.isUnsigned : Kind → Bool
  | .uint | .uint8 | .uint16 | .uint32 | .uint64 | .uintptr => true | _ => false
def Kind.isInteger (k : Kind) : Bool := k.isSigned || k.isUnsigned
def Kind.isFloat : Kind → Bool
  | .float32 | .float64 => true | _ => false
def Kind.isComplex : Kind → Bool
  | .complex64 | .complex128 => true | _ => false
def Kind.isNumeric (k : Kind) : Bool := k.isInteger || k.isFloat || k.isComplex
/-- width in bits of an integer kind (int, uint, uintptr are 64 bits: the interpreter's host) -/
def Kind.bits : Kind → Nat
  | .int8 | .uint8 => 8 | .int16 | .uint16 => 16 | .int32 | .uint32 => 32
  | .int | .int64 | .uint | .uint64 | .uintptr => 64 | _ => 0

/-- a defined type `type N<id> <under>` with value-receiver methods `M<j>()` -/
structure Named where
  id : Nat
  under : Basic
  methods : List Nat
  deriving DecidableEq, Repr, Inhabited

/-- element-level types: a predeclared basic type or a defined type over one -/
inductive STy where
  | basic (b : Basic)
  | named (n : Named)
  deriving DecidableEq, Repr, Inhabited

def STy.under : STy → Basic
  | .basic b => b
  | .named n => n.under
def STy.methods : STy → List Nat
  | .basic _ => []
  | .named n => n.methods
def STy.isNamed : STy → Bool
  | .basic _ => false
  | .named _ => true

inductive Dir where
  | both | send | recv
  deriving DecidableEq, Repr, Inhabited

/-- kinds of untyped constants (complex constants are outside the fragment) -/
inductive UKind where
  | bool | int | rune | float | string
  deriving DecidableEq, Repr, Inhabited

/-- types of the fragment (flat: elements are simple types). `struct`/`iface` are declared types
    `type S<id> struct{…}` / `type I<id> interface{…}`; `iface 0 []` is the literal `interface{}`. -/
inductive Ty where
  | s (t : STy)
  | ptr (t : STy)
  | slice (t : STy)
  | array (n : Nat) (t : STy)
  | map (k v : STy)
  | chan (d : Dir) (t : STy)
  | func (args rets : List STy)
  | struct (id : Nat) (fields : List STy) (methods : List Nat)
  | iface (id : Nat) (methods : List Nat)
  | untyped (u : UKind)
  | nil
  deriving DecidableEq, Repr, Inhabited

def Ty.isIface : Ty → Bool
  | .iface _ _ => true | _ => false
def Ty.isUntyped : Ty → Bool
  | .untyped _ => true | .nil => true | _ => false
def Ty.isNil : Ty → Bool
  | .nil => true | _ => false
/-- method set (names) of a type of the fragment: value-receiver methods, so `*N` has those of `N` -/
def Ty.methods : Ty → List Nat
  | .s t => t.methods
  | .ptr t => t.methods
  | .struct _ _ m => m
  | .iface _ m => m
  | _ => []
def UKind.defaultBasic : UKind → Basic
  | .bool => .bool | .int => .int | .rune => .int32 | .float => .float64 | .string => .string

/-- method `j` is spelled `M<j>` (exported) when `j < 8`, `m<j>` (not exported) otherwise -/
def methodExported (j : Nat) : Bool := decide (j < 8)

/-- `a ⊆ b` on method-name lists -/
def subset (a b : List Nat) : Bool := a.all (fun m => b.contains m)

/-! ### results -/

/-- outcome of a check: accepted (with a value), rejected with an error, a Go panic escaping the
    compiler, or outside what this side describes -/
inductive Res (α : Type) where
  | ok (a : α)
  | err
  | crash
  | abstain
  deriving Repr, DecidableEq, Inhabited

def Res.bind {α β : Type} (r : Res α) (f : α → Res β) : Res β :=
  match r with
  | .ok a => f a
  | .err => .err
  | .crash => .crash
  | .abstain => .abstain

instance : Monad Res where
  pure := .ok
  bind := Res.bind

@[simp] theorem Res.bind_ok {α β : Type} (a : α) (f : α → Res β) : (Res.ok a >>= f) = f a := rfl
@[simp] theorem Res.bind_err {α β : Type} (f : α → Res β) : ((Res.err : Res α) >>= f) = .err := rfl
@[simp] theorem Res.bind_crash {α β : Type} (f : α → Res β) : ((Res.crash : Res α) >>= f) = .crash := rfl
@[simp] theorem Res.bind_abstain {α β : Type} (f : α → Res β) : ((Res.abstain : Res α) >>= f) = .abstain := rfl

/-- the verdict without the value -/
inductive Verdict where
  | ok | err | crash | abstain
  deriving DecidableEq, Repr, Inhabited

def Res.verdict {α : Type} : Res α → Verdict
  | .ok _ => .ok | .err => .err | .crash => .crash | .abstain => .abstain

def Verdict.show : Verdict → String
  | .ok => "ok" | .err => "err" | .crash => "crash" | .abstain => "abstain"

/-! ### operands -/

/-- go/constant values of the fragment -/
inductive CVal where
  | int (v : Int)                     -- integer (and rune) constants
  | float (v : Int) (frac : Bool)     -- v, or v + 1/2 when `frac`
  | str
  deriving DecidableEq, Repr, Inhabited

/-- what is known about an operand's value at compile time (yaegi: `node.rval`) -/
inductive RVal where
  | none                      -- not a constant
  | const (c : CVal)          -- an untyped constant held as a go/constant value
  | gobool (b : Bool)         -- the universe constants `true` / `false` (held as a plain Go bool)
  | typed (v : Option Int)    -- a constant converted to a type `T(c)`: a plain Go value (integer value if any)
  | ubool                     -- the (non-constant) untyped boolean result of a comparison
  deriving DecidableEq, Repr, Inhabited

structure Opnd where
  ty : Ty
  rv : RVal
  deriving DecidableEq, Repr, Inhabited

/-- a compile-time constant for the Go specification -/
def Opnd.isConst (o : Opnd) : Bool :=
  match o.rv with
  | .const _ => true | .gobool _ => true | .typed _ => true | _ => false

/-- `reflect.Value.IsValid` of the node's value -/
def RVal.valid : RVal → Bool
  | .none | .ubool => false
  | _ => true

/-- the result of `!x`, `x && y`, `x || y` is an untyped boolean exactly when every operand is (shared convention) -/
def boolResultRv (x y : Opnd) : RVal := if x.rv == .ubool && y.rv == .ubool then .ubool else .none

/-- value carried by the result of a conversion `T(x)` (shared convention of both sides): a converted
    constant is a plain typed value, except that a conversion to an interface type keeps the constant -/
def convResultRv (typ : Ty) (x : Opnd) : RVal :=
  if !x.isConst then .none else if typ.isIface then x.rv
  else .typed (match x.rv with | .const (.int v) => some v | .const (.float v false) => some v | .typed v => v | _ => none)

/-! ### syntax -/

inductive UnOp where | pos | neg | bitnot | not
  deriving DecidableEq, Repr, Inhabited
inductive BinOp where | add | sub | mul | quo | rem | and | or | xor | andnot | land | lor
  deriving DecidableEq, Repr, Inhabited
inductive CmpOp where | eq | ne | lt | le | gt | ge
  deriving DecidableEq, Repr, Inhabited
inductive ShOp where | shl | shr
  deriving DecidableEq, Repr, Inhabited

mutual
  inductive Expr where
    | var (i : Nat)
    | lit (u : UKind) (v : Int) (frac : Bool)
    | nil
    | un (op : UnOp) (e : Expr)
    | recv (e : Expr)
    | bin (op : BinOp) (a b : Expr)
    | cmp (op : CmpOp) (a b : Expr)
    | shift (op : ShOp) (a b : Expr)
    | call (f : Nat) (args : Args)
    | conv (t : Ty) (e : Expr)
    | index (a i : Expr)
    | assert (t : Ty) (e : Expr)          -- e.(T)
  inductive Args where
    | nil
    | cons (e : Expr) (rest : Args)
end

/-- syntactic shape of the source of an assignment / return (the interpreter's shortcuts look at it) -/
inductive Shape where
  | plain            -- identifier, literal, call, conversion, index
  | unary            -- non-constant unary expression
  | recv             -- channel receive
  | arith (op : BinOp)
  | cmp
  | shift
  deriving DecidableEq, Repr, Inhabited

mutual
  inductive Stmt where
    | decl (t : Ty) (e : Expr)            -- var v T = e
    | declz (t : Ty)                      -- var v T
    | define (e : Expr)                   -- v := e
    | defineOk (t : Ty) (e : Expr)        -- v, ok := e.(T)
    | assign (i : Nat) (e : Expr)         -- v = e
    | opassign (op : BinOp) (i : Nat) (e : Expr)   -- v op= e
    | shassign (op : ShOp) (i : Nat) (e : Expr)    -- v <<= e
    | incdec (i : Nat)
    | send (c e : Expr)
    | callS (f : Nat) (args : Args)
    | ifS (c : Expr) (t : Block) (e : Block)
    | forS (c : Expr) (b : Block)
    | ret (es : Args)
  inductive Block where
    | nil
    | cons (s : Stmt) (rest : Block)
end

structure Sig where
  params : List STy
  rets : List STy
  deriving DecidableEq, Repr, Inhabited

structure Fn where
  sig : Sig
  body : Block

structure Prog where
  funcs : List Fn
  main : Block

/-! ### the per-context rules -/

/-- one record per side (yaegi / Go). Every rule is a total function of the operands' types and
    compile-time values. -/
structure Rules where
  un : UnOp → Opnd → Res Opnd
  recv : Opnd → Res Opnd
  /-- the `Option Ty` is the type propagated from an enclosing declaration / assignment (see `checkE`) -/
  bin : BinOp → Option Ty → Opnd → Opnd → Res Opnd
  cmp : CmpOp → Opnd → Opnd → Res Opnd
  shift : ShOp → Opnd → Opnd → Res Opnd
  conv : Ty → Opnd → Res Opnd
  index : Opnd → Opnd → Res Opnd
  /-- type assertion `x.(T)` -/
  assert : Ty → Opnd → Res Opnd
  /-- arguments against parameters (after all arguments have been checked on their own) -/
  call : List STy → List Opnd → Res Unit
  /-- a call used as a single value; the flag says that the call is the operand of a conversion `T(f(…))`
      (typecheck.callValue does not look at that context) -/
  callValue : Bool → List STy → Res Opnd
  /-- `decl = true`: `var v T = e`; `false`: `v = e`. The result is the type the variable has afterwards. -/
  assign : Bool → Shape → Ty → Opnd → Res Ty
  define : Opnd → Res Ty
  opassign : BinOp → Ty → Opnd → Res Unit
  shassign : ShOp → Ty → Opnd → Res Unit
  incdec : Ty → Res Unit
  send : Opnd → Opnd → Res Unit
  cond : Opnd → Res Unit
  ret : List STy → List (Shape × Opnd) → Res Unit

/-- environment: variable types (innermost last), function signatures, results of the enclosing function -/
structure Env where
  vars : List Ty
  funcs : List Sig
  rets : List STy

def litOpnd (u : UKind) (v : Int) (frac : Bool) : Opnd :=
  match u with
  | .bool => ⟨.untyped .bool, .gobool (v != 0)⟩
  | .int => ⟨.untyped .int, .const (.int v)⟩
  | .rune => ⟨.untyped .rune, .const (.int v)⟩
  | .float => ⟨.untyped .float, .const (.float v frac)⟩
  | .string => ⟨.untyped .string, .const .str⟩

def Expr.shape : Expr → Shape
  | .un _ _ => .unary
  | .recv _ => .recv
  | .bin op _ _ => .arith op
  | .cmp _ _ _ => .cmp
  | .shift _ _ _ => .shift
  | _ => .plain

/-- a shape only matters for non-constant sources -/
def shapeOf (e : Expr) (o : Opnd) : Shape := if o.isConst then .plain else e.shape

/-- does the node pass the type propagated from the enclosing statement on to its operands
    (cfg.go pre-order: binaryExpr / unaryExpr / parenExpr nodes whose action is not a boolean one) -/
def UnOp.propagates : UnOp → Bool
  | .not => false
  | _ => true
def BinOp.propagates : BinOp → Bool
  | .land | .lor => false
  | _ => true

mutual
  /-- post-order check of an expression. `z` is the "propagation zone": the destination type of the
      enclosing `var v T = e` / `v = e` / `v op= e` when the expression is reached from the source
      through arithmetic, shift and (non-boolean) unary nodes only. Only yaegi's rules look at it.
      `cv`: the expression is the operand of a conversion (only the call rule looks at it). -/
  def checkE (R : Rules) (env : Env) (z : Option Ty) (cv : Bool) : Expr → Res Opnd
    | .var i => match env.vars[i]? with
      | some t => .ok ⟨t, .none⟩
      | none => .err
    | .lit u v f => .ok (litOpnd u v f)
    | .nil => .ok ⟨.nil, .none⟩
    | .un op e => do let x ← checkE R env (if op.propagates then z else none) false e; R.un op x
    | .recv e => do let x ← checkE R env none false e; R.recv x
    | .bin op a b => do
      let zc := if op.propagates then z else none
      let x ← checkE R env zc false a; let y ← checkE R env zc false b; R.bin op zc x y
    | .cmp op a b => do let x ← checkE R env none false a; let y ← checkE R env none false b; R.cmp op x y
    | .shift op a b => do let x ← checkE R env z false a; let y ← checkE R env z false b; R.shift op x y
    | .call f args => match env.funcs[f]? with
      | none => .err
      | some sg => do
        let xs ← checkArgs R env args
        R.call sg.params (xs.map (·.2))
        R.callValue cv sg.rets
    | .conv t e => do let x ← checkE R env none true e; R.conv t x
    | .index a i => do let x ← checkE R env none false a; let y ← checkE R env none false i; R.index x y
    | .assert t e => do let x ← checkE R env none false e; R.assert t x
  def checkArgs (R : Rules) (env : Env) : Args → Res (List (Shape × Opnd))
    | .nil => .ok []
    | .cons e rest => do
      let x ← checkE R env none false e
      let xs ← checkArgs R env rest
      .ok ((shapeOf e x, x) :: xs)
end

/-- the zone a statement opens for its source: the destination type unless it is an interface type -/
def zoneOf (t : Ty) : Option Ty := if t.isIface then none else some t

mutual
  /-- check of a statement; returns the variables in scope after it -/
  def checkS (R : Rules) (env : Env) : Stmt → Res (List Ty)
    | .decl t e => do
      let x ← checkE R env (zoneOf t) false e
      let t' ← R.assign true (shapeOf e x) t x
      .ok (env.vars ++ [t'])
    | .declz t => .ok (env.vars ++ [t])
    | .define e => do
      let x ← checkE R env none false e
      let t ← R.define x
      .ok (env.vars ++ [t])
    | .defineOk t e => do
      let x ← checkE R env none false e
      let y ← R.assert t x
      .ok (env.vars ++ [y.ty, .s (.basic .bool)])
    | .assign i e => match env.vars[i]? with
      | none => .err
      | some t => do
        let x ← checkE R env (zoneOf t) false e
        let t' ← R.assign false (shapeOf e x) t x
        .ok (env.vars.set i t')
    | .opassign op i e => match env.vars[i]? with
      | none => .err
      | some t => do
        let x ← checkE R env (zoneOf t) false e
        R.opassign op t x
        .ok env.vars
    | .shassign op i e => match env.vars[i]? with
      | none => .err
      | some t => do
        let x ← checkE R env (zoneOf t) false e
        R.shassign op t x
        .ok env.vars
    | .incdec i => match env.vars[i]? with
      | none => .err
      | some t => do
        R.incdec t
        .ok env.vars
    | .send c e => do
      let x ← checkE R env none false c
      let y ← checkE R env none false e
      R.send x y
      .ok env.vars
    | .callS f args => match env.funcs[f]? with
      | none => .err
      | some sg => do
        let xs ← checkArgs R env args
        R.call sg.params (xs.map (·.2))
        .ok env.vars
    | .ifS c t e => do
      let x ← checkE R env none false c
      let _ ← checkB R env t
      let _ ← checkB R env e
      R.cond x
      .ok env.vars
    | .forS c b => do
      let x ← checkE R env none false c
      let _ ← checkB R env b
      R.cond x
      .ok env.vars
    | .ret es => do
      let xs ← checkArgs R env es
      R.ret env.rets xs
      .ok env.vars
  def checkB (R : Rules) (env : Env) : Block → Res Unit
    | .nil => .ok ()
    | .cons s rest => do
      let vs ← checkS R env s
      checkB R { env with vars := vs } rest
end

def checkFns (R : Rules) (sigs : List Sig) : List Fn → Res Unit
  | [] => .ok ()
  | f :: rest => do
    checkB R ⟨f.sig.params.map Ty.s, sigs, f.sig.rets⟩ f.body
    checkFns R sigs rest

/-- whole program: the functions in source order, then the main body -/
def checkProg (R : Rules) (p : Prog) : Res Unit := do
  let sigs := p.funcs.map (·.sig)
  checkFns R sigs p.funcs
  checkB R ⟨[], sigs, []⟩ p.main

end YaegiVerif.Typecheck
