import YaegiVerif.Model.Method
import YaegiVerif.Spec.GoSelector
/-
  C05 — scenario layer: straight-line programs over a declaration set, executed under the
  interpreter's rules (`Who.yaegi`: what interp/cfg.go, run.go, typecheck.go do) and under the Go
  specification (`Who.go`). Every method increments the first int field of its receiver and prints
  its identity and every int reachable from its receiver, so the output shows which method was
  selected and which storage it worked on.

  Storage model: a heap of int cells; an instance of a struct type is the list of the paths of its
  int fields with their cells; copying an instance gives fresh cells except below a field embedded
  by pointer, whose cells stay shared.

  The differences between the two executions are the documented decision points:
    selector resolution (`selectY` / `Spec.select`), operand addressability, how the receiver
    reaches the method (`recvStorage`), when a method value copies its receiver, whether a struct
    put in an interface is copied, the static and dynamic interface checks, assertion and
    type-switch matching and the order in which the clauses are tested.
  Core Lean only.
-/
namespace YaegiVerif.MethodRun
open YaegiVerif.Method YaegiVerif.Spec.Selector

inductive Who where
  | yaegi | go
  deriving DecidableEq, Repr

abbrev Path := List Nat
abbrev Inst := List (Path × Nat)
abbrev Heap := List Int

/-! ### layout of struct values -/

def intPathsFields (g : Nat → List Path) : List Field → Nat → List Path
  | [], _ => []
  | f :: fs, i =>
    (match f.kind with
     | .int => [[i]]
     | .func => []
     | _ => (g f.typ).map (fun p => i :: p)) ++ intPathsFields g fs (i + 1)

/-- paths of the int fields of a value of struct type `t`, depth first in declaration order -/
def intPathsF (D : Decls) : Nat → Nat → List Path
  | 0, _ => []
  | fuel + 1, t => intPathsFields (intPathsF D fuel) (fieldsOf D t) 0

def intPaths (D : Decls) (t : Nat) : List Path := intPathsF D D.length t

def allocCells (paths : List Path) (base : Int) (h : Heap) : Inst × Heap :=
  (paths.zipIdx.map (fun (p, k) => (p, h.length + k)), h ++ (List.range paths.length).map (fun (k : Nat) => base + Int.ofNat k))

/-- `T{…}` with the int fields numbered from `base` on -/
def newInst (D : Decls) (t : Nat) (base : Int) (h : Heap) : Inst × Heap := allocCells (intPaths D t) base h

def isPrefix : Path → Path → Bool
  | [], _ => true
  | _ :: _, [] => false
  | a :: as, b :: bs => a == b && isPrefix as bs

/-- the part of an instance below the index path `q` -/
def subInst (inst : Inst) (q : Path) : Inst :=
  inst.filterMap (fun (p, a) => if isPrefix q p then some (p.drop q.length, a) else none)

def cell (h : Heap) (a : Nat) : Int := h.getD a 0

/-- copy of a struct value of type `t`: fresh cells, except below an embedded pointer -/
def copyInst (D : Decls) (t : Nat) (inst : Inst) (h : Heap) : Inst × Heap :=
  inst.foldl (fun (acc : Inst × Heap) (pa : Path × Nat) =>
    if viaPtr D t pa.1 then (acc.1 ++ [pa], acc.2)
    else (acc.1 ++ [(pa.1, acc.2.length)], acc.2 ++ [cell acc.2 pa.2])) ([], h)

def values (inst : Inst) (h : Heap) : List String := inst.map (fun (_, a) => toString (cell h a))

def addTo (h : Heap) (a : Nat) (d : Int) : Heap := h.set a (cell h a + d)

/-- index of the first int field of a struct type -/
def ownInt : List Field → Nat → Option Nat
  | [], _ => none
  | f :: fs, i => if f.kind == .int then some i else ownInt fs (i + 1)

/-! ### program syntax -/

inductive Recv where
  | var (x : String)
  | addr (x : String)
  | ptrvar (p : String)
  | tmp (t : Nat) (base : Int)
  | ifc (i : String)
  | nil
  deriving DecidableEq, Repr, Inhabited

inductive Stmt where
  | var (x : String) (t : Nat) (base : Int)
  | ptr (x y : String)
  | bump (y : String)
  | dump (y : String)
  | call (r : Recv) (m : String)
  | mval (x : String) (r : Recv) (m : String)
  | callf (x : String)
  | mexpr (t : Nat) (ptr : Bool) (m : String) (y : String)
  | iface (x : String) (i : Option Nat) (r : Recv)
  | assert (x y : String) (ty : TyRef) (two : Bool) (m : String)
  | tswitch (y : String) (bind : Bool) (cs : List (List TyRef))
  | host (f : String) (y : String)
  deriving Repr, Inhabited

/-! ### static phase -/

/-- static types of the variables -/
inductive STy where
  | strct (t : Nat)
  | ptr (t : Nat)
  | ifc (ty : TyRef)       -- `named i` (interface type), `anon`, `empty`
  | fn
  deriving DecidableEq, Repr, Inhabited

abbrev SEnv := List (String × STy)

def slook (e : SEnv) (x : String) : Option STy := (e.find? (fun p => p.1 == x)).map (·.2)

def sel (w : Who) (F : Facts) (D : Decls) (t : Nat) (m : String) : Sel :=
  match w with
  | .yaegi => selectY F D t m
  | .go => select D t m

/-- is the selector `operand.m` legal, the operand having struct type `t` (or `*t`);
    `addressable`: variable, pointer indirection (true) or function result (false) -/
def selLegal (w : Who) (F : Facts) (D : Decls) (t : Nat) (addressable : Bool) (m : String) : Bool :=
  match sel w F D t m with
  | .field fh => fh.field.kind == .func
  | .method h =>
    (match w with
     | .yaegi => true
     | .go => addressable || recvOK D ⟨t, false⟩ h)
  | _ => false

/-- the methods an interface type requires, as the interpreter (`methods()`) and as the
    specification see them -/
def ifaceNamesY (D : Decls) : TyRef → List (String × Nat)
  | .named i => ifaceMethodsY D i
  | .anon ms => mergeMap [] (ms.map (fun m => (m.name, m.sig)))
  | _ => []

/-- may a value of dynamic type `d` be assigned to the interface type `ity` -/
def assignLegal (w : Who) (F : Facts) (D : Decls) (d : DynT) (ity : TyRef) : Bool :=
  match w with
  | .yaegi => implementsY F D d.t d.ptr (ifaceNamesY D ity)
  | .go => implements D d (tyMethods D ity)

/-- `typecheck.typeAssertionExpr` for a non-interface target type: for every method name of the
    operand's interface type the target must have a method (`lookupMethod`), not with a pointer
    receiver unless the target is a pointer type, with the same number of results -/
def assertLegalY (F : Facts) (D : Decls) (src : TyRef) (ty : TyRef) : Bool :=
  let ims := ifaceNamesY D src
  let chk (t : Nat) (isPtr : Bool) : Bool :=
    ims.all (fun im =>
      match lookupMethodY F D t im.1 with
      | none => false
      | some h =>
        -- a pointer-receiver method of a non-pointer type is rejected: always (before 5c3b0c5), when it is
        -- declared on the type itself (since), and also when it is promoted without crossing an embedded
        -- pointer (`needsPtrForMethod`, since 6b1f98f)
        let rejected := !isPtr && h.meth.ptr &&
          (!F.assertPtrOwnOnly || h.path.isEmpty || (F.assertPtrNeedsPtr && !pathViaPtr D t h.path))
        !rejected && h.meth.sig == im.2)
  if ims.isEmpty then true else
  match ty with
  | .ptr t => chk t true
  | .named t => isIfaceT D t || chk t false
  | _ => true

def assertStaticLegal (w : Who) (F : Facts) (D : Decls) (src ty : TyRef) : Bool :=
  match w with
  | .yaegi => assertLegalY F D src ty
  | .go => assertLegal D (tyMethods D src) ty

def recvStatic (e : SEnv) : Recv → Option (Nat × Bool)   -- struct type, addressable
  | .var x => match slook e x with | some (.strct t) => some (t, true) | _ => none
  | .addr x => match slook e x with | some (.strct t) => some (t, true) | _ => none
  | .ptrvar p => match slook e p with | some (.ptr t) => some (t, true) | _ => none
  | .tmp t _ => some (t, false)
  | _ => none

def tyToSTy (D : Decls) : TyRef → STy
  | .named t => if isIfaceT D t then .ifc (.named t) else .strct t
  | .ptr t => .ptr t
  | ty => .ifc ty

/-- static check of one statement; `none`: the program is rejected -/
def checkStmt (w : Who) (F : Facts) (D : Decls) (e : SEnv) : Stmt → Option SEnv
  | .var x t _ => if isStructT D t then some ((x, .strct t) :: e) else none
  | .ptr x y => match slook e y with | some (.strct t) => some ((x, .ptr t) :: e) | _ => none
  | .bump y => match slook e y with | some (.strct _) => some e | _ => none
  | .dump y => match slook e y with | some (.strct _) => some e | _ => none
  | .call (.ifc i) m =>
    (match slook e i with
     | some (.ifc ity) => if (tyMethods D ity).any (fun x => x.name == m) then some e else none
     | _ => none)
  | .call r m =>
    (match recvStatic e r with
     | some (t, a) => if selLegal w F D t a m then some e else none
     | none => none)
  | .mval x (.ifc i) m =>
    (match slook e i with
     | some (.ifc ity) => if (tyMethods D ity).any (fun k => k.name == m) then some ((x, .fn) :: e) else none
     | _ => none)
  | .mval x r m =>
    (match recvStatic e r with
     | some (t, a) => if selLegal w F D t a m then some ((x, .fn) :: e) else none
     | none => none)
  | .callf x => match slook e x with | some .fn => some e | _ => none
  | .mexpr t isPtr m y =>
    (match slook e y with
     | some (.strct t') =>
       if t' != t then none else
       (match w with
        | .go =>
          (match select D t m with
           | .method h => if isPtr || recvOK D ⟨t, false⟩ h then some e else none
           | _ => none)
        | .yaegi =>
          (match selectY F D t m with
           | .method _ => some e
           | _ => none))
     | _ => none)
  | .iface x i r =>
    let ity : TyRef := match i with | some k => .named k | none => .empty
    (match r with
     | .nil => some ((x, .ifc ity) :: e)
     | .var v => (match slook e v with
        | some (.strct t) => if assignLegal w F D ⟨t, false⟩ ity then some ((x, .ifc ity) :: e) else none
        | _ => none)
     | .addr v => (match slook e v with
        | some (.strct t) => if assignLegal w F D ⟨t, true⟩ ity then some ((x, .ifc ity) :: e) else none
        | _ => none)
     | .ptrvar p => (match slook e p with
        | some (.ptr t) => if assignLegal w F D ⟨t, true⟩ ity then some ((x, .ifc ity) :: e) else none
        | _ => none)
     | _ => none)
  | .assert x y ty _ m =>
    (match slook e y with
     | some (.ifc src) =>
       if !assertStaticLegal w F D src ty then none else
       let sx := tyToSTy D ty
       let ok := if m == "" then true else
         (match sx with
          | .strct t => selLegal w F D t true m
          | .ptr t => selLegal w F D t true m
          | .ifc ity => (tyMethods D ity).any (fun k => k.name == m)
          | .fn => false)
       if ok then some ((x, sx) :: e) else none
     | _ => none)
  | .tswitch y _ cs =>
    (match slook e y with
     | some (.ifc src) =>
       (match w with
        | .yaegi =>
          if !F.tswitchCasesChecked || cs.all (fun c => c.all (fun ty => ty == .nil || assertLegalY F D src ty)) then some e else none
        | .go => if cs.all (fun c => c.all (fun ty => assertLegal D (tyMethods D src) ty)) then some e else none)
     | _ => none)
  | .host _ _ => some e

def checkAll (w : Who) (F : Facts) (D : Decls) : SEnv → List Stmt → Bool
  | _, [] => true
  | e, s :: ss => match checkStmt w F D e s with | some e' => checkAll w F D e' ss | none => false

/-! ### dynamic phase -/

/-- the value in an interface: dynamic type, storage, and (interpreter only) whether the value is
    wrapped in a `valueInterface` (it always is for a non-empty interface type) -/
structure Dyn where
  t : Nat
  ptr : Bool
  inst : Inst
  wrapped : Bool := true
  deriving Repr, Inhabited

inductive Clo where
  /-- method; `bound = true`: `inst` is the receiver bound when the method value was made;
      `bound = false` (interpreter before 3081633): `inst` is the storage of the (embedded) operand,
      read when the value is called, `srcPtr`: was the receiver operand a pointer -/
  | meth (h : MHit) (inst : Inst) (srcPtr : Bool) (bound : Bool) (vi : Bool := false)
  | fld (owner : Nat) (name : String)  -- a func() field
  deriving Repr, Inhabited

inductive Val where
  | strct (t : Nat) (inst : Inst)
  | ptr (t : Nat) (inst : Inst)
  | ifc (dyn : Option Dyn)
  | fn (c : Clo)
  | zero                       -- the zero value left by a failed assertion
  deriving Repr, Inhabited

structure St where
  heap : Heap := []
  env : List (String × Val) := []
  out : List (List String) := []
  panicked : Bool := false
  deriving Repr, Inhabited

def look (s : St) (x : String) : Option Val := (s.env.find? (fun p => p.1 == x)).map (·.2)
def bind (s : St) (x : String) (v : Val) : St := { s with env := (x, v) :: s.env }
def emit (s : St) (l : List String) : St := { s with out := s.out ++ [l] }
def panic (s : St) : St := { s with panicked := true }

/-! ### receiver passing

  Go: a method with a value receiver works on a copy of the operand (of the pointee when the operand
  is a pointer: `p.M()` is `(*p).M()`), a method with a pointer receiver on the operand's own storage
  (`v.M()` is `(&v).M()`).
  The interpreter (`genFunctionWrapper`, through which `getMethod` / `getMethodByName` route every
  call of an interpreted method): the receiver operand delivered by `genValueRecv` — the operand
  itself, or the last field of the index path of a promoted method, so a *pointer* exactly when the
  operand is one (empty path) or the last field of the path is embedded by pointer — is bound in two
  steps (`Facts.recvBind`): one of three arms reads it into `recv` when the wrapper is made (since
  3081633; before, when the wrapper was called), and the callback fills the receiver slot of the new
  frame from `recv` at every call. -/

/-- the last field of a non-empty index path is embedded by pointer -/
def lastPtr (D : Decls) : Nat → List Nat → Bool
  | _, [] => false
  | t, [i] => (match (fieldsOf D t)[i]? with | some f => f.kind == .embPtr | none => false)
  | t, i :: j :: rest => (match (fieldsOf D t)[i]? with | some f => lastPtr D f.typ (j :: rest) | none => false)

/-- is the receiver operand of `genValueRecv` a pointer (`sk == reflect.Ptr`) -/
def srcIsPtr (D : Decls) (t : Nat) (opPtr : Bool) (path : List Nat) : Bool :=
  if path.isEmpty then opPtr else lastPtr D t path

/-- the arm of the receiver binding taken for a method with a value receiver -/
def valueArm (F : Facts) (srcPtr : Bool) : SlotBind := if srcPtr then F.recvBind.ptrToVal else F.recvBind.same

/-- one step of the binding applied to a struct value: a fresh copy, or the value itself -/
def applyBind (b : SlotBind) (D : Decls) (owner : Nat) (inst : Inst) (h : Heap) : Inst × Heap :=
  match b with
  | .slot => (inst, h)
  | _ => copyInst D owner inst h

/-- first step, when the method value is made (`recv`): pointer receiver — the operand's storage (the
    address is passed; whether the pointer itself is copied is immaterial); value receiver — a copy
    under Go's rules ("the receiver is evaluated and copied when the method value is evaluated"),
    what the arm does under the interpreter's -/
def bindRecv (w : Who) (F : Facts) (D : Decls) (owner : Nat) (m : Meth) (srcPtr : Bool) (inst : Inst) (h : Heap) : Inst × Heap :=
  if m.ptr then (inst, h) else
  match w with
  | .go => copyInst D owner inst h
  | .yaegi => applyBind (valueArm F srcPtr) D owner inst h

/-- the statement of the callback that fills the receiver slot. `vi`: the method was selected on the
    value held by an interface (a `receiver` without node: `getMethodByName`, and since 32d4f06 the
    wrappers `genInterfaceWrapper` makes for a conversion to a host interface); for those the callback
    resolves the receiver itself at every call when `lateNilNode` holds -/
def callSlot (F : Facts) (vi : Bool) : SlotBind :=
  if vi && F.recvBind.lateNilNode then F.recvBind.lateCall else F.recvBind.call

/-- second step, at every call: the receiver parameter of the new frame. Go: the bound value is
    passed by value; the interpreter: `d[numRet].Set(recv)` copies, `d[numRet] = recv` does not -/
def enterRecv (w : Who) (F : Facts) (D : Decls) (owner : Nat) (m : Meth) (vi : Bool) (r0 : Inst) (h : Heap) : Inst × Heap :=
  if m.ptr then (r0, h) else
  match w with
  | .go => copyInst D owner r0 h
  | .yaegi => applyBind (callSlot F vi) D owner r0 h

/-- the storage the body of the method works on in a call, given the storage `inst` the operand
    designates: both steps -/
def recvStorage (w : Who) (F : Facts) (D : Decls) (owner : Nat) (m : Meth) (srcPtr vi : Bool) (inst : Inst) (h : Heap) : Inst × Heap :=
  enterRecv w F D owner m vi (bindRecv w F D owner m srcPtr inst h).1 (bindRecv w F D owner m srcPtr inst h).2

/-- what a method body does to its receiver: a sequence of assignments to fields of the receiver
    (`r.p = v`, `r.p += d`; `p` an index path to an int field) -/
inductive Write where
  | set (p : Path) (v : Int)
  | add (p : Path) (d : Int)
  deriving DecidableEq, Repr, Inhabited

def applyWrite (r : Inst) (h : Heap) : Write → Heap
  | .set p v => (match r.find? (fun pa => pa.1 == p) with | some pa => h.set pa.2 v | none => h)
  | .add p d => (match r.find? (fun pa => pa.1 == p) with | some pa => addTo h pa.2 d | none => h)

def runBody (r : Inst) (ws : List Write) (h : Heap) : Heap := ws.foldl (applyWrite r) h

/-- the body every generated method has: `r.<first int field>++` -/
def stdBody (D : Decls) (owner : Nat) : List Write :=
  match ownInt (fieldsOf D owner) 0 with
  | some k => [.add [k] 1]
  | none => []

/-- run the body on the receiver parameter `r` -/
def runOn (D : Decls) (owner : Nat) (m : Meth) (r : Inst) (h1 : Heap) (s : St) : St :=
  let h2 := runBody r (stdBody D owner) h1
  emit { s with heap := h2 } ((typeName D owner ++ "." ++ m.name) :: values r h2)

/-- call a method value whose receiver `r0` was bound when it was made -/
def runBound (w : Who) (F : Facts) (D : Decls) (owner : Nat) (m : Meth) (vi : Bool) (r0 : Inst) (s : St) : St :=
  runOn D owner m (enterRecv w F D owner m vi r0 s.heap).1 (enterRecv w F D owner m vi r0 s.heap).2 s

/-- run method `m` of type `owner`, the operand designating the storage `inst`; `srcPtr`: the
    receiver operand is a pointer -/
def runMeth (w : Who) (F : Facts) (D : Decls) (owner : Nat) (m : Meth) (srcPtr vi : Bool) (inst : Inst) (s : St) : St :=
  runOn D owner m (recvStorage w F D owner m srcPtr vi inst s.heap).1 (recvStorage w F D owner m srcPtr vi inst s.heap).2 s

/-- `t`, `opPtr`: struct type of the operand and whether the operand is a pointer to it -/
def runHit (w : Who) (F : Facts) (D : Decls) (h : MHit) (t : Nat) (opPtr vi : Bool) (recv : Inst) (s : St) : St :=
  runMeth w F D h.owner h.meth (srcIsPtr D t opPtr h.path) vi (subInst recv h.path) s

def runSel (w : Who) (F : Facts) (D : Decls) (r : Sel) (t : Nat) (opPtr : Bool) (recv : Inst) (s : St) : St :=
  match r with
  | .method h => runHit w F D h t opPtr false recv s
  | .field fh => emit s [typeName D fh.owner ++ ".f." ++ fh.field.name]
  | _ => panic s

/-- is the operand a pointer -/
def recvIsPtr : Recv → Bool
  | .addr _ => true
  | .ptrvar _ => true
  | _ => false

/-- storage designated by a struct operand -/
def recvInst (D : Decls) (s : St) : Recv → Option (Nat × Inst × St)
  | .var x => match look s x with | some (.strct t i) => some (t, i, s) | _ => none
  | .addr x => match look s x with | some (.strct t i) => some (t, i, s) | _ => none
  | .ptrvar p => match look s p with | some (.ptr t i) => some (t, i, s) | _ => none
  | .tmp t base => let (i, h) := newInst D t base s.heap; some (t, i, { s with heap := h })
  | _ => none

/-- dynamic dispatch through an interface value; `isig`: the signature the interface type of the
    operand declares for `m`. The interpreter fetches as many results as the interface method
    declares: a method that returns nothing where the interface promises a result makes the call
    fail after the method has run. -/
def dynCall (w : Who) (F : Facts) (D : Decls) (d : Option Dyn) (m : String) (isig : Nat) (s : St) : St :=
  match d with
  | none => panic s
  | some d =>
    (match w with
     | .yaegi =>
       (match lookupMethodY F D d.t m with
        | some h => let s1 := runHit w F D h d.t d.ptr true d.inst s; if isig == 1 && h.meth.sig == 0 then panic s1 else s1
        | none => panic s)
     | .go => (match select D d.t m with | .method h => runHit w F D h d.t d.ptr true d.inst s | _ => panic s))

def sigOf (D : Decls) (ity : TyRef) (m : String) : Nat :=
  match (tyMethods D ity).find? (fun k => k.name == m) with
  | some k => k.sig
  | none => 0

/-- `_case` / `typeAssert` matching in the interpreter.
    `typedSrc`: the operand has a non-empty interface type (its value is a `valueInterface`). -/
def matchIfaceY (D : Decls) (d : Dyn) (ty : TyRef) : Bool :=
  let m0 := methodSigsY D d.t d.ptr
  (ifaceNamesY D ty).all (fun k => m0.any (fun p => p.1 == k.1 && p.2 == k.2))

/-- type-switch clause test of `_case` up to 9f81224 (three matchers, one per clause form) -/
def matchCaseLegacyY (D : Decls) (typedSrc bindForm : Bool) (dyn : Option Dyn) (ty : TyRef) : Bool :=
  let concrete (t : Nat) (isPtr : Bool) : Bool :=
    match dyn with
    | none => false
    | some d =>
      let same := d.t == t && d.ptr == isPtr
      if typedSrc then same
      else if bindForm then !d.wrapped && same
      else d.wrapped && same
  match ty with
  | .nil => if typedSrc then false else dyn.isNone
  | .ptr t => concrete t true
  | .named t =>
    if isIfaceT D t then
      -- only the binding form on an interface{} operand can match an interface type, and then it
      -- compares the representation type of the clause (valueInterface for every non-empty
      -- interface type) with that of the value: any wrapped value matches any such clause
      (if typedSrc || !bindForm then false
       else match dyn with
         | some d => d.wrapped && !(ifaceMethodsY D t).isEmpty
         | none => false)
    else concrete t false
  | .anon ms =>
    if typedSrc || !bindForm then false
    else (match dyn with
      | some d => d.wrapped && !ms.isEmpty
      | none => false)
  | .empty => false

/-- `matchCase(f, v, typ)` (since 9f81224), whatever the clause form and the operand's static type:
    the operand is unwrapped to its dynamic value; `nil` matches the nil interface only; a struct or
    pointer clause type must be identical to the dynamic type (for a value stored raw in `interface{}`
    the reflect types are compared: the same under the assumption that distinct struct types are
    structurally distinct); an interface clause type needs its method names in `methods()` of the
    dynamic type and no pointer-receiver method that a value lacks (`needsPtrFor`) — for a value
    stored raw in `interface{}` (no type node: a pointer, or a struct whose type has no method of its
    own) the reflect type has no methods, so only an interface without methods matches (F06) -/
def matchCaseNewY (F : Facts) (D : Decls) (dyn : Option Dyn) (ty : TyRef) : Bool :=
  let ifaceMatch (ims : List (String × Nat)) : Bool :=
    match dyn with
    | none => false
    | some d => ims.isEmpty || (d.wrapped && containsY F (methodsY D d.t) ims && !needsPtrY F D d.t d.ptr ims)
  match ty with
  | .nil => dyn.isNone
  | .ptr t => (match dyn with | some d => d.t == t && d.ptr | none => false)
  | .named t =>
    if isIfaceT D t then ifaceMatch (ifaceNamesY D ty)
    else (match dyn with | some d => d.t == t && !d.ptr | none => false)
  | .anon _ => ifaceMatch (ifaceNamesY D ty)
  | .empty => dyn.isSome

/-- type-switch clause test of `_case` -/
def matchCaseY (F : Facts) (D : Decls) (typedSrc bindForm : Bool) (dyn : Option Dyn) (ty : TyRef) : Bool :=
  if F.caseUsesMatchCase then matchCaseNewY F D dyn ty else matchCaseLegacyY D typedSrc bindForm dyn ty

def dynT (d : Option Dyn) : Option DynT := d.map (fun x => ⟨x.t, x.ptr⟩)

def isTyped : TyRef → Bool
  | .empty => false
  | _ => true

/-- box a struct operand into an interface value -/
def box (w : Who) (F : Facts) (D : Decls) (typed : Bool) (t : Nat) (isPtr : Bool) (inst : Inst) (s : St) : Dyn × St :=
  match w with
  | .go =>
    if isPtr then (⟨t, true, inst, true⟩, s)
    else let (c, h) := copyInst D t inst s.heap; (⟨t, false, c, true⟩, { s with heap := h })
  | .yaegi =>
    -- genDestValue: wrapped in a valueInterface unless the destination is interface{} and the
    -- operand's type has no method attached to it; genValueInterface: the valueInterface holds a copy
    -- of an addressable operand since 16a5ac7 (`F.ifaceCopies`), the operand's own storage before
    let wrapped := typed || (methsOf D t).any (fun m => !isPtr || m.ptr)
    if isPtr || (wrapped && !F.ifaceCopies) then (⟨t, isPtr, inst, wrapped⟩, s)
    else if wrapped then let (c, h) := copyInst D t inst s.heap; (⟨t, false, c, true⟩, { s with heap := h })
    else let (c, h) := copyInst D t inst s.heap; (⟨t, false, c, false⟩, { s with heap := h })

/-- does the assertion `y.(ty)` hold for the value `d` of the interface operand.
    Go: `matchG`. The interpreter, `typeAssert`: to an interface type (`case isInterfaceSrc(typ)`) — a
    nil operand (bf66b2a) and a value that is not wrapped in a valueInterface are not ok, a wrapped
    one is ok when the names and signature strings of methods() of its type cover the interface (the
    one-result form panics on every failure since 4cc5cf9, the value is stored whatever the operand
    type since c2466b4); to a struct or pointer type — identity of the dynamic type. -/
def assertOk (w : Who) (D : Decls) (d : Option Dyn) (ty : TyRef) : Bool :=
  match w with
  | .go => matchG D (dynT d) ty
  | .yaegi =>
    if tyIsIface D ty then
      (match d with
       | none => false
       | some dd => dd.wrapped && matchIfaceY D dd ty)
    else
      (match ty, d with
       | .ptr t, some dd => dd.t == t && dd.ptr
       | .named t, some dd => dd.t == t && !dd.ptr
       | _, _ => false)

def execStmt (w : Who) (F : Facts) (D : Decls) (se : SEnv) (s : St) : Stmt → St
  | .var x t base => let (i, h) := newInst D t base s.heap; bind { s with heap := h } x (.strct t i)
  | .ptr x y => (match look s y with | some (.strct t i) => bind s x (.ptr t i) | _ => panic s)
  | .bump y => (match look s y with
      | some (.strct _ i) => { s with heap := i.foldl (fun h pa => addTo h pa.2 10) s.heap }
      | _ => panic s)
  | .dump y => (match look s y with | some (.strct _ i) => emit s (y :: values i s.heap) | _ => panic s)
  | .call (.ifc i) m => (match look s i with
      | some (.ifc d) =>
        let isig := match slook se i with | some (.ifc ity) => sigOf D ity m | _ => 0
        dynCall w F D d m isig s
      | _ => panic s)     -- includes the zero value of a failed assertion
  | .call r m => (match recvInst D s r with
      | some (t, i, s1) => runSel w F D (sel w F D t m) t (recvIsPtr r) i s1
      | none => panic s)
  | .mval x (.ifc i) m =>
    -- `f := i.M`: Go binds the value held by the interface; a pointer in the path to the receiver is
    -- dereferenced when `f` is called. The interpreter (`getMethodByName`: a receiver without node):
    -- the same when such receivers are resolved in the callback (`lateNilNode`, since 32d4f06);
    -- bound — a value receiver copied — when the method value is made between 3081633 and 32d4f06
    (match look s i with
     | some (.ifc (some d)) =>
       let hit : Option MHit := match w with
         | .yaegi => lookupMethodY F D d.t m
         | .go => (match select D d.t m with | .method h => some h | _ => none)
       -- the interpreter stores the wrapper in a slot of the interface method's type: a method whose
       -- signature differs (accepted by the names-only `implements`) makes `f := i.M` fail on the spot
       let isig := match slook se i with | some (.ifc ity) => sigOf D ity m | _ => 0
       (match hit with
        | some h =>
          if w == .yaegi && isig != h.meth.sig then panic s else
          let sub := subInst d.inst h.path
          let sp := srcIsPtr D d.t d.ptr h.path
          if w == .yaegi && F.recvBind.atCreation && !F.recvBind.lateNilNode then
            let b := bindRecv w F D h.owner h.meth sp sub s.heap
            bind { s with heap := b.2 } x (.fn (.meth ⟨h.owner, [], h.meth⟩ b.1 sp true true))
          else bind s x (.fn (.meth ⟨h.owner, [], h.meth⟩ sub sp false true))
        | none => panic s)
     | _ => panic s)
  | .mval x r m => (match recvInst D s r with
      | some (t, i, s1) =>
        (match sel w F D t m with
         | .method h =>
           let sub := subInst i h.path
           let sp := srcIsPtr D t (recvIsPtr r) h.path
           -- Go, and the interpreter since 3081633: the receiver is bound when the method value is evaluated
           if w == .go || F.recvBind.atCreation then
             let b := bindRecv w F D h.owner h.meth sp sub s1.heap
             bind { s1 with heap := b.2 } x (.fn (.meth ⟨h.owner, [], h.meth⟩ b.1 sp true))
           else bind s1 x (.fn (.meth ⟨h.owner, [], h.meth⟩ sub sp false))
         | .field fh => bind s1 x (.fn (.fld fh.owner fh.field.name))
         | _ => panic s1)
      | none => panic s)
  | .callf x => (match look s x with
      | some (.fn (.meth h i sp bound vi)) =>
        if bound then runBound w F D h.owner h.meth vi i s else runHit w F D h h.owner sp vi i s
      | some (.fn (.fld o n)) => emit s [typeName D o ++ ".f." ++ n]
      | _ => panic s)
  | .mexpr t isPtr m y => (match look s y with
      | some (.strct _ i) =>
        (match w with
         | .go =>
           (match select D t m with
            | .method h =>
              if isPtr then runHit .go F D h t true false i s
              else let (c, hp) := copyInst D t i s.heap; runHit .go F D h t false false c { s with heap := hp }
            | _ => panic s)
         | .yaegi =>
           -- the receiver argument is passed as it is (an ordinary argument: `d[i].Set(arg)`, no
           -- receiver binding) to the method found by lookupMethod: this works only for a method
           -- declared on the type itself with the same kind of receiver
           (match selectY F D t m with
            | .method h =>
              if h.path.isEmpty && h.meth.ptr == isPtr then
                (if isPtr then runHit .go F D h t true false i s
                 else let (c, hp) := copyInst D t i s.heap; runHit .go F D h t false false c { s with heap := hp })
              else panic s
            | _ => panic s))
      | _ => panic s)
  | .iface x ity r =>
    let typed := ity.isSome
    (match r with
     | .nil => bind s x (.ifc none)
     | .var v => (match look s v with
        | some (.strct t i) => let (d, s1) := box w F D typed t false i s; bind s1 x (.ifc (some d))
        | _ => panic s)
     | .addr v => (match look s v with
        | some (.strct t i) => let (d, s1) := box w F D typed t true i s; bind s1 x (.ifc (some d))
        | _ => panic s)
     | .ptrvar p => (match look s p with
        | some (.ptr t i) => let (d, s1) := box w F D typed t true i s; bind s1 x (.ifc (some d))
        | _ => panic s)
     | _ => panic s)
  | .assert x y ty two m =>
    (match look s y with
     | some (.ifc d) =>
       let b := assertOk w D d ty
       -- the one-result form panics on failure
       (if !b && !two then panic s else
          let s1 := if two then emit s ["ok", toString b] else emit s ["asserted"]
          let (v, s2) : Val × St :=
            if !b then (.zero, s1) else
            match ty, d with
            | .ptr t, some dd => (.ptr t dd.inst, s1)
            | .named t, some dd =>
              if isIfaceT D t then (.ifc d, s1)
              else let (c, hp) := copyInst D t dd.inst s1.heap; (.strct t c, { s1 with heap := hp })
            | _, _ => (.ifc d, s1)
          let s3 := bind s2 x v
          if m == "" || (two && !b) then s3 else
          (match v with
           | .strct t i => runSel w F D (sel w F D t m) t false i s3
           | .ptr t i => runSel w F D (sel w F D t m) t true i s3
           | .ifc dd => dynCall w F D dd m (sigOf D ty m) s3
           | _ => panic s3))
     | _ => panic s)
  | .tswitch y bindForm cs =>
    let typed := match slook se y with | some (.ifc src) => isTyped src | _ => true
    (match look s y with
     | some (.ifc d) =>
       let r := match w with
         | .go => typeSwitchG D (dynT d) cs
         | .yaegi => typeSwitchY F.defaultSwap F.clauseChain (matchCaseY F D typed bindForm d) cs
       (match r with
        | some k => emit s ["case", toString k]
        | none => s)
     | _ => panic s)
  | .host _ _ => s

def execAll (w : Who) (F : Facts) (D : Decls) : SEnv → St → List Stmt → St
  | _, s, [] => s
  | e, s, st :: rest =>
    if s.panicked then s else
    let s1 := execStmt w F D e s st
    match checkStmt w F D e st with
    | some e' => execAll w F D e' s1 rest
    | none => s1

/-- outcome of a program: rejected, or the printed lines and whether it ended in a panic -/
inductive Outcome where
  | reject
  | ran (out : List (List String)) (panicked : Bool)
  deriving DecidableEq, Repr

def run (w : Who) (F : Facts) (D : Decls) (prog : List Stmt) : Outcome :=
  if !checkAll w F D [] prog then .reject
  else let s := execAll w F D [] {} prog; .ran s.out s.panicked

end YaegiVerif.MethodRun
