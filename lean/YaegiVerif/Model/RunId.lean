/-
  Run-id machine shared by C09 (cancellation stops everything) and C10 (earlier definitions survive).

  What is modelled (interp/interp.go, interp/program.go, interp/run.go, interp/src.go):
    * `Interpreter.id` / `frame.id`: run generation counters; `runCfg` executes an operation of a frame only
      while `f.runid() == n.interp.runid()`;
    * epochs (dc95f3e): every evaluation (`begin()` in `Execute` and `importSrc`) has one; frames inherit it
      (`newFrame`, `clone`), function values carry the epoch of the frame that made them; `stop()` marks the epochs
      of the running evaluations cancelled, bumps the interpreter id, closes `done` and installs a fresh `done`;
    * `newFrame(anc, len, id)`: which id each call site passes (`call`, `interp.run`); the calls of function values
      (`genFunctionWrapper`, `getFunc`) go through `newCallFrame`, which reads — under one lock, when the frame is
      made — the interpreter's CURRENT id and done channel, and gives the frame an id the interpreter never has
      when the epoch of the function value is cancelled — all of it *facts* (`RunIdFacts`), re-extracted from the
      source on every run (the records of the earlier trees — root id and root done, deferred refresh of `Execute` —
      are still expressible: `Expected.C09.round2Facts`, `oldFacts`);
    * `Execute`: `begin()` (refresh of the root frame id, new epoch), then the run list (root code, global variables,
      every `init`, `main`); `importSrc`: the same before the entry points of an imported package;
    * blocking channel operations (`recv`, `recv2`, `send`, `rangeChan`, `_select`): whether `f.done` is one of
      the `reflect.Select` cases and whether the variant is chosen by `n.interp.cancelChan` when the closure
      is generated; where `cancelChan` is set (`New`, or the `…WithContext` entry points).
    * `go f()` of a function value: the frame of the new goroutine is made BY the new goroutine, when it starts
      (the wrapper of `getFunc` / `genFunctionWrapper` runs there): `G.pending`.
  Not modelled: values, channel contents (a blocked operation may complete at any time: `Choice.comm`).

  Core Lean only. Everything here is total and executable; `Driver/C09.lean` and `Driver/C10.lean` run it.
-/
namespace YaegiVerif.RunId

/-! ### facts -/

/-- which id a frame-creating call site passes -/
inductive IdSrc where
  | parent      -- `f.runid()` of the frame given as ancestor
  | interp      -- `interp.runid()` / `n.interp.runid()`: the interpreter's current id
  | root        -- `anc.root.runid()`: the id of the root frame, read when the frame is made (`newCallFrame` of 4a41b28)
  | epoch       -- `newCallFrame` of dc95f3e: the interpreter's CURRENT id, read when the frame is made — unless the
                -- evaluation under which the function value was created (its epoch) has been cancelled: then a run
                -- id the interpreter never has
  | other       -- anything else (the extractor could not classify the argument)
  deriving DecidableEq, Repr, Inhabited

/-- which done channel the new frame of a call site races -/
inductive DoneSrc where
  | inherit     -- `newFrame`: `f.done = anc.done`
  | root        -- `newCallFrame` of 1578873: `f.done = root.done`, read when the frame is made
  | interp      -- `newCallFrame` of dc95f3e: `interp.done`, read (with the id, under one lock) when the frame is made
  | other
  deriving DecidableEq, Repr, Inhabited

inductive BlkKind where
  | recv | recv2 | send | range | select
  deriving DecidableEq, Repr, Inhabited

/-- the ways an interpreted function body gets its frame -/
inductive SiteKind where
  | call       -- a declared function called by interpreted code (`call`)
  | wrapper    -- a function wrapper (`genFunctionWrapper`): methods, method values, functions handed to native code
  | closure    -- a function literal (`getFunc`)
  deriving DecidableEq, Repr, Inhabited

/-- a call site: the kind, whether the function value was made by an EARLIER, completed evaluation (its epoch is not
    the one of the evaluation that makes the call), and whether the call is made by native code that calls back late
    (a timer, a handler: the correspondence harness holds such a call back, when it is in flight at the cancellation,
    until everything else has settled; the machine does not look at this flag) -/
structure Site where
  kind : SiteKind
  early : Bool
  late : Bool
  deriving DecidableEq, Repr, Inhabited

def Site.call : Site := ⟨.call, false, false⟩
def Site.wrapper : Site := ⟨.wrapper, false, false⟩
def Site.closure : Site := ⟨.closure, false, false⟩
def Site.earlier : Site := ⟨.closure, true, false⟩
def Site.wrapperEarlier : Site := ⟨.wrapper, true, false⟩
def Site.wrapperLate : Site := ⟨.wrapper, false, true⟩
def Site.closureLate : Site := ⟨.closure, false, true⟩

structure BlockFact where
  /-- `f.done` is among the `reflect.Select` cases of the (cancellable variant of the) operation -/
  doneCase : Bool
  /-- the generator chooses between a cancellable and a bare variant by `n.interp.cancelChan`,
      read when the closure is generated -/
  byFlag : Bool
  /-- returning from the `done` case ends the frame (`return nil`) -/
  doneEnds : Bool
  deriving DecidableEq, Repr, Inhabited

structure RunIdFacts where
  /-- run.go `call`: `newFrame(f, …, f.runid())` (also used by `go f()` of a declared function) -/
  callId : IdSrc
  /-- run.go `genFunctionWrapper`: `newCallFrame(f, …)` → `newFrame(anc, …, root.runid())`; before 4a41b28
      `newFrame(f, …, f.runid())` -/
  wrapperId : IdSrc
  /-- … and `f.done = root.done` (1578873); `newFrame` alone inherits the ancestor's -/
  wrapperDone : DoneSrc
  /-- run.go `getFunc`: `newCallFrame(fr, …)` where `fr := f.clone()`; before: `newFrame(fr, …, fr.runid())` -/
  closureId : IdSrc
  closureDone : DoneSrc
  /-- interp.go `clone`: the clone copies `f.runid()` -/
  cloneKeepsId : Bool
  /-- interp.go `clone`: the clone copies `f.done` (the `reflect.SelectCase` of the done channel current when the
      closure was made); matters when `closureDone = inherit` -/
  cloneKeepsDone : Bool
  /-- run.go `interp.run`, `cf != nil`: `newFrame(cf, …, cf.runid())` (c403bf5; before: `interp.runid()`);
      `cf` is the root frame -/
  entryId : IdSrc
  /-- run.go `interp.run`, `cf == nil`: the interpreter's root frame itself is used -/
  entryRootShared : Bool
  /-- run.go `runCfg`: both loops test `f.runid() == n.interp.runid()` before every operation -/
  guardPlain : Bool
  guardDebug : Bool
  /-- interp.go `stop`: `atomic.AddUint64(&interp.id, 1)` -/
  stopBumps : Bool
  /-- interp.go `stop`: `close(interp.done)` -/
  stopCloses : Bool
  /-- interp.go `stop`: `interp.done = make(chan struct{})` after the close (ba001d8) -/
  stopRenews : Bool
  /-- program.go `Execute`: `interp.frame.setrunid(interp.runid())` before the run list -/
  execRefresh : Bool
  /-- program.go `Execute`: `defer func() { interp.frame.setrunid(interp.runid()) }()` (4a41b28) -/
  execRefreshAtReturn : Bool
  /-- program.go `Execute` tests for a cancellation between the entries of its run list (no) -/
  execChecksCancel : Bool
  /-- src.go `importSrc`: `interp.frame.setrunid(interp.runid())` before the entry points of the package (2667a11) -/
  importRefresh : Bool
  /-- the three `…WithContext` watchers: `case <-ctx.Done(): interp.stop(); return reflect.Value{}, ctx.Err()` -/
  watcherStops : Bool
  watcherCtxErr : Bool
  /-- the three `…WithContext` entry points install a fresh `done` -/
  ctxFreshDone : Bool
  /-- the three `…WithContext` entry points set `cancelChan = !fastChan` (before cc65000) -/
  ctxSetsCancelChan : Bool
  /-- interp.go `New` sets `cancelChan = !fastChan` (cc65000) -/
  newSetsCancelChan : Bool
  recv : BlockFact
  recv2 : BlockFact
  send : BlockFact
  range : BlockFact
  select : BlockFact
  /-- run.go `recv`: the cancellable variants store the received value only after the test of the chosen case
      (50c4f88, cc65000); values are not modelled: tie and correspondence only -/
  recvStoresAfterCheck : Bool
  /-- run.go `getFunc`: the wrapper restores the literal's frame slot after each call (before d26dd9e); values
      are not modelled: tie and correspondence only -/
  closureRestoresSlot : Bool
  /-- interp.go `stop`: `for e := range interp.running { e.cancelled = true }` before the bump, under the mutex (dc95f3e) -/
  stopMarksEpochs : Bool
  /-- the epochs reach the function values: `begin` makes a new epoch, registers it as running and stores it (with the
      current id) in the root frame, `end` only unregisters it; `newFrame` and `clone` copy the epoch of their frame;
      the wrapper of `genFunctionWrapper` reads the epoch of its frame when it is generated, the closure of `getFunc`
      passes the epoch of its cloned frame -/
  epochPlumbing : Bool
  /-- interp.go `New` makes the cancellation channel (2db9fe7); values are not modelled: tie only -/
  newMakesDone : Bool
  /-- the functions the host takes from the global frame (result of `Execute`, `Symbols`) are wrapped by
      `genHostFunctionWrapper`: they belong to no epoch (tie only: in the histories of C10 the evaluation that hands a
      function to the host completes) -/
  hostWrapperNoEpoch : Bool
  deriving DecidableEq, Repr, Inhabited

def RunIdFacts.blk (F : RunIdFacts) : BlkKind → BlockFact
  | .recv => F.recv | .recv2 => F.recv2 | .send => F.send | .range => F.range | .select => F.select

def RunIdFacts.site (F : RunIdFacts) (s : Site) : IdSrc :=
  match s.kind with
  | .call => F.callId | .wrapper => F.wrapperId | .closure => F.closureId

def RunIdFacts.siteDone (F : RunIdFacts) (s : Site) : DoneSrc :=
  match s.kind with
  | .call => .inherit | .wrapper => F.wrapperDone | .closure => F.closureDone

/-- the id a new frame gets; `dead`: the epoch of the function value has been cancelled (a cancelled epoch implies a
    `stop()`, so the interpreter's id is at least 1: 0 stands for the run id the interpreter never has) -/
def newId (s : IdSrc) (parent cur root : Nat) (dead : Bool) : Nat :=
  match s with
  | .parent => parent
  | .interp => cur
  | .root => root
  | .epoch => if dead then 0 else cur
  | .other => cur + 1

/-- the epoch of a new frame is an earlier evaluation's: the function value was made by one, or by a frame of one
    (`newFrame` and `clone` copy the epoch of their frame, `newCallFrame` gives the frame the epoch of the function value) -/
def childEarly (s : Site) (parentEarly : Bool) : Bool := s.early || parentEarly

/-- the loop guard of `runCfg` (the harness and the proofs use the loop without debugger) -/
def guardOk (F : RunIdFacts) (fid cur : Nat) : Bool := !F.guardPlain || fid == cur

/-- is the done channel of a new frame the one `stop()` closes? `newFrame` copies the creating frame's; a closure
    made by an earlier evaluation keeps the channel of that evaluation in its cloned frame; `newCallFrame`
    takes the root frame's -/
def childCur (F : RunIdFacts) (s : Site) (parentCur rootCur nowCur : Bool) : Bool :=
  match F.siteDone s with
  | .root => rootCur
  | .interp => nowCur
  | _ => if s.kind == .closure && s.early then !F.cloneKeepsDone else parentCur

/-- does a blocked operation of kind `k`, whose closure was generated by (or after) a `…WithContext` call
    (`canc`) or by a plain `Eval` before any, race the `done` channel of its frame? -/
def cancellable (F : RunIdFacts) (k : BlkKind) (canc : Bool) : Bool :=
  (F.blk k).doneCase && (F.blk k).doneEnds &&
    (!(F.blk k).byFlag || F.newSetsCancelChan || (canc && F.ctxSetsCancelChan))

/-! ### programs and state -/

/-- abstract programs: a sequence of interpreted operations (one closure of the control-flow graph each) -/
inductive Prog where
  | done
  | step (rest : Prog)                              -- any operation without an effect the machine tracks
  | tick (rest : Prog)                              -- a call of a host function (side effect outside the interpreter)
  | mkclosure (rest : Prog)                         -- `getFunc`: clone the frame
  | call (site : Site) (body rest : Prog)           -- run `body` in a new frame, then continue
  | spawn (site : Site) (body rest : Prog)          -- `go f()` (directly, through a wrapper, or of a closure)
  | block (k : BlkKind) (canc : Bool) (rest : Prog) -- a channel operation that does not complete by itself
  deriving DecidableEq, Repr, Inhabited

structure Frame where
  id : Nat
  pc : Prog
  cur : Bool      -- the frame's `done` is the channel the current `…WithContext` call closes on cancellation
  early : Bool    -- the frame's epoch is an earlier evaluation's (never cancelled by this evaluation's `stop()`)
  deriving DecidableEq, Repr, Inhabited

/-- a goroutine made by a `go` statement which has not made its frame yet -/
structure Pending where
  site : Site
  pid : Nat       -- id of the frame that executed the `go` statement
  pcur : Bool     -- whether that frame's done channel is the current one
  pearly : Bool   -- whether that frame's epoch is an earlier evaluation's
  body : Prog
  deriving DecidableEq, Repr, Inhabited

structure G where
  stack : List Frame                     -- head = running frame
  armed : Bool                           -- the guard was passed for the operation at the head (the step hook point)
  blocked : Option (BlkKind × Bool)       -- kind, and whether the operation races the channel `stop()` closes
  ops : Nat                              -- ghost: operations executed so far
  ticks : Nat                            -- ghost: host calls made so far
  main : Bool                            -- the goroutine that runs `Execute`
  pending : Option Pending               -- not started yet
  deriving DecidableEq, Repr, Inhabited

/-- an entry of the run list of `Execute` -/
structure Entry where
  root : Bool        -- `interp.run(n, nil)`: executed on the root frame (root code, global variables)
  prog : Prog
  deriving DecidableEq, Repr, Inhabited

inductive Ret where
  | value | ctxErr
  deriving DecidableEq, Repr, Inhabited

structure St where
  id : Nat                 -- Interpreter.id
  done : Bool              -- the `done` channel this evaluation started with is closed
  renewed : Bool           -- `interp.done` is no longer that channel (`stop()` installed a fresh one)
  marked : Bool            -- the epoch of this evaluation is cancelled (`stop()` marks the running epochs)
  rootId : Nat             -- id of the root frame `interp.frame`
  rootCur : Bool           -- the root frame's `done` is the channel this evaluation started with
  runList : List Entry     -- entries `Execute` has not started yet
  gs : List G
  watching : Bool          -- the `…WithContext` call has not returned yet
  ret : Option Ret
  deriving DecidableEq, Repr, Inhabited

inductive Choice where
  | run (i : Nat)      -- goroutine `i` takes one transition
  | comm (i : Nat)     -- the blocked operation of goroutine `i` completes (a partner arrived)
  | stop               -- the context is cancelled: the watcher runs `stop()` and returns
  deriving DecidableEq, Repr, Inhabited

/-! ### transitions -/

def newG (p : Pending) : G :=
  { stack := [], armed := false, blocked := none, ops := 0, ticks := 0, main := false, pending := some p }

/-- `interp.run` stores `interp.done`, as it is now, in the frame it runs -/
def curNow (σ : St) : Bool := !σ.renewed

/-- is the epoch of a function value cancelled now? The epoch of this evaluation is once `stop()` has marked it; the
    epoch of an earlier, completed evaluation never is (it is not among the running ones) -/
def deadNow (σ : St) (early : Bool) : Bool := σ.marked && !early

/-- execute the operation for which the guard was passed -/
def execOp (F : RunIdFacts) (σ : St) (g : G) : G × List G :=
  match g.stack with
  | [] => ({ g with armed := false }, [])
  | fr :: rest =>
    match fr.pc with
    | .done => ({ g with armed := false }, [])
    | .step p => ({ g with stack := ⟨fr.id, p, fr.cur, fr.early⟩ :: rest, armed := false, ops := g.ops + 1 }, [])
    | .tick p => ({ g with stack := ⟨fr.id, p, fr.cur, fr.early⟩ :: rest, armed := false, ops := g.ops + 1, ticks := g.ticks + 1 }, [])
    | .mkclosure p => ({ g with stack := ⟨fr.id, p, fr.cur, fr.early⟩ :: rest, armed := false, ops := g.ops + 1 }, [])
    | .call s body p =>
      ({ g with stack := ⟨newId (F.site s) fr.id σ.id σ.rootId (deadNow σ (childEarly s fr.early)), body,
                          childCur F s fr.cur σ.rootCur (curNow σ), childEarly s fr.early⟩ :: ⟨fr.id, p, fr.cur, fr.early⟩ :: rest,
                armed := false, ops := g.ops + 1 }, [])
    | .spawn s body p =>
      ({ g with stack := ⟨fr.id, p, fr.cur, fr.early⟩ :: rest, armed := false, ops := g.ops + 1 },
       [newG ⟨s, fr.id, fr.cur, fr.early, body⟩])
    | .block k c p =>
      ({ g with stack := ⟨fr.id, p, fr.cur, fr.early⟩ :: rest, armed := false, blocked := some (k, cancellable F k c && fr.cur),
                ops := g.ops + 1 }, [])

/-- what one transition of a goroutine produces -/
structure Out where
  g : G
  spawned : List G
  list : List Entry      -- the run list afterwards
  rootCur : Bool         -- the root frame's done afterwards
  deriving DecidableEq, Repr, Inhabited

/-- a goroutine that is neither armed nor blocked: make its first frame, return from a finished or stale frame,
    pass the guard, or (the main goroutine, between entries) start the next entry of the run list -/
def advance (F : RunIdFacts) (σ : St) (g : G) : Out :=
  match g.pending with
  | some pd =>
    ⟨{ g with pending := none,
              stack := [⟨newId (F.site pd.site) pd.pid σ.id σ.rootId (deadNow σ (childEarly pd.site pd.pearly)), pd.body,
                         childCur F pd.site pd.pcur σ.rootCur (curNow σ), childEarly pd.site pd.pearly⟩] },
     [], σ.runList, σ.rootCur⟩
  | none =>
    match g.stack with
    | [] =>
      if g.main then
        match σ.runList with
        | [] => ⟨g, [], [], σ.rootCur⟩
        | e :: es =>
          if F.execChecksCancel && σ.done then ⟨g, [], [], σ.rootCur⟩
          else ⟨{ g with stack := [⟨if e.root then σ.rootId else newId F.entryId σ.rootId σ.id σ.rootId false, e.prog, curNow σ, false⟩] },
                [], es, if e.root then curNow σ else σ.rootCur⟩
      else ⟨g, [], σ.runList, σ.rootCur⟩
    | fr :: rest =>
      match fr.pc with
      | .done => ⟨{ g with stack := rest }, [], σ.runList, σ.rootCur⟩
      | _ =>
        if guardOk F fr.id σ.id then ⟨{ g with armed := true }, [], σ.runList, σ.rootCur⟩
        else ⟨{ g with stack := rest }, [], σ.runList, σ.rootCur⟩

/-- a blocked goroutine: released by `done` if the operation races it (the frame then ends: `return nil`) -/
def wake (σ : St) (g : G) (rel : Bool) : G :=
  if σ.done && rel then { g with blocked := none, stack := g.stack.tail } else g

def stepG (F : RunIdFacts) (σ : St) (g : G) : Out :=
  match g.blocked with
  | some (_, rel) => ⟨wake σ g rel, [], σ.runList, σ.rootCur⟩
  | none =>
    if g.armed then
      ⟨(execOp F σ g).1, (execOp F σ g).2, σ.runList, σ.rootCur⟩
    else advance F σ g

/-- nothing left to do -/
def finished (g : G) : Bool := g.stack.isEmpty && !g.armed && g.blocked.isNone && g.pending.isNone

/-- `Execute` has walked its whole list: it returns (the deferred refresh of the root id), and the `…WithContext`
    call returns normally unless it has returned already -/
def execReturn (F : RunIdFacts) (isMain fin : Bool) (σ : St) : St :=
  if isMain && fin then
    { σ with rootId := if F.execRefreshAtReturn then σ.id else σ.rootId,
             watching := false,
             ret := if σ.watching then some .value else σ.ret }
  else σ

def stepRun (F : RunIdFacts) (σ : St) (i : Nat) : St :=
  match σ.gs[i]? with
  | none => σ
  | some g =>
    execReturn F g.main (finished (stepG F σ g).g && (stepG F σ g).list.isEmpty)
      { σ with gs := σ.gs.set i (stepG F σ g).g ++ (stepG F σ g).spawned, runList := (stepG F σ g).list,
               rootCur := (stepG F σ g).rootCur }

def stepComm (σ : St) (i : Nat) : St :=
  match σ.gs[i]? with
  | none => σ
  | some g =>
    match g.blocked with
    | none => σ
    | some _ => { σ with gs := σ.gs.set i { g with blocked := none } }

/-- the watcher: `case <-ctx.Done(): interp.stop(); return reflect.Value{}, ctx.Err()` (at most once per call) -/
def stepStop (F : RunIdFacts) (σ : St) : St :=
  if σ.watching then
    { σ with
      id := if F.watcherStops && F.stopBumps then σ.id + 1 else σ.id,
      done := σ.done || (F.watcherStops && F.stopCloses),
      renewed := σ.renewed || (F.watcherStops && F.stopRenews),
      marked := σ.marked || (F.watcherStops && F.stopMarksEpochs && F.epochPlumbing),
      watching := false,
      ret := if F.watcherCtxErr then some .ctxErr else some .value }
  else σ

def stepC (F : RunIdFacts) (σ : St) : Choice → St
  | .run i => stepRun F σ i
  | .comm i => stepComm σ i
  | .stop => stepStop F σ

def runSched (F : RunIdFacts) (σ : St) (cs : List Choice) : St := cs.foldl (stepC F) σ

/-- the state in which `EvalWithContext` starts `Execute` on a run list: the root id is refreshed, a fresh `done`
    channel is installed and stored in the root frame (the first thing `Execute` does is `interp.run(p.root, nil)`:
    tie `execRuns`), the main goroutine has an empty stack -/
def start (F : RunIdFacts) (id rootId : Nat) (entries : List Entry) : St :=
  { id := id, done := false, renewed := false, marked := false, rootId := if F.execRefresh then id else rootId, rootCur := true,
    runList := entries,
    gs := [{ stack := [], armed := false, blocked := none, ops := 0, ticks := 0, main := true, pending := none }],
    watching := true, ret := none }

/-! ### measures used by the termination argument -/

def G.weight (g : G) : Nat :=
  g.stack.length + (if g.armed then 3 else 0) + (if g.blocked.isSome then 1 else 0) + (if g.pending.isSome then 2 else 0)

def sumWeights : List G → Nat
  | [] => 0
  | g :: gs => g.weight + sumWeights gs

/-- the goroutines' weights plus what `Execute` still has to walk through -/
def St.weight (σ : St) : Nat := sumWeights σ.gs + 2 * σ.runList.length

def opsOf (σ : St) (i : Nat) : Nat := match σ.gs[i]? with | some g => g.ops | none => 0
def ticksOf (σ : St) (i : Nat) : Nat := match σ.gs[i]? with | some g => g.ticks | none => 0
def armedOf (σ : St) (i : Nat) : Bool := match σ.gs[i]? with | some g => g.armed | none => false

/-- can the goroutine still move? (`more`: the run list of `Execute` is not empty) -/
def G.active (more : Bool) (g : G) : Bool := decide (g.weight > 0) || (g.main && more)

/-- first goroutine that can still move -/
def firstActive (more : Bool) : List G → Nat → Option Nat
  | [], _ => none
  | g :: gs, i => if g.active more then some i else firstActive more gs (i + 1)

/-- run goroutines (lowest index first) until nothing moves or the fuel is spent -/
def drain (F : RunIdFacts) (σ : St) : Nat → St
  | 0 => σ
  | fuel + 1 =>
    match firstActive (!σ.runList.isEmpty) σ.gs 0 with
    | none => σ
    | some i => drain F (stepC F σ (.run i)) fuel

/-! ### predicates on programs and states -/

/-- every blocking operation in the program is of a cancellable variant, and no frame gets a stale done channel -/
def Prog.canc (F : RunIdFacts) : Prog → Bool
  | .done => true
  | .step p => p.canc F
  | .tick p => p.canc F
  | .mkclosure p => p.canc F
  | .call s b p => childCur F s true true true && b.canc F && p.canc F
  | .spawn s b p => childCur F s true true true && b.canc F && p.canc F
  | .block k c p => cancellable F k c && p.canc F

def Prog.size : Prog → Nat
  | .done => 0
  | .step p => p.size + 1
  | .tick p => p.size + 1
  | .mkclosure p => p.size + 1
  | .call _ b p => b.size + p.size + 1
  | .spawn _ b p => b.size + p.size + 1
  | .block _ _ p => p.size + 1

def G.canc (F : RunIdFacts) (g : G) : Bool :=
  g.stack.all (fun fr => fr.pc.canc F && fr.cur) &&
  (match g.blocked with | some (_, rel) => rel | none => true) &&
  (match g.pending with | some pd => pd.body.canc F && childCur F pd.site pd.pcur true true | none => true)

/-- a site whose frame does not take the id of the frame that makes the call: a call of a function value through
    `newCallFrame` -/
def fvSite (F : RunIdFacts) (s : Site) : Bool := F.site s != .parent

/-- the goroutine is about to make a frame for a call of a function value that belongs to an EARLIER, completed
    evaluation (made by one, or by a frame of one): it has such a call or such a `go` statement in flight, or it has
    been started by such a `go` statement and has not made its frame yet. `stop()` does not cancel that epoch: the frame
    will get the interpreter's current id. -/
def G.fvPending (F : RunIdFacts) (g : G) : Bool :=
  (match g.pending with | some pd => fvSite F pd.site && childEarly pd.site pd.pearly | none => false) ||
  (g.armed &&
    (match g.stack with
     | fr :: _ =>
       (match fr.pc with
        | .call s _ _ => fvSite F s && childEarly s fr.early
        | .spawn s _ _ => fvSite F s && childEarly s fr.early
        | _ => false)
     | [] => false))

/-! ### the deterministic policy the correspondence harness uses

  The harness serialises the real interpreter through the step hook: exactly one goroutine executes an
  operation at a time, the *newest* goroutine that has passed its guard goes first, and a goroutine that has
  executed its operation immediately proceeds to its next guard (that is where the hook sits). `settle`
  performs every transition that is not an operation; `pickNewest` chooses the goroutine whose operation
  is executed next. -/

/-- transitions that are not operations, for one goroutine, until it is armed, blocked (and not released)
    or finished; `fuel` bounds the number of frames popped / entries skipped -/
def settleG (F : RunIdFacts) (σ : St) (i : Nat) : Nat → St
  | 0 => σ
  | fuel + 1 =>
    match σ.gs[i]? with
    | none => σ
    | some g =>
      if g.armed then σ
      else
        let σ' := stepC F σ (.run i)
        if σ' == σ then σ else settleG F σ' i fuel

/-- `newFirst`: the goroutines are settled newest first (a goroutine just started makes its frame before the
    goroutine of `Execute` goes on) instead of oldest first — the one race the step hook cannot decide -/
def settleAll (F : RunIdFacts) (σ : St) (fuel : Nat) (newFirst : Bool := false) : St :=
  let idx := List.range σ.gs.length
  (if newFirst then idx.reverse else idx).foldl (fun s i => settleG F s i fuel) σ

/-- index of the newest armed goroutine -/
def pickNewest (gs : List G) : Option Nat :=
  let rec go (l : List G) (i : Nat) (best : Option Nat) : Option Nat :=
    match l with
    | [] => best
    | g :: rest => go rest (i + 1) (if g.armed then some i else best)
  go gs 0 none

/-- execute up to `n` operations under the policy; returns the state (settled) and how many operations ran -/
def runPolicy (F : RunIdFacts) (fuelSettle : Nat) : Nat → St → St × Nat
  | 0, σ => (settleAll F σ fuelSettle, 0)
  | n + 1, σ =>
    let σ1 := settleAll F σ fuelSettle
    match pickNewest σ1.gs with
    | none => (σ1, 0)
    | some i =>
      let r := runPolicy F fuelSettle n (stepC F σ1 (.run i))
      (r.1, r.2 + 1)

/-! ### C10: definitions and histories over the same ids

  A definition made by an earlier evaluation is, for the run-id mechanism, the way its body will get a frame:
    * `callee`  — a named function or a method: called through `call`, the frame inherits the caller's id;
    * `fixed site c` — a closure (`getFunc`: the cloned frame kept the id `c` it had when the closure was made), or a
                  wrapper / method value created inside a function frame with id `c`; `site` is the site used —
                  whether `c` is looked at is the site's fact (`newCallFrame` does not);
    * `root`    — a wrapper (`genFunctionWrapper`) created on the root frame: an exported function value handed to
                  the host, or a method value bound at top level.
  A use is either an `Eval` of a call expression (`Execute` refreshes the root id first, the call is made from
  the root frame) or a direct call by the host (nothing is refreshed). Events are complete evaluations: a
  cancelled evaluation is over when its `Execute` has returned. -/

inductive Binding where
  | callee
  | fixed (site : Site) (c : Nat)
  | root
  deriving DecidableEq, Repr, Inhabited

inductive DefKind where
  | named | method | closure | methodValueTop | methodValueInFunc | hostWrapper
  | imported     -- a function of a source package imported now, which reads a package variable set by the
                 -- package's initialiser
  deriving DecidableEq, Repr, Inhabited

inductive Via where
  | eval       -- `Eval` of a call expression
  | evalCtx    -- `EvalWithContext` of a call expression, with a context that is never cancelled
  | host       -- a direct call by the host of the function value
  deriving DecidableEq, Repr, Inhabited

/-- what a cancelled evaluation was doing; for an already expired context the watcher may run `stop()`
    before or after `Execute` refreshes the root id (both orders happen; the harness reports which) -/
inductive CancelKind where
  | busyLoop | blockedChan | expiredBefore | expiredAfter
  deriving DecidableEq, Repr, Inhabited

structure Def where
  kind : DefKind
  binding : Binding
  a : Nat          -- the function computes x * a + b + (number of calls so far, this one included)
  b : Nat
  calls : Nat
  inited : Bool    -- the initialiser that stores `b` has run (always, except in a package imported on a stale root frame)
  blk : Bool       -- the body computes its value in a goroutine and receives it over a channel (a blocking operation)
  deriving DecidableEq, Repr, Inhabited

inductive Ev where
  | define (k : DefKind) (a b : Nat) (blk : Bool)
  | use (d : Nat) (via : Via) (x : Nat)
  | cancelled (c : CancelKind)
  deriving DecidableEq, Repr, Inhabited

structure HSt where
  id : Nat
  rootId : Nat
  idone : Bool             -- `interp.done` is a closed channel
  rdone : Bool             -- the done channel stored in the root frame is closed
  defs : List Def
  results : List Nat       -- results of the uses, most recent first
  deriving DecidableEq, Repr, Inhabited

/-- `Execute` starts: the root frame takes the current id -/
def HSt.refresh (F : RunIdFacts) (h : HSt) : HSt := { h with rootId := if F.execRefresh then h.id else h.rootId }

/-- an evaluation starts: a `…WithContext` entry point installs a fresh `interp.done` first; `Execute` refreshes the
    root id; its first `interp.run` stores `interp.done`, as it is, in the root frame -/
def HSt.enter (F : RunIdFacts) (h : HSt) (ctx : Bool) : HSt :=
  let idone := if ctx && F.ctxFreshDone then false else h.idone
  { h.refresh F with idone := idone, rdone := idone }

/-- `Execute` returns: the deferred refresh -/
def HSt.leave (F : RunIdFacts) (h : HSt) : HSt := { h with rootId := if F.execRefreshAtReturn then h.id else h.rootId }

/-- the watcher's `stop()`: the id moves on, the current `interp.done` is closed (`rootIsCur`: it is the channel the
    root frame holds) and, after ba001d8, replaced by a fresh one -/
def HSt.stop (F : RunIdFacts) (h : HSt) (rootIsCur : Bool) : HSt :=
  let stops := F.watcherStops
  { h with id := if stops && F.stopBumps then h.id + 1 else h.id,
           rdone := h.rdone || (rootIsCur && stops && F.stopCloses),
           idone := if stops && F.stopRenews then false else h.idone || (stops && F.stopCloses) }

/-- how a definition of kind `k`, made by a successful evaluation in state `h` (root already refreshed), is bound -/
def bindingOf (F : RunIdFacts) (h : HSt) : DefKind → Binding
  | .named => .callee
  | .method => .callee
  | .closure => if F.cloneKeepsId then .fixed .closure h.rootId else .root   -- made by root code: clone of the root frame
  | .methodValueTop => .root
  | .methodValueInFunc => .fixed .wrapper (newId F.entryId h.rootId h.id h.rootId false)   -- the frame of the `init` function that made it
  | .hostWrapper => .root
  | .imported => .callee

/-- do the entry points of a package imported in state `h` (before `Execute` refreshes anything: the import is
    done while the importing source is compiled) run? They run on the root frame. -/
def importRuns (F : RunIdFacts) (h : HSt) : Bool :=
  guardOk F (if F.importRefresh then h.id else h.rootId) h.id

/-- the id of the frame in which the body of the definition runs for this use (`h` already refreshed for `eval`).
    `host`: a direct call by the host — of a declared function, a method or a function of an imported package the
    host holds a wrapper made on the root frame. The epoch of a definition of a history is never cancelled: the
    evaluation that made it has completed (`stop()` marks the running epochs only). -/
def useFrameId (F : RunIdFacts) (h : HSt) (d : Def) (host : Bool := false) : Nat :=
  match d.binding with
  | .callee => if host then newId F.wrapperId h.rootId h.id h.rootId false else newId F.callId h.rootId h.id h.rootId false
  | .fixed site c => newId (F.site site) c h.id h.rootId false
  | .root => newId F.wrapperId h.rootId h.id h.rootId false

/-- does the body run? (the loop guard, for the first and every later operation: nothing changes the ids during a use) -/
def alive (F : RunIdFacts) (h : HSt) (d : Def) (host : Bool := false) : Bool := guardOk F (useFrameId F h d host) h.id

/-- is the done channel the frame of the body gets a closed one? A call made by an evaluation inherits the root
    frame's; a direct call by the host gets what `newCallFrame` gives: the root frame's (1578873) or the interpreter's
    current one (dc95f3e) -/
def bodyDoneClosed (F : RunIdFacts) (h : HSt) (host : Bool) : Bool :=
  if host then (match F.wrapperDone with | .interp => h.idone | _ => h.rdone) else h.rdone

def value (d : Def) (x : Nat) : Nat := x * d.a + (if d.inited then d.b else 0) + (d.calls + 1)

/-- what a use does once the root id is settled: nothing if the frame of the body is stale; if the body blocks on a
    channel while the done channel its frame gets (the root frame's, directly through `newCallFrame` or inherited by
    the frame of a call made from the root frame) is closed, the blocking operation is "cancelled" at once: the body
    has counted the call and returns the zero value; otherwise the value -/
def useBody (F : RunIdFacts) (h1 : HSt) (i x : Nat) (host : Bool := false) : HSt :=
  match h1.defs[i]? with
  | none => h1
  | some d =>
    if alive F h1 d host then
      if d.blk && bodyDoneClosed F h1 host then
        { h1 with defs := h1.defs.set i { d with calls := d.calls + 1 }, results := 0 :: h1.results }
      else
        { h1 with defs := h1.defs.set i { d with calls := d.calls + 1 }, results := value d x :: h1.results }
    else
      -- no operation of the body runs: the result cells keep their zero value, no state changes
      { h1 with results := 0 :: h1.results }

def stepH (F : RunIdFacts) (h : HSt) : Ev → HSt
  | .define k a b blk =>
    let inited := match k with | .imported => importRuns F h | _ => true
    let h1 := h.enter F false
    ({ h1 with defs := h1.defs ++ [{ kind := k, binding := bindingOf F h1 k, a := a, b := b, calls := 0, inited := inited, blk := blk }] } : HSt).leave F
  | .use i .eval x => (useBody F (h.enter F false) i x).leave F
  | .use i .evalCtx x => (useBody F (h.enter F true) i x).leave F
  | .use i .host x => useBody F h i x true
  | .cancelled c =>
    match c with
    | .expiredBefore =>
      -- the entry point installs its done channel, stop() runs, THEN Execute starts (refresh, root done), runs, returns
      let h1 : HSt := { h with idone := if F.ctxFreshDone then false else h.idone }
      (((h1.stop F false).enter F false)).leave F
    | _ => ((h.enter F true).stop F true).leave F

def runHist (F : RunIdFacts) (h : HSt) (evs : List Ev) : HSt := evs.foldl (stepH F) h

def HSt.init : HSt := { id := 0, rootId := 0, idone := false, rdone := false, defs := [], results := [] }

/-- the window the events above do not contain: the watcher has run `stop()` and the `…WithContext` call has
    returned, but `Execute` (its own goroutine) has not: nothing has refreshed the root frame yet -/
def HSt.stoppedNotLeft (F : RunIdFacts) (h : HSt) : HSt := (h.enter F true).stop F true

/-- histories with that window made visible: `hold` is a cancelled busy loop whose `Execute` is kept from returning
    until the NEXT event is over (the correspondence harness does this with the step hook) -/
inductive XEv where
  | ev (e : Ev)
  | hold
  | lateStop    -- an evaluation under an (already expired) context that finishes — its `Execute` returns — just before
                -- the watcher runs `stop()`: the call returns the context's error, nothing refreshes the root frame afterwards
  | stopOnly    -- a `…WithContext` call whose evaluation never reaches `Execute` while the watcher runs `stop()` (does not
                -- happen with the extracted facts' source: `Eval` is always called; a seeded change makes it happen)
  deriving DecidableEq, Repr, Inhabited

/-- the cancelled `Execute` that was held returns: its deferred refresh -/
def settle (F : RunIdFacts) (h : HSt) (held : Bool) : HSt := if held then h.leave F else h

def stepX (F : RunIdFacts) (s : HSt × Bool) : XEv → HSt × Bool
  | .ev e => (settle F (stepH F s.1 e) s.2, false)
  | .hold => ((settle F s.1 s.2).stoppedNotLeft F, true)
  | .lateStop => ((((settle F s.1 s.2).enter F true).leave F).stop F true, false)
  | .stopOnly =>
    let h := settle F s.1 s.2
    (({ h with idone := if F.ctxFreshDone then false else h.idone } : HSt).stop F false, false)

def runX (F : RunIdFacts) (evs : List XEv) : HSt :=
  let r := evs.foldl (stepX F) (HSt.init, false)
  settle F r.1 r.2

/-- what the specification sees of such a history: cancelled evaluations, held or not, are ignored -/
def XEv.plain : List XEv → List Ev
  | [] => []
  | .ev e :: rest => e :: XEv.plain rest
  | .hold :: rest => XEv.plain rest
  | .lateStop :: rest => XEv.plain rest
  | .stopOnly :: rest => XEv.plain rest

/-- the specification: a definition always runs (what Go, and the property, demand) -/
def stepSpec (h : HSt) : Ev → HSt
  | .define k a b blk => { h with defs := h.defs ++ [{ kind := k, binding := .callee, a := a, b := b, calls := 0, inited := true, blk := blk }] }
  | .use i _ x =>
    match h.defs[i]? with
    | none => h
    | some d => { h with defs := h.defs.set i { d with calls := d.calls + 1 }, results := value d x :: h.results }
  | .cancelled _ => h

def runSpec (h : HSt) (evs : List Ev) : HSt := evs.foldl stepSpec h

end YaegiVerif.RunId
