/-
  C08 — concurrent execution: activations of one program over shared per-statement closure state.

  What is modelled (interp/run.go).  Every node of a compiled program has ONE closure (`n.exec`), made once
  by the node's generator `func xxx(n *node)`.  The closure is run by whatever goroutine executes the
  statement, with that goroutine's frame `f` as argument.  Variables declared inside the closure are local to
  one execution; variables declared in the generator body and captured by the closure exist once per
  STATEMENT and are shared by all goroutines executing it.  The table `closureWrites` (regenerated from the
  source by go/types) says which generators have closures that WRITE such variables.

  The model.  A program is a flat list of statements; an activation (= goroutine running a function body)
  has its own frame (`slots`), its own channel arguments (`chans`, copied when the goroutine was started),
  a pc, and the closure-local variables of the execution in progress (`scr`).  The state also holds the
  program's own shared objects (`heap`: channels — these are the script's, not the interpreter's) and, per
  statement, the generator-level variables (`stmt`).  One execution of a statement takes two scheduler
  steps, because a goroutine can be preempted between reading its operands and acting on them:

    fresh   → fill  : read the operands from the own frame into the operand variables — which live in `stmt[pc]`
                      when the statement's generator is listed in `closureWrites`, in `scr` otherwise;
    filled  → latch : read the operand variables back (reflect.Select copies its argument) and try to act;
    waiting → retry with the latched operands until the channel operation can proceed.

  A schedule is an arbitrary list of (activation index, choice) — the choice resolves `select` among several
  ready cases.  Nothing here is specific to `select`: any statement kind listed in `closureWrites` gets the
  shared operand variables, which is how a mutated generator that caches a per-execution value in a
  generator-level variable shows up in the model.
  Core Lean only.
-/
namespace YaegiVerif.Conc

abbrev Val := Int
abbrev ChanId := Nat

/-- a channel of the script: buffered, `cap ≥ 1` in generated programs (rendezvous is not modelled) -/
structure Chan where
  buf : List Val
  cap : Nat
  closed : Bool
  deriving DecidableEq, Repr, Inhabited

inductive Dir | recv | send | dflt
  deriving DecidableEq, Repr

/-- one communication clause of a `select`: `ch` indexes the activation's channel table, `slot` is the
    destination (recv) or source (send) slot, `target` the pc of the clause body; `ok` is the status slot of a
    two-value receive clause (`case x, ok = <-c:`) -/
structure Case where
  dir : Dir
  ch : Nat
  slot : Nat
  target : Nat
  ok : Option Nat := none
  deriving DecidableEq, Repr

inductive Stmt
  | set (dst : Nat) (v : Val)
  | add (dst a b : Nat)
  | addc (dst a : Nat) (c : Val)
  | jlt (a b : Nat) (target : Nat)
  | jmp (target : Nat)
  | send (ch src : Nat)
  | recv (dst ok ch : Nat)
  /-- `for v := range ch { … }`: one iteration test — receive into `dst` and enter the body (next pc), or leave to
      `target` when the channel is closed and drained; the body ends with a jump back to this statement -/
  | range (dst ch : Nat) (target : Nat)
  | close (ch : Nat)
  | select (cases : List Case)
  | print (src : Nat)
  | halt
  deriving DecidableEq, Repr

/-- the generator of interp/run.go / op.go whose closure executes the statement kind -/
def Stmt.gen : Stmt → String
  | .set .. => "assign"
  | .add .. => "add"
  | .addc .. => "add"
  | .jlt .. => "lower"
  | .jmp .. => "nop"
  | .send .. => "send"
  | .recv .. => "recv2"
  | .range .. => "rangeChan"
  | .close .. => "genBuiltinDeferWrapper"
  | .select .. => "_select"
  | .print .. => "callBin"
  | .halt => "_return"

def Stmt.isSelect : Stmt → Bool
  | .select .. => true
  | _ => false

/-- the extracted table: generator name ↦ captured variables its closure writes -/
abbrev CW := List (String × List String)

def writesOf (cw : CW) (g : String) : List String :=
  match cw.find? (fun e => e.1 == g) with
  | some e => e.2
  | none => []

/-- the operand variables of the statement are generator-level (shared by all activations) -/
def shared (cw : CW) (s : Stmt) : Bool := !(writesOf cw s.gen).isEmpty

/-- operand variables of one execution -/
structure Ops where
  chs : List (Option ChanId)
  vals : List Val
  deriving DecidableEq, Repr, Inhabited

inductive Phase | fresh | filled | waiting
  deriving DecidableEq, Repr

structure Act where
  slots : List Val
  chans : List ChanId
  pc : Nat
  phase : Phase
  scr : Ops
  out : List Val
  deriving DecidableEq, Repr

structure State where
  acts : List Act
  heap : ChanId → Chan
  stmt : Nat → Ops

structure Pick where
  act : Nat
  choice : Nat
  deriving DecidableEq, Repr

def Act.slot (a : Act) (i : Nat) : Val := a.slots.getD i 0

def setSlot (xs : List Val) (i : Nat) (v : Val) : List Val :=
  if i < xs.length then xs.set i v else xs ++ List.replicate (i - xs.length) 0 ++ [v]

def Ops.ch (o : Ops) (i : Nat) : Option ChanId := (o.chs[i]?).getD none
def Ops.val (o : Ops) (i : Nat) : Val := o.vals.getD i 0

/-- fill: what the closure reads from its own frame before acting -/
def operands (s : Stmt) (a : Act) : Ops :=
  match s with
  | .set _ _ => ⟨[], []⟩
  | .add _ x y => ⟨[], [a.slot x, a.slot y]⟩
  | .addc _ x _ => ⟨[], [a.slot x]⟩
  | .jlt x y _ => ⟨[], [a.slot x, a.slot y]⟩
  | .jmp _ => ⟨[], []⟩
  | .send ch src => ⟨[a.chans[ch]?], [a.slot src]⟩
  | .recv _ _ ch => ⟨[a.chans[ch]?], []⟩
  | .range _ ch _ => ⟨[a.chans[ch]?], []⟩
  | .close ch => ⟨[a.chans[ch]?], []⟩
  | .select cs => ⟨cs.map (fun c => a.chans[c.ch]?), cs.map (fun c => a.slot c.slot)⟩
  | .print src => ⟨[], [a.slot src]⟩
  | .halt => ⟨[], []⟩

/-- is case number `k` of a select ready, given the latched channel and the heap -/
def caseReady (h : ChanId → Chan) (ops : Ops) (k : Nat) (c : Case) : Bool :=
  match c.dir, ops.ch k with
  | .recv, some id => !(h id).buf.isEmpty || (h id).closed
  | .send, some id => (h id).buf.length < (h id).cap && !(h id).closed
  | _, _ => false

def readyList (h : ChanId → Chan) (ops : Ops) : Nat → List Case → List (Nat × Case)
  | _, [] => []
  | k, c :: cs => if caseReady h ops k c then (k, c) :: readyList h ops (k + 1) cs else readyList h ops (k + 1) cs

def defaultCase : List Case → Option Case
  | [] => none
  | c :: cs => if c.dir = .dflt then some c else defaultCase cs

/-- receive on channel `id`: the new activation and the channel update; `none` = would block -/
def doRecv (h : ChanId → Chan) (a : Act) (id : ChanId) (dst : Nat) (ok : Option Nat) (next : Nat) :
    Option (Act × Option (ChanId × Chan)) :=
  match (h id).buf with
  | v :: rest =>
    let s1 := setSlot a.slots dst v
    let s2 := match ok with | some o => setSlot s1 o 1 | none => s1
    some ({ a with slots := s2, pc := next }, some (id, { h id with buf := rest }))
  | [] =>
    if (h id).closed then
      let s1 := setSlot a.slots dst 0
      let s2 := match ok with | some o => setSlot s1 o 0 | none => s1
      some ({ a with slots := s2, pc := next }, none)
    else none

/-- one iteration test of `range` over channel `id` -/
def doRange (h : ChanId → Chan) (a : Act) (id : ChanId) (dst : Nat) (body exit : Nat) :
    Option (Act × Option (ChanId × Chan)) :=
  match (h id).buf with
  | v :: rest => some ({ a with slots := setSlot a.slots dst v, pc := body }, some (id, { h id with buf := rest }))
  | [] => if (h id).closed then some ({ a with pc := exit }, none) else none

def doSend (h : ChanId → Chan) (a : Act) (id : ChanId) (v : Val) (next : Nat) :
    Option (Act × Option (ChanId × Chan)) :=
  if (h id).buf.length < (h id).cap && !(h id).closed then
    some ({ a with pc := next }, some (id, { h id with buf := (h id).buf ++ [v] }))
  else none

/-- act on latched operands.  Result: the activation afterwards and at most one channel update;
    `none` = the operation blocks.  The frame is read only for what the real closures read from the frame
    AFTER the operands (destinations); every value that flows in comes from `ops`. -/
def execR (s : Stmt) (ops : Ops) (a : Act) (h : ChanId → Chan) (choice : Nat) : Option (Act × Option (ChanId × Chan)) :=
  match s with
  | .set dst v => some ({ a with slots := setSlot a.slots dst v, pc := a.pc + 1 }, none)
  | .add dst _ _ => some ({ a with slots := setSlot a.slots dst (ops.val 0 + ops.val 1), pc := a.pc + 1 }, none)
  | .addc dst _ c => some ({ a with slots := setSlot a.slots dst (ops.val 0 + c), pc := a.pc + 1 }, none)
  | .jlt _ _ t => some ({ a with pc := if ops.val 0 < ops.val 1 then t else a.pc + 1 }, none)
  | .jmp t => some ({ a with pc := t }, none)
  | .send _ _ =>
    match ops.ch 0 with
    | some id => doSend h a id (ops.val 0) (a.pc + 1)
    | none => none
  | .recv dst ok _ =>
    match ops.ch 0 with
    | some id => doRecv h a id dst (some ok) (a.pc + 1)
    | none => none
  | .range dst _ t =>
    match ops.ch 0 with
    | some id => doRange h a id dst (a.pc + 1) t
    | none => none
  | .close _ =>
    match ops.ch 0 with
    | some id => some ({ a with pc := a.pc + 1 }, some (id, { h id with closed := true }))
    | none => none
  | .select cs =>
    match readyList h ops 0 cs with
    | [] =>
      match defaultCase cs with
      | some d => some ({ a with pc := d.target }, none)
      | none => none
    | r :: rs =>
      let kc := (r :: rs).getD (choice % (r :: rs).length) r
      match kc.2.dir, ops.ch kc.1 with
      | .recv, some id => doRecv h a id kc.2.slot kc.2.ok kc.2.target
      | .send, some id => doSend h a id (ops.val kc.1) kc.2.target
      | _, _ => none
  | .print _ => some ({ a with out := a.out ++ [ops.val 0], pc := a.pc + 1 }, none)
  | .halt => none

/-- the heap as one execution can see it: only the channels among its latched operands -/
def restrict (ops : Ops) (h : ChanId → Chan) : ChanId → Chan :=
  fun id => if some id ∈ ops.chs then h id else ⟨[], 0, false⟩

/-- a closure reaches the script's channels only through its operands -/
def exec (s : Stmt) (ops : Ops) (a : Act) (h : ChanId → Chan) (choice : Nat) : Option (Act × Option (ChanId × Chan)) :=
  execR s ops a (restrict ops h) choice

def applyUpd (h : ChanId → Chan) : Option (ChanId × Chan) → (ChanId → Chan)
  | none => h
  | some (id, c) => fun k => if k = id then c else h k

def applySt (st : Nat → Ops) : Option (Nat × Ops) → (Nat → Ops)
  | none => st
  | some (pc, o) => fun k => if k = pc then o else st k

/-- effect of one scheduler step of one activation -/
structure Eff where
  act : Act
  upd : Option (ChanId × Chan)
  st : Option (Nat × Ops)

/-- latch the operands and try to act -/
def attempt (s : Stmt) (ops : Ops) (a : Act) (choice : Nat) (h : ChanId → Chan) : Eff :=
  match exec s ops a h choice with
  | some (a', u) => ⟨{ a' with phase := .fresh, scr := ops }, u, none⟩
  | none => ⟨{ a with phase := .waiting, scr := ops }, none, none⟩

/-- one scheduler step seen from the activation: `gv` is the current content of the statement's
    generator-level operand variables -/
def stepAct (cw : CW) (s : Stmt) (a : Act) (choice : Nat) (h : ChanId → Chan) (gv : Ops) : Eff :=
  match a.phase with
  | .fresh =>
    if shared cw s then ⟨{ a with phase := .filled }, none, some (a.pc, operands s a)⟩
    else ⟨{ a with phase := .filled, scr := operands s a }, none, none⟩
  | .filled => attempt s (if shared cw s then gv else a.scr) a choice h
  | .waiting => attempt s a.scr a choice h

/-- one scheduler step of activation `p.act` -/
def step (cw : CW) (prog : List Stmt) (p : Pick) (σ : State) : State :=
  match σ.acts[p.act]? with
  | none => σ
  | some a =>
    match prog[a.pc]? with
    | none => σ
    | some s =>
      let e := stepAct cw s a p.choice σ.heap (σ.stmt a.pc)
      { acts := σ.acts.set p.act e.act, heap := applyUpd σ.heap e.upd, stmt := applySt σ.stmt e.st }

/-- run a schedule -/
def run (cw : CW) (prog : List Stmt) : List Pick → State → State
  | [], σ => σ
  | p :: ps, σ => run cw prog ps (step cw prog p σ)

/-- the picks of activation `i` -/
def picksOf (i : Nat) (sched : List Pick) : List Pick := sched.filter (fun p => p.act == i)

/-- what activation `i` printed -/
def trace (i : Nat) (σ : State) : List Val := ((σ.acts[i]?).map (·.out)).getD []

/-- activation `i` run alone: the other activations never get a step -/
def runSolo (cw : CW) (prog : List Stmt) (i : Nat) (sched : List Pick) (σ : State) : State :=
  run cw prog (picksOf i sched) σ

/-- a new activation: arguments copied into its own frame -/
def mkAct (slots : List Val) (chans : List ChanId) : Act :=
  { slots := slots, chans := chans, pc := 0, phase := .fresh, scr := ⟨[], []⟩, out := [] }

def mkHeap (cs : List Chan) : ChanId → Chan := fun k => (cs[k]?).getD ⟨[], 0, false⟩

def mkState (acts : List Act) (cs : List Chan) : State :=
  { acts := acts, heap := mkHeap cs, stmt := fun _ => ⟨[], []⟩ }

/-- activation finished: its pc is outside the program or at `halt` -/
def Act.done (prog : List Stmt) (a : Act) : Bool :=
  match prog[a.pc]? with
  | none => true
  | some .halt => true
  | some _ => false

end YaegiVerif.Conc
