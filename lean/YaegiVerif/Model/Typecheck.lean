import YaegiVerif.Model.TypecheckSyntax
/-
  C12 — model of yaegi's static checks (interp/typecheck.go, interp/type.go, the call sites in
  interp/cfg.go) on the typing fragment, and of the compile-then-execute pipeline
  (interp/interp.go eval, interp/program.go).

  Three layers:
   * operator tables: `unaryOpPredicates` / `binaryOpPredicates` and the kind predicates of type.go,
     as facts regenerated from the source (`OpFacts`), with `predY`;
   * the per-context checks, transcribed function by function (`rulesY`), parametrised by the
     facts they depend on (`TcFacts`);
   * the pipeline (`evalY`), an interpreter of the statement list extracted from `eval`.
  Core Lean only.
-/
namespace YaegiVerif.Typecheck

/-! ### operator tables (facts) -/

inductive Action where
  | aInc | aDec | aPos | aNeg | aBitNot | aNot
  | aAdd | aSub | aMul | aQuo | aRem | aAnd | aOr | aXor | aAndNot | aLand | aLor
  | other (s : String)
  deriving DecidableEq, Repr, Inhabited

inductive PredName where
  | isNumber | isInt | isUint | isFloat | isComplex | isBoolean | isString | isConstantValue
  | other (s : String)
  deriving DecidableEq, Repr, Inhabited

/-- comparison operators of Go source (for extracted guards) -/
inductive CmpTok where
  | lt | le | gt | ge | eq | ne | other (s : String)
  deriving DecidableEq, Repr, Inhabited

/-- how `representableConst` bounds a constant for the signed integer kinds -/
inductive ReprMode where
  | bitLen          -- `constant.BitLen(x) <= bitlen[kind]` (the sign is ignored: F03)
  | exactRange      -- `-1<<(s-1) <= v && v <= 1<<(s-1)-1` with `s = bitlen[kind]`
  | other (s : String)
  deriving DecidableEq, Repr, Inhabited

/-- typecheck.go `comparison`: which pairs of channel types escape the "non interface types must be really equal" test -/
inductive ChanCmp where
  | identical          -- none (until 6110e8a: `chan T == <-chan T` was rejected, F12-11)
  | unnamedPair        -- 6110e8a: any two channel types one of which is not a defined type (accepted `chan int == chan N`)
  | sameElemOneBidir   -- 61b9210 `chanComparable`: not both defined, at least one bidirectional, identical element types
  | other (s : String)
  deriving DecidableEq, Repr, Inhabited

structure OpFacts where
  /-- typecheck.go `unaryOpPredicates`: action ↦ disjunction of predicate names -/
  unary : List (Action × List PredName)
  /-- typecheck.go `binaryOpPredicates` -/
  binary : List (Action × List PredName)
  /-- type.go: kinds a predicate accepts by looking at `t.Kind()` itself -/
  predKinds : List (PredName × List Kind)
  /-- type.go: predicates a predicate delegates to (`isInt(t) || isFloat(t) || …`) -/
  predCalls : List (PredName × List PredName)
  /-- typecheck.go `bitlen` -/
  bitlen : List (Kind × Nat)
  /-- typecheck.go `representableConst`, signed arm -/
  signedRepr : ReprMode
  /-- typecheck.go `convertUntyped`, arm `isNumber(ttyp) || isString(ttyp) || isBoolean(ttyp)`: starts with
      `if n.typ.isNil() || isBoolean(ntyp) != isBoolean(ttyp) { return convErr }` (385eb77) -/
  convNilBoolGuard : Bool
  /-- type.go `assignableTo`: `if t.isNil() || o.isNil() { return false }` precedes the reflect `AssignableTo` test (385eb77) -/
  assignNilGuard : Bool
  /-- typecheck.go `assignment`: an untyped operand assigned to an interface type is converted to its default type
      (`ctyp`) and then checked against the interface type itself (385eb77); before, `typ` itself was replaced -/
  constIfaceChecked : Bool
  /-- typecheck.go `comparison`: the channel pairs exempted from the "non interface types must be really equal" test -/
  cmpChanExempt : ChanCmp
  /-- typecheck.go `shift`: the shifted untyped operand is asserted to be a go/constant value only when it is one
      (1122c63; before, `true << x` panicked) -/
  shiftBoolGuard : Bool
  /-- typecheck.go `shift`, arm `isInt(t1)`: a negative constant count of a signed type is an error (5556d48) -/
  shiftNegChecked : Bool
  /-- typecheck.go `convertUntyped`, both untyped: nil converts to nil only, without asking the nil reflect.Type for its
      kind (2992617) -/
  convNilUntypedGuard : Bool
  /-- typecheck.go `comparison`: `==` / `!=` are rejected when both operands are nil (2992617) -/
  cmpNilNilRejected : Bool
  deriving DecidableEq, Repr

def lookup {α β : Type} [DecidableEq α] (k : α) : List (α × β) → Option β
  | [] => none
  | (a, b) :: rest => if a = k then some b else lookup k rest

/-- does predicate `p` accept kind `k` (delegation depth bounded by `fuel`) -/
def predAccepts (F : OpFacts) : Nat → PredName → Kind → Bool
  | 0, _, _ => false
  | fuel + 1, p, k =>
    ((lookup p F.predKinds).getD []).contains k ||
    ((lookup p F.predCalls).getD []).any (fun q => predAccepts F fuel q k)

def predOk (F : OpFacts) (p : PredName) (k : Kind) : Bool := predAccepts F 4 p k

/-- `typecheck.op`: a missing table entry is an error ("unknown operator") -/
def tableY (F : OpFacts) (table : List (Action × List PredName)) (a : Action) (k : Kind) : Bool :=
  match lookup a table with
  | none => false
  | some ps => ps.any (fun p => predOk F p k)

def unaryY (F : OpFacts) (a : Action) (k : Kind) : Bool := tableY F F.unary a k
def binaryY (F : OpFacts) (a : Action) (k : Kind) : Bool := tableY F F.binary a k

/-- operators of the Go specification that go through the two tables -/
inductive Op where
  | inc | dec | pos | neg | bitnot | not
  | add | sub | mul | quo | rem | and | or | xor | andnot | land | lor
  deriving DecidableEq, Repr, Inhabited

def Op.all : List Op :=
  [.inc, .dec, .pos, .neg, .bitnot, .not, .add, .sub, .mul, .quo, .rem, .and, .or, .xor, .andnot, .land, .lor]

def Op.isUnary : Op → Bool
  | .inc | .dec | .pos | .neg | .bitnot | .not => true | _ => false

def Op.action : Op → Action
  | .inc => .aInc | .dec => .aDec | .pos => .aPos | .neg => .aNeg | .bitnot => .aBitNot | .not => .aNot
  | .add => .aAdd | .sub => .aSub | .mul => .aMul | .quo => .aQuo | .rem => .aRem | .and => .aAnd
  | .or => .aOr | .xor => .aXor | .andnot => .aAndNot | .land => .aLand | .lor => .aLor

/-- **the table decision**: does yaegi's table accept operator `op` on an operand of kind `k` -/
def predY (F : OpFacts) (op : Op) (k : Kind) : Bool :=
  if op.isUnary then unaryY F op.action k else binaryY F op.action k

def UnOp.op : UnOp → Op
  | .pos => .pos | .neg => .neg | .bitnot => .bitnot | .not => .not
def BinOp.op : BinOp → Op
  | .add => .add | .sub => .sub | .mul => .mul | .quo => .quo | .rem => .rem | .and => .and | .or => .or
  | .xor => .xor | .andnot => .andnot | .land => .land | .lor => .lor

/-! ### facts about the call sites and guards -/

/-- typecheck.go typeAssertionExpr: the test under which a method missing from the asserted type is skipped
    (`andBin`: `!token.IsExported(name) && isBin(typ)`; `orBin`: the same with `||`) -/
inductive SkipCond where
  | andBin | orBin | other (s : String)
  deriving DecidableEq, Repr, Inhabited

/-- typecheck.go `zeroConst` -/
inductive ZeroMode where
  | untypedSign     -- `n.typ.untyped && constant.Sign(n.rval.Interface().(constant.Value)) == 0` (panics on non go/constant values)
  | numericConst    -- a valid value of numeric type: `constant.Sign == 0`, or non-settable and `IsZero()` (03fb34b, 6f2f5cf)
  | other (s : String)
  deriving DecidableEq, Repr, Inhabited

/-- how cfg.go treats a receive `<-c` that is the source of a declaration / an assignment -/
inductive RecvMode where
  | legacy     -- received in place of the destination: `var v T = <-c` gives v the element type, `v = <-c` is not checked
  | guarded    -- 3e34c55: the in-place shortcut is skipped when the types differ; `v = <-c` treated as the other unary operators
  | plain      -- 212dc2e: no shortcut, the received value is stored in its own slot and assigned like any other value
  | other (s : String)
  deriving DecidableEq, Repr, Inhabited

/-- typecheck.go `arrayLitExpr`: which counter the bounds test of a positional element looks at -/
inductive ArrLitIdx where
  | runningIndex    -- `case cat == arrayT && index >= length` (index = previous key + 1)
  | loopPosition    -- the position of the element in the literal (the seeded change of seeded/C12-3)
  | other (s : String)
  deriving DecidableEq, Repr, Inhabited

structure TcFacts where
  ops : OpFacts
  /-- cfg.go `case landExpr` / `case lorExpr` call `check.logicalExpr(n)` and leave on its error -/
  landLorChecked : Bool
  /-- cfg.go `case sendStmt` checks the sent value (`check.assignment(n.child[1], ctyp.elem(), "send")`) -/
  sendValueChecked : Bool
  /-- cfg.go `case sendStmt` rejects a receive-only channel (`ChanDir() == reflect.RecvDir`) -/
  sendDirChecked : Bool
  /-- typecheck.go `arguments`: the operator of `cnt < fun.typ.numIn()` -/
  argCountCmp : CmpTok
  /-- cfg.go returnStmt: the operators of `len(n.child) > numOut` and `nret < numOut` -/
  retTooManyCmp : CmpTok
  retTooFewCmp : CmpTok
  /-- cfg.go ifStmt0-3 / forStmt2,3,5,7: every `cond.rval.Bool()` is reached only when the condition is boolean -/
  condBoolGuarded : Bool
  /-- typecheck.go typeAssertionExpr: when is a missing method ignored -/
  assertSkipMissing : SkipCond
  /-- cfg.go returnStmt: `if c.typ.untyped && isNumber(typ.TypeOf()) { … check.representable(c, typ.TypeOf()) … }` -/
  retConstChecked : Bool
  /-- typecheck.go binaryExpr: the errors of the two `convertUntyped` calls are returned for a comparison -/
  cmpConvErrKept : Bool
  /-- typecheck.go `zeroConst` -/
  zeroConst : ZeroMode
  /-- typecheck.go binaryExpr: the zero-divisor cases list `aRemAssign` / `aQuoAssign` too -/
  opAssignZeroChecked : Bool
  /-- typecheck.go binaryExpr, `aQuo`: the zero test is `zeroConst(c1) && (c0.rval.IsValid() || isInt(c0.typ.TypeOf()))` -/
  quoFloatZeroOk : Bool
  /-- typecheck.go `index`: a negative constant index is an error, whatever `max` -/
  indexNegChecked : Bool
  /-- cfg.go `case indexExpr`: the operand must support indexing (kind test before the element type is taken,
      `!isGeneric(t)` for a function, `n.typ == nil` before `sc.add`) -/
  indexOperandChecked : Bool
  /-- cfg.go assignStmt, the case "assign by reading from a receiving channel" (`src.action == aRecv && …`):
      present without / with the `dest.typ.id() != src.typ.id()` exit, or absent -/
  recvDecl : RecvMode
  /-- cfg.go unaryExpr, `v = <op> x` shortcut (`n.anc.kind == assignStmt && n.anc.action == aAssign …`): a receive
      escapes the interface-destination test (`n.action != aRecv &&` inside), is treated like the other operators,
      or is excluded from the shortcut (`&& n.action != aRecv` in the case expression) -/
  recvAssign : RecvMode
  /-- cfg.go callExpr: `check.callValue(n)` -/
  callValueChecked : Bool
  /-- typecheck.go conversion: a typed constant converted to a numeric type must be representable
      (`c == nil && n.rval.IsValid() && isNumber(typ.TypeOf())` → `check.representable`, which reads plain Go
      values through `constValue`) (e6c1f4a) -/
  convTypedConstChecked : Bool
  /-- typecheck.go arrayLitExpr: the bounds test of a positional element -/
  arrayLitBound : ArrLitIdx
  /-- cfg.go binaryExpr post-order: `case aAdd, aSub, aMul, aQuo, aAnd, aOr, aXor, aAndNot:` gives the node the type of
      its typed operand, whatever the type propagated from the destination (2988c87) -/
  opTypeFromOperand : Bool
  /-- cfg.go binaryExpr post-order: the untyped shifted operand of a non-constant shift is checked against the type the
      context gives to the shift (b1f87d3) -/
  shiftUntypedCtx : Bool
  /-- typecheck.go `index`: the bound test is skipped for `max < 0` only (5556d48; before: `max < 1`, so an array of
      length 0 was not checked) -/
  indexZeroLenChecked : Bool
  /-- typecheck.go arrayLitExpr: `length = -1` for a slice literal (5556d48) -/
  arrayLitSliceUnbounded : Bool
  /-- 52cb9ff: cfg.go defineStmt reports `v := nil`, `convertibleTo` answers false for nil, `isBool` is nil-safe,
      `typeAssertionExpr` tests `rt == nil` -/
  nilOperandsReported : Bool
  /-- typecheck.go conversion: `case c == nil && n.rval.IsValid() && isNumber(n.typ.TypeOf()) && isNumber(typ.TypeOf())`
      accepts the constant conversion of a typed numeric constant (8b84ab3) -/
  convTypedNumericOk : Bool
  /-- typecheck.go callValue: the operand of a conversion is a single-value context
      (`anc.child[0] != c && !anc.child[0].isType(check.scope)`, 29b7aa6) -/
  callValueConvChecked : Bool
  /-- type.go `typeKind` (2992617): isChan / isFunc / isMap / isPtr and the operand test of cfg.go indexExpr answer for the
      type of nil (reflect.Invalid) instead of calling `Kind()` on the nil reflect.Type -/
  typeKindNilSafe : Bool
  /-- cfg.go binaryExpr / unaryExpr post-order: `check.operationResult` at the four no-copy shortcut sites (assignment and
      return) before the node takes the destination type (aa2ac2f) -/
  opResultChecked : Bool
  deriving DecidableEq, Repr

def CmpTok.eval : CmpTok → Nat → Nat → Bool
  | .lt, a, b => a < b | .le, a, b => a ≤ b | .gt, a, b => a > b | .ge, a, b => a ≥ b
  | .eq, a, b => a = b | .ne, a, b => a ≠ b | .other _, _, _ => false

/-! ### reflect types of the fragment (`itype.TypeOf()`) -/

/-- `reflect.Type` values `refType` builds: defined types collapse to their underlying type,
    struct types are anonymous, non-empty interface types are the fixed struct `valueInterface` -/
inductive RTy where
  | basic (b : Basic)
  | ptr (b : Basic)
  | slice (b : Basic)
  | array (n : Nat) (b : Basic)
  | map (k v : Basic)
  | chan (d : Dir) (b : Basic)
  | func (args rets : List Basic)
  | struct (fields : List Basic)
  | emptyIface
  | valueIface
  deriving DecidableEq, Repr, Inhabited

/-- `TypeOf()`; `none` is the nil `reflect.Type` of the untyped nil -/
def Ty.rtype? : Ty → Option RTy
  | .s t => some (.basic t.under)
  | .ptr t => some (.ptr t.under)
  | .slice t => some (.slice t.under)
  | .array n t => some (.array n t.under)
  | .map k v => some (.map k.under v.under)
  | .chan d t => some (.chan d t.under)
  | .func a r => some (.func (a.map STy.under) (r.map STy.under))
  | .struct _ f _ => some (.struct (f.map STy.under))
  | .iface _ m => some (if m.isEmpty then .emptyIface else .valueIface)
  | .untyped u => some (.basic u.defaultBasic)
  | .nil => none

def RTy.kind : RTy → Kind
  | .basic b => b.kind | .ptr _ => .ptr | .slice _ => .slice | .array _ _ => .array | .map _ _ => .map
  | .chan _ _ => .chan | .func _ _ => .func | .struct _ => .struct | .emptyIface => .interface
  | .valueIface => .struct

def Ty.kind? (t : Ty) : Option Kind := t.rtype?.map RTy.kind

/-- `reflect.Type.AssignableTo` between types built by `refType` (all unnamed) -/
def rAssignable (t v : RTy) : Bool :=
  t == v || v == .emptyIface ||
  match t, v with
  | .chan .both a, .chan _ b => a == b
  | _, _ => false

/-- `reflect.Type.Comparable` -/
def RTy.comparable : RTy → Bool
  | .slice _ | .map _ _ | .func _ _ => false
  | _ => true

/-- `reflect.Type.ConvertibleTo` (reflect.convertOp) -/
def rConvertible (t v : RTy) : Bool :=
  t == v || v == .emptyIface ||
  match t, v with
  | .basic a, .basic b =>
    (a.kind.isInteger && (b.kind.isInteger || b.kind.isFloat || b == .string)) ||
    (a.kind.isFloat && (b.kind.isInteger || b.kind.isFloat)) ||
    (a.kind.isComplex && b.kind.isComplex)
  | .basic .string, .slice b => b == .uint8 || b == .int32
  | .slice a, .basic .string => a == .uint8 || a == .int32
  | .slice a, .array _ b => a == b
  | .chan .both a, .chan _ b => a == b
  | _, _ => false

/-! ### type.go predicates on `*itype` -/

/-- safe predicates (`t != nil && …`): false on the nil reflect.Type -/
def kindIs (F : OpFacts) (p : PredName) (t : Ty) : Bool :=
  match t.kind? with
  | some k => predOk F p k
  | none => false

def isNumberT (F : OpFacts) (t : Ty) : Bool := kindIs F .isNumber t
def isIntT (F : OpFacts) (t : Ty) : Bool := kindIs F .isInt t
def isFloatT (F : OpFacts) (t : Ty) : Bool := kindIs F .isFloat t
def isStringT (F : OpFacts) (t : Ty) : Bool := kindIs F .isString t
def isBooleanT (F : OpFacts) (t : Ty) : Bool := kindIs F .isBoolean t
/-- `isConstType` -/
def isConstTypeT (F : OpFacts) (t : Ty) : Bool := isBooleanT F t || isStringT F t || isNumberT F t

/-- predicates that call `.Kind()` on the result of `TypeOf()` directly: a Go panic on untyped nil -/
def kindOf (t : Ty) : Res Kind :=
  match t.kind? with
  | some k => .ok k
  | none => .crash

/-- `isInterface` -/
def isInterfaceT (t : Ty) : Bool := t.isIface
/-- `isArray` (array or slice; guarded against nilT) -/
def isArrayT (t : Ty) : Bool :=
  match t.kind? with
  | some .array | some .slice => true
  | _ => false

/-- `hasNil` -/
def hasNilT (t : Ty) : Res Bool := do
  let k ← kindOf t
  .ok (match k with
    | .unsafePointer | .slice | .ptr | .func | .interface | .map | .chan => true
    | .struct => t.isIface      -- rt == valueInterfaceType
    | _ => false)

/-- `itype.equals`: identity of the type strings, except that an interface side compares method-name sets -/
def equalsT (t o : Ty) : Bool :=
  match t.isIface, o.isIface with
  | true, true => subset t.methods o.methods && subset o.methods t.methods
  | true, false => subset t.methods o.methods
  | false, true => subset o.methods t.methods
  | false, false => t == o

/-- `cat == linkedT`: a type declared `type N ident` -/
def isLinked : Ty → Bool
  | .s (.named _) => true
  | _ => false

/-- `typeDefined`: one is declared directly from the other (pointer identity of `val`): a defined type
    over a predeclared type, against that predeclared type -/
def typeDefinedT (t o : Ty) : Bool :=
  match t, o with
  | .s (.named n), .s (.basic b) => n.under == b
  | .s (.basic b), .s (.named n) => n.under == b
  | _, _ => false

/-- magnitude test of `representableConst`: `constant.BitLen(x) <= bitlen[kind]` (BitLen ignores the sign) -/
def fitsBitLen (F : OpFacts) (k : Kind) (v : Int) : Bool :=
  match lookup k F.bitlen with
  | some n => v.natAbs < 2 ^ n
  | none => false

/-- exact signed range of the width given by `bitlen` -/
def fitsSigned (F : OpFacts) (k : Kind) (v : Int) : Bool :=
  match lookup k F.bitlen with
  | some (n + 1) => decide (-(2 ^ n : Int) ≤ v) && decide (v < (2 ^ n : Int))
  | _ => false

/-- `representableConst(c, t)` for the constant values of the fragment -/
def representableConstY (F : OpFacts) (c : CVal) (k : Kind) : Bool :=
  if predOk F .isInt k then
    match c with
    | .int v | .float v false =>
      if k.isSigned then
        (match F.signedRepr with
         | .bitLen => decide (-9223372036854775808 ≤ v) && decide (v < 9223372036854775808) && fitsBitLen F k v
         | .exactRange => decide (-9223372036854775808 ≤ v) && decide (v < 9223372036854775808) && fitsSigned F k v
         | .other _ => false)
      else if k.isUnsigned then decide (0 ≤ v) && decide (v < 18446744073709551616) && fitsBitLen F k v
      else false
    | _ => false
  else if predOk F .isFloat k || predOk F .isComplex k then
    match c with
    | .int _ | .float _ _ => true      -- small magnitudes: never ±Inf
    | .str => false
  else if predOk F .isString k then c == .str
  else false                            -- isBoolean: no go/constant booleans in the fragment

/-- element types of `t.val.assignableTo(o.val)` (slice arm of assignableTo) -/
def assignableElemY (a b : STy) : Bool :=
  a == b || (!(a.isNamed && b.isNamed) && a.under == b.under)

/-- the tail of `assignableTo`, once both reflect types are known -/
def assignableTailY (F : OpFacts) (t o : Ty) (rv : RVal) (rt ro : RTy) : Bool :=
  if rAssignable rt ro then true
  else if o.isIface && subset o.methods t.methods then true
  else match t, o with
    | .slice a, .slice b => assignableElemY a b
    | _, _ =>
      if t.isUntyped && isNumberT F t && isNumberT F o then true
      else match rv with
        | .const c => isConstTypeT F o && representableConstY F c ro.kind
        | _ => false

/-- `itype.assignableTo`; `rv` is the value held by the node the type is attached to -/
def assignableToY (F : OpFacts) (t o : Ty) (rv : RVal) : Res Bool :=
  if equalsT t o then .ok true
  else if isLinked t && isLinked o then .ok false
  else
    match (if t.isNil then hasNilT o else .ok false) with
    | .ok true => .ok true
    | .ok false =>
      (match (if o.isNil then hasNilT t else .ok false) with
       | .ok true => .ok true
       | .ok false =>
         if F.assignNilGuard && (t.isNil || o.isNil) then .ok false else
         (match t.rtype?, o.rtype? with
          | some rt, some ro => .ok (assignableTailY F t o rv rt ro)
          | _, _ => .crash)            -- AssignableTo on / of the nil reflect.Type
       | .err => .err | .crash => .crash | .abstain => .abstain)
    | .err => .err | .crash => .crash | .abstain => .abstain

/-- `itype.convertibleTo` -/
def convertibleToY (F : OpFacts) (t o : Ty) (rv : RVal) : Res Bool := do
  if ← assignableToY F t o rv then return true
  match t.rtype?, o.rtype? with
  | some rt, some ro => return rConvertible rt ro
  | _, _ => .crash

/-- `defaultType` -/
def defaultTypeY (t : Ty) : Ty :=
  match t with
  | .untyped u => .s (.basic u.defaultBasic)
  | t => t

/-- `typecheck.convertUntyped(n, typ)`: the operand with its (possibly) new type -/
def convertUntypedY (F : OpFacts) (n : Opnd) (typ : Ty) : Res Opnd :=
  if !n.ty.isUntyped then .ok n else
  if typ.isUntyped then
    -- 2992617: the type of nil has no reflect type; nil converts to nil only
    if F.convNilUntypedGuard && (n.ty.isNil || typ.isNil) then (if n.ty.isNil != typ.isNil then .err else .ok n) else
    -- both untyped: compare reflect kinds
    match n.ty.kind?, typ.kind? with
    | some nk, some tk =>
      if predOk F .isNumber nk && predOk F .isNumber tk then .ok n    -- (type may widen; not observable here)
      else if nk != tk then .err else .ok n
    | _, _ => .crash
  else if typ.isNil && n.ty.isNil then .ok ⟨typ, n.rv⟩
  else if isNumberT F typ || isStringT F typ || isBooleanT F typ then
    -- nil, true and false are not go/constant values: rejected here since 385eb77
    if F.convNilBoolGuard && (n.ty.isNil || isBooleanT F n.ty != isBooleanT F typ) then .err else
    -- representable + convertConst (only go/constant values are examined)
    match n.rv, typ.kind? with
    | .const c, some k => if representableConstY F c k then .ok ⟨typ, n.rv⟩ else .err
    | _, _ => .ok ⟨typ, n.rv⟩
  else if isInterfaceT typ then
    if n.ty.isNil then .ok n else .ok ⟨defaultTypeY n.ty, n.rv⟩
  else
    match typ.kind? with
    | none => .crash
    | some k =>
      if k == .array || k == .slice || k == .map || k == .chan || k == .func || k == .ptr then
        (if n.ty.isNil then .ok n else .err)
      else .err

/-- `ok` / `err` from a Boolean decision -/
def okIf (b : Bool) : Res Unit := if b then .ok () else .err

/-- `typecheck.assignment(n, typ, ctx)` with `typ` present -/
def assignmentY (F : OpFacts) (n : Opnd) (typ : Ty) : Res Unit :=
  if n.ty.isNil && isInterfaceT typ then .ok ()          -- defaultType of nil is nil itself
  else
    let ctyp := if n.ty.isUntyped && isInterfaceT typ then defaultTypeY n.ty else typ
    let typ' := if F.constIfaceChecked then typ else ctyp
    match (if n.ty.isUntyped then convertUntypedY F n ctyp else .ok n) with
    | .ok n' =>
      (match assignableToY F n'.ty typ' n'.rv with
       | .ok b => okIf b
       | .err => .err | .crash => .crash | .abstain => .abstain)
    | .err => .err | .crash => .crash | .abstain => .abstain

/-! ### the rules of each context -/

/-- `zeroConst` -/
def zeroConstY (T : TcFacts) (n : Opnd) : Res Bool :=
  match T.zeroConst with
  | .untypedSign =>
    if !n.ty.isUntyped then .ok false else
    match n.rv with
    | .const (.int v) => .ok (v == 0)
    | .const (.float v f) => .ok (v == 0 && !f)
    | _ => .crash      -- constant.Sign of a string, type assertion of a Go bool, Interface() of an invalid Value
  | .numericConst =>
    if !n.rv.valid || !isNumberT T.ops n.ty then .ok false else
    match n.rv with
    | .const (.int v) => .ok (v == 0)
    | .const (.float v f) => .ok (v == 0 && !f)
    | .typed (some v) => .ok (v == 0)          -- a plain Go value: `IsZero()`
    | _ => .ok false
  | .other _ => .abstain

def bothConstant (x y : Opnd) : Bool := x.isConst && y.isConst

/-- `typecheck.comparison` -/
def comparisonY (F : OpFacts) (op : CmpOp) (x y : Opnd) : Res Opnd := do
  let t0 := x.ty
  let t1 := y.ty
  let a ← assignableToY F t0 t1 x.rv
  let b ← if a then pure true else assignableToY F t1 t0 y.rv
  if !(a || b) then .err
  if !t0.isIface && !t1.isIface && !t0.isNil && !t1.isNil && t0.isUntyped == t1.isUntyped && t0 != t1 && !typeDefinedT t0 t1 &&
      -- channel pairs exempted (every channel type of the fragment is a type literal, never a defined type)
      !(match F.cmpChanExempt, t0, t1 with
        | .unnamedPair, .chan _ _, .chan _ _ => true
        | .sameElemOneBidir, .chan d0 e0, .chan d1 e1 => (d0 == .both || d1 == .both) && e0 == e1
        | _, _, _ => false) then .err
  if (match F.cmpChanExempt with | .other _ => true | _ => false) then .abstain
  -- the universe scope holds two type objects for uint8, `uint8` and `byte` (string indexing yields `byte`, and so does a
  -- variable defined from it); `typeDefined` compares pointers, so `type N uint8` is "defined from" the first only.
  -- Which object an operand carries is not tracked: a defined type over uint8 against uint8 is outside the description.
  if t0 != t1 && typeDefinedT t0 t1 && (t0 == .s (.basic .uint8) || t1 == .s (.basic .uint8)) then .abstain
  let ok ← (match op with
    | .eq | .ne => do
      let c0 ← (if t0.isNil then pure true else match t0.rtype? with | some r => pure r.comparable | none => pure false)
      let c1 ← (if t1.isNil then pure true else match t1.rtype? with | some r => pure r.comparable | none => pure false)
      if F.cmpNilNilRejected && t0.isNil && t1.isNil then pure false     -- nil is compared to an operand whose type has nil (2992617)
      else if c0 && c1 then pure true
      else if t0.isNil then hasNilT t1
      else if t1.isNil then hasNilT t0
      else pure false
    | _ => pure ((isIntT F t0 || isFloatT F t0 || isStringT F t0) && (isIntT F t1 || isFloatT F t1 || isStringT F t1)))
  if ok then .ok ⟨.s (.basic .bool), .ubool⟩ else .err

/-- result type of a binary node (`nodeType2` binaryExpr arm, non-shift) -/
def binResultTy (F : OpFacts) (x y : Opnd) : Ty :=
  if x.ty.isUntyped then
    if y.ty.isUntyped && isIntT F y.ty && isFloatT F x.ty then x.ty else y.ty
  else x.ty

/-- `typecheck.binaryExpr` for the arithmetic operators (`+ - * / % & | ^ &^`). `z`: the node's type
    was pre-set to the destination type of the enclosing statement (pre-order propagation); then
    (i) the `+` guard compares number-ness of that type and of the operands, (ii) the node keeps
    that type (except `%`, whose type is reset to the left operand's). -/
def arithY (T : TcFacts) (op : BinOp) (assignForm : Bool) (z : Option Ty) (x y : Opnd) : Res Opnd := do
  let F := T.ops
  match op with
  | .add =>
    if !assignForm then
      let mixed := match z with
        | some t => isNumberT F t != isNumberT F x.ty || isNumberT F t != isNumberT F y.ty
        | none => false
      if mixed then .err
  | .rem =>
    -- `case aRem, aRemAssign` (the assignment forms are listed since 03fb34b)
    if !assignForm || T.opAssignZeroChecked then
      if ← zeroConstY T y then .err
  | .quo =>
    if !assignForm || T.opAssignZeroChecked then
      -- since 03fb34b a floating-point or complex variable may be divided by a constant zero
      if (← zeroConstY T y) && (!T.quoFloatZeroOk || x.rv.valid || isIntT F x.ty) then .err
      -- (until 6f2f5cf a constant quotient left here; constant operands never reach this rule: `binY`)
  | _ => pure ()
  -- `_ = check.convertUntyped(c0, c1.typ)`: the error is dropped, a Go panic is not
  let x' ← (match convertUntypedY F x y.ty with | .err => Res.ok x | r => r)
  let y' ← (match convertUntypedY F y x'.ty with | .err => Res.ok y | r => r)
  if !equalsT x'.ty y'.ty then .err
  match x'.ty.kind? with
  | some k =>
    if binaryY F op.op.action k then
      .ok ⟨(match z with
            | some t =>
              if op == .rem then binResultTy F x' y'
              -- 2988c87: the node takes the type of its typed operand, whatever the propagated type
              else if T.opTypeFromOperand && !x'.ty.isUntyped then x'.ty
              else if T.opTypeFromOperand && !y'.ty.isUntyped then y'.ty
              else t
            | none => binResultTy F x' y'), .none⟩
    else .err
  | none => .err

/-- `&&` / `||`: cfg.go wires the operands and takes the type of the left one -/
def logicalOperandY (F : OpFacts) (op : BinOp) (c : Opnd) : Res Unit :=
  match c.ty.kind? with
  | some k => if binaryY F op.op.action k then .ok () else .err
  | none => .err                                   -- `isBoolean(nil)` is false

/-- `typecheck.logicalExpr` (5877dba): each operand goes through the `aLand` / `aLor` entry of `binaryOpPredicates`,
    untyped operands are converted, the two types must be equal unless one operand is a comparison
    (`isComparison`: the operands whose value is the untyped boolean of the fragment, `RVal.ubool`).
    Before the repair cfg.go wired the operands and took the type of the left one without any check. -/
def landLorY (T : TcFacts) (op : BinOp) (x y : Opnd) : Res Opnd :=
  if T.landLorChecked then do
    logicalOperandY T.ops op x
    logicalOperandY T.ops op y
    let x' ← (match convertUntypedY T.ops x y.ty with | .err => Res.ok x | r => r)
    let y' ← (match convertUntypedY T.ops y x'.ty with | .err => Res.ok y | r => r)
    if !equalsT x'.ty y'.ty && !(x.rv == .ubool) && !(y.rv == .ubool) then .err
    .ok ⟨x'.ty, boolResultRv x y⟩
  else
    match x.ty with
    | .nil => .crash           -- `sc.add(n.typ)` on the untyped nil: "nil reflect type"
    | t => .ok ⟨t, boolResultRv x y⟩

def binY (T : TcFacts) (op : BinOp) (z : Option Ty) (x y : Opnd) : Res Opnd :=
  if bothConstant x y then .abstain       -- constant folding is the subject of C03
  else match op with
    | .land | .lor => landLorY T op x y
    | _ => arithY T op false z x y

def cmpY (T : TcFacts) (op : CmpOp) (x y : Opnd) : Res Opnd := do
  if bothConstant x y then .abstain
  let rx := convertUntypedY T.ops x y.ty
  let x' ← (match rx with | .err => Res.ok x | r => r)
  let ry := convertUntypedY T.ops y x'.ty
  let y' ← (match ry with | .err => Res.ok y | r => r)
  -- since 03fb34b the conversion errors are returned (after both conversions have run)
  if T.cmpConvErrKept && (rx == .err || ry == .err) then .err
  comparisonY T.ops op x' y'

/-- `typecheck.shift` -/
def shiftCheckY (F : OpFacts) (x y : Opnd) : Res Unit := do
  let leftConstInt ← (if x.ty.isUntyped then
      match x.rv with
      | .none => pure false
      | .const (.int _) | .const (.float _ false) => pure true
      | .const _ => pure false
      | _ => if F.shiftBoolGuard then pure false else Res.crash   -- `.(constant.Value)` of a plain Go bool (until 1122c63)
    else pure false)
  if !(leftConstInt || isIntT F x.ty) then .err
  if y.ty.isUntyped then
    match convertUntypedY F y (.s (.basic .uint)) with
    | .ok _ => .ok ()
    | .crash => .crash
    | _ => .err
  else if isIntT F y.ty then
    -- 5556d48: a negative constant count of a signed integer type
    (match y.rv with
     | .typed (some v) => if F.shiftNegChecked && !kindIs F .isUint y.ty && v < 0 then .err else .ok ()
     | _ => .ok ())
  else .err

def shiftY (T : TcFacts) (_op : ShOp) (x y : Opnd) : Res Opnd := do
  if bothConstant x y then .abstain
  shiftCheckY T.ops x y
  -- b1f87d3: an untyped constant shifted by a non-constant count is checked against the type its context gives to the
  -- shift node (propagated destination type, or the default type in a declaration): not described (nor by the specification side)
  if T.shiftUntypedCtx && x.ty.isUntyped && x.isConst then .abstain
  .ok ⟨x.ty, .none⟩

/-- `typecheck.unaryExpr` -/
def unY (T : TcFacts) (op : UnOp) (x : Opnd) : Res Opnd := do
  if x.isConst then .abstain             -- constant folding
  match x.ty.kind? with
  | some k => if unaryY T.ops op.op.action k then .ok ⟨x.ty, boolResultRv x x⟩ else .err
  | none => .err

def recvY (T : TcFacts) (x : Opnd) : Res Opnd := do
  if T.typeKindNilSafe && x.ty.isNil then .err              -- `isChan` through `typeKind` (2992617)
  let k ← kindOf x.ty
  if k != .chan then .err
  match x.ty with
  | .chan .send _ => .err
  | .chan _ t => .ok ⟨.s t, .none⟩
  | _ => .err

/-- `typecheck.conversion` followed by the `implements` test of cfg.go -/
def convY (T : TcFacts) (typ : Ty) (x : Opnd) : Res Opnd := do
  let F := T.ops
  if typ.isUntyped then .err
  let c : Option CVal := match x.rv with | .const c => some c | _ => none
  -- e6c1f4a: the conversion of a typed constant to a numeric type is a constant conversion: `representable` on the
  -- plain Go value. A typed constant without an integer value (`RVal.typed none`) of a floating-point type has a
  -- fractional part; of a string or boolean type it is not a number (rejected here, and by `convertibleTo` anyway)
  if T.convTypedConstChecked && isNumberT F typ then
    match x.rv, typ.kind? with
    | .typed (some v), some k => if !representableConstY F (.int v) k then .err
    | .typed none, _ => if isIntT F typ && isFloatT F x.ty then .err
    | _, _ => pure ()
  -- 52cb9ff: `convertibleTo` answers false for nil after the assignability test (before: `Kind()` of the nil reflect.Type)
  let convertible : Res Bool :=
    if T.nilOperandsReported && x.ty.isNil then assignableToY F x.ty typ x.rv else convertibleToY F x.ty typ x.rv
  let ok ← (match c with
    | some c =>
      if isConstTypeT F typ then
        match typ.kind? with
        | some k => pure (representableConstY F c k || (isIntT F x.ty && predOk F .isString k))
        | none => pure false
      else convertible
    | none => do
      let b ← convertible
      -- 8b84ab3: a typed numeric constant converted to a numeric type (representable, as checked above): a constant conversion
      pure (b || (T.convTypedNumericOk && (match x.rv with | .typed _ => true | _ => false) && isNumberT F x.ty && isNumberT F typ)))
  if !ok then .err
  if x.ty.isUntyped then
    match c with
    | some c =>
      let target := if isInterfaceT typ || !isConstTypeT F typ then defaultTypeY x.ty else typ
      -- an integer constant converted to a string type has been replaced by the string constant
      let c' := if isConstTypeT F typ && isStringT F typ && isIntT F x.ty &&
                   !(match typ.kind? with | some k => representableConstY F c k | none => false) then CVal.str else c
      let _ ← convertUntypedY F ⟨x.ty, .const c'⟩ target
    | none => pure ()
  -- cfg.go: conversion to an interface type
  if isInterfaceT typ && !x.ty.isNil then
    if !subset typ.methods x.ty.methods then .err
  .ok ⟨typ, convResultRv typ x⟩

/-- `typecheck.index` -/
def indexCheckY (T : TcFacts) (i : Opnd) (max : Option Nat) : Res Unit := do
  let F := T.ops
  let i' ← convertUntypedY F i (.s (.basic .int))
  if !isIntT F i'.ty then .err
  let v? : Option Int := match i'.rv with
    | .const (.int v) | .const (.float v false) | .typed (some v) => some v
    | _ => none
  match v? with
  | none => .ok ()
  | some v =>
    if T.indexNegChecked && v < 0 then .err           -- "index must not be negative" (03fb34b)
    else match max with
      | some m => if (T.indexZeroLenChecked || m ≥ 1) && v ≥ m then .err else .ok ()   -- `max < 0` since 5556d48, `max < 1` before
      | none => .ok ()

/-- cfg.go `case indexExpr` -/
def indexY (T : TcFacts) (a i : Opnd) : Res Opnd := do
  let F := T.ops
  -- 8a6620e: "invalid operation: cannot index …" for every operand that does not support indexing (the fragment has
  -- no pointer to array, no generic function or struct); before, the element type was nil and `sc.add(nil)` panicked,
  -- or a later error was overwritten by the result of `check.index`
  let bad : Res Opnd := if T.indexOperandChecked then .err else .crash
  match a.ty with
  | .s t =>
    if t.under == .string then do indexCheckY T i none; .ok ⟨.s (.basic .uint8), .none⟩
    else bad                                     -- element type nil: `sc.add(nil)` panicked
  | .ptr (.basic _) => bad
  | .ptr (.named n) =>
    if T.indexOperandChecked then .err
    else do indexCheckY T i none; .ok ⟨.s (.basic n.under), .none⟩   -- the "does not support indexing" error was overwritten
  | .slice t => do indexCheckY T i none; .ok ⟨.s t, .none⟩
  | .array n t => do indexCheckY T i (some n); .ok ⟨.s t, .none⟩
  | .map k v => do assignmentY F i (.s k); .ok ⟨.s v, .none⟩
  | .chan _ t =>
    if T.indexOperandChecked then .err
    else do indexCheckY T i none; .ok ⟨.s t, .none⟩                  -- idem
  | .func a r =>
    if T.indexOperandChecked then .err
    else .ok ⟨.func a r, .none⟩                                      -- the generic-instantiation arm returned early
  | .struct _ _ _ => bad
  | .iface _ _ => bad
  | .untyped _ => .abstain
  | .nil => if T.typeKindNilSafe then .err else .crash   -- `t.TypeOf()` is the nil reflect.Type: `rt.Kind()` panicked until 2992617 (`typeKind`)

/-- `typecheck.arguments` / `argument` for non-variadic interpreted functions, arguments not spread -/
def callArgsY (T : TcFacts) (params : List STy) : Nat → List Opnd → Res Unit
  | _, [] => .ok ()
  | i, a :: rest =>
    match params[i]? with
    | none => .err                                           -- "too many arguments"
    | some p => do assignmentY T.ops a (.s p); callArgsY T params (i + 1) rest

def callY (T : TcFacts) (params : List STy) (args : List Opnd) : Res Unit := do
  callArgsY T params 0 args
  if T.argCountCmp.eval args.length params.length then .err else .ok ()

/-- `typecheck.callValue` (f150e30): a call without result, or with several, used as a single value is an error.
    cfg.go skips the check for conversions and `callValue` takes the operand of a conversion for a call argument
    (`anc.kind == callExpr`): there (`conv = true`) a call without result makes the conversion dereference a nil
    type (Go panic) and a multi-value call is not described. Calls that are the whole argument list of another call
    or the sole operand of a return are legal Go with several results: outside the description on both sides. -/
def callValueY (T : TcFacts) (conv : Bool) (rets : List STy) : Res Opnd :=
  match rets with
  | [r] => .ok ⟨.s r, .none⟩
  | [] => if !T.callValueChecked then .abstain else if conv && !T.callValueConvChecked then .crash else .err
  | _ => if conv && T.callValueChecked && T.callValueConvChecked then .err else .abstain   -- 29b7aa6: a conversion takes a single value

/-- `typecheck.operationResult` (aa2ac2f): the type the operation has by its operands — for the fragment the type of the
    result operand; `bool` for a comparison (`isComparison`: the values marked `RVal.ubool`), accepted by any boolean
    destination — must be assignable to the destination, unless it is untyped or the destination is an interface -/
def opResultY (T : TcFacts) (x : Opnd) (dst : Ty) : Res Unit :=
  if !T.opResultChecked || dst.isIface then .ok ()
  else if x.rv == .ubool && isBooleanT T.ops dst then .ok ()
  else
    let t : Ty := if x.rv == .ubool then .s (.basic .bool) else x.ty
    if t.isUntyped then .ok ()
    else match assignableToY T.ops t dst .none with
      | .ok b => okIf b
      | .err => .err | .crash => .crash | .abstain => .abstain

/-- `assignExpr` for `var v T = e` (`decl`) and `v = e`. For `v = e` whose source is a non-constant
    unary / binary operator node, the post-order shortcut of cfg.go ("store the result directly at the
    destination") has replaced the node's type by the destination type, so the assignment check sees
    identical types — except (since 3e0b633) when the destination is of interface type and the operator's
    own type is not: the node keeps its type and the assignment is checked normally.
    (Arithmetic nodes already carry the destination type by propagation, in both statements.) -/
def assignY (T : TcFacts) (decl : Bool) (sh : Shape) (dst : Ty) (x : Opnd) : Res Ty :=
  let shortcut : Res Ty :=
    if dst.isIface && !x.ty.isIface then do assignmentY T.ops x dst; .ok dst
    else do opResultY T x dst; .ok dst            -- until aa2ac2f the node took the destination type unchecked
  match sh with
  | .plain | .arith .land | .arith .lor => do assignmentY T.ops x dst; .ok dst
  | .arith op =>
    if !decl then shortcut
    -- nodeType2: an arithmetic node that is the direct source of `var v I = …` gets (a copy of) the interface type
    else if dst.isIface && op != .rem then .ok dst
    else do assignmentY T.ops x dst; .ok dst
  | .recv =>
    -- "assign by reading from a receiving channel": `dest.typ = src.typ`, the variable took the element type;
    -- since 3e34c55 the shortcut is skipped when the two types differ, and `v = <-c` is treated as the other
    -- unary operators are; since 212dc2e there is no shortcut at all: a receive is assigned like any other value
    if decl then
      (match T.recvDecl with
       | .legacy => do assignmentY T.ops x dst; .ok x.ty
       | .guarded | .plain => do assignmentY T.ops x dst; .ok dst
       | .other _ => .abstain)
    else
      (match T.recvAssign with
       | .legacy => .ok dst
       | .guarded => shortcut
       | .plain => do assignmentY T.ops x dst; .ok dst
       | .other _ => .abstain)
  | _ => if decl then do assignmentY T.ops x dst; .ok dst else shortcut

def defineY (T : TcFacts) (x : Opnd) : Res Ty :=
  match x.ty with
  | .nil => if T.nilOperandsReported then .err else .crash      -- "use of untyped nil in assignment" (52cb9ff)
  | t => do
    let d := defaultTypeY t
    assignmentY T.ops x d
    .ok d

def opassignY (T : TcFacts) (op : BinOp) (dst : Ty) (x : Opnd) : Res Unit := do
  let _ ← (match op with
    | .land | .lor => Res.abstain
    | _ => arithY T op true none ⟨dst, .none⟩ x)
  .ok ()

def shassignY (T : TcFacts) (_op : ShOp) (dst : Ty) (x : Opnd) : Res Unit :=
  shiftCheckY T.ops ⟨dst, .none⟩ x

def incdecY (T : TcFacts) (dst : Ty) : Res Unit := do
  let k ← kindOf dst
  if unaryY T.ops .aInc k then .ok () else .err

def sendY (T : TcFacts) (c v : Opnd) : Res Unit := do
  if T.typeKindNilSafe && c.ty.isNil then .err              -- `isChan` through `typeKind` (2992617)
  let k ← kindOf c.ty
  if k != .chan then .err
  match c.ty with
  | .chan d t =>
    if T.sendDirChecked && d == .recv then .err        -- "cannot send to receive-only channel" (82e65a0)
    else if T.sendValueChecked then assignmentY T.ops v (.s t)
    else .ok ()
  | _ => .err

/-- typecheck.go `typeAssertionExpr` (called by cfg.go `case typeAssertExpr`): the operand must be of interface
    type; an empty interface or an interface target is a dynamic check; otherwise every method of the interface
    must be found in the asserted type (no type of the fragment is a binary type: `isBin` is false; all methods
    of the fragment have value receivers and the signature `func()`, so the receiver and signature tests pass) -/
def assertY (T : TcFacts) (typ : Ty) (x : Opnd) : Res Opnd := do
  if T.nilOperandsReported && x.ty.isNil then .err          -- `rt == nil` (52cb9ff)
  let _ ← kindOf x.ty
  if !x.ty.isIface then .err
  else if x.ty.methods.isEmpty || typ.isIface then .ok ⟨typ, .none⟩
  else
    match T.assertSkipMissing with
    | .andBin => if x.ty.methods.all (fun m => typ.methods.contains m) then .ok ⟨typ, .none⟩ else .err
    | .orBin => if x.ty.methods.all (fun m => typ.methods.contains m || !methodExported m) then .ok ⟨typ, .none⟩ else .err
    | .other _ => .abstain

/-- cfg.go ifStmt*/forStmt*: `!isBool(cond.typ)` sets the error; when the clause does not leave at that point
    (`condBoolGuarded = false`, the tree before the repair of F11) `cond.rval.Bool()` runs on the constant and panics -/
def condY (T : TcFacts) (c : Opnd) : Res Unit := do
  if T.nilOperandsReported && c.ty.isNil then .err          -- `isBool` is nil-safe (52cb9ff): "non-bool used as condition"
  let k ← kindOf c.ty
  let isBool := k == .bool
  match c.rv with
  | .none | .ubool => if isBool then .ok () else .err
  | .gobool _ => if isBool then .ok () else .err
  | .typed _ => if isBool then .ok () else (if T.condBoolGuarded then .err else .crash)
  | .const _ => if T.condBoolGuarded then .err else .crash       -- reflect.Value.Bool on a go/constant value

/-- cfg.go `case returnStmt` -/
def retValsY (T : TcFacts) : List STy → List (Shape × Opnd) → Res Unit
  | _, [] => .ok ()
  | [], _ :: _ => .err
  | r :: rs, (sh, x) :: rest =>
    match sh with
    | .plain | .cmp | .shift | .recv | .arith .land | .arith .lor | .arith .rem => do
      if !(← assignableToY T.ops x.ty (.s r) x.rv) then .err
      -- 03fb34b: a numeric constant must be representable in the result type (`check.representable`)
      let repr := match x.rv with
        | .const c => representableConstY T.ops c r.under.kind
        | _ => true
      if T.retConstChecked && x.ty.isUntyped && isNumberT T.ops (.s r) && !repr then .err
      retValsY T rs rest
    | _ => do
      -- unary / arithmetic node: its type is replaced by the result type (shortcut), after `operationResult` since aa2ac2f
      opResultY T x (.s r)
      retValsY T rs rest

def retY (T : TcFacts) (results : List STy) (vals : List (Shape × Opnd)) : Res Unit := do
  if T.retTooManyCmp.eval vals.length results.length then .err
  if T.retTooFewCmp.eval vals.length results.length then .err
  retValsY T results vals

/-! ### index discipline of array and slice literals (typecheck.go `arrayLitExpr`) -/

/-- an element of an array / slice literal, as far as its index is concerned: `k: v` with an integer constant key, or `v` -/
inductive LitElem where
  | keyed (k : Int)
  | pos
  deriving DecidableEq, Repr, Inhabited

/-- `arrayLitExpr` (element values aside): `i` is the position in the literal, `index` the running index, `vis` the
    indexes seen so far. `length` is `typ.length` (0 for a slice type). A key goes through `check.index(key, length)`:
    negative → error (`indexNegChecked`), `length ≥ 1 ∧ k ≥ length` → error. -/
def arrayLitY (T : TcFacts) (isArray : Bool) (length : Nat) : List LitElem → (i index : Nat) → (vis : List Nat) → Res Unit
  | [], _, _, _ => .ok ()
  | .keyed k :: rest, i, _, vis =>
    if k < 0 then (if T.indexNegChecked then .err else .abstain)
    -- `check.index(key, max)` with max = the array length, or for a slice literal -1 (5556d48) / 0 (before)
    else if (if isArray || !T.arrayLitSliceUnbounded then (T.indexZeroLenChecked || length ≥ 1) && k.toNat ≥ length else false) then .err
    else if vis.contains k.toNat then .err
    else arrayLitY T isArray length rest (i + 1) (k.toNat + 1) (k.toNat :: vis)
  | .pos :: rest, i, index, vis =>
    match T.arrayLitBound with
    | .other _ => .abstain
    | m =>
      let b := if m == .runningIndex then index else i
      if isArray && b ≥ length then .err
      else if vis.contains index then .err
      else arrayLitY T isArray length rest (i + 1) (index + 1) (index :: vis)

def rulesY (T : TcFacts) : Rules :=
  { un := unY T, recv := recvY T, bin := binY T, cmp := cmpY T, shift := shiftY T, conv := convY T, assert := assertY T,
    index := indexY T, call := callY T, callValue := callValueY T,
    assign := assignY T, define := defineY T, opassign := opassignY T, shassign := shassignY T,
    incdec := incdecY T, send := sendY T, cond := condY T, ret := retY T }

/-! ### the compile-then-execute pipeline (interp.go `eval`, program.go) -/

/-- one statement of `(*Interpreter).eval`, as recognised by the extractor -/
inductive Step where
  | assignErrCall (callee : String)     -- `x, err := interp.<callee>(…)`
  | ifErrReturn                          -- `if err != nil { return …, err }`
  | ifFlagReturn (flag : String)         -- `if interp.<flag> { return … }`
  | returnCall (callee : String)         -- `return interp.<callee>(…)`
  | other (s : String)
  deriving DecidableEq, Repr, Inhabited

structure PipelineFacts where
  /-- body of `(*Interpreter).eval` -/
  evalBody : List Step
  /-- body of `(*Interpreter).compileSrc` after the name bookkeeping -/
  compileSrcBody : List Step
  /-- functions of package interp (not tests, not verif hooks) whose body calls `.Execute(` -/
  executeCallers : List String
  /-- which of eval / Eval / EvalPath / importSrc / Compile / compileSrc / CompileAST / Execute each entry point calls -/
  calls : List (String × List String)
  /-- functions of `CompileAST`'s static call closure inside package interp that call `interp.run(` / `runCfg(` -/
  compileRunCallers : List String
  deriving DecidableEq, Repr

/-- abstract source text: does compilation fail, what runs *during* compilation (initialisation of
    imported source packages), what the program itself does when executed -/
structure Src where
  compileFails : Bool
  compileEffects : List Nat
  runEffects : List Nat

structure Outcome where
  err : Bool                -- a non-nil error was returned
  effects : List Nat        -- observable effects (bytes written, init functions run, globals assigned), in order
  executed : Bool           -- `Execute` was entered
  known : Bool              -- every statement was recognised
  deriving DecidableEq, Repr

/-- interpreter of the extracted statement list of `eval` -/
def runSteps (noRun : Bool) (src : Src) : List Step → (err : Bool) → (eff : List Nat) → Outcome
  | [], err, eff => ⟨err, eff, false, true⟩
  | .assignErrCall c :: rest, _, eff =>
    if c == "compileSrc" then runSteps noRun src rest src.compileFails (eff ++ src.compileEffects)
    else ⟨false, eff, false, false⟩
  | .ifErrReturn :: rest, err, eff => if err then ⟨true, eff, false, true⟩ else runSteps noRun src rest err eff
  | .ifFlagReturn f :: rest, err, eff =>
    if f == "noRun" then (if noRun then ⟨err, eff, false, true⟩ else runSteps noRun src rest err eff)
    else ⟨err, eff, false, false⟩
  | .returnCall c :: _, err, eff =>
    if c == "Execute" then ⟨err, eff ++ src.runEffects, true, true⟩ else ⟨err, eff, false, false⟩
  | .other _ :: _, err, eff => ⟨err, eff, false, false⟩

def evalY (P : PipelineFacts) (noRun : Bool) (src : Src) : Outcome := runSteps noRun src P.evalBody false []

end YaegiVerif.Typecheck
