import YaegiVerif.Model.ConstVal
/-
  C03 — model of yaegi's constant folding of one expression tree during one `cfg` walk
  (interp/cfg.go post-order cases binaryExpr / unaryExpr / parenExpr / callExpr-conversion / identExpr-iota,
  interp/typecheck.go binaryExpr / shift / unaryExpr / conversion / convertUntyped / representable /
  convertConst, interp/op.go *Const, interp/type.go nodeType (binaryExpr arm), defaultType).

  A node of the yaegi tree carries `typ` (an itype: untyped kind or basic type) and `rval`
  (a go/constant value, or a reflect.Value of a Go kind once `convertConst` ran). The walk is
  transcribed as a structural recursion returning that pair. `forced` is the type that the
  pre-order case `binaryExpr, unaryExpr, parenExpr` copies from the parent (declared type of a typed
  declaration, or — second walk of a constant declaration — the type the first walk left on the
  declaration); `none` = no type pushed down (expression operands of calls, first walk).

  Source-text choices come from `EvalFacts` / `ReprFacts` (regenerated); go/constant is `ConstVal.lean`.

  Since the repairs of the third round every fold is framed by two checks (`check.constExpr` before: the exact
  result of an operation on typed constants, recomputed with go/constant, must be representable in the operand
  type; `check.constOverflow` after: an untyped integer result has at most 512 bits), quotients go through the
  operand conversions like the other operators, an operation on two untyped constants keeps the untyped type
  whatever type the context pushed down, comparisons and `&&`/`||` are folded, and conversions of typed constants
  are checked. Each of these is a `CheckFacts` flag read from the source; with a flag off the model does what the
  code did before the repair.
-/
namespace YaegiVerif.Const

/-- untyped kinds (complex is outside the model) -/
inductive UK where
  | int | rune | float | bool | str
  deriving DecidableEq, Repr, Inhabited

/-- basic types -/
inductive BT where
  | i (k : IKind) | f32 | f64 | bool | str
  deriving DecidableEq, Repr, Inhabited

inductive Ty where
  | u (k : UK)
  | t (b : BT)
  deriving DecidableEq, Repr, Inhabited

/-- an `rval`: a go/constant value, or a reflect value of a basic kind -/
inductive RV where
  | c (v : CV)
  | r (b : BT) (v : CV)
  deriving DecidableEq, Repr, Inhabited

/-- constant expression trees -/
inductive CExpr where
  | int (v : Int)
  | rune (v : Int)
  | flt (q : Q)
  | bool (b : Bool)
  | str (s : List Nat)
  | iota
  | un (a : Act) (x : CExpr)
  | bin (a : Act) (x y : CExpr)
  | conv (t : BT) (x : CExpr)
  | par (x : CExpr)
  | len (x : CExpr)
  deriving Repr, Inhabited

namespace BT
def name : BT → String
  | i k => k.name | f32 => "float32" | f64 => "float64" | bool => "bool" | str => "string"
def ofName? (s : String) : Option BT :=
  match IKind.ofName? s with
  | some k => some (i k)
  | none => if s == "float32" then some f32 else if s == "float64" then some f64
            else if s == "bool" then some bool else if s == "string" then some str else none
def isInt : BT → Bool | i _ => true | _ => false
def isUint : BT → Bool | i k => !k.signed | _ => false
def isFloat : BT → Bool | f32 => true | f64 => true | _ => false
end BT

namespace Ty
/-- the reflect type behind an itype (`TypeOf`): untyped int → int, rune → int32, float → float64 -/
def rtype : Ty → BT
  | u .int => .i .int | u .rune => .i .int32 | u .float => .f64 | u .bool => .bool | u .str => .str
  | t b => b
def untyped : Ty → Bool | u _ => true | t _ => false
def isInt (t : Ty) : Bool := t.rtype.isInt
def isFloat (t : Ty) : Bool := t.rtype.isFloat
def isNumber (t : Ty) : Bool := t.isInt || t.isFloat
def isString (t : Ty) : Bool := t.rtype == .str
def isBool (t : Ty) : Bool := t.rtype == .bool
/-- position of `reflect.Kind` of the reflect type (only the order matters: convertUntyped compares kinds) -/
def kindRank : Ty → Nat
  | u .bool => 1 | u .int => 2 | u .rune => 5 | u .float => 14 | u .str => 24
  | t (.i .int) => 2 | t (.i .int8) => 3 | t (.i .int16) => 4 | t (.i .int32) => 5 | t (.i .int64) => 6
  | t (.i .uint) => 7 | t (.i .uint8) => 8 | t (.i .uint16) => 9 | t (.i .uint32) => 10 | t (.i .uint64) => 11
  | t (.i .uintptr) => 12 | t .f32 => 13 | t .f64 => 14 | t .bool => 1 | t .str => 24
end Ty

structure Facts where
  repr : ReprFacts
  eval : EvalFacts

/-- node state after its post-order case -/
structure NS where
  rv : RV
  ty : Ty
  /-- the node is a parenExpr whose `findex` is that of a literal (≥ 0) and whose `typ` is untyped:
      `fixUntyped` of a typed ancestor indexes `sc.types` with it -/
  self : Bool := false
  /-- some proper descendant is such a node -/
  inner : Bool := false
  /-- `findex ≥ 0` (literals, idents; folded operator nodes get `notInFrame`) -/
  fidx : Bool := false
  /-- `rval.CanSet()`: the reflect value was made by `reflect.New(t).Elem()` (result of a fold on typed operands,
      of lenConst); `zeroConst` does not take such a value for a constant -/
  set : Bool := false
  deriving DecidableEq, Repr, Inhabited

def NS.loose (n : NS) : Bool := n.self || n.inner

/-! ### typecheck.go: representableConst / convertConst / convertUntyped -/

/-- `representableConst(c, t)` for a basic type `t` -/
def representableY (F : Facts) (c : CV) (t : BT) : Bool :=
  match t with
  | .i k => (match c.toInt with | .int v => reprY F.repr k v | _ => false)
  | .f32 => (match c.toFloat with | .flt q => (round32 q).isSome | _ => false)
  | .f64 => (match c.toFloat with | .flt q => (round64 q).isSome | _ => false)
  | .str => (match c with | .str _ => true | _ => false)
  | .bool => (match c with | .bool _ => true | _ => false)

/-- `Int64Val(ToInt(c))` (0 for Unknown); exact inside the int64 range -/
def int64Val (c : CV) : Int :=
  match c.toInt with
  | .int v =>
    if int64Ok v then v
    else
      -- big.Int.Int64: the low 64 bits of |v| as an int64, negated when v < 0
      let i := wrapK .int64 ((v.natAbs % 2 ^ 64 : Nat) : Int)
      if v < 0 then wrapK .int64 (-i) else i
  | _ => 0
/-- `Uint64Val(ToInt(c))`: two's complement for values held as int64, else the low 64 bits of |v| (big.Int.Uint64) -/
def uint64Val (c : CV) : Int :=
  match c.toInt with
  | .int v => if int64Ok v then wrapK .uint64 v else ((v.natAbs % 2 ^ 64 : Nat) : Int)
  | _ => 0
def float64Val (c : CV) : Option Q :=
  match c.toFloat with
  | .flt q => round64 q
  | _ => some ⟨0, 1⟩

/-- `convertConst(v, t)` for a go/constant value: the reflect value of kind `t` -/
def convertConstY (F : Facts) (c : CV) (t : BT) : Res RV :=
  match t with
  | .bool => (match c with | .bool b => .ok (.r .bool (.bool b)) | _ => .crash)
  | .str => (match c with | .str s => .ok (.r .str (.str s)) | _ => .crash)
  | .i k => .ok (.r (.i k) (.int (wrapK k (if k.signed then int64Val c else uint64Val c))))
  | .f32 => (match c.toFloat with
             | .flt q =>
               -- `constant.Float32Val`: the nearest float32 of the exact value; with the float64 arm shared (seed C03-3)
               -- the float64 value is converted, a second rounding
               (match (if F.eval.chk.f32Direct then round32 q else (round64 q).bind round32) with
                | some r => .ok (.r .f32 (.flt r))
                | none => .unm "float-inf")
             | _ => .ok (.r .f32 (.flt ⟨0, 1⟩)))
  | .f64 => (match c.toFloat with
             | .flt q => (match round64 q with | some r => .ok (.r .f64 (.flt r)) | none => .unm "float-inf")
             | _ => .ok (.r .f64 (.flt ⟨0, 1⟩)))

/-- `constValue(v)`: the exact go/constant value of an rval (a reflect number, string or boolean is exact too) -/
def constValueY : RV → CV
  | .c v => v
  | .r _ v => v

/-- `check.convertUntyped(n, typ)`: returns the node as mutated, or `none` for the error return
    (most callers ignore the error and keep the node unchanged) -/
def convertUntypedY (F : Facts) (n : NS) (target : Ty) : Res (Option NS) :=
  if !n.ty.untyped then .ok (some n)
  else match target with
    | .u _ =>
      if n.ty.isNumber && target.isNumber then
        .ok (some (if n.ty.kindRank ≤ target.kindRank then { n with ty := target } else n))
      else if n.ty.kindRank != target.kindRank then .ok none
      else .ok (some n)
    | .t b =>
      if F.eval.chk.boolConvChecked && (n.ty.isBool != (b == .bool)) then .ok none     -- true / false ↔ a non-boolean type
      else
      match n.rv with
      | .c c =>
        if !representableY F c b then .ok none
        else (convertConstY F c b).bind fun rv => .ok (some { n with rv := rv, ty := target, self := false, set := false })
      | .r _ v =>
        -- not a constant.Value: convertConst returns it unchanged; `representable` looks at it through constValue
        -- since e6c1f4a (before, it returned early)
        if F.eval.chk.reprConstValue && !representableY F v b then .ok none
        else .ok (some { n with ty := target, self := false })

/-! ### value extraction of the typed arms of op.go (value.go vInt / vUint / vFloat / vString) -/

def vInt (rv : RV) : Res Int :=
  match rv with
  | .c c => .ok (int64Val c)
  | .r (.i k) (.int v) => .ok (if k.signed then v else wrapK .int64 v)
  | .r _ (.flt q) => if int64Ok q.trunc then .ok q.trunc else .unm "float-to-int-range"
  | _ => .ok 0
def vUint (rv : RV) : Res Int :=
  match rv with
  | .c c => .ok (uint64Val c)
  | .r (.i _) (.int v) => .ok (wrapK .uint64 v)
  | .r _ (.flt q) => if uint64Ok q.trunc then .ok q.trunc else .unm "float-to-int-range"
  | _ => .ok 0
def vFloat (rv : RV) : Res Q :=
  match rv with
  | .c c => (match float64Val c with | some q => .ok q | none => .unm "float-inf")
  | .r (.i _) (.int v) => (match round64 (Q.ofInt v) with | some q => .ok q | none => .unm "float-inf")
  | .r _ (.flt q) => .ok q
  | _ => .ok ⟨0, 1⟩
def vString (rv : RV) : Res (List Nat) :=
  match rv with
  | .c (.str s) => .ok s
  | .r _ (.str s) => .ok s
  | .c _ => .crash          -- constant.StringVal panics on a non-string
  | _ => .unm "string-of-nonstring"

/-- store a float64 result into a reflect value of kind `b` (`SetFloat`) -/
def setFloat (b : BT) (q : Q) : Res RV :=
  match b with
  | .f32 => (match round32 q with | some r => .ok (.r .f32 (.flt r)) | none => .unm "float-inf")
  | .f64 => .ok (.r .f64 (.flt q))
  | _ => .crash

/-- value.go `setConstFloat`: the exact constant rounded to the floating-point type (`Float32Val` / `Float64Val`) -/
def setConstFloatY (b : BT) (c : CV) : Res RV :=
  match c.toFloat with
  | .flt q =>
    (match b with
     | .f32 => (match round32 q with | some r => .ok (.r .f32 (.flt r)) | none => .unm "float-inf")
     | .f64 => (match round64 q with | some r => .ok (.r .f64 (.flt r)) | none => .unm "float-inf")
     | _ => .crash)
  | _ => .ok (.r b (.flt ⟨0, 1⟩))      -- Unknown: Float64Val answers 0

/-- Go run-time arithmetic on int64 / uint64 operands for the operator of a typed arm
    (`signed`: the arm works on int64, else on uint64); the result is then stored with SetInt/SetUint,
    which keeps the low bits of the kind. Division by zero is a Go run-time panic. -/
def goIntOp (op : Tok) (signed : Bool) (a b : Int) : Res Int :=
  let w : IKind := if signed then .int64 else .uint64
  match op with
  | .add => .ok (wrapK w (a + b))
  | .sub => .ok (wrapK w (a - b))
  | .mul => .ok (wrapK w (a * b))
  | .quo => if b = 0 then .crash else .ok (wrapK w (a.tdiv b))
  | .rem => if b = 0 then .crash else .ok (wrapK w (a.tmod b))
  | .and => .ok (wrapK w (iand a b))
  | .or => .ok (wrapK w (ior a b))
  | .xor => .ok (wrapK w (ixor a b))
  | .andNot => .ok (wrapK w (iandNot a b))
  | _ => .unm "typed-arm-operator"

def goFloatOp (op : Tok) (a b : Q) : Res Q :=
  let fin (q : Q) : Res Q := match round64 q with | some r => .ok r | none => .unm "float-inf"
  match op with
  | .add => fin (a.add b)
  | .sub => fin (a.sub b)
  | .mul => fin (a.mul b)
  | .quo => if b.num = 0 then .unm "float-div-zero" else fin (a.div b)
  | _ => .unm "typed-arm-operator"

/-- `reflect.New(t).Elem()`: what `n.rval` keeps when no arm of a folding function matches the node type -/
def zeroRV (t : BT) : RV :=
  match t with
  | .i _ => .r t (.int 0)
  | .f32 | .f64 => .r t (.flt ⟨0, 1⟩)
  | .bool => .r t (.bool false)
  | .str => .r t (.str [])

def armOf (g : FoldFn) (cl : ArmClass) : Option Tok :=
  match g.typed.find? (fun p => p.1 == cl) with
  | some p => some p.2
  | none => none

/-- the `switch` of a binary folding function (`addConst` … `xorConst`) -/
def foldBinY (F : Facts) (a : Act) (nty : Ty) (v0 v1 : RV) : Res RV :=
  match F.eval.foldOf a with
  | none => .unm "not-folded"
  | some g =>
    let isConst : Bool := match v0, v1 with
      | .c _, .c _ => true
      | .c _, _ => !g.bothConst
      | _, _ => false
    if isConst && g.entry == .binaryOp then
      match v0, v1 with
      | .c x, .c y =>
        let x' := if g.toInt then x.toInt else x
        let y' := if g.toInt then y.toInt else y
        if g.tok == .byQuoSwitch && F.eval.quo.rule == .other then .unm "quo-switch"
        else
        let sel : Bool := match F.eval.quo.rule with
          | .operandKinds => (match x', y' with | .int _, .int _ => true | _, _ => false)
          | .nodeType => nty.untyped && nty.isInt
          | .other => false
        let tok : Tok := if g.tok == .byQuoSwitch then
            (if sel then F.eval.quo.thenTok else F.eval.quo.elseTok) else g.tok
        (cBinary tok x' y').bind fun r => .ok (.c r)
      | _, _ => .unm "fold-shape"
    else if isConst then .unm "fold-shape"
    else
      let t := nty.rtype
      -- case order of the source: string, complex, float, uint, int
      if t == .str then
        (match armOf g .str with
         | some .add => (vString v0).bind fun s0 => (vString v1).bind fun s1 => .ok (.r .str (.str (s0 ++ s1)))
         | some _ => .unm "typed-arm-operator"
         | none => fallthroughArms F g t v0 v1)
      else fallthroughArms F g t v0 v1
where
  fallthroughArms (_F : Facts) (g : FoldFn) (t : BT) (v0 v1 : RV) : Res RV :=
    if t.isFloat then
      (match armOf g .fltExact with
       | some op =>
         -- the exact result (go/constant on the exact operand values) rounded once to the type (149d328)
         (cBinary op (constValueY v0) (constValueY v1)).bind fun r => setConstFloatY t r
       | none =>
       match armOf g .flt with
       | some op => (vFloat v0).bind fun a => (vFloat v1).bind fun b => (goFloatOp op a b).bind fun q => setFloat t q
       | none => .ok (zeroRV t))
    else if t.isUint then
      (match armOf g .uint, t with
       | some op, .i k => (vUint v0).bind fun a => (vUint v1).bind fun b => (goIntOp op false a b).bind fun r =>
           .ok (.r t (.int (wrapK k r)))
       | _, _ => .ok (zeroRV t))
    else if t.isInt then
      (match armOf g .sint, t with
       | some op, .i k => (vInt v0).bind fun a => (vInt v1).bind fun b => (goIntOp op true a b).bind fun r =>
           .ok (.r t (.int (wrapK k r)))
       | _, _ => .ok (zeroRV t))
    else .ok (zeroRV t)

/-- `constant.UnaryOp(tok, x, 0)` -/
def cUnary (tok : Tok) (x : CV) : Res CV :=
  match tok, x with
  | .add, .int v => .ok (.int v)
  | .add, .flt q => .ok (.flt q)
  | .sub, .int v => .ok (.int (-v))
  | .sub, .flt q => .ok (.flt q.neg)
  | .xor, .int v => .ok (.int (inot v))
  | .not, .bool b => .ok (.bool (!b))
  | _, .unknown => .ok .unknown
  | _, _ => .crash

/-- `negConst` / `posConst` / `bitNotConst` / `notConst` -/
def foldUnY (F : Facts) (a : Act) (nty : Ty) (v0 : RV) : Res RV :=
  match F.eval.foldOf a with
  | none => .unm "not-folded"
  | some g =>
    match v0 with
    | .c x => if g.entry == .unaryOp then (cUnary g.tok x).bind fun r => .ok (.c r) else .unm "fold-shape"
    | .r b v =>
      let t := nty.rtype
      -- the typed arms call v0.Uint() / v0.Int() / v0.Float() / v0.Bool() directly: a reflect panic if the kinds differ
      if armOf g .bool == some .not then
        (match v with | .bool x => .ok (.r t (.bool (!x))) | _ => .crash)
      else if t.isUint then
        (match armOf g .uint, t, v with
         | some op, .i k, .int x =>
           if !b.isUint then .crash
           else (match op with
             | .sub => .ok (.r t (.int (wrapK k (-x))))
             | .add => .ok (.r t (.int (wrapK k x)))
             | .xor => .ok (.r t (.int (wrapK k (inot x))))
             | _ => .unm "typed-arm-operator")
         | _, _, _ => .crash)
      else if t.isInt then
        (match armOf g .sint, t, v with
         | some op, .i k, .int x =>
           if b.isUint then .crash
           else (match op with
             | .sub => .ok (.r t (.int (wrapK k (-x))))
             | .add => .ok (.r t (.int (wrapK k x)))
             | .xor => .ok (.r t (.int (wrapK k (inot x))))
             | _ => .unm "typed-arm-operator")
         | _, _, _ => .crash)
      else if t.isFloat then
        (match armOf g .fltExact with
         | some op => (cUnary op v).bind fun r => setConstFloatY t r
         | none =>
         match armOf g .flt, v with
         | some .sub, .flt q => setFloat t q.neg
         | some .add, .flt q => setFloat t q
         | _, _ => .crash)
      else .ok (zeroRV t)

/-- `shlConst` / `shrConst` -/
def foldShiftY (F : Facts) (a : Act) (nty : Ty) (v0 v1 : RV) : Res RV :=
  match F.eval.foldOf a with
  | none => .unm "not-folded"
  | some g =>
    if g.entry != .shift then .unm "fold-shape"
    else (vUint v1).bind fun s =>
      if s > 100000 then .unm "huge-shift"
      else
        let n := s.toNat
        match v0 with
        | .c x =>
          (match x, g.tok with
           | .int v, .shl => .ok (.c (.int (ishl v n)))
           | .int v, .shr => .ok (.c (.int (ishr v n)))
           | .unknown, _ => .ok (.c .unknown)
           | .int _, _ => .unm "fold-shape"
           | _, _ => .crash)                          -- constant.Shift panics: "invalid shift"
        | .r _ _ =>
          let t := nty.rtype
          if t.isUint then
            (match armOf g .uint, t with
             | some op, .i k => (vUint v0).bind fun x =>
                 (match op with
                  | .shl => .ok (.r t (.int (wrapK k (if n ≥ 64 then 0 else ishl x n))))
                  | .shr => .ok (.r t (.int (wrapK k (ishr x n))))
                  | _ => .unm "typed-arm-operator")
             | _, _ => .ok (zeroRV t))
          else if t.isInt then
            (match armOf g .sint, t with
             | some op, .i k => (vInt v0).bind fun x =>
                 (match op with
                  | .shl => .ok (.r t (.int (wrapK k (if n ≥ 64 then 0 else wrapK .int64 (ishl x n)))))
                  | .shr => .ok (.r t (.int (wrapK k (ishr x n))))
                  | _ => .unm "typed-arm-operator")
             | _, _ => .ok (zeroRV t))
          else .ok (zeroRV t)

/-! ### typecheck.go: unaryExpr / shift / binaryExpr -/

def unaryPredY (a : Act) (t : Ty) : Bool :=
  match a with
  | .pos | .neg => t.isNumber
  | .bitNot => t.isInt
  | .not => t.isBool
  | _ => false

def binaryPredY (a : Act) (t : Ty) : Bool :=
  match a with
  | .add => t.isNumber || t.isString
  | .sub | .mul | .quo => t.isNumber
  | .rem | .and | .or | .xor | .andNot => t.isInt
  | .land | .lor => t.isBool
  | _ => false

/-- `zeroConst(n)` -/
def zeroConstY (F : Facts) (n : NS) : Res Bool :=
  match F.eval.chk.zeroForm with
  | .untypedOnly =>
    if !n.ty.untyped then .ok false
    else match n.rv with
      | .c (.str _) => .crash            -- constant.Sign panics: "… not numeric"
      | .c (.bool _) => .crash
      | .c c => .ok (c.sign == 0)
      | .r _ _ => .crash                 -- the type assertion to constant.Value panics
  | .anyConst =>
    if !n.ty.isNumber then .ok false
    else match n.rv with
      | .c (.str _) => .crash
      | .c (.bool _) => .crash
      | .c c => .ok (c.sign == 0)
      | .r _ (.int v) => .ok (!n.set && v == 0)
      | .r _ (.flt q) => .ok (!n.set && q.num == 0)
      | .r _ _ => .ok false
  | .other => .unm "zeroConst"

/-- `nodeType` of a binaryExpr whose operands already carry their types -/
def binTypeY (shift : Bool) (t0 t1 : Ty) : Ty :=
  if t0.untyped && !shift then
    (if t1.untyped && t1.isInt && t0.isFloat then t0 else t1)
  else t0

structure Env where
  iota : Nat
  /-- inside a constant declaration (`isInConstOrTypeDecl`): `len` of a constant string is folded by lenConst -/
  inConst : Bool := false
  /-- `sc.types` is empty (package scope without variables): `fixUntyped` indexing it is a Go panic -/
  noFrame : Bool := false
  /-- second walk of a constant declaration: the operand of a conversion keeps the type the first walk gave it -/
  pass2 : Bool := false
  /-- the declaration has a type: both walks push the same type down, nothing differs between them -/
  typedDecl : Bool := false
  deriving Repr, Inhabited

def isChain : CExpr → Bool
  | .un a _ => a != .not
  | .bin a _ _ => !(a == .eq || a == .ne || a == .lt || a == .le || a == .gt || a == .ge || a == .land || a == .lor)
  | .par _ => true
  | _ => false

def isShiftAct (a : Act) : Bool := a == .shl || a == .shr
def isCmpAct (a : Act) : Bool := a == .eq || a == .ne || a == .lt || a == .le || a == .gt || a == .ge
def isLogicAct (a : Act) : Bool := a == .land || a == .lor
def isBoolAct (a : Act) : Bool :=
  a == .eq || a == .ne || a == .lt || a == .le || a == .gt || a == .ge || a == .land || a == .lor || a == .not

def isConstRV : RV → Bool
  | .c _ => true
  | .r _ _ => false

/-- `isUntypedConst(n)`: an untyped constant with an exact (go/constant) value -/
def isUntypedConstY (n : NS) : Bool := n.ty.untyped && isConstRV n.rv

/-- `constant.UnaryOp(tok, x, prec)` with a precision: `^x` of an unsigned operand is limited to `prec` bits -/
def cUnaryP (tok : Tok) (x : CV) (prec : Nat) : Res CV :=
  match tok, x with
  | .xor, .int v => .ok (.int (if prec = 0 then inot v else (inot v) % (2 ^ prec : Int)))
  | _, _ => cUnary tok x

/-- `constant.Shift(x, tok, s)` -/
def cShift (tok : Tok) (x : CV) (s : Nat) : Res CV :=
  match x, tok with
  | .int v, .shl => .ok (.int (ishl v s))
  | .int v, .shr => .ok (.int (ishr v s))
  | .unknown, _ => .ok .unknown
  | _, _ => .crash

/-- `check.constExpr(n)` (typecheck.go, 31bf1d3): the operation of `n` on constant operands, at least one of
    them typed, recomputed exactly with go/constant; the result must be defined and representable in the type of
    the first operand. `ok` = no error. -/
def constExprY (F : Facts) (a : Act) (unary : Bool) (c0 c1 : NS) : Res Unit :=
  if isCmpAct a || (isConstRV c0.rv && (isShiftAct a || isConstRV c1.rv)) then .ok ()
  else
    let t := c0.ty.rtype
    let x := if t.isInt then (constValueY c0.rv).toInt else constValueY c0.rv
    let y := if t.isInt then (constValueY c1.rv).toInt else constValueY c1.rv
    if t.isInt && !(x.isIntKind && y.isIntKind) then .reject              -- "constant truncated"
    else
      let tok := F.eval.tokOf a
      (if unary then
         (match t with
          | .i k => if !k.signed then cUnaryP tok x k.bits else cUnaryP tok x 0
          | _ => cUnaryP tok x 0)
       else if isShiftAct a then
         (vUint c1.rv).bind fun s => cShift tok x (min s.toNat F.eval.chk.shiftClamp)
       else if (tok == .quo || tok == .rem) && y.sign == 0 then .reject   -- "division by zero"
       else if F.eval.chk.quoIntExact && tok == .quo && t.isInt then cBinary .quoAssign x y
       else cBinary tok x y).bind fun r =>
      if representableY F r t then .ok () else .reject

/-- `check.constOverflow(n)` (eeab028): an integer constant result (a reflect integer is one too, but never that
    long) is limited to `N` bits -/
def constOverflowY (F : Facts) (rv : RV) : Res Unit :=
  match F.eval.chk.intBitsMax, constValueY rv with
  | some n, .int v => if bitLen v > n then .reject else .ok ()
  | _, _ => .ok ()

/-- reflect.Value.Convert between basic kinds, for a reflect value `v` of kind `from` -/
def reflectConvert (from_ to : BT) (v : CV) : Res RV :=
  match to, v with
  | .i k, .int x => .ok (.r to (.int (wrapK k x)))
  | .i k, .flt q =>
    -- Go conversion of a non-constant float to an integer: truncation; out of range is implementation specific
    let x := q.trunc
    if int64Ok x then .ok (.r to (.int (wrapK k x))) else .unm "float-to-int-range"
  | .f64, .int x => (match round64 (Q.ofInt x) with | some r => .ok (.r to (.flt r)) | none => .unm "float-inf")
  | .f32, .int x => (match round32 (Q.ofInt x) with | some r => .ok (.r to (.flt r)) | none => .unm "float-inf")
  | .f64, .flt q => .ok (.r to (.flt q))
  | .f32, .flt q => (match round32 q with | some r => .ok (.r to (.flt r)) | none => .unm "float-inf")
  | .str, .str s => .ok (.r to (.str s))
  | .str, .int x => if from_.isInt then .ok (.r to (.str (utf8 x))) else .crash   -- cvtIntString
  | .bool, .bool b => .ok (.r to (.bool b))
  | _, _ => .crash

/-- may a reflect value of kind `from` be converted to `to` (`convertibleTo`) -/
def convertibleY (from_ to : BT) : Bool :=
  match from_, to with
  | .bool, .bool => true
  | .str, .str => true
  | .i _, .str => true
  | .bool, _ => false
  | _, .bool => false
  | .str, _ => false
  | _, .str => false
  | _, _ => true

/-- is the rval of a typed fold settable (`reflect.New(t).Elem()`) -/
def isSetRV : RV → Bool
  | .r _ _ => true
  | .c _ => false

/-- post-order case `unaryExpr` (typecheck.unaryExpr, then constExpr, the fold, constOverflow) -/
def unNodeY (F : Facts) (a : Act) (c0 : NS) : Res NS :=
  if !unaryPredY a c0.ty then .reject
  else
    (if F.eval.chk.constExprUn then constExprY F a true c0 c0 else .ok ()).bind fun _ =>
    (foldUnY F a c0.ty c0.rv).bind fun rv =>
    (if F.eval.chk.overflowUn then constOverflowY F rv else .ok ()).bind fun _ =>
    .ok { rv := rv, ty := c0.ty, inner := c0.loose, set := isSetRV rv }

/-- `fixUntyped(n, sc)` after a binary node got a typed `typ`: before 08f21a9 (`fixSkipsConst = false`) a descendant
    parenExpr that is still untyped and carries a frame index made it index `sc.types` (a Go panic when the package
    scope has no variable yet); since then constants are skipped and nothing happens -/
def fixUntypedY (F : Facts) (env : Env) (nty : Ty) (c0 c1 : NS) (rv : RV) : Res NS :=
  if !F.eval.fixSkipsConst && !nty.untyped && env.noFrame && (c0.loose || c1.loose) then .crash
  else .ok { rv := rv, ty := nty, inner := if nty.untyped then c0.loose || c1.loose else false, set := isSetRV rv }

/-- `check.shift`, right operand: an untyped count is converted to `uint`, a typed one must be of integer type —
    or, when both operands are constants, of floating-point type with a non-negative integral value (ce5712d) -/
def shiftCountY (F : Facts) (c1 : NS) : Res NS :=
  if c1.ty.untyped then
    (convertUntypedY F c1 (.t (.i .uint))).bind fun r => match r with
      | some n => .ok n
      | none => .reject
  else if c1.ty.isInt then .ok c1
  else if F.eval.chk.floatShiftCount && c1.ty.isFloat then
    (vFloat c1.rv).bind fun q => if decide (0 ≤ q.num) && q.isInt then .ok c1 else .reject
  else .reject

/-- `check.shift`, left operand: an untyped constant is replaced by `constant.ToInt` of itself and must then be an
    Int; otherwise the operand must be of integer type -/
def shiftLeftY (F : Facts) (c0 : NS) : Res NS :=
  match c0.ty.untyped, c0.rv with
  | true, .r _ _ =>
    -- an untyped constant that holds a Go value (`true`, `false`): before 1122c63 the type assertion to constant.Value
    -- panicked; since then the operand is left alone and refused unless its type is an integer type
    if !F.eval.chk.shiftBoolGuard then .crash
    else if c0.ty.isInt then .ok c0 else .reject
  | _, _ =>
    let c0' : NS := match c0.ty.untyped, c0.rv with
      | true, .c v => { c0 with rv := .c v.toInt }
      | _, _ => c0
    let okLeft : Bool := (match c0.ty.untyped, c0'.rv with | true, .c (.int _) => true | _, _ => false) || c0.ty.isInt
    if okLeft then .ok c0' else .reject

/-- `check.shift` on the operands: the (possibly mutated) operands, or reject; the last test is the limit on
    constant shift counts (eeab028) -/
def checkShiftY (F : Facts) (c0 c1 : NS) : Res (NS × NS) :=
  (shiftLeftY F c0).bind fun c0' => (shiftCountY F c1).bind fun c1' =>
    match F.eval.chk.shiftCountMax with
    | none => .ok (c0', c1')
    | some m => (vUint c1'.rv).bind fun s => if s > m then .reject else .ok (c0', c1')

/-- cfg.go, binaryExpr case (3f5ccd5): an operation on untyped constants is an untyped constant whatever type the
    context pushed down (`n.typ != nil` = a type was pushed, or left by an earlier walk) -/
def stayUntypedY (F : Facts) (forced : Option Ty) (shift : Bool) (c0 c1 : NS) : Option Ty :=
  match forced with
  | none => none
  | some f =>
    if F.eval.chk.untypedStays && isUntypedConstY c0 && (isUntypedConstY c1 || shift) then some c0.ty else some f

/-- the type of an operator node that takes neither the type of its first operand (`%`, shifts of a typed operand)
    nor `bool`: the pushed-down type unless the operation stays untyped, `nodeType` when nothing was pushed -/
def nodeTyY (F : Facts) (forced : Option Ty) (shift : Bool) (c0 c1 : NS) : Ty :=
  match stayUntypedY F forced shift c0 c1 with
  | some f =>
    -- an arithmetic or bitwise operation on a typed operand has the type of this operand, whatever the type expected
    -- by the context (2988c87); `%` and shifts of a typed operand take the type of their first operand anyway
    if F.eval.chk.operandTypeWins && !shift then
      (if !c0.ty.untyped then c0.ty else if !c1.ty.untyped then c1.ty else f)
    else f
  | none => binTypeY shift c0.ty c1.ty

/-- post-order case `binaryExpr` for `<<` and `>>` -/
def shiftNodeY (F : Facts) (env : Env) (forced : Option Ty) (a : Act) (c0 c1 : NS) : Res NS :=
  (checkShiftY F c0 c1).bind fun (c0', c1') =>
    let nty : Ty := if !c0'.ty.untyped then c0'.ty
      else if F.eval.chk.shiftUntypedInt then (if c0'.ty.isInt then c0'.ty else .u .int)   -- 287aa9d
      else nodeTyY F forced true c0' c1'
    (if F.eval.chk.constExprBin then constExprY F a false c0' c1' else .ok ()).bind fun _ =>
    (foldShiftY F a nty c0'.rv c1'.rv).bind fun rv =>
    (if F.eval.chk.overflowBin then constOverflowY F rv else .ok ()).bind fun _ =>
    fixUntypedY F env nty c0' c1' rv

/-- `check.binaryExpr`, case aAdd: "catch mixing string and number for + operator use" — the type the node already
    has (pushed down, or left by an earlier walk) against the types of the operands -/
def addOkY (F : Facts) (a : Act) (forced : Option Ty) (c0 c1 : NS) : Bool :=
  match a, forced with
  | Act.add, some f =>
    -- two untyped constants are not compared with the type of the node (4bed514): their sum stays untyped
    if F.eval.chk.addSkipsUntyped && isUntypedConstY c0 && isUntypedConstY c1 then true
    else !(f.isNumber != c0.ty.isNumber || f.isNumber != c1.ty.isNumber)
  | _, _ => true

/-- `check.binaryExpr` for the arithmetic operators: the (possibly mutated) operands, or reject -/
def checkBinaryY (F : Facts) (forced : Option Ty) (a : Act) (c0 c1 : NS) : Res (NS × NS) :=
  if !addOkY F a forced c0 c1 then .reject
  else
    (if a == Act.rem || a == Act.quo then zeroConstY F c1 else .ok false).bind fun z =>
    if z then .reject
    else if a == Act.quo && F.eval.chk.quoEarlyReturn then .ok (c0, c1)   -- before 6f2f5cf: no conversion, no type check
    else
      (convertUntypedY F c0 c1.ty).bind fun r0 =>
      let c0' := r0.getD c0
      (convertUntypedY F c1 c0'.ty).bind fun r1 =>
      let c1' := r1.getD c1
      if c0'.ty != c1'.ty then .reject
      else if !binaryPredY a c0'.ty then .reject
      else .ok (c0', c1')

/-- post-order case `binaryExpr` for the arithmetic operators -/
def binNodeY (F : Facts) (env : Env) (forced : Option Ty) (a : Act) (c0 c1 : NS) : Res NS :=
  (checkBinaryY F forced a c0 c1).bind fun (c0', c1') =>
    let nty : Ty := if a == Act.rem then c0'.ty else nodeTyY F forced false c0' c1'
    (if F.eval.chk.constExprBin then constExprY F a false c0' c1' else .ok ()).bind fun _ =>
    (foldBinY F a nty c0'.rv c1'.rv).bind fun rv =>
    (if F.eval.chk.overflowBin then constOverflowY F rv else .ok ()).bind fun _ =>
    fixUntypedY F env nty c0' c1' rv

/-- `check.comparison` on basic types: an ordering needs numbers or strings -/
def comparisonOkY (a : Act) (t : Ty) : Bool :=
  if a == .eq || a == .ne then true else t.isNumber || t.isString

/-- post-order case `binaryExpr` for the comparison operators (b3f92e0): both conversions must succeed, the types
    must then be equal, the node has type `bool` and `compareConst` folds it with constant.Compare -/
def cmpNodeY (F : Facts) (a : Act) (c0 c1 : NS) : Res NS :=
  match F.eval.foldOf a with
  | none => .unm "bool-ops"             -- constOp has no entry: the comparison is compiled to a run-time operation
  | some g =>
    if g.entry != .compare then .unm "fold-shape"
    else
    (convertUntypedY F c0 c1.ty).bind fun r0 =>
    match r0 with
    | none => .reject
    | some c0' =>
      (convertUntypedY F c1 c0'.ty).bind fun r1 =>
      match r1 with
      | none => .reject
      | some c1' =>
        if c0'.ty != c1'.ty then .reject
        else if !comparisonOkY a c0'.ty then .reject
        else (cCompare (F.eval.tokOf a) (constValueY c0'.rv) (constValueY c1'.rv)).bind fun b =>
          .ok { rv := .r .bool (.bool b), ty := .t .bool }

/-- post-order cases `landExpr` / `lorExpr` (check.logicalExpr, then the fold of b3f92e0) -/
def logicNodeY (F : Facts) (a : Act) (c0 c1 : NS) : Res NS :=
  if !c0.ty.isBool || !c1.ty.isBool then .reject
  else
    (convertUntypedY F c0 c1.ty).bind fun r0 =>
    let c0' := r0.getD c0
    (convertUntypedY F c1 c0'.ty).bind fun r1 =>
    let c1' := r1.getD c1
    -- operands of different boolean types are refused unless one is a comparison: only `bool` and untyped bool here
    if !F.eval.chk.foldLogical then .unm "bool-ops"
    else match constValueY c0'.rv, constValueY c1'.rv with
      | .bool x, .bool y => .ok { rv := .r .bool (.bool (if a == .land then x && y else x || y)), ty := c0'.ty }
      | _, _ => .crash                    -- constant.BoolVal panics

/-- post-order case `callExpr`, conversion arm (check.conversion, then cfg.go) -/
def convNodeY (F : Facts) (t : BT) (c1 : NS) : Res NS :=
  (match c1.rv with
   | .c c =>
     if representableY F c t then Res.ok c1
     else if c1.ty.isInt && t == BT.str then
       -- string(rune(codepoint)), codepoint = the int64 value or -1; `rune(…)` keeps the low 32 bits
       let cp : Int := match c with | .int v => if int64Ok v then v else -1 | _ => -1
       -- a value that is not a rune is not a valid code point (a1f1717); before, `rune(int64)` kept the low 32 bits
       let cp' : Int := if F.eval.chk.codepointChecked then (if wrapK .int32 cp == cp then cp else -1) else wrapK .int32 cp
       Res.ok { c1 with rv := .c (.str (utf8 cp')) }
     else Res.reject
   | .r _ v =>
     -- a typed constant converted to a numeric type is a constant conversion (e6c1f4a)
     if F.eval.chk.convTypedChecked && (t.isInt || t.isFloat) && !representableY F v t then Res.reject
     else if convertibleY c1.ty.rtype t then Res.ok c1 else Res.reject).bind fun c1 =>
  (match c1.ty.untyped, c1.rv with
   | true, .c _ => (convertUntypedY F c1 (.t t)).bind fun r => match r with
       | some n => Res.ok n
       | none => Res.reject
   | _, _ => Res.ok c1).bind fun c1 =>
  -- cfg.go: `case c1.rval.IsValid() && isConstType(c0.typ)`
  (match c1.rv with
   | .c c => reflectConvert (.i .int64) t (.int (int64Val c))
   | .r b v => reflectConvert b t v).bind fun rv => .ok { rv := rv, ty := .t t, inner := c1.loose }

def isLeaf : CExpr → Bool
  | .int _ | .rune _ | .flt _ | .bool _ | .str _ | .iota => true
  | _ => false

def stripPar : CExpr → CExpr
  | .par x => stripPar x
  | e => e

/-- a literal operand keeps, in a later walk, the conversion (`typ` and reflect `rval`) that `convertUntyped` gave it in
    the first walk, where its sibling `sib1` had the type it computed itself -/
def keepY (F : Facts) (leaf : CExpr) (c sib1 : NS) : NS :=
  if isLeaf (stripPar leaf) && c.ty.untyped && !sib1.ty.untyped then
    (match convertUntypedY F c sib1.ty with | .ok (some c') => c' | _ => c)
  else c

/-- constructs whose yaegi side is outside the model (none since comparisons, logical operators and `!` are folded;
    kept as the hook the declaration models consult) -/
def unmodelledU (_underBin : Bool) : CExpr → Option String
  | _ => none

def unmodelled (e : CExpr) : Option String := unmodelledU false e

/-- one `cfg` walk over an expression -/
def evalY (F : Facts) (env : Env) : (forced : Option Ty) → CExpr → Res NS
  | _, .int v =>
    -- nodeType2, basicLit: an integer literal of more than 512 bits is a constant overflow (638fc07)
    (match F.eval.chk.litBitsMax with
     | some m => if bitLen v > m then .reject else .ok { rv := .c (.int v), ty := .u .int, fidx := true }
     | none => .ok { rv := .c (.int v), ty := .u .int, fidx := true })
  | _, .rune v => .ok { rv := .c (.int v), ty := .u .rune, fidx := true }
  | _, .flt q => .ok { rv := .c (.flt q), ty := .u .float, fidx := true }
  | _, .bool b => .ok { rv := .r .bool (.bool b), ty := .u .bool, fidx := true }   -- universe `true`/`false`: rval is a Go bool
  | _, .str s => .ok { rv := .c (.str s), ty := .u .str, fidx := true }
  | _, .iota => .ok { rv := .c (.int env.iota), ty := .u .int, fidx := true }
  | forced, .par x =>                                      -- typ, rval and findex are the child's
    (evalY F env forced x).bind fun c =>
      .ok { c with self := c.fidx && c.ty.untyped, inner := c.loose }
  | forced, .un a x =>
    if a == .not then
      -- before b3f92e0 the boolean operators were outside the model; since then the operand of `!` gets no type
      -- from its parent, and in a later walk an operator chain still has the type the first walk left on it
      if !F.eval.chk.cmpNotPushed then .unm "bool-ops"
      else
        let childForced : Option Ty :=
          if env.pass2 && isChain x then
            (match evalY F { env with pass2 := false } none x with
             | .ok n1 => some n1.ty
             | _ => none)
          else none
        (evalY F env childForced x).bind fun c0 => unNodeY F a c0
    else (evalY F env forced x).bind fun c0 => unNodeY F a c0
  | forced, .bin a x y =>
    if isCmpAct a || isLogicAct a then
      if !F.eval.chk.cmpNotPushed then .unm "bool-ops"
      else
      -- comparison / logical parents do not push their (boolean) type onto the operands
      let f0 : Option Ty :=
        if env.pass2 && isChain x then
          (match evalY F { env with pass2 := false } none x with
           | .ok n1 => some n1.ty
           | _ => none)
        else none
      let f1 : Option Ty :=
        if env.pass2 && isChain y then
          (match evalY F { env with pass2 := false } none y with
           | .ok n1 => some n1.ty
           | _ => none)
        else none
      (evalY F env f0 x).bind fun c0 => (evalY F env f1 y).bind fun c1 =>
        let node (c0 c1 : NS) : Res NS := if isCmpAct a then cmpNodeY F a c0 c1 else logicNodeY F a c0 c1
        if env.pass2 && !env.typedDecl then
          match evalY F { env with pass2 := false } none x, evalY F { env with pass2 := false } none y with
          | .ok s0, .ok s1 => node (keepY F x c0 s1) (keepY F y c1 s0)
          | _, _ => node c0 c1
        else node c0 c1
    else (evalY F env forced x).bind fun c0 => (evalY F env forced y).bind fun c1 =>
      if isShiftAct a then shiftNodeY F env forced a c0 c1
      else if env.pass2 && !env.typedDecl && (a != Act.quo || !F.eval.chk.quoEarlyReturn) then
        -- a literal operand keeps the conversion (`typ` and reflect `rval`) that `convertUntyped` gave it in the
        -- first walk, where its sibling had the type it computed itself, not the type pushed down now
        match evalY F { env with pass2 := false } none x, evalY F { env with pass2 := false } none y with
        | .ok s0, .ok s1 => binNodeY F env forced a (keepY F x c0 s1) (keepY F y c1 s0)
        | _, _ => binNodeY F env forced a c0 c1
      else binNodeY F env forced a c0 c1
  | _, .conv t x =>
    -- the operand of a call gets no type from its parent; in the second walk of a constant declaration it
    -- still carries the type the first walk left (the conversion target, if it was an untyped constant) and
    -- hands it down its own operator chain
    let childForced : Option Ty :=
      if env.pass2 && isChain x then
        (match evalY F { env with pass2 := false } none x with
         | .ok n1 => some (if n1.ty.untyped then Ty.t t else n1.ty)
         | _ => none)
      else none
    (evalY F env childForced x).bind fun c1 => convNodeY F t c1
  | _, .len x =>
    let childForced : Option Ty :=
      if env.pass2 && isChain x then
        (match evalY F { env with pass2 := false } none x with
         | .ok n1 => some n1.ty
         | _ => none)
      else none
    (evalY F env childForced x).bind fun c1 =>
      if !c1.ty.isString then .reject                 -- check.builtin: "invalid argument for len"
      else
        -- `isConstString(n.child[1])`: a string literal or a go/constant string (a2a892e)
        let constStr : Bool := F.eval.chk.lenConstString &&
          (F.eval.chk.lenAnyConstString || (match x with | .str _ => true | _ => false) || isConstRV c1.rv)
        if !env.inConst && !constStr then .unm "len-at-run-time"
        else (vString c1.rv).bind fun s =>              -- lenConst
          .ok { rv := .r (.i .int) (.int s.length), ty := .t (.i .int), inner := c1.loose, set := true }

end YaegiVerif.Const
