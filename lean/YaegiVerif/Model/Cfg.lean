import YaegiVerif.Spec.GoCore
/-
  C01 — model of yaegi's compilation scheme for the core fragment (interp/cfg.go) and of its
  execution loop (interp/run.go runCfg): the AST is flattened into a control-flow graph whose nodes
  carry their successors (`tnext`, and `fnext` for conditions); the *parent* construct supplies the
  exit of each child, exactly as cfg.go's post-order cases set `child.tnext` / `setFNext(cond, …)`:

    if c {t} else {e}      c.tnext = t.start   c.fnext = e.start   t.tnext = e.tnext = n.tnext
    for c {b}              c.tnext = b.start   c.fnext = n.tnext   b.tnext = c.start
    for i; c; p {b}        c.tnext = b.start   c.fnext = n.tnext   b.tnext = p.start   p.tnext = c.start
    break / continue       tnext = exit of the enclosing loop / its post (or cond) statement
    x = f(args)            run.go `call`: the arguments are copied into a fresh frame, the callee's graph
                           runs to its `return`, the result is copied to x and control goes on to tnext
                           (modelled with an explicit stack of suspended frames instead of Go's own stack)
    a && b                 a.tnext = b.start   a.fnext = false exit ; b decides
    a || b                 a.tnext = true exit ; a.fnext = b.start ; b decides

  The execution loop is `for exec != nil { exec = exec(f) }`: one closure per node, each returning
  its successor. A run-time panic inside a closure unwinds the loop.
-/
namespace YaegiVerif.Core

inductive Instr where
  | nop (next : Nat)
  | assign (x : Nat) (e : Expr) (next : Nat)
  | print (e : Expr) (next : Nat)
  | branch (op : CmpOp) (a b : Expr) (t f : Nat)
  | call (x : Nat) (entry : Nat) (args : List Expr) (next : Nat)
  | ret (e : Expr)
  deriving Repr

def BExpr.size : BExpr → Nat
  | .cmp _ _ _ => 1
  | .not a => a.size
  | .land a b => a.size + b.size
  | .lor a b => a.size + b.size

mutual
def Stmt.size : Stmt → Nat
  | .skip => 1
  | .seq a b => a.size + b.size
  | .assign _ _ => 1
  | .print _ => 1
  | .ite c t e => c.size + t.size + e.size
  | .loop c body post => c.size + body.size + post.size
  | .brk => 1
  | .cont => 1
  | .switch cs => cs.size
  | .ret _ => 1
  | .call _ _ _ => 1
  | .brkL _ => 1
  | .contL _ => 1
def Clauses.size : Clauses → Nat
  | .nil => 1
  | .cons c body _ rest => c.size + body.size + rest.size
end

/-- where the body of the first clause starts when the clause list is placed at `base`
    (the target of a `fallthrough` from the previous clause) -/
def Clauses.bodyStart : Clauses → Nat → Nat
  | .nil, base => base
  | .cons c _ _ _, base => base + c.size

/-- condition placed at `base`, leaving to `t` when true and to `f` when false -/
def compileCond : BExpr → (base t f : Nat) → List Instr
  | .cmp op a b, _, t, f => [.branch op a b t f]
  | .not a, base, t, f => compileCond a base f t
  | .land a b, base, t, f => compileCond a base (base + a.size) f ++ compileCond b (base + a.size) t f
  | .lor a b, base, t, f => compileCond a base t (base + a.size) ++ compileCond b (base + a.size) t f

/-- target of `break L` / `continue L` for the n-th enclosing loop; a label outside every loop
    (not valid Go) jumps to `dflt`, the fall-off end of the function -/
def labelBrk (ls : List (Nat × Nat)) (n dflt : Nat) : Nat := match ls[n]? with | some t => t.1 | none => dflt
def labelCont (ls : List (Nat × Nat)) (n dflt : Nat) : Nat := match ls[n]? with | some t => t.2 | none => dflt

mutual
/-- statement placed at `base`; `next` = where control goes when it ends normally,
    `brk` / `cont` = targets of break / continue; `ls` = (break, continue) targets of the enclosing
    loops, innermost first, for labelled break / continue (cfg.go: `n.sym.node` of the label);
    `fin` = fall-off end of the enclosing function; `ent g` = address of the graph of function `g` -/
def compile (ent : Nat → Nat) (fin : Nat) (ls : List (Nat × Nat)) : Stmt → (base next brk cont : Nat) → List Instr
  | .skip, _, next, _, _ => [.nop next]
  | .seq a b, base, next, brk, cont =>
    compile ent fin ls a base (base + a.size) brk cont ++ compile ent fin ls b (base + a.size) next brk cont
  | .assign x e, _, next, _, _ => [.assign x e next]
  | .print e, _, next, _, _ => [.print e next]
  | .ite c t e, base, next, brk, cont =>
    compileCond c base (base + c.size) (base + c.size + t.size) ++
    compile ent fin ls t (base + c.size) next brk cont ++
    compile ent fin ls e (base + c.size + t.size) next brk cont
  | .loop c body post, base, next, _, _ =>
    compileCond c base (base + c.size) next ++
    compile ent fin ((next, base + c.size + body.size) :: ls) body (base + c.size)
      (base + c.size + body.size) next (base + c.size + body.size) ++
    compile ent fin ls post (base + c.size + body.size) base next (base + c.size + body.size)
  | .brk, _, _, brk, _ => [.nop brk]
  | .cont, _, _, _, cont => [.nop cont]
  | .switch cs, base, next, _, cont => compileClauses ent fin ls cs base next cont
  | .ret e, _, _, _, _ => [.ret e]
  | .call x g args, _, next, _, _ => [.call x (ent g) args next]
  | .brkL n, _, _, _, _ => [.nop (labelBrk ls n fin)]
  | .contL n, _, _, _, _ => [.nop (labelCont ls n fin)]

/-- clause list placed at `base`: test, body, test, body, …, and a final jump to `next` taken when no
    clause matches. A failed test goes to the next test, a body ends at the exit of the switch or —
    after `fallthrough` — at the start of the next body; `break` inside a body leaves the switch. -/
def compileClauses (ent : Nat → Nat) (fin : Nat) (ls : List (Nat × Nat)) : Clauses → (base next cont : Nat) → List Instr
  | .nil, _, next, _ => [.nop next]
  | .cons c body fall rest, base, next, cont =>
    compileCond c base (base + c.size) (base + c.size + body.size) ++
    compile ent fin ls body (base + c.size)
      (if fall then rest.bodyStart (base + c.size + body.size) else next) next cont ++
    compileClauses ent fin ls rest (base + c.size + body.size) next cont
end

/-- a suspended caller: where to resume, its variables, and the variable that receives the result -/
structure Frame where
  ret : Nat
  saved : Nat → Val
  dst : Nat

/-- state of the execution loop -/
inductive MState where
  | run (pc : Nat) (s : St) (σ : List Frame)
  | panicked (s : St)
  | done (s : St)              -- the outermost function returned

/-- a `return v` with suspended callers `σ` -/
def doReturn (v : Val) (s : St) : List Frame → MState
  | [] => .done s
  | fr :: σ => .run fr.ret { vars := fun y => if y = fr.dst then v else fr.saved y, out := s.out } σ

/-- one iteration of `exec = exec(f)`; `none` when there is no node at `pc` (the loop ended), the
    outermost function has returned, or the machine has already panicked -/
def step (code : List Instr) : MState → Option MState
  | .panicked _ => none
  | .done _ => none
  | .run pc s σ =>
    match code[pc]? with
    | none => none
    | some (.nop next) => some (.run next s σ)
    | some (.assign x e next) =>
      (match e.eval s with
       | some v => some (.run next (s.set x v) σ)
       | none => some (.panicked s))
    | some (.print e next) =>
      (match e.eval s with
       | some v => some (.run next (s.emit v) σ)
       | none => some (.panicked s))
    | some (.branch op a b t f) =>
      (match a.eval s, b.eval s with
       | some x, some y => some (.run (if op.eval x y then t else f) s σ)
       | _, _ => some (.panicked s))
    | some (.call x entry args next) =>
      (match evalArgs s args with
       | some vals => some (.run entry (calleeSt s vals) (⟨next, s.vars, x⟩ :: σ))
       | none => some (.panicked s))
    | some (.ret e) =>
      (match e.eval s with
       | some v => some (doReturn v s σ)
       | none => some (.panicked s))

/-- exactly `n` iterations -/
def steps (code : List Instr) : Nat → MState → Option MState
  | 0, m => some m
  | n + 1, m => (step code m).bind (steps code n)

/-- code of one function: its body followed by `return 0` (reached only by bodies that fall off
    their end, which valid Go does not have) -/
def compileFn (ent : Nat → Nat) (body : Stmt) (base : Nat) : List Instr :=
  compile ent (base + body.size) [] body base (base + body.size) (base + body.size) (base + body.size) ++ [.ret (.lit 0)]

/-- offset of function `g` inside the block of function graphs -/
def offset : Funs → Nat → Nat
  | [], _ => 0
  | _ :: _, 0 => 0
  | b :: bs, g + 1 => b.size + 1 + offset bs g

/-- address of function `g`: main (and its trailing `return`) comes first -/
def entryOf (main : Stmt) (fs : Funs) (g : Nat) : Nat := main.size + 1 + offset fs g

def compileFuns (ent : Nat → Nat) : Funs → Nat → List Instr
  | [], _ => []
  | b :: bs, base => compileFn ent b base ++ compileFuns ent bs (base + b.size + 1)

/-- a whole program: main compiled at 0 (as a function), then every declared function -/
def compileProg (fs : Funs) (main : Stmt) : List Instr :=
  compileFn (entryOf main fs) main 0 ++ compileFuns (entryOf main fs) fs (main.size + 1)

/-- run to completion with a bound on the number of iterations (driver) -/
def runFuel (code : List Instr) : Nat → MState → Option MState
  | 0, _ => none
  | n + 1, m =>
    match step code m with
    | none => some m
    | some m' => runFuel code n m'

/-! ## case lists of a tagless switch (cfg.go post-order `case switchIfStmt`, since 3b98047)

  `for j := len(c.child) - 2; j >= 0; j-- { cond := c.child[j]; cond.tnext = body.start; setFNext(cond, nextTest);
  nextTest = cond.start }; c.start = nextTest`: every condition of the list goes to the clause body when true and to the
  next condition when false, the last one to the next clause; the clause starts at its first condition.
  Before 3b98047 only `c.child[0]` was wired (F53): `chained = false`. -/

/-- the conditions of `case c, ds…:` placed at `base`, leaving to `t` (the body) when one is true and to `f` (the next
    clause) when all are false -/
def compileCaseList (chained : Bool) : BExpr → List BExpr → (base t f : Nat) → List Instr
  | c, [], base, t, f => compileCond c base t f
  | c, d :: ds, base, t, f =>
    if chained then compileCond c base t (base + c.size) ++ compileCaseList chained d ds (base + c.size) t f
    else compileCond c base t f

/-- the chained wiring IS the wiring of `c || (d || …)`: what `compile` does with the clause condition `caseList c ds` -/
theorem compileCaseList_chained : ∀ (ds : List BExpr) (c : BExpr) (base t f : Nat),
    compileCaseList true c ds base t f = compileCond (caseList c ds) base t f := by
  intro ds
  induction ds with
  | nil => intro c base t f; rfl
  | cons d ds ih =>
    intro c base t f
    simp only [compileCaseList, caseList, compileCond, if_true, ih d]

end YaegiVerif.Core
