import YaegiVerif.Common.Str
/-
  C17 — model of yaegi's build-constraint evaluation (interp/build.go).

  Two layers:
  * raw layer (`…Raw`): a transcription of buildOk/buildLineOk/buildOptionOk/buildTagOk/
    skipFile on character lists, including the Go run-time panics of the original
    (`s[0]` on an empty tag).  It is what the correspondence check runs against the real code.
  * structured layer: the same decisions over already-split words (`Lit`, `PlusLine`,
    name elements).  The property theorems are stated on this layer; the raw layer is
    defined *through* it (see `buildLineOkRaw`, `skipFileRaw`), so both layers are one model.
-/
namespace YaegiVerif.Build
open YaegiVerif

structure Ctx where
  goos : String
  goarch : String
  minor : Nat               -- N of the last release tag go1.N
  tags : List String        -- Options.BuildTags + yaegi:tags
  cgo : Bool
  compiler : String
  deriving Repr, Inhabited

/-- the two tables of build.go, regenerated from the source on every run -/
structure Known where
  os : List String
  arch : List String
  deriving Repr, DecidableEq

/-- a constraint word: either a canonical release tag `go1.<n>` or any other word -/
inductive TagName where
  | rel (n : Nat)
  | word (s : String)
  deriving Repr, DecidableEq

def TagName.render : TagName → String
  | .rel n => "go1." ++ toString n
  | .word s => s

structure Lit where
  neg : Bool
  name : TagName
  deriving Repr, DecidableEq

abbrev Opt := List Lit          -- comma separated: AND
abbrev PlusLine := List Opt     -- space separated: OR

/-- the `unixOs` table of build.go (regenerated as `Generated.C17.unixOs`, tie `unix_tie`) -/
def unixOsY : List String :=
  ["aix","android","darwin","dragonfly","freebsd","hurd","illumos","ios","linux","netbsd","openbsd","solaris"]

/-- build.go matchTag (fix c550b24): the words go/build satisfies from the context -/
def matchTagY (c : Ctx) (name : String) : Bool :=
  if c.cgo && name == "cgo" then true
  else if name == c.goos || name == c.goarch || name == c.compiler then true
  else if c.goos == "android" && name == "linux" then true
  else if c.goos == "illumos" && name == "solaris" then true
  else if c.goos == "ios" && name == "darwin" then true
  else if name == "unix" && unixOsY.contains c.goos then true
  else
    let name := if name == "boringcrypto" then "goexperiment.boringcrypto" else name
    c.tags.contains name

/-- buildTagOk after the `!` has been stripped: matchTag, or a release word go1.1 … go1.minor
    (fix 56f4c0c: canonical form, n ≥ 1) -/
def tagOkY (c : Ctx) (t : TagName) : Bool :=
  if matchTagY c t.render then true
  else match t with
    | .rel n => decide (1 ≤ n ∧ n ≤ c.minor)
    | .word _ => false

def litOkY (c : Ctx) (l : Lit) : Bool := (tagOkY c l.name) != l.neg
/-- buildOptionOk -/
def optOkY (c : Ctx) (o : Opt) : Bool := o.all (litOkY c)
/-- buildLineOk for a recognised `+build` line; a line without options stands for `ignore` (fix 5db3bf8) -/
def lineOkY (c : Ctx) (ln : PlusLine) : Bool :=
  match ln with
  | [] => tagOkY c (.word "ignore")
  | _ => ln.any (optOkY c)
/-- buildOk: AND over all recognised lines of all comment groups -/
def linesOkY (c : Ctx) (lns : List PlusLine) : Bool := lns.all (lineOkY c)

/-! ### file-name rule (skipFile), on the `_`-separated elements of the name cut at its first dot -/

/-- the decision of skipFile once the name is known to end in `.go`, not to start with `_`/`.`:
    `isTest` = the base name (without `.go`) ends in `_test`; `elems` = the name cut at its first
    dot, split on `_` (so `elems ≠ []`). `true` = skip. -/
def skipElemsY (k : Known) (c : Ctx) (isTest : Bool) (elems : List String) (skipTest : Bool) : Bool :=
  if skipTest && isTest then true
  else match elems.tail with
    | [] => false                                   -- no `_` in the name
    | tl =>
      let l := "" :: tl
      let l := if l.getLast? == some "test" then l.dropLast else l
      match l.reverse with
      | [] => false
      | [y] => if k.os.contains y || k.arch.contains y then !matchTagY c y else false
      | y :: x :: _ =>
        if k.os.contains x && k.arch.contains y then !(matchTagY c y && matchTagY c x)
        else if k.os.contains y || k.arch.contains y then !matchTagY c y
        else false

/-! ### raw layer -/

inductive R where            -- outcome of the real function
  | ok (b : Bool)
  | panic                    -- Go run-time panic
  | err                      -- buildOk returns an error (malformed or repeated //go:build line)
  deriving Repr, DecidableEq

/-- classify a non-empty word the way buildTagOk reads it -/
def classify (w : List Char) : Option TagName :=
  if w.isEmpty then none
  else if w.length > 4 && Str.hasPrefix "go1.".toList w then
    match Str.atoi? (w.drop 4) with
    | some n =>
      -- canonical decimal without sign or leading zeros ↦ rel; anything else that Atoi accepts
      -- is `none` (handled by `tagLitRaw` directly: never a release word)
      if n ≥ 0 ∧ (toString n.toNat).toList == w.drop 4 then some (.rel n.toNat) else none
    | none => some (.word (Str.s w))
  else some (.word (Str.s w))

def isValidTagChar (ch : Char) : Bool :=
  ch.isAlphanum || ch == '_' || ch == '.' || ch.toNat > 127   -- unicode letters/digits are accepted too

def isValidTag (w : List Char) : Bool := !w.isEmpty && w.all isValidTagChar

/-- buildTagOk on the raw word (after splitting on `,`); a malformed word (`!`, `!!x`, empty, or with a
    character that is not a letter, a digit, `_` or `.`) stands for `ignore` (fix 2 + fix 6) -/
def wordOkRaw (c : Ctx) (w : List Char) : Bool :=
  if !isValidTag w then matchTagY c "ignore"
  else match classify w with
    | some t => tagOkY c t
    | none => matchTagY c (Str.s w)     -- non-canonical go1.<int> (go1.01): not a release word, only matchTag

def tagLitRaw (c : Ctx) (w : List Char) : R :=
  match w with
  | ['!'] => .ok (matchTagY c "ignore")
  | '!' :: '!' :: _ => .ok (matchTagY c "ignore")
  | '!' :: rest => .ok (!(wordOkRaw c rest))
  | _ => .ok (wordOkRaw c w)

def optOkRaw (c : Ctx) (o : List Char) : R :=
  let rec go : List (List Char) → R
    | [] => .ok true
    | w :: ws => match tagLitRaw c w with
      | .panic => .panic
      | .err => .err
      | .ok false => .ok false
      | .ok true => go ws
  go (Str.splitOn ',' o)

/-- buildLineOk (fix 5db3bf8: white space as the toolchain reads it) -/
def buildLineOkRaw (c : Ctx) (line : List Char) : R :=
  let line := Str.trim line
  if !(Str.hasPrefix "+build".toList line) then .ok true
  else
    let rest := line.drop 6
    if !rest.isEmpty && (Str.trim rest).length == rest.length then .ok true
    else
      let options := Str.fields rest
      if options.isEmpty then tagLitRaw c "ignore".toList
      else
        let rec go : List (List Char) → R
          | [] => .ok false
          | o :: os => match optOkRaw c o with
            | .panic => .panic
            | .err => .err
            | .ok true => .ok true
            | .ok false => go os
        go options

/-! ### `//go:build` expressions (go/build/constraint): grammar shared by the model and the spec -/

inductive BExpr where
  | tag (s : String)
  | not (e : BExpr)
  | and (a b : BExpr)
  | or (a b : BExpr)
  deriving Repr, Inhabited

inductive Tok where | lp | rp | andT | orT | notT | word (s : List Char) | bad
  deriving Repr, BEq, Inhabited

partial def lex (cs : List Char) (acc : List Tok) : List Tok :=
  match cs with
  | [] => acc.reverse
  | ' ' :: r => lex r acc
  | '\t' :: r => lex r acc
  | '(' :: r => lex r (.lp :: acc)
  | ')' :: r => lex r (.rp :: acc)
  | '&' :: '&' :: r => lex r (.andT :: acc)
  | '|' :: '|' :: r => lex r (.orT :: acc)
  | '!' :: r => lex r (.notT :: acc)
  | c :: r =>
    if isValidTagChar c then
      let w := (c :: r).takeWhile isValidTagChar
      lex ((c :: r).dropWhile isValidTagChar) (.word w :: acc)
    else (Tok.bad :: acc).reverse

mutual
  partial def parseOr (ts : List Tok) : Option (BExpr × List Tok) := do
    let (a, r) ← parseAnd ts
    orLoop a r
  partial def orLoop (a : BExpr) (ts : List Tok) : Option (BExpr × List Tok) :=
    match ts with
    | .orT :: r => do let (b, r') ← parseAnd r; orLoop (.or a b) r'
    | _ => some (a, ts)
  partial def parseAnd (ts : List Tok) : Option (BExpr × List Tok) := do
    let (a, r) ← parseNot ts
    andLoop a r
  partial def andLoop (a : BExpr) (ts : List Tok) : Option (BExpr × List Tok) :=
    match ts with
    | .andT :: r => do let (b, r') ← parseNot r; andLoop (.and a b) r'
    | _ => some (a, ts)
  partial def parseNot (ts : List Tok) : Option (BExpr × List Tok) :=
    match ts with
    | .notT :: .notT :: _ => none                        -- double negation not allowed
    | .notT :: r => do let (a, r') ← parseNot r; some (.not a, r')
    | .lp :: r => do
        let (a, r') ← parseOr r
        match r' with | .rp :: r'' => some (a, r'') | _ => none
    | .word w :: r => some (.tag (Str.s w), r)
    | _ => none
end

def parseGoBuild (text : List Char) : Option BExpr :=
  match parseOr (lex text []) with
  | some (e, []) => some e
  | _ => none

/-- is the `//` comment text a //go:build line; returns the expression text -/
def splitGoBuild (text : List Char) : Option (List Char) :=
  -- the raw line is TrimSpace'd first, so trailing blanks are gone; `//go:build` must be followed by space/tab or end
  let t := Str.trimRight text
  if !(Str.hasPrefix "go:build".toList t) then none
  else match t.drop 8 with
    | [] => some []
    | ' ' :: r => some (Str.trim r)
    | '\t' :: r => some (Str.trim r)
    | _ => none


/-- buildTagOk on a word of a //go:build expression (never starts with `!`) -/
def BExpr.evalRaw (c : Ctx) : BExpr → Bool
  | .tag s => (match tagLitRaw c s.toList with | .ok b => b | _ => false)
  | .not e => !(e.evalRaw c)
  | .and a b => a.evalRaw c && b.evalRaw c
  | .or a b => a.evalRaw c || b.evalRaw c

/-- structured layer: expressions over abstract tag names, as buildOk evaluates them -/
inductive GExpr where
  | tag (t : TagName)
  | not (e : GExpr)
  | and (a b : GExpr)
  | or (a b : GExpr)

def GExpr.evalY (c : Ctx) : GExpr → Bool
  | .tag t => tagOkY c t
  | .not e => !(e.evalY c)
  | .and a b => a.evalY c && b.evalY c
  | .or a b => a.evalY c || b.evalY c

/-- one comment as the parser delivers it: `line = true` for `//…` (text = what follows `//`),
    `false` for `/*…*/` (text = what is between the markers) -/
structure Comment where
  line : Bool
  text : List Char
  deriving Repr

/-- go/ast isDirective (the part reachable from CommentGroup.Text) -/
def isDirective (c : List Char) : Bool :=
  if Str.hasPrefix "line ".toList c || Str.hasPrefix "extern ".toList c || Str.hasPrefix "export ".toList c then true
  else
    match Str.indexOf? ':' c with
    | none => false
    | some colon =>
      if colon == 0 || colon + 1 ≥ c.length then false
      else
        let okc (b : Char) : Bool := ('a' ≤ b && b ≤ 'z') || ('0' ≤ b && b ≤ '9')
        (List.range (colon + 2)).all fun i =>
          if i == colon then true else match c[i]? with | some b => okc b | none => false

def stripTrailingWs (l : List Char) : List Char :=
  (l.reverse.dropWhile (fun c => c == ' ' || c == '\t' || c == '\n' || c == '\r')).reverse

/-- go/ast CommentGroup.Text -/
def groupText (g : List Comment) : List Char :=
  let lines : List (List Char) := g.foldl (fun acc cm =>
    if cm.line then
      match cm.text with
      | [] => acc ++ [[]]
      | ' ' :: rest => acc ++ (Str.splitOn '\n' rest).map stripTrailingWs
      | t => if isDirective t then acc else acc ++ (Str.splitOn '\n' t).map stripTrailingWs
    else acc ++ (Str.splitOn '\n' cm.text).map stripTrailingWs) []
  -- remove leading blank lines; collapse interior runs of blank lines
  let collapsed : List (List Char) := (lines.foldl (fun (acc : List (List Char)) l =>
    if !l.isEmpty || (match acc with | [] => false | p :: _ => !p.isEmpty) then l :: acc else acc) []).reverse
  let collapsed := match collapsed.reverse with
    | [] => []
    | lst :: restRev => if lst.isEmpty then collapsed else (([] : List Char) :: lst :: restRev).reverse
  -- Join with "\n" (a final "" entry gives the trailing newline)
  match collapsed with
  | [] => []
  | l :: ls => ls.foldl (fun acc x => acc ++ ['\n'] ++ x) l

/-- buildOk over the comment groups that precede the package clause -/
def buildOkRaw (c : Ctx) (groups : List (List Comment)) : R :=
  -- a //go:build line takes precedence over +build lines (fix 3)
  let gobuilds := groups.flatten.filterMap fun cm => if cm.line then splitGoBuild cm.text else none
  match gobuilds with
  | _ :: _ :: _ => .err
  | [e] => (match parseGoBuild e with
      | some x => .ok (x.evalRaw c)
      | none => .err)
  | [] =>
  let lines := groups.flatMap fun g => Str.splitOn '\n' (Str.trim (groupText g))
  let rec go : List (List Char) → R
    | [] => .ok true
    | l :: ls => match buildLineOkRaw c l with
      | .panic => .panic
      | .err => .err
      | .ok false => .ok false
      | .ok true => go ls
  go lines

/-- skipFile on the raw path (true = skip) -/
def skipFileRaw (k : Known) (c : Ctx) (p : List Char) (skipTest : Bool) : Bool :=
  if !(Str.hasSuffix ".go".toList p) then true
  else
    let base := ((Str.splitOn '/' p).getLast?).getD []
    -- path.Base of "" or of a path ending in "/" is not produced by the callers (names come from ReadDir)
    let base := base.take (base.length - 3)
    if base.isEmpty || Str.hasPrefix ['_'] base || Str.hasPrefix ['.'] base then true
    else
      let stem := (Str.splitOn '.' base).headD []
      skipElemsY k c (Str.hasSuffix "_test".toList base) ((Str.splitOn '_' stem).map Str.s) skipTest

end YaegiVerif.Build
