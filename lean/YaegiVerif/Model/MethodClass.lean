import YaegiVerif.Model.Method
import YaegiVerif.Model.MethodRun
import YaegiVerif.Spec.GoSelector
/-
  C05 — divergence classes: decidable predicates over a declaration set and a scenario that say in
  which documented way the interpreter's rules may differ from the specification's on this input.
  `classify` gives the label of the first statement that falls into a class, `in-domain` if none
  does. The selector predicates are the hypotheses of the partial theorems of Props/C05.lean.
  Core Lean only.
-/
namespace YaegiVerif.MethodClass
open YaegiVerif.Method YaegiVerif.MethodRun YaegiVerif.Spec.Selector

/-- number of occurrences at depth `d` -/
def countAt (d : Nat) (ds : List Nat) : Nat := (ds.filter (fun e => e == d)).length

/-- the first of the elements with the smallest key -/
def firstMinBy (key : α → Nat) : List α → Option α
  | [] => none
  | a :: l =>
    match firstMinBy key l with
    | none => some a
    | some b => if key b < key a then some b else some a

/-- several *fields* named `x` at the shallowest field depth and no method at that depth or above:
    an ambiguous selector in Go; up to f4dfaf4 `lookupField` took the first of them (finding F05-17) -/
def fieldTie (D : Decls) (t : Nat) (x : String) : Bool :=
  match firstMinBy (fun (h : FHit) => h.path.length) (focc D t x) with
  | none => false
  | some fh =>
    decide (countAt fh.depth ((focc D t x).map FHit.depth) > 1) &&
      (match firstMinBy (fun (h : MHit) => h.path.length) (mocc D t x) with
       | none => true
       | some mh => decide (fh.depth < mh.depth))

/-- no struct-typed field that is not embedded -/
def plainFree (D : Decls) : Bool :=
  D.all (fun d => match d with
    | .strct _ fs _ => fs.all (fun f => f.kind != .plain)
    | .iface _ _ _ => true)

/-- the selector case has no divergence class left (`select_eq_spec`); should the two rule sets
    ever differ on an input, it gets a label that no finding lists -/
def selClass (F : Facts) (D : Decls) (t : Nat) (x : String) : Option String :=
  if selectY F D t x != select D t x then some "selector-resolution" else none

/-! ### domains of the type-switch theorems -/

/-- a clause that matches -/
def clauseMatches (mt : α → Bool) (cs : List (List α)) (i : Nat) : Bool := (cs.getD i []).any mt

/-- no default clause, or the default clause is the last one -/
def defaultLast (cs : List (List α)) : Bool :=
  match defaultClause cs 0 with
  | none => true
  | some i => i + 1 == cs.length

/-- clause types that are struct types or pointers to them -/
def concreteTy (D : Decls) : TyRef → Bool
  | .ptr _ => true
  | .named t => !isIfaceT D t
  | _ => false

/-- clause types without methods to compare: struct types, pointers to them, `nil`, `interface{}` -/
def plainTy (D : Decls) (ty : TyRef) : Bool := concreteTy D ty || ty == .nil || ty == .empty

/-- what is known statically about a variable of the scenario -/
inductive Info where
  | strct (t : Nat)
  | ptr (t : Nat) (v : String)
  | ifc (ity : TyRef) (dyn : Option DynT) (src : String) (stale : Bool)
  | fn (src : String) (valueRecv : Bool) (stale : Bool)
  | other
  deriving Repr, Inhabited

abbrev CEnv := List (String × Info)

def clook (e : CEnv) (x : String) : Info := ((e.find? (fun p => p.1 == x)).map (·.2)).getD .other

def operand (e : CEnv) : Recv → Option (Nat × String × Bool)   -- type, underlying variable, is a temporary
  | .var x => match clook e x with | .strct t => some (t, x, false) | _ => none
  | .addr x => match clook e x with | .strct t => some (t, x, false) | _ => none
  | .ptrvar p => match clook e p with | .ptr t v => some (t, v, false) | _ => none
  | .tmp t _ => some (t, "", true)
  | _ => none

def orElse (a : Option String) (b : Unit → Option String) : Option String :=
  match a with
  | some x => some x
  | none => b ()

/-- is the value the interpreter puts in the interface wrapped in a valueInterface -/
def wrappedY (D : Decls) (ity : TyRef) (d : DynT) : Bool :=
  isTyped ity || (methsOf D d.t).any (fun m => !d.ptr || m.ptr)

def dispatchClass (F : Facts) (D : Decls) (d : DynT) (m : String) : Option String :=
  match select D d.t m with
  | .method h => if lookupMethodY F D d.t m == some h then none else some "dynamic-dispatch-lookup"
  | _ => if (lookupMethodY F D d.t m).isSome then some "implements-names-only" else none

/-- class of one statement and the updated knowledge -/
def classStmt (F : Facts) (D : Decls) (e : CEnv) : Stmt → Option String × CEnv
  | .var x t _ => (none, (x, .strct t) :: e)
  | .ptr x y => (none, (x, match clook e y with | .strct t => .ptr t y | _ => .other) :: e)
  | .bump y =>
    (none, e.map (fun p => match p.2 with
      | .ifc ity d src _ => if src == y then (p.1, .ifc ity d src true) else p
      | .fn src vr _ => if src == y then (p.1, .fn src vr true) else p
      | _ => p))
  | .dump _ => (none, e)
  | .call (.ifc i) m =>
    (match clook e i with
     | .ifc _ (some d) _ _ => (dispatchClass F D d m, e)
     | _ => (none, e))
  | .call r m =>
    (match operand e r with
     | some (t, _, isTmp) =>
       (orElse (selClass F D t m) (fun _ =>
          match select D t m with
          | .method h => if isTmp && !recvOK D ⟨t, false⟩ h then some "pointer-method-on-value" else none
          | _ => none), e)
     | none => (none, e))
  | .mval _ (.ifc i) m =>
    (match clook e i with
     | .ifc _ (some d) _ _ => (dispatchClass F D d m, e)
     | _ => (none, e))
  | .mval x r m =>
    (match operand e r with
     | some (t, v, isTmp) =>
       let vr := match select D t m with | .method h => !h.meth.ptr | _ => false
       (orElse (selClass F D t m) (fun _ =>
          match select D t m with
          | .method h => if isTmp && !recvOK D ⟨t, false⟩ h then some "pointer-method-on-value" else none
          | _ => none), (x, .fn v vr false) :: e)
     | none => (none, e))
  | .callf _ => (none, e)
  | .mexpr t isPtr m _ =>
    (orElse (selClass F D t m) (fun _ =>
       match select D t m with
       | .method h =>
         if !isPtr && !recvOK D ⟨t, false⟩ h then some "pointer-method-on-value"
         else if !h.path.isEmpty || h.meth.ptr != isPtr then some "method-expression-receiver"
         else none
       | .field _ => some "method-expression-field"
       | _ => none), e)
  | .iface x i r =>
    let ity : TyRef := match i with | some k => .named k | none => .empty
    let dyn : Option (DynT × String) := match r with
      | .var v => (match clook e v with | .strct t => some (⟨t, false⟩, v) | _ => none)
      | .addr v => (match clook e v with | .strct t => some (⟨t, true⟩, v) | _ => none)
      | .ptrvar p => (match clook e p with | .ptr t v => some (⟨t, true⟩, v) | _ => none)
      | _ => none
    (match dyn with
     | some (d, v) =>
       (if assignLegal .yaegi F D d ity != assignLegal .go F D d ity then some "implements-names-only" else none,
        (x, .ifc ity (some d) v false) :: e)
     | none => (none, (x, .ifc ity none "" false) :: e))
  | .assert x y ty _ m =>
    (match clook e y with
     | .ifc src dyn v stale =>
       let toIface := tyIsIface D ty
       let c1 : Option String :=
         if toIface then
           -- the interpreter: the value must be wrapped in a valueInterface (a pointer, or a struct
           -- whose type has no method of its own, assigned to interface{} is not: F06) and the names
           -- and signature strings of methods() of its type must cover the interface (F05-8)
           (match dyn with
            | none => none
            | some d =>
              let wr := wrappedY D src d
              let gy := wr && matchIfaceY D ⟨d.t, d.ptr, [], true⟩ ty
              let gg := matchG D (some d) ty
              if gy == gg then none
              else if !wr then some "assert-from-empty-interface"
              else some "assert-interface-names-only")
         else if isTyped src && assertLegalY F D src ty != assertLegal D (tyMethods D src) ty then some "assert-impossible-check"
         else none
       let follow : Unit → Option String := fun _ =>
         if m == "" then none else
         match ty with
         | .ptr t => selClass F D t m
         | .named t => if isIfaceT D t then (match dyn with | some d => dispatchClass F D d m | none => none) else selClass F D t m
         | _ => (match dyn with | some d => dispatchClass F D d m | none => none)
       let info : Info := if toIface then .ifc ty dyn v stale else
         (match ty with | .ptr t => .ptr t v | .named t => .strct t | _ => .other)
       (orElse c1 follow, (x, info) :: e)
     | _ => (none, e))
  | .tswitch y bindForm cs =>
    (match clook e y with
     | .ifc src dyn _ _ =>
       if isTyped src then
         let gg := cs.all (fun c => c.all (fun ty => assertLegal D (tyMethods D src) ty))
         let gy := !F.tswitchCasesChecked || cs.all (fun c => c.all (fun ty => ty == .nil || assertLegalY F D src ty))
         (if gy != gg then (some "tswitch-impossible-case", e)
          else if !gg then (none, e)
          else
            -- the clause test is `matchCase` on the dynamic type (9f81224): the input is in a class exactly
            -- when the clause it selects differs from the specification's — what is left is the
            -- names-only comparison of interface clause types (signatures, ambiguous names: F05-20)
            let dy : Option Dyn := dyn.map (fun d => ⟨d.t, d.ptr, [], true⟩)
            if typeSwitchY F.defaultSwap F.clauseChain (matchCaseY F D true bindForm dy) cs == typeSwitchG D dyn cs then (none, e)
            else (some "tswitch-interface-names-only", e))
       else
         -- interface{} operand: the same test; a value stored raw in interface{} (a pointer, or a struct
         -- whose type has no method of its own) has no method for an interface clause type (F06)
         let wr := match dyn with | some d => wrappedY D src d | none => true
         let dy : Option Dyn := dyn.map (fun d => ⟨d.t, d.ptr, [], wrappedY D src d⟩)
         if typeSwitchY F.defaultSwap F.clauseChain (matchCaseY F D false bindForm dy) cs == typeSwitchG D dyn cs then (none, e)
         else if !wr then (some "tswitch-unwrapped-value", e)
         else (some "tswitch-interface-names-only", e)
     | _ => (none, e))
  | .host _ _ => (none, e)

def classifyFrom (F : Facts) (D : Decls) : CEnv → List Stmt → String
  | _, [] => "in-domain"
  | e, s :: ss =>
    match classStmt F D e s with
    | (some c, _) => c
    | (none, e') => classifyFrom F D e' ss

def classify (F : Facts) (D : Decls) (prog : List Stmt) : String := classifyFrom F D [] prog

end YaegiVerif.MethodClass
