import YaegiVerif.Model.Ops
/-
  C02 — executable model of the float closures, for the CORRESPONDENCE RUN ONLY.

  Lean's `Float` / `Float32` are the platform's IEEE-754 binary64 / binary32 (opaque to the kernel: no theorem is
  stated about them). The model interprets the same regenerated table entries as `Ops.evalEntry`:
  operands read by genValueFloat / vFloat (`v.Float()`: a float32 is widened exactly to float64), the Go operator
  applied at float64, the result stored by SetFloat / Convert(typ) (rounded once to float32 when the destination
  is a float32). The "specification" side computes directly at the operand's own precision. The correspondence run
  compares both with the real interpreter and with compiled Go on every float evaluation, which also validates
  empirically, on the boundary set, the classical fact that float64 arithmetic followed by one rounding equals
  float32 arithmetic for + - * /.

  Core Lean only; used by Driver/C02.lean, not by Props/C02.lean.
-/
namespace YaegiVerif.OpsFloat
open YaegiVerif.Ops

/-- a floating-point operand: bit pattern and width -/
inductive FArg
  | f32 (b : UInt32)
  | f64 (b : UInt64)
  | absent

/-- `reflect.Value.Float()` -/
def FArg.float? : FArg → Option Float
  | .f32 b => some (Float32.ofBits b).toFloat
  | .f64 b => some (Float.ofBits b)
  | .absent => none

inductive FRes
  | num (x : Float)
  | bool (b : Bool)

def applyF (t : Tok) (i j : Float) : Option FRes :=
  match t with
  | .add => some (.num (i + j))
  | .sub => some (.num (i - j))
  | .mul => some (.num (i * j))
  | .quo => some (.num (i / j))
  | .eql => some (.bool (i == j))
  | .neq => some (.bool (i != j))
  | .lss => some (.bool (i < j))
  | .leq => some (.bool (i ≤ j))
  | .gtr => some (.bool (i > j))
  | .geq => some (.bool (i ≥ j))
  | .neg => some (.num (-i))
  | .pos => some (.num i)
  | .ident => some (.num i)
  | _ => none

def isNaN32 (b : UInt32) : Bool := (b &&& 0x7f800000) == 0x7f800000 && (b &&& 0x007fffff) != 0
def isNaN64 (b : UInt64) : Bool := (b &&& 0x7ff0000000000000) == 0x7ff0000000000000 && (b &&& 0x000fffffffffffff) != 0

def show32 (x : Float32) : String := let b := x.toBits; if isNaN32 b then "x:NaN" else s!"x:{b.toNat}"
def show64 (x : Float) : String := let b := x.toBits; if isNaN64 b then "x:NaN" else s!"x:{b.toNat}"

/-- load an operand the way the entry says -/
def loadF (W : List WidenEntry) (o : Operand) (a b : FArg) : Option Float :=
  let arg := if o.child = 0 then a else if o.child = 1 then b else FArg.absent
  match o.ext, o.acc with
  | .genValueFloat, .none | .vFloat, .none =>
    (match lookupWiden W o.ext .float with
     | some .float => arg.float?
     | _ => none)
  | .genValue, .float | .rval, .float => arg.float?
  | .genValue, .none => arg.float?
  | .genValue, .interface | .rval, .interface => arg.float?
  | .lit1, _ => some 1.0
  | _, _ => none

/-- the model: what the float closure described by `e` yields for a destination of width dw (32 / 64) -/
def evalFloatEntry (W : List WidenEntry) (e : Entry) (a b : FArg) (dw : Nat) : String :=
  match loadF W e.l a b with
  | none => "unmodelled"
  | some i =>
    let j? := if e.r.ext = .none then some 0.0 else loadF W e.r a b
    match j? with
    | none => "unmodelled"
    | some j =>
      match applyF e.tok i j, e.store with
      | some (.num x), .setFloat | some (.num x), .convertTyp | some (.num x), .setValue =>
        if dw = 32 then show32 x.toFloat32 else show64 x
      | some (.bool c), .setBool | some (.bool c), .branch | some (.bool c), .convertTyp => if c then "t" else "f"
      | _, _ => "unmodelled"

/-- Go's result computed at the operand's own precision -/
def specFloat (t : Tok) (a b : FArg) : String :=
  match a, b with
  | .f32 x, .f32 y =>
    let i := Float32.ofBits x; let j := Float32.ofBits y
    (match t with
     | .add => show32 (i + j) | .sub => show32 (i - j) | .mul => show32 (i * j) | .quo => show32 (i / j)
     | .eql => if i == j then "t" else "f" | .neq => if i != j then "t" else "f"
     | .lss => if i < j then "t" else "f" | .leq => if i ≤ j then "t" else "f"
     | .gtr => if i > j then "t" else "f" | .geq => if i ≥ j then "t" else "f"
     | _ => "unmodelled")
  | .f64 x, .f64 y =>
    let i := Float.ofBits x; let j := Float.ofBits y
    (match t with
     | .add => show64 (i + j) | .sub => show64 (i - j) | .mul => show64 (i * j) | .quo => show64 (i / j)
     | .eql => if i == j then "t" else "f" | .neq => if i != j then "t" else "f"
     | .lss => if i < j then "t" else "f" | .leq => if i ≤ j then "t" else "f"
     | .gtr => if i > j then "t" else "f" | .geq => if i ≥ j then "t" else "f"
     | _ => "unmodelled")
  | .f32 x, .absent =>
    let i := Float32.ofBits x
    (match t with
     | .neg => show32 (-i) | .pos => show32 i | .add => show32 (i + 1.0) | .sub => show32 (i - 1.0)
     | _ => "unmodelled")
  | .f64 x, .absent =>
    let i := Float.ofBits x
    (match t with
     | .neg => show64 (-i) | .pos => show64 i | .add => show64 (i + 1.0) | .sub => show64 (i - 1.0)
     | _ => "unmodelled")
  | _, _ => "unmodelled"

end YaegiVerif.OpsFloat
