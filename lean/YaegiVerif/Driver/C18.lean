import YaegiVerif.Common.Sexp
import YaegiVerif.Model.Extract
import YaegiVerif.Spec.GoExtract
import YaegiVerif.Generated.C18
import YaegiVerif.Expected.C18
/- Line-protocol front end for C18 (glue, not a proof obligation).
   gen (provided…) newest (pkg importPath path name dest minor (tags…) (directImports…)) OBJ…
        → (y FILE) (y0 FILE) (g FILE)      y: switches from the regenerated facts; y0: from the
                                            hand-written expectation (the model the theorems are about)
   OBJ    = (o name exported KIND)
   KIND   = (const untyped CV) | (func generic) | (var) | (type generic)
          | (iface generic embeds methodSet METHOD…) | (other)
   CV     = (typed) | (int n) | (flt num den prec) | (str hex) | (bool b) | (cplx PART PART)
   PART   = (int n) | (flt num den prec)
   METHOD = (m name exported variadic (PARAM…) (PARAM…));  PARAM = (name typ () | (elem) (deps…) isString)
   FILE   = (file dest symkey tags (imports…) (vals E…) (typs E…) (wraps E…) (wtypes W…)) | (err msg)
   E      = (e key form pkg name tok val);  W = (w name iface (m name ret guard (P…) (P…) (A…))…)
   Strings are byte strings: every character of an atom stands for one byte. -/
namespace YaegiVerif.Driver.C18
open YaegiVerif YaegiVerif.Extract

def parseParam (s : Sexp) : Option Param :=
  match s with
  | .list [.atom n, .atom t, .list el, deps, isStr] => do
    let ds ← deps.atoms?
    let isStr ← isStr.bool?
    let e ← match el with
      | [] => some none
      | [.atom x] => some (some x.toList)
      | _ => none
    some { name := n, typ := t.toList, elem := e, deps := ds, isString := isStr }
  | _ => none

def parseMethod (s : Sexp) : Option Method :=
  match s with
  | .list [.atom "m", .atom n, ex, va, .list ps, .list rs] => do
    let ex ← ex.bool?
    let va ← va.bool?
    let ps ← ps.mapM parseParam
    let rs ← rs.mapM parseParam
    some { name := n, exported := ex, variadic := va, params := ps, results := rs }
  | _ => none

def parsePart (s : Sexp) : Option CNum :=
  match s with
  | .list [.atom "int", n] => n.int?.map CNum.int
  | .list [.atom "flt", n, d, p] => do
    let n ← n.int?
    let d ← d.nat?
    let p ← p.nat?
    some (.flt n d p)
  | _ => none

def parseCV (s : Sexp) : Option (Option CVal) :=
  match s with
  | .list [.atom "typed"] => some none
  | .list [.atom "int", n] => n.int?.map fun v => some (.int v)
  | .list [.atom "flt", n, d, p] => do
    let n ← n.int?
    let d ← d.nat?
    let p ← p.nat?
    some (some (.flt n d p))
  | .list [.atom "str", .atom h] => some (some (.str h))
  | .list [.atom "bool", b] => b.bool?.map fun v => some (.bool v)
  | .list [.atom "cplx", re, im] => do
    let re ← parsePart re
    let im ← parsePart im
    some (some (.cplx re im))
  | _ => none

def parseKind (s : Sexp) : Option Kind :=
  match s with
  | .list [.atom "const", _, cv] => (parseCV cv).map Kind.const
  | .list [.atom "func", g] => g.bool?.map Kind.func
  | .list [.atom "var"] => some .var
  | .list [.atom "type", g] => g.bool?.map Kind.typ
  | .list (.atom "iface" :: g :: emb :: ms :: methods) => do
    let g ← g.bool?
    let emb ← emb.nat?
    let ms ← ms.bool?
    let methods ← methods.mapM parseMethod
    some (.iface g emb ms methods)
  | .list [.atom "other"] => some .other
  | _ => none

def parseObj (s : Sexp) : Option Obj :=
  match s with
  | .list [.atom "o", .atom n, ex, k] => do
    let ex ← ex.bool?
    let k ← parseKind k
    some { name := n, exported := ex, kind := k }
  | _ => none

def hexDigit (n : Nat) : Char := if n < 10 then Char.ofNat (48 + n) else Char.ofNat (87 + n)

/-- always-quoted atom; one character = one byte -/
def q (s : String) : String :=
  "\"" ++ String.join (s.toList.map fun c =>
    let n := c.toNat
    if n == 34 then "\\\"" else if n == 92 then "\\\\"
    else if n < 32 || n > 126 then String.ofList ['\\', 'x', hexDigit ((n / 16) % 16), hexDigit (n % 16)]
    else String.ofList [c]) ++ "\""

def b (x : Bool) : String := if x then "1" else "0"

def showTok : Tok → String
  | .INT => "INT" | .FLOAT => "FLOAT" | .STRING => "STRING" | .COMPLEX => "COMPLEX"

def showNum : Num → String
  | .int n => "INT:" ++ toString n
  | .rat n d => "FLOAT:" ++ toString n ++ "/" ++ toString d

def showEntry (e : Entry) : String :=
  let (form, pkg, name, tok, val) := match e.form with
    | .value id => ("value", id.pkg, id.name, "", "")
    | .addr id => ("addr", id.pkg, id.name, "", "")
    | .typ id => ("type", id.pkg, id.name, "", "")
    | .wrap t => ("wrap", "", t, "", "")
    | .odd => ("odd", "", "", "", "")
    | .lit t v => ("lit", "", "", showTok t, match v with
      | .int n => toString n
      | .rat n d => toString n ++ "/" ++ toString d
      | .str s => s
      | .cplx re im => showNum re ++ ";" ++ showNum im)
  "(e " ++ " ".intercalate [q e.key, q form, q pkg, q name, q tok, q val] ++ ")"

def showParams (ps : List WParam) : String :=
  "(" ++ " ".intercalate (ps.map fun p => "(" ++ q p.name ++ " " ++ q (String.ofList p.typ) ++ " " ++ b p.variadic ++ ")") ++ ")"

def showMethod (m : WMethod) : String :=
  "(m " ++ q m.name ++ " " ++ b m.ret ++ " " ++ b m.guard ++ " " ++ showParams m.params ++ " " ++ showParams m.results ++ " (" ++
    " ".intercalate (m.args.map fun a => "(" ++ q a.name ++ " " ++ b a.ellipsis ++ ")") ++ "))"

def showFile (f : File) : String :=
  let sec (tag : String) (es : List Entry) := "(" ++ " ".intercalate (tag :: es.map showEntry) ++ ")"
  "(file " ++ q f.dest ++ " " ++ q f.symKey ++ " " ++ q f.tags ++ " (" ++ " ".intercalate (f.imports.map q) ++ ") " ++
    sec "vals" f.vals ++ " " ++ sec "typs" f.typs ++ " " ++ sec "wraps" f.wraps ++ " (" ++
    " ".intercalate ("wtypes" :: f.wtypes.map fun w =>
      "(" ++ " ".intercalate (["w", q w.name, q w.iface] ++ w.methods.map showMethod) ++ ")") ++ "))"

def handle (args : List Sexp) : String :=
  match args with
  | .atom "gen" :: provided :: newest :: .list [.atom "pkg", .atom ip, .atom path, .atom name, .atom dest, minor, tags, direct] :: objs =>
    (match provided.atoms?, newest.nat?, minor.nat?, tags.atoms?, objs.mapM parseObj, direct.atoms? with
     | some prov, some newest, some minor, some tags, some objs, some direct =>
       let p : Pkg := { importPath := ip, path := path, name := name, dest := dest, minor := minor, tags := tags, objs := objs,
                        directImports := direct }
       let run (K : Knobs) : String := if formatFails K p then "(err \"extract\")" else showFile (genY K p)
       "(y " ++ run (knobsOf Generated.C18.facts) ++ ") (y0 " ++ run (knobsOf Expected.C18.facts) ++
         ") (g " ++ showFile (Spec.wrapper prov newest p) ++ ")"
     | _, _, _, _, _, _ => "bad-op")
  | _ => "bad-op"

end YaegiVerif.Driver.C18
