import YaegiVerif.Common.Sexp
import YaegiVerif.Model.Restricted
import YaegiVerif.Model.Env
import YaegiVerif.Model.C13Options
import YaegiVerif.Spec.OsEnv
import YaegiVerif.Generated.C13
/- Line-protocol front end for C13 (glue, not a proof obligation). Strings are byte strings: one Char per byte.

   CFG = (unrestricted specialStdio stdinFile stdoutFile stderrFile)
   keys SET…                               → (keys "path" …)            binPkg after Use(stdlib.Symbols) (+ gated sets)
   import (SET…) FORM full dir base (TREE…) → y=bin|src|error        TREE = the package paths the source tree has
   exit CFG fn pkg name | exit CFG method pkg name m | exit CFG flagset handling | exit CFG flagsetinit handling
                                           → y=panics|exits|returns|unknown
   envsrc CFG name                         → y=virt|host|unknown
   io CFG fn pkg name | io CFG builtin name | io CFG logger pkg name → y=<stream>
   bind CFG pkg name                       → y=override|host|hostVar|hostType|const|loc|locType|other|absent
   virt CFG                                → (virt "Setenv" …)
   used (path base alt)…                   → (used ("name" "path") …)
   env CFG (entry…) ((k v)…) OP…           → (y OUT…) (yv (k v)…) (yh (k v)…) (g OUT…) (gm (k v)…)
     OP = (set k v) (unset k) (clear) (get k) (lookup k) (environ) (expand s)
   opts special unrestricted ARGS ENV stdin stdout stderr TAGS fs gopath
     ARGS, ENV, TAGS = (n) for a nil slice | (s "a" …) for a non-nil one; stdin/stdout/stderr = nil|file|other
                                           → (args opt "a" …|host|unknown) (fparse …) (clname head ARGS|host0|unknown) (environ virt (k v)…|host|unknown)
                                             (println D) (logprint D) (builtin D) (scan D) (osstdout D) (osstderr D) (osstdin D) (clout D)
                                             (tags given "a" …|dflt "what"|unknown) (gopath …) (fs …) (unrestricted 0|1|unknown) -/
namespace YaegiVerif.Driver.C13
open YaegiVerif YaegiVerif.Restricted YaegiVerif.Spec.OsEnv

def F : Facts := Generated.C13.facts

private def hexDigit (n : Nat) : Char := if n < 10 then Char.ofNat (48 + n) else Char.ofNat (87 + n)

/-- quote a byte string -/
def qb (s : String) : String :=
  "\"" ++ String.join (s.toList.map fun c =>
    let n := c.toNat % 256
    if n == 34 then "\\\"" else if n == 92 then "\\\\"
    else if n < 32 || n > 126 then String.ofList ['\\', 'x', hexDigit (n / 16), hexDigit (n % 16)]
    else String.ofList [c]) ++ "\""

def parseCfg (s : Sexp) : Option Cfg :=
  match s with
  | .list [a, b, c, d, e] => do
    some { unrestricted := ← a.bool?, specialStdio := ← b.bool?, stdinFile := ← c.bool?, stdoutFile := ← d.bool?,
           stderrFile := ← e.bool? }
  | _ => none

def keysWith (sets : List String) : List Key :=
  F.defaultKeys ++ (F.gated.filter (fun g => sets.contains g.1)).flatMap (·.2)

def showOutcome : Outcome → String
  | .panics => "panics" | .exits => "exits" | .returns => "returns" | .unknown => "unknown"

def showStream : Stream → String
  | .optStdout => "optStdout" | .optStderr => "optStderr" | .optStdin => "optStdin" | .hostStdout => "hostStdout"
  | .hostStderr => "hostStderr" | .hostStdin => "hostStdin" | .args => "args" | .hostArgs => "hostArgs" | .hostFlag => "hostFlag" | .unknown => "unknown"

def showEff : Eff → String
  | .override _ => "override" | .absent => "absent"
  | .table (.host ..) => "host" | .table (.hostVar ..) => "hostVar" | .table (.hostType ..) => "hostType"
  | .table .const => "const" | .table (.loc _) => "loc" | .table (.locType _) => "locType" | .table (.other _) => "other"

def parseForm (s : Sexp) : Option Form :=
  match s with
  | .atom "plain" => some .plain
  | .atom "dot" => some .dot
  | .atom "blank" => some .blank
  | .list [.atom "named", .atom n] => some (.named n)
  | _ => none

def parseOp (s : Sexp) : Option Op :=
  match s with
  | .list [.atom "set", .atom k, .atom v] => some (.setenv k v)
  | .list [.atom "unset", .atom k] => some (.unsetenv k)
  | .list [.atom "clear"] => some .clearenv
  | .list [.atom "get", .atom k] => some (.getenv k)
  | .list [.atom "lookup", .atom k] => some (.lookupEnv k)
  | .list [.atom "environ"] => some .environ
  | .list [.atom "expand", .atom t] => some (.expandEnv t)
  | _ => none

def parsePair (s : Sexp) : Option (String × String) :=
  match s with
  | .list [.atom k, .atom v] => some (k, v)
  | _ => none

def showPairs (ps : List (String × String)) : String :=
  " ".intercalate (ps.map fun p => "(" ++ qb p.1 ++ " " ++ qb p.2 ++ ")")

def showOut : Out → String
  | .unit => "(unit)"
  | .err none => "(err nil)"
  | .err (some e) => "(err " ++ qb e ++ ")"
  | .str s => "(str " ++ qb s ++ ")"
  | .strOk s ok => "(strok " ++ qb s ++ " " ++ (if ok then "1" else "0") ++ ")"
  | .pairs ps => "(pairs " ++ showPairs ps ++ ")"

/-- executable form of the map semantics: `Environ` enumerates the names that were ever mentioned -/
def specStep (univ : List String) (m : EnvMap) (op : Op) : Out :=
  match op with
  | .setenv _ _ => .err none
  | .unsetenv _ => .err none
  | .clearenv => .unit
  | .getenv k => .str (m.getD k)
  | .lookupEnv k => .strOk (m.getD k) (m k).isSome
  | .environ => .pairs (univ.filterMap fun k => (m k).map fun v => (k, v))
  | .expandEnv s => .str (expandWith m s)

def specRun (univ : List String) : EnvMap → List Op → List Out × EnvMap
  | m, [] => ([], m)
  | m, op :: ops =>
    let o := specStep univ m op
    let r := specRun univ (next m op) ops
    (o :: r.1, r.2)

def opKeys : Op → List String
  | .setenv k _ => [k] | .unsetenv k => [k] | .getenv k => [k] | .lookupEnv k => [k] | _ => []

def virtFns (c : Cfg) : List String := envFns.filter (envVirtual F c)

def parseSlice (s : Sexp) : Option (Option (List String)) :=
  match s with
  | .list [.atom "n"] => some none
  | .list (.atom "s" :: xs) => (xs.mapM Sexp.atom?).map some
  | _ => none

def parseStreamArg (s : Sexp) : Option (Option StreamArg) :=
  match s with
  | .atom "nil" => some none
  | .atom "file" => some (some .file)
  | .atom "other" => some (some .other)
  | _ => none

def showArgsSrc : ArgsSrc → String
  | .opt a => "opt" ++ String.join (a.map fun x => " " ++ qb x)
  | .host => "host"
  | .unknown => "unknown"

def showDest : Dest → String
  | .opt => "opt" | .host => "host" | .unknown => "unknown"

def showResolved {α : Type} (f : α → String) : Resolved α → String
  | .given a => "given" ++ f a
  | .dflt d => "dflt " ++ qb d
  | .unknown => "unknown"

def handleOpts (o : Options) (h : Host) : String :=
  let d := fun (k : String) (x : Dest) => "(" ++ k ++ " " ++ showDest x ++ ")"
  " ".intercalate
    ["(args " ++ showArgsSrc (scriptArgsSrc F o h) ++ ")",
     "(fparse " ++ showArgsSrc (flagParseSrc F o h) ++ ")",
     "(clname " ++ (match cmdLineNameKind F (cfgOf F o h) with
        | .argsHead => "head " ++ showArgsSrc (interpArgsSrc F o)
        | .hostArg0 => "host0"
        | .unknown => "unknown") ++ ")",
     "(environ " ++ (match scriptEnviron F o h with
        | .virt e => "virt " ++ showPairs e
        | .host => "host"
        | .unknown => "unknown") ++ ")",
     d "println" (ioDest F o h "fmt" "Println"),
     d "logprint" (ioDest F o h "log" "Print"),
     d "builtin" (builtinDest F o "_println"),
     d "scan" (ioDest F o h "fmt" "Scan"),
     d "osstdout" (ioDest F o h "os" "Stdout"),
     d "osstderr" (ioDest F o h "os" "Stderr"),
     d "osstdin" (ioDest F o h "os" "Stdin"),
     d "clout" (ioDest F o h "flag" "CommandLine"),
     "(tags " ++ showResolved (fun (a : List String) => String.join (a.map fun x => " " ++ qb x)) (slotSlice F "BuildTags" o.buildTags) ++ ")",
     "(gopath " ++ showResolved (fun (a : String) => " " ++ qb a) (slotString F "GOPATH" o.goPath) ++ ")",
     "(fs " ++ showResolved (fun (_ : Option Unit) => "") (slotIface F "filesystem" (if o.fs then some () else none)) ++ ")",
     "(unrestricted " ++ (match effUnrestricted F o with | some true => "1" | some false => "0" | none => "unknown") ++ ")"]

def handle (args : List Sexp) : String :=
  match args with
  | [.atom "opts", special, unres, a, e, si, so, se, tags, fs, .atom gp] =>
    (match special.bool?, unres.bool?, parseSlice a, parseSlice e, parseStreamArg si, parseStreamArg so, parseStreamArg se,
           parseSlice tags, fs.bool? with
     | some sp, some u, some a, some e, some si, some so, some se, some tags, some fs =>
       handleOpts { args := a, env := e, stdin := si, stdout := so, stderr := se, goPath := gp, buildTags := tags, fs := fs, unrestricted := u }
         { specialStdio := sp }
     | _, _, _, _, _, _, _, _, _ => "bad-op")
  | .atom "keys" :: sets =>
    (match sets.mapM Sexp.atom? with
     | some ss => "(keys " ++ " ".intercalate ((binPkgOf (keysWith ss)).map qb) ++ ")"
     | none => "bad-op")
  | [.atom "import", sets, form, .atom full, .atom dir, .atom base, tree] =>
    (match sets.atoms?, parseForm form, tree.atoms? with
     | some ss, some f, some tr =>
       let r := importSpec (binPkgOf (keysWith ss)) (fun ip => tr.contains ip) f ⟨full, dir, base⟩
       "y=" ++ (match r with | .bin .. => "bin" | .src .. => "src" | .error _ => "error")
     | _, _, _ => "bad-op")
  | [.atom "exit", cfg, .atom "fn", .atom p, .atom n] =>
    (match parseCfg cfg with
     | some c => "y=" ++ showOutcome (exitOutcome F c (.fn p n))
     | none => "bad-op")
  | [.atom "exit", cfg, .atom "method", .atom p, .atom n, .atom m] =>
    (match parseCfg cfg with
     | some c => "y=" ++ showOutcome (exitOutcome F c (.method p n m))
     | none => "bad-op")
  | [.atom "exit", cfg, .atom "flagset", .atom h] =>
    (match parseCfg cfg with
     | some c => "y=" ++ showOutcome (exitOutcome F c (.flagSet h))
     | none => "bad-op")
  | [.atom "exit", cfg, .atom "flagsetinit", .atom h] =>
    (match parseCfg cfg with
     | some c => "y=" ++ showOutcome (exitOutcome F c (.flagSetInit h))
     | none => "bad-op")
  | [.atom "envsrc", cfg, .atom n] =>
    (match parseCfg cfg with
     | some c => "y=" ++ (match envSource F c n with | .virt => "virt" | .host => "host" | .unknown => "unknown")
     | none => "bad-op")
  | [.atom "io", cfg, .atom "fn", .atom p, .atom n] =>
    (match parseCfg cfg with
     | some c => "y=" ++ showStream (ioStream F c p n)
     | none => "bad-op")
  | [.atom "io", _, .atom "builtin", .atom n] => "y=" ++ showStream (builtinStream F n)
  | [.atom "io", cfg, .atom "logger", .atom p, .atom n] =>
    (match parseCfg cfg with
     | some c => "y=" ++ showStream (loggerStream F c p n)
     | none => "bad-op")
  | [.atom "bind", cfg, .atom p, .atom n] =>
    (match parseCfg cfg with
     | some c => "y=" ++ showEff (effective F c p n)
     | none => "bad-op")
  | [.atom "virt", cfg] =>
    (match parseCfg cfg with
     | some c => "(virt " ++ " ".intercalate ((virtFns c).map qb) ++ ")"
     | none => "bad-op")
  | .atom "used" :: ks =>
    (match ks.mapM (fun k => match k with
        | .list [.atom p, .atom b, .atom a] => some (⟨p, b, a⟩ : UsedKey)
        | _ => none) with
     | some ks => "(used " ++ " ".intercalate ((importUsed ks).map fun s => "(" ++ qb s.name ++ " " ++ qb s.key.path ++ ")") ++ ")"
     | none => "bad-op")
  | .atom "env" :: cfg :: entries :: host :: ops =>
    (match parseCfg cfg, entries.atoms?, host.list?.bind (·.mapM parsePair), ops.mapM parseOp with
     | some c, some es, some hs, some ops =>
       let s0 : Env.St := { host := hs, virt := Env.initVirt c.unrestricted es }
       let r := Env.run (virtFns c) s0 ops
       let m0 : EnvMap := ofEntries es
       let univ := ((es.map fun e => String.ofList (splitEntry e.toList).1) ++ ops.flatMap opKeys).eraseDups
       let g := specRun univ m0 ops
       let gm := univ.filterMap fun k => (g.2 k).map fun v => (k, v)
       "(y " ++ " ".intercalate (r.2.map showOut) ++ ") (yv " ++ showPairs r.1.virt ++ ") (yh " ++ showPairs r.1.host ++
       ") (g " ++ " ".intercalate (g.1.map showOut) ++ ") (gm " ++ showPairs gm ++ ")"
     | _, _, _, _ => "bad-op")
  | _ => "bad-op"

end YaegiVerif.Driver.C13
