import YaegiVerif.Common.Sexp
import YaegiVerif.Model.RunId
import YaegiVerif.Generated.C10
/- Line-protocol front end for C10 (glue, not a proof obligation).

   hist EV…     → y=<results>;id=<n> g=<results>
     EV = (def KIND a b BLK) | (use i VIA x) | (cancel CK)
     KIND = named | method | closure | mvtop | mvfunc | wrapper | imported      VIA = eval | evalctx | host
     BLK  = 1 if the body computes its value in a goroutine and receives it over a channel, else 0
     CK   = loop | chan | expb | expa   (expired context: stop() before / after Execute refreshes the root id)
          | hold   (not an event of `RunId.Ev`: a busy loop whose goroutine the harness keeps from returning until the
                    NEXT event is over — the window of finding F10-1: `HSt.stoppedNotLeft`, then the event, then `HSt.leave`)
          | expl   (not an event of `RunId.Ev` either: the evaluation finished just before the watcher ran stop(): `XEv.lateStop`)
          | expn   (stop() ran although the evaluation executed nothing — it never reached Execute: `XEv.stopOnly`; impossible
                    with the unchanged source)
   results = values returned by the uses, in order, joined by ","   ("-" if there is no use)
   y= is the history run on the run-id model with the extracted facts (a dead definition returns 0 and keeps its
   state), g= the specification (every definition keeps working). -/
namespace YaegiVerif.Driver.C10
open YaegiVerif YaegiVerif.RunId

def parseKind : String → Option DefKind
  | "named" => some .named | "method" => some .method | "closure" => some .closure
  | "mvtop" => some .methodValueTop | "mvfunc" => some .methodValueInFunc | "wrapper" => some .hostWrapper
  | "imported" => some .imported
  | _ => none

def parseEv : Sexp → Option Ev
  | .list [.atom "def", .atom k, a, b, blk] => do
    let kk ← parseKind k
    some (.define kk (← a.nat?) (← b.nat?) ((← blk.nat?) != 0))
  | .list [.atom "use", i, .atom v, x] => do
    let via ← (match v with | "eval" => some Via.eval | "evalctx" => some Via.evalCtx | "host" => some Via.host | _ => none)
    some (.use (← i.nat?) via (← x.nat?))
  | .list [.atom "cancel", .atom c] =>
    (match c with
     | "loop" => some (.cancelled .busyLoop) | "chan" => some (.cancelled .blockedChan)
     | "expb" => some (.cancelled .expiredBefore) | "expa" => some (.cancelled .expiredAfter) | _ => none)
  | _ => none

def showResults (rs : List Nat) : String :=
  if rs.isEmpty then "-" else ",".intercalate (rs.reverse.map toString)

def parseXEv : Sexp → Option XEv
  | .list [.atom "cancel", .atom "hold"] => some .hold
  | .list [.atom "cancel", .atom "expl"] => some .lateStop
  | .list [.atom "cancel", .atom "expn"] => some .stopOnly
  | e => (parseEv e).map .ev

def handle (args : List Sexp) : String :=
  match args with
  | .atom "hist" :: evs =>
    (match evs.mapM parseXEv with
     | some es =>
       let y := runX Generated.C10.facts es
       -- the specification ignores cancelled evaluations, held or not
       let g := runSpec HSt.init (XEv.plain es)
       s!"y={showResults y.results};id={y.id} g={showResults g.results}"
     | none => "bad-op")
  | _ => "bad-op"

end YaegiVerif.Driver.C10
