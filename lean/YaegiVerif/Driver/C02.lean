import YaegiVerif.Common.Sexp
import YaegiVerif.Model.Ops
import YaegiVerif.Model.OpsFloat
import YaegiVerif.Spec.GoInt
import YaegiVerif.Generated.C02
/- Line-protocol front end for C02 (glue, not a proof obligation).

   ev FN CLS VARIANT SUB A B DS DW   → y=<outcome> g=<outcome>
        the closure of interp/op.go identified by (FN, CLS, VARIANT, SUB) in the REGENERATED table, run by the
        model on operands A, B for a destination of kind (DS, DW); g = Go's result for the operator FN stands for
        A, B = (t S W N)  typed operand: signed 0/1, width, bit pattern as a natural number
             | (u V)      untyped integer constant
             | -          absent
   evf FN CLS VARIANT SUB A B DW     → y=<x:bits|x:NaN|t|f|unmodelled|noentry> g=…   float closure (Model/OpsFloat.lean);
        A, B = (f 32 N) | (f 64 N) | -      bit pattern of a float32 / float64
   conv S W N S' W'                  → y=b:<n> g=b:<n>       integer conversion
   convs S W N                       → y=r:<code point> g=r:<code point>   string(x) of an integer variable
   outcome = b:<nat> | t | f | pdiv | pshift | preflect | unmodelled | noentry -/
namespace YaegiVerif.Driver.C02
open YaegiVerif YaegiVerif.Ops YaegiVerif.Spec

def fnNames : List (String × Fn) := [
  ("add", .f_add), ("sub", .f_sub), ("mul", .f_mul), ("quo", .f_quo), ("rem", .f_rem), ("and", .f_and), ("or", .f_or),
  ("xor", .f_xor), ("andNot", .f_andNot), ("shl", .f_shl), ("shr", .f_shr),
  ("addAssign", .f_addAssign), ("subAssign", .f_subAssign), ("mulAssign", .f_mulAssign), ("quoAssign", .f_quoAssign),
  ("remAssign", .f_remAssign), ("andAssign", .f_andAssign), ("orAssign", .f_orAssign), ("xorAssign", .f_xorAssign),
  ("andNotAssign", .f_andNotAssign), ("shlAssign", .f_shlAssign), ("shrAssign", .f_shrAssign),
  ("addConst", .f_addConst), ("subConst", .f_subConst), ("mulConst", .f_mulConst), ("quoConst", .f_quoConst),
  ("remConst", .f_remConst), ("andConst", .f_andConst), ("orConst", .f_orConst), ("xorConst", .f_xorConst),
  ("andNotConst", .f_andNotConst), ("shlConst", .f_shlConst), ("shrConst", .f_shrConst),
  ("inc", .f_inc), ("dec", .f_dec),
  ("equal", .f_equal), ("notEqual", .f_notEqual), ("lower", .f_lower), ("lowerEqual", .f_lowerEqual),
  ("greater", .f_greater), ("greaterEqual", .f_greaterEqual),
  ("bitNotConst", .f_bitNotConst), ("negConst", .f_negConst), ("notConst", .f_notConst), ("posConst", .f_posConst),
  ("neg", .f_neg), ("pos", .f_pos), ("bitNot", .f_bitNot), ("not", .f_not)]

def clsNames : List (String × Cls) := [("int", .int), ("uint", .uint), ("uintNoPtr", .uintNoPtr), ("float", .float),
  ("complex", .complex), ("string", .string), ("bool", .bool), ("other", .other), ("any", .any),
  ("untypedConst", .untypedConst), ("linked", .linked), ("ifaceOperand", .ifaceOperand), ("chanMixed", .chanMixed)]
def variantNames : List (String × Variant) := [("iface", .iface), ("cl", .cl), ("cr", .cr), ("vv", .vv), ("fold", .fold), ("plain", .plain)]
def subNames : List (String × Sub) := [("none", .none), ("br", .br), ("val", .val)]

def findEntry (T : List Entry) (fn : Fn) (cls : Cls) (v : Variant) (s : Sub) : Option Entry :=
  T.find? (fun e => e.fn == fn && e.cls == cls && e.variant == v && e.sub == s)

/-- which Go operator a function of op.go stands for -/
inductive GoOp
  | bin (op : GoInt.BinOp) | shl | shr | cmp (op : GoInt.CmpOp) | un (op : GoInt.UnOp) | inc | dec

def goOp : Fn → Option GoOp
  | .f_add | .f_addAssign | .f_addConst => some (.bin .add)
  | .f_sub | .f_subAssign | .f_subConst => some (.bin .sub)
  | .f_mul | .f_mulAssign | .f_mulConst => some (.bin .mul)
  | .f_quo | .f_quoAssign | .f_quoConst => some (.bin .quo)
  | .f_rem | .f_remAssign | .f_remConst => some (.bin .rem)
  | .f_and | .f_andAssign | .f_andConst => some (.bin .and)
  | .f_or | .f_orAssign | .f_orConst => some (.bin .or)
  | .f_xor | .f_xorAssign | .f_xorConst => some (.bin .xor)
  | .f_andNot | .f_andNotAssign | .f_andNotConst => some (.bin .andNot)
  | .f_shl | .f_shlAssign | .f_shlConst => some .shl
  | .f_shr | .f_shrAssign | .f_shrConst => some .shr
  | .f_inc => some .inc
  | .f_dec => some .dec
  | .f_equal => some (.cmp .eql) | .f_notEqual => some (.cmp .neq)
  | .f_lower => some (.cmp .lss) | .f_lowerEqual => some (.cmp .leq)
  | .f_greater => some (.cmp .gtr) | .f_greaterEqual => some (.cmp .geq)
  | .f_neg | .f_negConst => some (.un .neg)
  | .f_pos | .f_posConst => some (.un .pos)
  | .f_bitNot | .f_bitNotConst => some (.un .bitNot)
  | _ => none

def parseArg (s : Sexp) : Option Arg :=
  match s with
  | .atom "-" => some .absent
  | .list [.atom "t", sg, w, n] => do
    let sg ← sg.bool?
    let w ← w.nat?
    let n ← n.nat?
    some (.typed sg w (BitVec.ofNat w n))
  | .list [.atom "u", v] => do
    let v ← v.int?
    some (.untyped v)
  | _ => none

def showVal {w : Nat} : Outcome (Val w) → String
  | .val (.bits x) => s!"b:{x.toNat}"
  | .val (.bool true) => "t"
  | .val (.bool false) => "f"
  | .panicDiv => "pdiv"
  | .panicShift => "pshift"
  | .reflectPanic => "preflect"
  | .unmodelled => "unmodelled"

def showBits {w : Nat} : Outcome (BitVec w) → String
  | .val x => s!"b:{x.toNat}"
  | .panicDiv => "pdiv"
  | .panicShift => "pshift"
  | .reflectPanic => "preflect"
  | .unmodelled => "unmodelled"

/-- an operand as a value of kind (s, w): Go converts an untyped constant to the type the context gives it -/
def asKind (s : Bool) (w : Nat) : Arg → Option (BitVec w)
  | .typed s' w' x => if s' = s ∧ w' = w then some (x.setWidth w) else none
  | .untyped v => some (GoInt.wrap w v)
  | .absent => none

/-- Go's answer. The operand kind is the kind of the typed operand (the destination kind for shifts and
    for comparisons of two constants is irrelevant: comparisons take the operand kind). -/
def spec (fn : Fn) (a b : Arg) (ds : Bool) (dw : Nat) : String :=
  -- operand kind: of the left operand if typed, else of the right, else the destination
  let (ks, kw) : Bool × Nat := match a, b with
    | .typed s w _, _ => (s, w)
    | _, .typed s w _ => (s, w)
    | _, _ => (ds, dw)
  match goOp fn with
  | some (.bin op) =>
    (match asKind ks kw a, asKind ks kw b with
     | some x, some y => showBits (GoInt.binary op ks x y)
     | _, _ => "unmodelled")
  | some .shl =>
    (match asKind ds dw a, b with
     | some x, .typed cs _ c => showBits (GoInt.shlExec ds x cs c)
     | some x, .untyped v => if v < 0 then "unmodelled" else showBits (GoInt.shlExec ds x false (BitVec.ofInt 64 v))
     | _, _ => "unmodelled")
  | some .shr =>
    (match asKind ds dw a, b with
     | some x, .typed cs _ c => showBits (GoInt.shrExec ds x cs c)
     | some x, .untyped v => if v < 0 then "unmodelled" else showBits (GoInt.shrExec ds x false (BitVec.ofInt 64 v))
     | _, _ => "unmodelled")
  | some (.cmp op) =>
    (match asKind ks kw a, asKind ks kw b with
     | some x, some y => if GoInt.compare op ks x y then "t" else "f"
     | _, _ => "unmodelled")
  | some (.un op) =>
    (match asKind ks kw a with
     | some x => s!"b:{(GoInt.unary op ks x).toNat}"
     | none => "unmodelled")
  | some .inc => (match asKind ks kw a with | some x => s!"b:{(GoInt.incr ks x).toNat}" | none => "unmodelled")
  | some .dec => (match asKind ks kw a with | some x => s!"b:{(GoInt.decr ks x).toNat}" | none => "unmodelled")
  | none => "unmodelled"

def parseFArg (s : Sexp) : Option OpsFloat.FArg :=
  match s with
  | .atom "-" => some .absent
  | .list [.atom "f", .atom "32", n] => n.nat?.map (fun n => .f32 n.toUInt32)
  | .list [.atom "f", .atom "64", n] => n.nat?.map (fun n => .f64 n.toUInt64)
  | _ => none

def handle (args : List Sexp) : String :=
  match args with
  | [.atom "evf", .atom fn, .atom cls, .atom v, .atom sb, a, b, dw] =>
    (match fnNames.lookup fn, clsNames.lookup cls, variantNames.lookup v, subNames.lookup sb,
           parseFArg a, parseFArg b, dw.nat? with
     | some fn, some cls, some v, some sb, some a, some b, some dw =>
       let y := match findEntry Generated.C02.opTable fn cls v sb with
         | some e => OpsFloat.evalFloatEntry Generated.C02.widenTable e a b dw
         | none => "noentry"
       s!"y={y} g={OpsFloat.specFloat fn.tok a b}"
     | _, _, _, _, _, _, _ => "bad-op")
  | [.atom "ev", .atom fn, .atom cls, .atom v, .atom sb, a, b, ds, dw] =>
    (match fnNames.lookup fn, clsNames.lookup cls, variantNames.lookup v, subNames.lookup sb,
           parseArg a, parseArg b, ds.bool?, dw.nat? with
     | some fn, some cls, some v, some sb, some a, some b, some ds, some dw =>
       let y := match findEntry Generated.C02.opTable fn cls v sb with
         | some e => showVal (evalEntry Generated.C02.widenTable e a b ds dw)
         | none => "noentry"
       s!"y={y} g={spec fn a b ds dw}"
     | _, _, _, _, _, _, _, _ => "bad-op")
  | [.atom "convs", s, w, n] =>
    -- integer → string conversion of a variable: the arm of run.go convert the regenerated table selects, as a code point
    (match s.bool?, w.nat?, n.nat? with
     | some s, some w, some n =>
       let x := BitVec.ofNat w n
       let y := match valueConvAct Generated.C02.convertArms with
         | some .reflectConvert => s!"r:{reflectIntString s x}"
         | _ => "unmodelled"
       s!"y={y} g=r:{GoInt.intToString s x}"
     | _, _, _ => "bad-op")
  | [.atom "conv", s, w, n, _s', w'] =>
    (match s.bool?, w.nat?, n.nat?, w'.nat? with
     | some s, some w, some n, some w' =>
       let x := BitVec.ofNat w n
       s!"y=b:{(convInt s x w').toNat} g=b:{(GoInt.convert s x w').toNat}"
     | _, _, _, _ => "bad-op")
  | _ => "bad-op"

end YaegiVerif.Driver.C02
