import YaegiVerif.Common.Sexp
import YaegiVerif.Model.Typecheck
import YaegiVerif.Spec.GoTyping
import YaegiVerif.Generated.C12
import YaegiVerif.Proofs.C12Dom
/- Line-protocol front end for C12 (glue, not a proof obligation).
   prog (FN…) BLOCK            → y=<ok|err|crash|abstain> g=<ok|err|abstain> lax=<none|class of the first differing check site>
        FN    = ((param…) (result…) BLOCK)        params/results are simple types
        BLOCK = (STMT…)
   op OP KIND                  → y=<0|1> g=<0|1>      (table decision / Go specification)
   arraylit LEN (ELEM…)        → y= g= lax=           index discipline of an array (LEN ≥ 0) or slice (LEN = -1) literal;
                                                       ELEM = pos | (key K)
   pipeline COMPILEFAILS NORUN → err=<0|1> executed=<0|1> effects=<n> known=<0|1>
   Types: basic name | (named id under (m…)) | (ptr S) | (slice S) | (array n S) | (map S S) | (chan dir S)
          | (func (S…) (S…)) | (struct id (S…) (m…)) | (iface id (m…)) -/
namespace YaegiVerif.Driver.C12
open YaegiVerif YaegiVerif.Typecheck

def basic? : String → Option Basic
  | "bool" => some .bool | "int" => some .int | "int8" => some .int8 | "int16" => some .int16 | "int32" => some .int32
  | "int64" => some .int64 | "uint" => some .uint | "uint8" => some .uint8 | "uint16" => some .uint16
  | "uint32" => some .uint32 | "uint64" => some .uint64 | "uintptr" => some .uintptr | "float32" => some .float32
  | "float64" => some .float64 | "complex64" => some .complex64 | "complex128" => some .complex128
  | "string" => some .string | _ => none

def nats? (s : Sexp) : Option (List Nat) :=
  match s with
  | .list xs => xs.mapM Sexp.nat?
  | _ => none

def sty? : Sexp → Option STy
  | .atom b => (basic? b).map STy.basic
  | .list [.atom "named", id, .atom u, ms] => do
    let i ← id.nat?
    let b ← basic? u
    let m ← nats? ms
    some (.named ⟨i, b, m⟩)
  | _ => none

def stys? (s : Sexp) : Option (List STy) :=
  match s with
  | .list xs => xs.mapM sty?
  | _ => none

def dir? : Sexp → Option Dir
  | .atom "both" => some .both | .atom "send" => some .send | .atom "recv" => some .recv | _ => none

def ty? (s : Sexp) : Option Ty :=
  match s with
  | .list [.atom "ptr", t] => (sty? t).map Ty.ptr
  | .list [.atom "slice", t] => (sty? t).map Ty.slice
  | .list [.atom "array", n, t] => do some (.array (← n.nat?) (← sty? t))
  | .list [.atom "map", k, v] => do some (.map (← sty? k) (← sty? v))
  | .list [.atom "chan", d, t] => do some (.chan (← dir? d) (← sty? t))
  | .list [.atom "func", a, r] => do some (.func (← stys? a) (← stys? r))
  | .list [.atom "struct", id, f, m] => do some (.struct (← id.nat?) (← stys? f) (← nats? m))
  | .list [.atom "iface", id, m] => do some (.iface (← id.nat?) (← nats? m))
  | t => (sty? t).map Ty.s

def unop? : String → Option UnOp
  | "pos" => some .pos | "neg" => some .neg | "bitnot" => some .bitnot | "not" => some .not | _ => none
def binop? : String → Option BinOp
  | "add" => some .add | "sub" => some .sub | "mul" => some .mul | "quo" => some .quo | "rem" => some .rem
  | "and" => some .and | "or" => some .or | "xor" => some .xor | "andnot" => some .andnot
  | "land" => some .land | "lor" => some .lor | _ => none
def cmpop? : String → Option CmpOp
  | "eq" => some .eq | "ne" => some .ne | "lt" => some .lt | "le" => some .le | "gt" => some .gt | "ge" => some .ge | _ => none
def shop? : String → Option ShOp
  | "shl" => some .shl | "shr" => some .shr | _ => none
def ukind? : String → Option UKind
  | "bool" => some .bool | "int" => some .int | "rune" => some .rune | "float" => some .float | "string" => some .string
  | _ => none

mutual
  partial def expr? (s : Sexp) : Option Expr :=
    match s with
    | .atom "nil" => some .nil
    | .list [.atom "var", i] => i.nat?.map Expr.var
    | .list [.atom "lit", .atom k, v, f] => do some (.lit (← ukind? k) (← v.int?) ((← f.nat?) != 0))
    | .list [.atom "un", .atom op, e] => do some (.un (← unop? op) (← expr? e))
    | .list [.atom "recv", e] => do some (.recv (← expr? e))
    | .list [.atom "bin", .atom op, a, b] => do some (.bin (← binop? op) (← expr? a) (← expr? b))
    | .list [.atom "cmp", .atom op, a, b] => do some (.cmp (← cmpop? op) (← expr? a) (← expr? b))
    | .list [.atom "shift", .atom op, a, b] => do some (.shift (← shop? op) (← expr? a) (← expr? b))
    | .list [.atom "call", f, as] => do some (.call (← f.nat?) (← args? as))
    | .list [.atom "conv", t, e] => do some (.conv (← ty? t) (← expr? e))
    | .list [.atom "assert", t, e] => do some (.assert (← ty? t) (← expr? e))
    | .list [.atom "index", a, i] => do some (.index (← expr? a) (← expr? i))
    | _ => none
  partial def args? (s : Sexp) : Option Args :=
    match s with
    | .list xs => xs.foldr (fun x acc => do some (.cons (← expr? x) (← acc))) (some .nil)
    | _ => none
end

mutual
  partial def stmt? (s : Sexp) : Option Stmt :=
    match s with
    | .list [.atom "decl", t, e] => do some (.decl (← ty? t) (← expr? e))
    | .list [.atom "declz", t] => do some (.declz (← ty? t))
    | .list [.atom "define", e] => do some (.define (← expr? e))
    | .list [.atom "defineok", t, e] => do some (.defineOk (← ty? t) (← expr? e))
    | .list [.atom "assign", i, e] => do some (.assign (← i.nat?) (← expr? e))
    | .list [.atom "opassign", .atom op, i, e] =>
      (match binop? op, shop? op with
       | some b, _ => do some (.opassign b (← i.nat?) (← expr? e))
       | none, some sh => do some (.shassign sh (← i.nat?) (← expr? e))
       | none, none => none)
    | .list [.atom "incdec", _, i] => do some (.incdec (← i.nat?))
    | .list [.atom "send", c, e] => do some (.send (← expr? c) (← expr? e))
    | .list [.atom "callstmt", f, as] => do some (.callS (← f.nat?) (← args? as))
    | .list [.atom "if", c, t] => do some (.ifS (← expr? c) (← block? t) .nil)
    | .list [.atom "ifelse", c, t, e] => do some (.ifS (← expr? c) (← block? t) (← block? e))
    | .list [.atom "for", c, b] => do some (.forS (← expr? c) (← block? b))
    | .list [.atom "ret", es] => do some (.ret (← args? es))
    | _ => none
  partial def block? (s : Sexp) : Option Block :=
    match s with
    | .list xs => xs.foldr (fun x acc => do some (.cons (← stmt? x) (← acc))) (some .nil)
    | _ => none
end

def fn? (s : Sexp) : Option Fn :=
  match s with
  | .list [ps, rs, body] => do some ⟨⟨← stys? ps, ← stys? rs⟩, ← block? body⟩
  | _ => none

def op? : String → Option Op
  | "inc" => some .inc | "dec" => some .dec | "pos" => some .pos | "neg" => some .neg | "bitnot" => some .bitnot
  | "not" => some .not | "add" => some .add | "sub" => some .sub | "mul" => some .mul | "quo" => some .quo
  | "rem" => some .rem | "and" => some .and | "or" => some .or | "xor" => some .xor | "andnot" => some .andnot
  | "land" => some .land | "lor" => some .lor | _ => none

def kind? : String → Option Kind
  | "bool" => some .bool | "int" => some .int | "int8" => some .int8 | "int16" => some .int16 | "int32" => some .int32
  | "int64" => some .int64 | "uint" => some .uint | "uint8" => some .uint8 | "uint16" => some .uint16
  | "uint32" => some .uint32 | "uint64" => some .uint64 | "uintptr" => some .uintptr | "float32" => some .float32
  | "float64" => some .float64 | "complex64" => some .complex64 | "complex128" => some .complex128
  | "array" => some .array | "chan" => some .chan | "func" => some .func | "interface" => some .interface
  | "map" => some .map | "ptr" => some .ptr | "slice" => some .slice | "string" => some .string
  | "struct" => some .struct | "unsafePointer" => some .unsafePointer | _ => none

def b01 (b : Bool) : String := if b then "1" else "0"

def handle (args : List Sexp) : String :=
  match args with
  | [.atom "prog", .list fs, main] =>
    (match fs.mapM fn?, block? main with
     | some funcs, some m =>
       let p : Prog := ⟨funcs, m⟩
       let y := (checkProg (rulesY Generated.C12.tcFacts) p).verdict
       let g := (checkProg Spec.rulesG p).verdict
       s!"y={y.show} g={g.show} lax={laxName Generated.C12.tcFacts p}"
     | _, _ => "bad-op")
  | [.atom "op", .atom o, .atom k] =>
    (match op? o, kind? k with
     | some o, some k => s!"y={b01 (predY Generated.C12.opFacts o k)} g={b01 (Spec.definedOn o k)}"
     | _, _ => "bad-op")
  | [.atom "arraylit", len, .list es] =>
    let elem? : Sexp → Option LitElem := fun e =>
      match e with
      | .atom "pos" => some .pos
      | .list [.atom "key", k] => k.int?.map LitElem.keyed
      | _ => none
    (match len.int?, es.mapM elem? with
     | some l, some elems =>
       let isArray := decide (l ≥ 0)
       let n := l.toNat
       let y := (arrayLitY Generated.C12.tcFacts isArray n elems 0 0 []).verdict
       let g := (Spec.arrayLitG (if isArray then some n else none) elems 0 []).verdict
       let lax := if y == g then "none" else Lax.other.name
       s!"y={y.show} g={g.show} lax={lax}"
     | _, _ => "bad-op")
  | [.atom "pipeline", cf, nr] =>
    (match cf.bool?, nr.bool? with
     | some cf, some nr =>
       let o := evalY Generated.C12.pipeline nr ⟨cf, [], [1]⟩
       s!"err={b01 o.err} executed={b01 o.executed} effects={o.effects.length} known={b01 o.known}"
     | _, _ => "bad-op")
  | _ => "bad-op"

end YaegiVerif.Driver.C12
