import YaegiVerif.Common.Sexp
import YaegiVerif.Model.Conc
import YaegiVerif.Model.ConcFrames
import YaegiVerif.Generated.C08
/- Line-protocol front end for C08 (glue, not a proof obligation).

     run PROG ACTS HEAP SEED FUEL   → y=<result> g=<result> s=<solo traces> d=<1 iff no select> n=<steps>
     xtalk PROG ACTS HEAP           → the same under the adversarial schedule "every activation fills, then
                                      round-robin": x=1 iff some trace differs between y and g
     facts                          → the extracted table and facts, as the driver sees them

   PROG = (STMT …)   STMT = (set d v) | (add d a b) | (addc d a c) | (jlt a b t) | (jmp t) | (send ch src)
                          | (recv d ok ch) | (range d ch exit) | (close ch) | (select CASE …) | (print s) | (halt)
   CASE = (recv ch slot target) | (recv2 ch slot ok target) | (send ch slot target) | (dflt target)
   ACTS = ((SLOTS) (CHANS)) …       HEAP = ((cap closed v …) …)
   result = per activation `<d|b|r>:<v,v,…>` joined by `|`, then `~` and the channel buffers `v,v;v,…`
   `y` runs the model with Generated.C08.closureWrites, `g` with the empty table (Go: locals of one execution).
   Schedule: SEED drives a linear congruential generator for FUEL picks (activation, choice), followed by
   round-robin passes until nothing moves. -/
namespace YaegiVerif.Driver.C08
open YaegiVerif YaegiVerif.Conc

def parseCase : Sexp → Option Case
  | .list [.atom "recv", c, s, t] => do some ⟨.recv, ← c.nat?, ← s.nat?, ← t.nat?, none⟩
  | .list [.atom "recv2", c, s, o, t] => do some ⟨.recv, ← c.nat?, ← s.nat?, ← t.nat?, some (← o.nat?)⟩
  | .list [.atom "send", c, s, t] => do some ⟨.send, ← c.nat?, ← s.nat?, ← t.nat?, none⟩
  | .list [.atom "dflt", t] => do some ⟨.dflt, 0, 0, ← t.nat?, none⟩
  | _ => none

def parseStmt : Sexp → Option Stmt
  | .list [.atom "set", d, v] => do some (.set (← d.nat?) (← v.int?))
  | .list [.atom "add", d, a, b] => do some (.add (← d.nat?) (← a.nat?) (← b.nat?))
  | .list [.atom "addc", d, a, c] => do some (.addc (← d.nat?) (← a.nat?) (← c.int?))
  | .list [.atom "jlt", a, b, t] => do some (.jlt (← a.nat?) (← b.nat?) (← t.nat?))
  | .list [.atom "jmp", t] => do some (.jmp (← t.nat?))
  | .list [.atom "send", c, s] => do some (.send (← c.nat?) (← s.nat?))
  | .list [.atom "recv", d, o, c] => do some (.recv (← d.nat?) (← o.nat?) (← c.nat?))
  | .list [.atom "range", d, c, t] => do some (.range (← d.nat?) (← c.nat?) (← t.nat?))
  | .list [.atom "close", c] => do some (.close (← c.nat?))
  | .list (.atom "select" :: cs) => do some (.select (← cs.mapM parseCase))
  | .list [.atom "print", s] => do some (.print (← s.nat?))
  | .list [.atom "halt"] => some .halt
  | _ => none

def parseAct : Sexp → Option Act
  | .list [.list sl, .list ch] => do some (mkAct (← sl.mapM Sexp.int?) (← ch.mapM Sexp.nat?))
  | _ => none

def parseChan : Sexp → Option Chan
  | .list (cap :: closed :: vs) => do some ⟨← vs.mapM Sexp.int?, ← cap.nat?, ← closed.bool?⟩
  | _ => none

def showVals (vs : List Val) : String := ",".intercalate (vs.map toString)

def showResult (prog : List Stmt) (nch : Nat) (σ : State) : String :=
  let acts := σ.acts.map fun a =>
    (if a.done prog then "d" else if a.phase == .waiting then "b" else "r") ++ ":" ++ showVals a.out
  "|".intercalate acts ++ "~" ++ ";".intercalate ((List.range nch).map fun c => showVals (σ.heap c).buf)

def lcg (x : Nat) : Nat := (x * 6364136223846793005 + 1442695040888963407) % 18446744073709551616

/-- FUEL pseudo-random picks -/
def randomSched (nacts : Nat) : Nat → Nat → List Pick → List Pick
  | 0, _, acc => acc.reverse
  | fuel + 1, x, acc =>
    let x1 := lcg x
    let x2 := lcg x1
    randomSched nacts fuel x2 (⟨(x1 / 65536) % (max nacts 1), (x2 / 65536) % 7⟩ :: acc)

/-- round-robin passes until a pass moves nothing (or the pass budget is used up) -/
def settle (cw : CW) (prog : List Stmt) (nacts : Nat) : Nat → State → Nat → State × Nat
  | 0, σ, n => (σ, n)
  | passes + 1, σ, n =>
    let σ' := run cw prog ((List.range nacts).map fun i => ⟨i, passes⟩) σ
    if σ'.acts == σ.acts then (σ, n) else settle cw prog nacts passes σ' (n + nacts)

def runFull (cw : CW) (prog : List Stmt) (sched : List Pick) (σ : State) : State × Nat :=
  let σ1 := run cw prog sched σ
  settle cw prog σ.acts.length 4000 σ1 sched.length

def soloTraces (cw : CW) (prog : List Stmt) (sched : List Pick) (σ : State) : String :=
  "|".intercalate ((List.range σ.acts.length).map fun i =>
    -- activation i alone: its own picks of the schedule, then only its own steps until it stops moving
    let σ1 := runSolo cw prog i sched σ
    let rec go : Nat → State → State
      | 0, τ => τ
      | k + 1, τ =>
        let τ' := step cw prog ⟨i, k⟩ τ
        if τ'.acts == τ.acts then τ else go k τ'
    showVals (trace i (go 4000 σ1)))

def answer (prog : List Stmt) (acts : List Act) (chans : List Chan) (sched : List Pick) : String :=
  let σ := mkState acts chans
  let (y, n) := runFull Generated.C08.closureWrites prog sched σ
  let (g, _) := runFull [] prog sched σ
  let ys := showResult prog chans.length y
  let gs := showResult prog chans.length g
  let dom := prog.all (fun s => !(shared Generated.C08.closureWrites s))
  s!"y={ys} g={gs} s={soloTraces [] prog sched σ} d={if dom then "1" else "0"} x={if ys == gs then "0" else "1"} n={n}"

def parseInput (p a h : Sexp) : Option (List Stmt × List Act × List Chan) := do
  let ps ← p.list?
  let as ← a.list?
  let hs ← h.list?
  some (← ps.mapM parseStmt, ← as.mapM parseAct, ← hs.mapM parseChan)

def showFacts : String :=
  let cw := ";".intercalate (Generated.C08.closureWrites.map fun e => e.1 ++ ":" ++ ",".intercalate e.2)
  let f := Generated.C08.goFacts
  let b (x : Bool) := if x then "1" else "0"
  s!"cw={if cw.isEmpty then "-" else cw} argsCopied={b f.argsCopied} goBinArgsCopied={b f.goBinArgsCopied} callBinGoArgsCopied={b f.callBinGoArgsCopied} closureClones={b f.closureClones} cloneLocked={b f.cloneLocked} storeLocked={b f.getFuncStoreLocked} noDefFrameWrite={b f.getFuncNoDefFrameWrite} wrapperFramePerCall={b f.wrapperFramePerCall}"

def handle (args : List Sexp) : String :=
  match args with
  | [.atom "run", p, a, h, seed, fuel] =>
    (match parseInput p a h, seed.nat?, fuel.nat? with
     | some (prog, acts, chans), some sd, some fl => answer prog acts chans (randomSched acts.length fl sd [])
     | _, _, _ => "bad-op")
  | [.atom "xtalk", p, a, h] =>
    (match parseInput p a h with
     | some (prog, acts, chans) => answer prog acts chans ((List.range acts.length).map fun i => ⟨i, 0⟩)
     | none => "bad-op")
  | [.atom "facts"] => showFacts
  | _ => "bad-op"

end YaegiVerif.Driver.C08
