import YaegiVerif.Common.Sexp
import YaegiVerif.Model.VarInit
import YaegiVerif.Spec.GoInitOrder
import YaegiVerif.Generated.C15
/- Line-protocol front end for C15 (glue, not a proof obligation).
   pkg FILES MAIN AFTER
     FILES = ((DECL …) …)            the files of the package in the order they are read, declarations in source order
     DECL  = (var NAMES LATE OPLATE INIT…)  NAMES = (a b …)  LATE = 1|0 (callee declared later)  OPLATE = 1|0 (comma-ok: map / channel operand declared later)  INIT = (label IDS)
           | (func NAME RECV RTYPE TPARAMS PARAMS RESULTS LABEL IDS LOCALS)   RECV = n | v | p (none, value, pointer)
           | (type NAME (field …))
     IDS   = ((name 1|0 [1|0]) …)    1 = denotes the package-level object, 0 = a local / field key of that name; third flag: a method expression T.m
     MAIN  = (label) | ()            AFTER = (label …)  what main's own calls log after that
   answer: class=… deps=… yorder=… ylog=… ilog=… regs=… syms=… gdeps=… gorder=… glog=… slog=…
     deps/gdeps  i:d,d;i:d…        (what getVarDependencies returns per specification of the list getVars builds / dependencies per unit)
     slog        the specification's rules with one node per initialisation step (runGoS)
     yorder/gorder  i,i,i | loop   ylog/ilog/glog  label,label,…[,!error] | -
     regs  key@pos,…[,main]        the init nodes of the package given as one file (pos = ordinal among the function declarations)
     syms  name,…                  sorted: the function symbols gta declares
   `ylog` = Eval of one file (CompileAST + Execute), `ilog` = importSrc of a directory.
   prog DIR (SUB…) (mainimport…) FILES MAIN AFTER     SUB = (path (import…) FILES)
   answer: class=(first package, imported ones first, that is not in-domain) yseq= ylog= gseq= glog=   (seq = packages in initialisation order)
   Everything yaegi-side is computed with the facts regenerated from the source (Generated.C15:
   execFacts, initFacts, depFacts). -/
namespace YaegiVerif.Driver.C15
open YaegiVerif YaegiVerif.VarInit YaegiVerif.Spec.InitOrder

def parseIdent (s : Sexp) : Option Ident :=
  match s with
  | .list [.atom n, f] => do let b ← f.bool?; some ⟨n, b, false⟩
  | .list [.atom n, f, m] => do let b ← f.bool?; let e ← m.bool?; some ⟨n, b, e⟩
  | _ => none

def parseIds (s : Sexp) : Option (List Ident) :=
  match s with
  | .list xs => xs.mapM parseIdent
  | _ => none

def parseInit (s : Sexp) : Option Init :=
  match s with
  | .list [.atom l, ids] => do let i ← parseIds ids; some ⟨l, i⟩
  | _ => none

def parseVar (s : Sexp) : Option VarSpec :=
  match s with
  | .list (names :: late :: oplate :: inits) => do
    let ns ← names.atoms?
    let lt ← late.bool?
    let ol ← oplate.bool?
    let is ← inits.mapM parseInit
    some ⟨ns, is, lt, ol⟩
  | _ => none

def parseRecv (s : Sexp) : Option Recv :=
  match s with
  | .atom "n" => some .none
  | .atom "v" => some .value
  | .atom "p" => some .pointer
  | _ => none

def parseDecl (s : Sexp) : Option Decl :=
  match s with
  | .list (.atom "var" :: rest) => (parseVar (.list rest)).map Decl.var
  | .list [.atom "func", .atom name, recv, .atom rtype, tp, pa, re, .atom label, ids, locals] => do
    let r ← parseRecv recv
    let t ← tp.nat?
    let p ← pa.nat?
    let q ← re.nat?
    let i ← parseIds ids
    let l ← locals.atoms?
    some (.func { name := name, recv := r, recvType := rtype, tparams := t, params := p, results := q,
                  label := label, ids := i, locals := l })
  | .list [.atom "type", .atom name, fields] => do
    let fs ← fields.atoms?
    some (.type name fs)
  | _ => none

/-- number the function declarations of a file -/
def numberFuncs : Nat → List Decl → List Decl
  | _, [] => []
  | k, .func f :: ds => .func { f with pos := k } :: numberFuncs (k + 1) ds
  | k, d :: ds => d :: numberFuncs k ds

def parseFiles (s : Sexp) : Option (List (List Decl)) := do
  let fs ← s.list?
  fs.mapM (fun f => do let ds ← (← f.list?).mapM parseDecl; some (numberFuncs 0 ds))

def parseSrc (files main after : Sexp) : Option SrcPkg := do
  let fs ← parseFiles files
  let m ← main.atoms?
  let a ← after.atoms?
  some ⟨fs, m.head?, a⟩

def commaNat (l : List Nat) : String := ",".intercalate (l.map toString)

def showDeps (g : Deps) : String :=
  if g.isEmpty then "-" else
  ";".intercalate ((List.range g.length).map (fun i => s!"{i}:{commaNat (depsOf g i)}"))

def showRes : Res → String
  | .ok [] => "-"
  | .ok l => commaNat l
  | .loop => "loop"
  | .fuel => "fuel"

def showTrace (t : Trace) : String :=
  let l := t.events ++ (if t.err then ["!error"] else [])
  if l.isEmpty then "-" else ",".intercalate l

/-- the same when the rejection is the Go panic of `gta` on a comma-ok declaration (F15-9) -/
def showTraceC (crash : Bool) (t : Trace) : String :=
  if crash && t.err then ",".intercalate (t.events ++ ["!crash"]) else showTrace t

/-- SUB = (path (imports…) FILES) -/
def parseSub (s : Sexp) : Option (String × List String × SrcPkg) :=
  match s with
  | .list [.atom path, imps, files] => do
    let is ← imps.atoms?
    let p ← parseSrc files (.list []) (.list [])
    some (path, is, p)
  | _ => none

def showSeq (l : List String) : String := if l.isEmpty then "-" else ",".intercalate l

def showRegs (f : ExecFacts) (i : InitFacts) (s : SrcPkg) : String :=
  let rs := (pkgInits i s.files).map (fun d => s!"{d.key}@{d.pos}")
  showSeq (rs ++ (if f.compile.contains "main-last" && s.main.isSome then ["main"] else []))

def handle (args : List Sexp) : String :=
  match args with
  | [.atom "pkg", files, main, after] =>
    (match parseSrc files main after with
     | some s =>
       let f := Generated.C15.execFacts
       let i := Generated.C15.initFacts
       let d := Generated.C15.depFacts
       let p := s.toPkg i
       let gy := collectDepsY d p
       let gg := goDeps (toPkgGo s)
       let c := gtaPanics d p
       let regs := if c then "crash" else showRegs f i s
       let syms := if c then "crash" else showSeq (sortPaths (declaredFuncs i s.decls).eraseDups)
       let tail := s!"ylog={showTraceC c (runSrcY f i d s)} ilog={showTraceC c (runSrcImportY f i d s)} regs={regs} syms={syms} gdeps={showDeps gg} gorder={showRes (orderGo gg)} glog={showTrace (runSrcGo s)} slog={showTrace (runSrcGoS s)}"
       if c then
         s!"class={classifySrc s} deps=crash yorder=crash {tail}"
       else if gtaRejects d p then
         s!"class={classifySrc s} deps=err yorder=err {tail}"
       else
         -- `deps=`: what `getVarDependencies` returns for every specification (the hook calls it itself,
         -- whatever the loop of `genGlobalVarDecl` skips); `yorder=`: decided from what that loop collected
         s!"class={classifySrc s} deps={showDeps (collectDepsY { d with collectSkip := .none } p)} yorder={showRes (orderY gy)} {tail}"
     | none => "bad-op")
  | [.atom "prog", dir, .list subs, mimps, files, main, after] =>
    (match dir.bool?, subs.mapM parseSub, mimps.atoms?, parseSrc files main after with
     | some d, some ss, some mi, some s =>
       let f := Generated.C15.execFacts
       let i := Generated.C15.initFacts
       let dp := Generated.C15.depFacts
       let prY : Prog := ⟨ss.map (fun x => ⟨x.1, x.2.1, x.2.2.toPkg i⟩), mi, s.toPkg i, d⟩
       let prG : Prog := ⟨ss.map (fun x => ⟨x.1, x.2.1, toPkgGo x.2.2⟩), mi, toPkgGo s, d⟩
       let y := progY f dp prY
       let g := progGo prG
       let cls := ((ss.map (fun x => classifySrc x.2.2)) ++ [classifySrc s]).filter (· != "in-domain")
       s!"class={cls.head?.getD "in-domain"} yseq={showSeq y.seq} ylog={showTrace ((Trace.mk y.events y.err).andThen s.after)} gseq={showSeq g.1} glog={showTrace (g.2.andThen s.after)}"
     | _, _, _, _ => "bad-op")
  | _ => "bad-op"

end YaegiVerif.Driver.C15
