import YaegiVerif.Common.Sexp
import YaegiVerif.Model.VarInit
import YaegiVerif.Spec.GoInitOrder
import YaegiVerif.Generated.C15
/- Line-protocol front end for C15 (glue, not a proof obligation).
   pkg VARS FUNCS INITS MAIN
     VARS  = ((NAMES LATE INIT…) …)  NAMES = (a b …)  LATE = 1|0 (callee declared later)  INIT = (label IDS)
     IDS   = ((name 1|0) …)        1 = denotes the package-level object, 0 = a local / field key of that name
     FUNCS = ((name IDS) …)        INITS = (label …)   MAIN = (label) | ()
   answer: class=… deps=… yorder=… ylog=… ilog=… gdeps=… gorder=… glog=…
     deps/gdeps  i:d,d;i:d…        (collected dependencies per specification / per unit)
     yorder/gorder  i,i,i | loop   ylog/ilog/glog  label,label,…[,!error] | -
   `ylog` = Eval of one file (CompileAST + Execute), `ilog` = importSrc of a directory.
   prog DIR (SUB…) (mainimport…) VARS FUNCS INITS MAIN     SUB = (path (import…) VARS FUNCS INITS)
   answer: class=(first package, imported ones first, that is not in-domain) yseq= ylog= gseq= glog=   (seq = packages in initialisation order) -/
namespace YaegiVerif.Driver.C15
open YaegiVerif YaegiVerif.VarInit YaegiVerif.Spec.InitOrder

def parseIdent (s : Sexp) : Option Ident :=
  match s with
  | .list [.atom n, f] => do let b ← f.bool?; some ⟨n, b⟩
  | _ => none

def parseIds (s : Sexp) : Option (List Ident) :=
  match s with
  | .list xs => xs.mapM parseIdent
  | _ => none

def parseInit (s : Sexp) : Option Init :=
  match s with
  | .list [.atom l, ids] => do let i ← parseIds ids; some ⟨l, i⟩
  | _ => none

def parseVar (s : Sexp) : Option VarSpec :=
  match s with
  | .list (names :: late :: inits) => do
    let ns ← names.atoms?
    let lt ← late.bool?
    let is ← inits.mapM parseInit
    some ⟨ns, is, lt⟩
  | _ => none

def parseFunc (s : Sexp) : Option Func :=
  match s with
  | .list [.atom n, ids] => do let i ← parseIds ids; some ⟨n, i⟩
  | _ => none

def parsePkg (vars funcs inits main : Sexp) : Option Pkg := do
  let vs ← (← vars.list?).mapM parseVar
  let fs ← (← funcs.list?).mapM parseFunc
  let is ← inits.atoms?
  let m ← main.atoms?
  some ⟨vs, fs, is, m.head?⟩

def commaNat (l : List Nat) : String := ",".intercalate (l.map toString)

def showDeps (g : Deps) : String :=
  if g.isEmpty then "-" else
  ";".intercalate ((List.range g.length).map (fun i => s!"{i}:{commaNat (depsOf g i)}"))

def showRes : Res → String
  | .ok [] => "-"
  | .ok l => commaNat l
  | .loop => "loop"
  | .fuel => "fuel"

def showTrace (t : Trace) : String :=
  let l := t.events ++ (if t.err then ["!error"] else [])
  if l.isEmpty then "-" else ",".intercalate l

/-- SUB = (path (imports…) VARS FUNCS INITS) -/
def parseSub (s : Sexp) : Option SubPkg :=
  match s with
  | .list [.atom path, imps, vars, funcs, inits] => do
    let is ← imps.atoms?
    let p ← parsePkg vars funcs inits (.list [])
    some ⟨path, is, p⟩
  | _ => none

def showSeq (l : List String) : String := if l.isEmpty then "-" else ",".intercalate l

def handle (args : List Sexp) : String :=
  match args with
  | [.atom "pkg", vars, funcs, inits, main] =>
    (match parsePkg vars funcs inits main with
     | some p =>
       let f := Generated.C15.execFacts
       let gy := collectDepsY p
       let gg := goDeps p
       if gtaRejects p then
         s!"class={classify p} deps=err yorder=err ylog={showTrace (runY f p)} ilog={showTrace (runImportY f p)} gdeps={showDeps gg} gorder={showRes (orderGo gg)} glog={showTrace (runGo p)}"
       else
       s!"class={classify p} deps={showDeps gy} yorder={showRes (orderY gy)} ylog={showTrace (runY f p)} ilog={showTrace (runImportY f p)} gdeps={showDeps gg} gorder={showRes (orderGo gg)} glog={showTrace (runGo p)}"
     | none => "bad-op")
  | [.atom "prog", dir, .list subs, mimps, vars, funcs, inits, main] =>
    (match dir.bool?, subs.mapM parseSub, mimps.atoms?, parsePkg vars funcs inits main with
     | some d, some ss, some mi, some p =>
       let f := Generated.C15.execFacts
       let pr : Prog := ⟨ss, mi, p, d⟩
       let y := progY f pr
       let g := progGo pr
       let cls := ((ss.map (fun s => classify s.pkg)) ++ [classify p]).filter (· != "in-domain")
       s!"class={cls.head?.getD "in-domain"} yseq={showSeq y.seq} ylog={showTrace ⟨y.events, y.err⟩} gseq={showSeq g.1} glog={showTrace g.2}"
     | _, _, _, _ => "bad-op")
  | _ => "bad-op"

end YaegiVerif.Driver.C15
