import YaegiVerif.Common.Sexp
import YaegiVerif.Model.Boundary
import YaegiVerif.Generated.C07
/- Line-protocol front end for C07 (glue, not a proof obligation).

   call (recv HASRECV RECVISIFACE RECVINSIG METHODVALUE) ISVARIADIC ELLIPSIS DEFERRED (params "T0" … ) (velem "T")
        (args (SIT FORM PKIND) …) (ctx KIND …) NOUT
      → y=<ok|bad:reason> reps=<c0,c1,…> off=<n> g=<ok|bad:reason>
      y is the model of the unchanged mechanism run with the facts regenerated from the source, g the contract.
      SIT   = (emptyNil) (emptyDyn INTERP METHODS) (emptyBoxed) (sifaceNil) (sifaceVal INTERP) (fnNil) (fnDecl) (fnClosure)
              (fnHost) (hostIfaceVar INTERP) (hostIfaceNil) (hostDyn) (concreteDyn INTERP METHODS) (plain CLASS CLEAN)
      FORM  = const | other      (constants are converted to the parameter type callBin picks)
      PKIND = concrete | empty | host
      ctx   = (assign B0 B1 …) | (ret POS NOPERANDS READS) | (deflt) | (cond)
   pack PATH ISVARIADIC ELLIPSIS DEFERRED NFIXED NARGS   → y=<ok|bad:…> g=ok
      PATH = bin (callBin) | fv (`call`, the function value is a host function): what the callee's parameters receive
      against Go's packing (nil variadic slice without variadic arguments, the slice itself with `...`, also when deferred)
   fvcall ISVARIADIC ELLIPSIS DEFERRED NFIXED (kinds K0 K1 …)   → y=<ok|bad:…> g=ok   (`call` reaching a host function: packing + argument preparation)
   branch USE (results B0 B1 …)    → (USE = reread: left operand of && / ||; branch: if / for / ! / right operand)
                                     y=<ok|bad:stale-branch-result> g=ok   (a host call as a condition executed repeatedly in one frame)
   define (zero Z0 Z1 …) …         → (one list per declared variable that is referenced afterwards)
                                     y=<ok|bad:captured-variable-overwritten> g=ok   (`q, r := hp.F(…)` in a loop, earlier variables referenced)
   hostrecv                        → y=<ok|bad:host-receiver-late> g=ok   (method value of a host value: receiver bound at evaluation)
   recvbind                        → y=<ok|bad:late-receiver> g=ok   (method wrapper: receiver read when the wrapper is made)
   ifacerecv                       → y=<ok|bad:receiver-bound-at-conversion|bad:receiver-follows-variable> g=ok
                                     (method wrappers of a conversion to a host interface: the held value, reached at each call)
   reenter DEPTH CLOSURE           → y=<ok|bad:shared-frame> g=ok   (one wrapper value, nested invocations)
   wrap NUMRET NPARAMS CLOSURE     → y=<ok|bad:…> g=ok   (the MakeFunc wrapper against the in-script call, on probe frames) -/
namespace YaegiVerif.Driver.C07
open YaegiVerif YaegiVerif.Boundary

def G : Facts := Generated.C07.facts

mutual
  def repBeq : Rep → Rep → Bool
    | .int a, .int b => a == b
    | .nil, .nil => true
    | .tuple a, .tuple b => replBeq a b
    | .ptr a, .ptr b => repBeq a b
    | .node a, .node b => a == b
    | .mkfunc a c, .mkfunc b d => a == b && c == d
    | .native a, .native b => a == b
    | .vi a, .vi b => repBeq a b
    | .dyn a, .dyn b => decide (a = b)
    | .iwrap a, .iwrap b => repBeq a b
    | _, _ => false
  def replBeq : RepL → RepL → Bool
    | .nil, .nil => true
    | .cons a as, .cons b bs => repBeq a b && replBeq as bs
    | _, _ => false
end
instance : BEq Rep := ⟨repBeq⟩

def probeDyn (interp methods : Bool) : Dyn := { tid := 1, interp := interp, methods := methods, payload := 7 }

structure Sit where
  ty : ArgTy
  rep : Rep

def cleanRep (clean : Bool) : Rep := if clean then .tuple (.cons (.int 1) .nil) else .tuple (.cons (.vi (.dyn (probeDyn true true))) .nil)

def parseSit (s : Sexp) : Option Sit :=
  match s with
  | .list [.atom "emptyNil"] => some ⟨{ emptyIface := true, ifaceSrc := true }, .nil⟩
  | .list [.atom "emptyDyn", i, m] => do
    let i ← i.bool?; let m ← m.bool?
    some ⟨{ emptyIface := true, ifaceSrc := true }, .dyn (probeDyn i m)⟩
  | .list [.atom "emptyBoxed"] => some ⟨{ emptyIface := true, ifaceSrc := true }, .vi (.dyn (probeDyn true true))⟩
  | .list [.atom "sifaceNil"] => some ⟨{ ifaceSrc := true }, .nil⟩
  | .list [.atom "sifaceVal", i] => do
    let i ← i.bool?
    some ⟨{ ifaceSrc := true }, .vi (.dyn (probeDyn i true))⟩
  | .list [.atom "fnNil"] => some ⟨{ funcSrc := true }, .nil⟩
  | .list [.atom "fnDecl"] => some ⟨{ funcSrc := true }, .node 1⟩
  | .list [.atom "fnClosure"] => some ⟨{ funcSrc := true }, .mkfunc 1 true⟩
  | .list [.atom "fnHost"] => some ⟨{ funcSrc := true }, .native 1⟩
  | .list [.atom "hostIfaceVar", i] => do
    let i ← i.bool?
    some ⟨{ valueT := true }, if i then .iwrap (.dyn (probeDyn true true)) else .dyn (probeDyn false true)⟩
  | .list [.atom "hostIfaceNil"] => some ⟨{ valueT := true }, .nil⟩
  | .list [.atom "hostDyn"] => some ⟨{ valueT := true }, .dyn (probeDyn false true)⟩
  | .list [.atom "concreteDyn", i, m] => do
    let i ← i.bool?; let m ← m.bool?
    some ⟨{}, .dyn (probeDyn i m)⟩
  | .list [.atom "plain", .atom cls, c] => do
    let c ← c.bool?
    let ty : ArgTy := match cls with
      | "arrEmptyIface" => { arrayOrVariadic := true, elemEmptyIface := true }
      | "arrOther" => { arrayOrVariadic := true }
      | "ptrHost" => { ptrSrc := true, elemValueT := true }
      | "ptrScript" => { ptrSrc := true }
      | "hostVal" => { valueT := true }
      | _ => {}
    some ⟨ty, cleanRep c⟩
  | _ => none

def parsePK : Sexp → Option ParamKind
  | .atom "concrete" => some .concrete
  | .atom "empty" => some .emptyIface
  | .atom "host" => some .hostIface
  | _ => none

def repClass : Rep → String
  | .nil => "nil"
  | .iwrap _ => "ifacewrap"
  | .vi _ => "leak"
  | .node _ => "leak"
  | .mkfunc _ _ => "func"
  | .native _ => "func"
  | _ => "raw"

def defKind (f : Facts) (ve : Bool) (p : ParamKind) : ParamKind := if ve && !f.defTypeElem then .concrete else p

def prepare (f : Facts) (s : Sit) (ve : Bool) (p : ParamKind) : Rep :=
  applyPrep (argPrepY f.arms s.ty) (defKind f ve p) s.rep

/-- the representation the contract asks for (what a compiled host must see) -/
def ideal (s : Sit) (p : ParamKind) : Rep :=
  match datum s.rep with
  | .dyn d => if p == .hostIface && d.interp then .iwrap (.dyn d) else .dyn d
  | r => r

def probeArgs (n : Nat) : List Rep := (List.range n).map (fun i => Rep.int (Int.ofNat i))

def showSlot : Slot → String
  | .lhs i => s!"lhs{i}" | .result i => s!"res{i}" | .tmp i => s!"tmp{i}" | .dropped => "_"

def parseCtx (s : Sexp) : Option Ctx :=
  match s with
  | .list (.atom "assign" :: bs) => (bs.mapM Sexp.bool?).map Ctx.assignX
  | .list [.atom "ret", p, n, _] => (match p.nat?, n.nat? with | some p, some n => some (Ctx.ret p n) | _, _ => none)
  | .list [.atom "deflt"] => some (.deflt 5)
  | .list [.atom "cond"] => some (.cond 5)
  | _ => none

structure ArgIn where
  sit : Sit
  isConst : Bool
  pk : ParamKind

def parseArg (s : Sexp) : Option ArgIn :=
  match s with
  | .list [sit, .atom form, pk] => do
    let st ← parseSit sit
    let p ← parsePK pk
    some ⟨st, form == "const", p⟩
  | _ => none

/-- the parameter type (as the harness spells it) at index k of the reflected signature -/
def typeAt (recvInSig : Bool) (params : List String) (velem : String) (k : Nat) (elem : Bool) : String :=
  let sig := if recvInSig then "RECV" :: params else params
  if elem then (if k + 1 == sig.length then velem else "ELEM-OF:" ++ sig.getD k "?") else sig.getD k "OUT-OF-RANGE"

def firstBad (xs : List (Option String)) : String :=
  match xs.filterMap id with
  | [] => "ok"
  | b :: _ => "bad:" ++ b

def packVerdict (packed : List Rep) (isVariadic ellipsis : Bool) (nFixed : Nat) (pa : List Rep) : Option String :=
  if packed == goPack isVariadic ellipsis nFixed pa then none
  else if isVariadic && !ellipsis && pa.length == nFixed then some "variadic-empty-slice-not-nil"
  else if ellipsis then some "ellipsis-lost"
  else some "packing"

/-- packing alone, on either path -/
def handlePack (viaBin isVariadic ellipsis deferred : Bool) (nFixed nArgs : Nat) : String :=
  -- with `...` the last argument is the slice
  let pa := if ellipsis then probeArgs (nArgs - 1) ++ [Rep.tuple (.cons (.int 70) (.cons (.int 71) .nil))] else probeArgs nArgs
  let packed :=
    if deferred then packDeferY G viaBin isVariadic ellipsis nFixed pa
    else if viaBin then packBinY G isVariadic ellipsis nFixed pa
    else packFnValueY G isVariadic ellipsis nFixed pa
  match packVerdict packed isVariadic ellipsis nFixed pa with
  | none => "y=ok g=ok"
  | some b => s!"y=bad:{b} g=ok"

def probeGet : FnDef := { numRet := 1, params := [.plain], nLocals := 0, body := fun _ fr => setAt fr 0 (fr.getD 1 .nil) }
def probeHeap (n : Int) : Nat → Rep := fun a => if a = 0 then .int n else .nil

/-- `call` reaching a host function (the callee expression has a script-written function type): packing, and the preparation of
    every argument that needs one. KIND = decl (a function declared by the script, passed by name) | closure | scriptdyn (an
    interpreted value written for a host-interface parameter) | other; the last argument is the spread slice when ELLIPSIS. -/
def handleFvCall (isVariadic ellipsis deferred : Bool) (nFixed : Nat) (kinds : List String) : String :=
  let nArgs := kinds.length
  let packAns := handlePack false isVariadic ellipsis deferred nFixed nArgs
  if packAns != "y=ok g=ok" then packAns else
  let bad := (List.range nArgs).zip kinds |>.filterMap fun (i, k) =>
    let isSpread := ellipsis && i + 1 == nArgs
    if isSpread then none else
    match k with
    | "decl" =>
      let h := callPrepareY G.callArgArms ellipsis false .func (.node 1)
      if hostClean h && hostAssignable .concrete h then none else some s!"arg{i}-not-prepared"
    | "closure" =>
      let h := callPrepareY G.callArgArms ellipsis false .func (.mkfunc 1 true)
      if hostClean h then none else some s!"arg{i}-not-prepared"
    | "scriptdyn" =>
      let h := callPrepareY G.callArgArms ellipsis false .hostIface (.dyn (probeDyn true true))
      if hostAssignable .hostIface h then none else some s!"arg{i}-not-prepared"
    | _ => none
  match bad with
  | [] => "y=ok g=ok"
  | b :: _ => s!"y=bad:{b} g=ok"

/-- `q, r := hp.F(…)` executed once per element of `zs` in one frame, a pointer / closure kept after each execution; `zs[k]` says
    whether the k-th result stored into the variable is the zero value of its type -/
def handleDefine (zs : List Bool) : String :=
  let rs := (List.range zs.length).zip zs |>.map fun (i, z) => if z then Rep.int 0 else Rep.int (Int.ofNat (i + 1))
  if defineReadsY G.defineXCell rs == rs then "y=ok g=ok" else "y=bad:captured-variable-overwritten g=ok"

/-- a host call used as a condition, executed once per element of `rs` in one frame: what the enclosing operation reads after
    each call, with the regenerated fact -/
def handleBranch (reread : Bool) (rs : List Bool) : String :=
  let ctxOk := routeY G (.cond 5) 1 == routeSpec (.cond 5) 1
  if !ctxOk then "y=bad:result-routing g=ok"
  else if condSeenY G.branchStore (if reread then .rereadsCell else .branchOnly) rs == rs then "y=ok g=ok"
  else "y=bad:stale-branch-result g=ok"

/-- `mv := c.M; c = other; mv()` on a value of a host type -/
def handleHostRecv : String :=
  let ok1 := hostMethodRecvY G false (probeHeap 1) (probeHeap 2) (.int 5) (.int 7) == recvSpec false (probeHeap 1) (probeHeap 2) (.var (.int 5) (.int 7))
  let ok2 := hostMethodRecvY G false (probeHeap 1) (probeHeap 2) (.ptr (.int 0)) (.ptr (.int 0)) ==
    recvSpec false (probeHeap 1) (probeHeap 2) (.var (.ptr (.int 0)) (.ptr (.int 0)))
  let ok3 := hostMethodRecvY G true (probeHeap 1) (probeHeap 2) (.ptr (.int 0)) (.ptr (.int 1)) ==
    recvSpec true (probeHeap 1) (probeHeap 2) (.var (.ptr (.int 0)) (.ptr (.int 1)))
  if ok1 && ok2 && ok3 then "y=ok g=ok" else "y=bad:host-receiver-late g=ok"

/-- `mv := x.M; x = other; mv()` and `p := &T{1}; mv := p.Get; *p = T{2}; mv()`: the model of the method wrapper run with the
    regenerated facts against Go's rule -/
def handleRecvBind : String :=
  let noCall : Rep → List Rep → List Rep := fun _ _ => []
  let run (src : RecvSrc) := methodWrapperCall G probeGet noCall false (probeHeap 1) (probeHeap 2) src []
  let want (src : RecvSrc) := innerCall probeGet noCall [recvSpec false (probeHeap 1) (probeHeap 2) src]
  let srcs := [RecvSrc.var (.int 1) (.int 2), .var (.ptr (.int 0)) (.ptr (.int 0))]
  if srcs.all (fun s => run s == want s) then "y=ok g=ok" else "y=bad:late-receiver g=ok"

/-- `p := &T{1}; var s I = p; *p = T{2}; p = &T{3}; s.Get()` (and the same with a struct held by the interface): the method
    wrappers of an interface conversion -/
def handleIfaceRecv : String :=
  let noCall : Rep → List Rep → List Rep := fun _ _ => []
  let run (xConv xNow : Rep) := methodWrapperCall G probeGet noCall false (probeHeap 1) (probeHeap 2) (ifaceRecvSrcY G xConv xNow) []
  let want (xConv : Rep) := innerCall probeGet noCall [bindRecvY (probeHeap 2) false xConv]
  if !(run (.ptr (.int 0)) (.ptr (.int 0)) == want (.ptr (.int 0))) then "y=bad:receiver-bound-at-conversion g=ok"
  else if !(run (.int 5) (.int 6) == want (.int 5)) || !(run (.ptr (.int 0)) (.ptr (.int 1)) == want (.ptr (.int 0))) then
    "y=bad:receiver-follows-variable g=ok"
  else "y=ok g=ok"

/-- `(ret POS N READS)`: does another operand of the return statement read the result variable of the call's position? -/
def ctxReads (s : Sexp) : Bool :=
  match s with
  | .list [.atom "ret", _, _, r] => r.bool?.getD false
  | _ => false

def handleCall (hasRecv recvIsIface recvInSig methodValue isVariadic ellipsis deferred : Bool) (params : List String) (velem : String)
    (args : List ArgIn) (ctx : Ctx) (reads : Bool) (nOut : Nat) : String :=
  let nParams := params.length
  let numIn := nParams + (if recvInSig then 1 else 0)
  let nArgs := args.length
  let off := rcvrOffsetY G hasRecv recvIsIface methodValue isVariadic numIn nArgs
  let trueOff := if recvInSig then 1 else 0
  -- constants are converted to the type callBin picks for their position
  let conv := (List.range nArgs).zip args |>.map fun (i, a) =>
    if !a.isConst then none else
      let (k, e) := argTypeIndexEY G isVariadic ellipsis numIn off i
      let (k', e') := typeIndexSpecE isVariadic ellipsis numIn trueOff i
      let chosen := typeAt recvInSig params velem k e
      let right := typeAt recvInSig params velem k' e'
      if chosen == right then none else some s!"const-arg{i}-converted-to-{chosen}-not-{right}"
  -- preparation of each argument
  let nFixed := if isVariadic then nParams - 1 else nParams
  let prepared := (List.range nArgs).zip args |>.map fun (i, a) =>
    let ve := isVariadic && !ellipsis && decide (i ≥ nFixed)
    (i, prepare G a.sit ve a.pk, a.pk)
  let prepBad := prepared.map fun (i, h, p) =>
    if !hostAssignable p h then some s!"arg{i}-not-assignable"
    else if !hostClean h then some s!"arg{i}-leaks-box" else none
  -- the wrapper target index
  let defBad := (List.range nArgs).zip args |>.map fun (i, a) =>
    let (k, _) := defTypeIndexY G isVariadic numIn off i
    let (k', _) := typeIndexSpec isVariadic numIn trueOff i
    if a.pk == .hostIface && k != k' then some s!"arg{i}-wrapper-target-param{k}" else none
  -- packing
  let pa := probeArgs nArgs
  let packed := if deferred then packDeferY G true isVariadic ellipsis nFixed pa else packBinY G isVariadic ellipsis nFixed pa
  let packBad := packVerdict packed isVariadic ellipsis nFixed pa
  -- routing
  let routeBad := if deferred then none else
    if routeY G ctx nOut == routeSpec ctx nOut then none else some "result-routing"
  -- a return statement with several operands: the other operands read the result variable the call's position stands for
  let retBad := match ctx with
    | .ret pos nOps =>
      if nOps ≤ 1 then none else
      let ops := (List.range nOps).map fun k =>
        if k == pos then RetOperand.call (.int 99) else if reads then RetOperand.named pos else RetOperand.other (.int 7)
      let init := (List.range nOps).map fun k => Rep.int (Int.ofNat k)
      if retStmtY G.returnBase ops init == retStmtSpec ops init then none else some "return-operand-clobbered"
    | _ => none
  let y := firstBad (conv ++ defBad ++ prepBad ++ [packBad, routeBad, retBad])
  let reps := ",".intercalate (prepared.map fun (_, h, _) => repClass h)
  let ideals := ",".intercalate (args.map fun a => repClass (ideal a.sit a.pk))
  s!"y={y} reps={if reps.isEmpty then "-" else reps} off={off} g=ok ideal={if ideals.isEmpty then "-" else ideals}"

/-- probe function: result j is the constant 100+j, except result 0 which echoes parameter 0 when there is one -/
def probeDef (numRet nParams : Nat) : FnDef :=
  { numRet := numRet, params := List.replicate nParams .plain, nLocals := 1,
    body := fun _ fr =>
      let fr1 := (List.range numRet).foldl (fun acc j => setAt acc j (.int (100 + j))) fr
      if nParams > 0 && numRet > 0 then setAt fr1 0 (fr.getD numRet .nil) else fr1 }

def handleWrap (numRet nParams : Nat) (closure : Bool) : String :=
  let d := probeDef numRet nParams
  let ins := (List.range nParams).map fun i => Rep.int (Int.ofNat (40 + i))
  let noCall : Rep → List Rep → List Rep := fun _ _ => []
  let w := if closure then closureCall G d noCall ins else wrapperCall G d noCall ins
  let want := innerCall d noCall ins
  if w == want then "y=ok g=ok" else "y=bad:wrapper-results g=ok"

/-- a stored callback re-entering itself through the host, `depth` levels deep: the model run with the regenerated fact -/
def handleReenter (depth : Nat) (closure : Bool) : String :=
  let levels := (List.range (depth + 1)).reverse.map fun n => [Rep.int (Int.ofNat n)]
  let per := if closure then G.getFuncFramePerCall else G.wrapFramePerCall
  if (runLevels per sumFn levels []).1 == specLevels sumFn levels then "y=ok g=ok" else "y=bad:shared-frame g=ok"

instance : BEq Ctx := ⟨fun a b => decide (a = b)⟩

def handle (args : List Sexp) : String :=
  match args with
  | [.atom "call", .list [.atom "recv", hr, ri, rs, mv], iv, el, df, .list (.atom "params" :: ps), .list [.atom "velem", .atom ve],
     .list (.atom "args" :: as), ctx, nout] =>
    (match hr.bool?, ri.bool?, rs.bool?, mv.bool?, iv.bool?, el.bool?, df.bool?, ps.mapM Sexp.atom?, as.mapM parseArg, parseCtx ctx with
     | some hr, some ri, some rs, some mv, some iv, some el, some df, some ps, some as, some c =>
       (match nout.nat? with
        | some n => handleCall hr ri rs mv iv el df ps ve as c (ctxReads ctx) n
        | none => "bad-op")
     | _, _, _, _, _, _, _, _, _, _ => "bad-op")
  | [.atom "pack", .atom path, iv, el, df, nf, na] =>
    (match iv.bool?, el.bool?, df.bool?, nf.nat?, na.nat? with
     | some iv, some el, some df, some nf, some na => handlePack (path == "bin") iv el df nf na
     | _, _, _, _, _ => "bad-op")
  | [.atom "fvcall", iv, el, df, nf, .list (.atom "kinds" :: ks)] =>
    (match iv.bool?, el.bool?, df.bool?, nf.nat?, ks.mapM Sexp.atom? with
     | some iv, some el, some df, some nf, some ks => handleFvCall iv el df nf ks
     | _, _, _, _, _ => "bad-op")
  | [.atom "branch", .atom use, .list (.atom "results" :: rs)] =>
    (match rs.mapM Sexp.bool? with
     | some rs => handleBranch (use == "reread") rs
     | none => "bad-op")
  | .atom "define" :: vars =>
    let one (v : Sexp) : Option String :=
      match v with
      | .list (.atom "zero" :: zs) => (zs.mapM Sexp.bool?).map handleDefine
      | _ => none
    (match vars.mapM one with
     | some answers => (answers.find? (fun a => a != "y=ok g=ok")).getD "y=ok g=ok"
     | none => "bad-op")
  | [.atom "hostrecv"] => handleHostRecv
  | [.atom "recvbind"] => handleRecvBind
  | [.atom "ifacerecv"] => handleIfaceRecv
  | [.atom "reenter", dp, cl] =>
    (match dp.nat?, cl.bool? with
     | some dp, some cl => handleReenter dp cl
     | _, _ => "bad-op")
  | [.atom "wrap", nr, np, cl] =>
    (match nr.nat?, np.nat?, cl.bool? with
     | some nr, some np, some cl => handleWrap nr np cl
     | _, _, _ => "bad-op")
  | _ => "bad-op"

end YaegiVerif.Driver.C07
