import YaegiVerif.Common.Sexp
import YaegiVerif.Model.RunId
import YaegiVerif.Expected.C09
import YaegiVerif.Generated.C09
/- Line-protocol front end for C09 (glue, not a proof obligation).

   run B K ENTRY…      → y=<outcome> y2=<outcome> g=<outcome> dom=<0|1> racy=<0|1>
     B      budget of fresh operations after the cancellation (a goroutine that wants more is parked: `R`)
     K      number: the cancellation happens when operation K (counted over all goroutines, under the
            newest-first policy) has passed its guard and is about to execute; `quiet`: when nothing moves any more
     ENTRY  (r OP…) an entry of Execute's run list executed on the root frame, (f OP…) in a new frame
     OP     s | t | m | (c SITE OP…) | (g SITE OP…) | (b KIND CANC)      KIND = recv | recv2 | send | range | select
            SITE = c | w | l, then optionally e (the function value was made by an EARLIER, completed evaluation) and / or
            h (it is entered by native code that calls back late: when such a call is in flight after the cancellation it is
            executed only when nothing else can move)
   outcome = n<ops before the cancellation>;<ret>;<per goroutine that ever executed an operation, in creation order>
             per goroutine: i<in-flight operations 0/1>f<fresh operations>t<host calls after the cancellation><E|S|R>
             (E exited, S still blocked, R still wants to run)
   y= is the machine with the facts extracted from the source, g= the machine with the ideal facts (the property).
   y2= is y with the one race the step hook cannot decide taken the other way: after the cancellation a goroutine
   just started by a `go` statement makes its frame BEFORE the goroutine of `Execute` goes on (and returns, which
   refreshes the root id) instead of after; racy=1 says that the goroutine of `Execute` has a `go` statement of a
   function value in flight at the cancellation, the only situation in which the harness accepts y2 as well.
   dom= is `Props.C09.Dom` (no call / go of a function value caught between its guard and its frame) at the
   moment of the cancellation: the class label of F09-3 is its negation. -/
namespace YaegiVerif.Driver.C09
open YaegiVerif YaegiVerif.RunId

def parseKind : String → Option BlkKind
  | "recv" => some .recv | "recv2" => some .recv2 | "send" => some .send
  | "range" => some .range | "select" => some .select | _ => none

def parseSite (str : String) : Option Site :=
  match str.toList with
  | k :: flags =>
    let kind : Option SiteKind := match k with | 'c' => some .call | 'w' => some .wrapper | 'l' => some .closure | _ => none
    if flags.all (fun c => c == 'e' || c == 'h') then
      kind.map (fun kd => { kind := kd, early := flags.contains 'e', late := flags.contains 'h' })
    else none
  | [] => none

partial def parseOps : List Sexp → Option Prog
  | [] => some .done
  | .atom "s" :: rest => (parseOps rest).map .step
  | .atom "t" :: rest => (parseOps rest).map .tick
  | .atom "m" :: rest => (parseOps rest).map .mkclosure
  | .list (.atom "c" :: .atom s :: body) :: rest => do
    let st ← parseSite s
    let b ← parseOps body
    let r ← parseOps rest
    some (.call st b r)
  | .list (.atom "g" :: .atom s :: body) :: rest => do
    let st ← parseSite s
    let b ← parseOps body
    let r ← parseOps rest
    some (.spawn st b r)
  | .list [.atom "b", .atom k, c] :: rest => do
    let kk ← parseKind k
    let cc ← c.bool?
    let r ← parseOps rest
    some (.block kk cc r)
  | _ => none

def parseEntry : Sexp → Option Entry
  | .list (.atom "r" :: ops) => (parseOps ops).map (fun p => { root := true, prog := p })
  | .list (.atom "f" :: ops) => (parseOps ops).map (fun p => { root := false, prog := p })
  | _ => none

/-- the operation the goroutine has passed its guard for is a call made by native code that calls back late -/
def heldArmed (g : G) : Bool :=
  g.armed && (match g.stack with
    | fr :: _ => (match fr.pc with | .call s _ _ => s.late | _ => false)
    | [] => false)

/-- the newest goroutine allowed to be granted its operation (a goroutine whose late native callback has been granted
    already is parked inside the host function) -/
def newestAllowed (gs : List G) (inflight : List Nat) (freshLeft : Nat) (granted : List Nat) : Option Nat :=
  let rec go (l : List G) (i : Nat) (best : Option Nat) : Option Nat :=
    match l with
    | [] => best
    | g :: rest =>
      go rest (i + 1) (if g.armed && !granted.contains i && (inflight.contains i || freshLeft > 0) then some i else best)
  go gs 0 none

/-- after the cancellation: in-flight operations always execute, fresh ones while the budget lasts. An operation that
    that is in flight and is a late native callback (`h.Hold`) is GRANTED like any other but the host function parks
    it: it is executed, newest first, only when nothing else can be granted (a fresh one calls back at once). -/
def post (F : RunIdFacts) (fs : Nat) (newFirst : Bool) : Nat → St → List Nat → Nat → List Nat → St
  | 0, σ, _, _, _ => settleAll F σ fs newFirst
  | fuel + 1, σ, inflight, freshLeft, granted =>
    let σ1 := settleAll F σ fs newFirst
    match newestAllowed σ1.gs inflight freshLeft granted with
    | some i =>
      let held := inflight.contains i && (match σ1.gs[i]? with | some g => heldArmed g | none => false)
      let freshLeft' := if inflight.contains i then freshLeft else freshLeft - 1
      if held then post F fs newFirst fuel σ1 (inflight.erase i) freshLeft' (i :: granted)
      else post F fs newFirst fuel (stepC F σ1 (.run i)) (inflight.erase i) freshLeft' granted
    | none =>
      match granted.foldl (fun (b : Option Nat) j => match b with | some k => some (max k j) | none => some j) none with
      | some j => post F fs newFirst fuel (stepC F σ1 (.run j)) inflight freshLeft (granted.erase j)
      | none => σ1

def entriesSize (es : List Entry) : Nat := es.foldl (fun n e => n + e.prog.size + 1) 0

def statusOf (σ : St) (g : G) : String :=
  if g.blocked.isSome then "S"
  else if g.armed then "R"
  else if g.stack.isEmpty && g.pending.isNone && (!g.main || σ.runList.isEmpty) then "E"
  else "R"

/-- the state at the moment of the cancellation (operation K has passed its guard), or none if there is no such moment -/
def atCancel (F : RunIdFacts) (k : Option Nat) (entries : List Entry) : Option (St × Nat) :=
  let fs := entriesSize entries + 8
  let σ0 := start F 0 0 entries
  let pre := match k with
    | some k => runPolicy F fs (k - 1) σ0
    | none => runPolicy F fs (entriesSize entries + 1) σ0
  if k.isSome && (pickNewest pre.1.gs).isNone then none
  else if k.isNone && (pickNewest pre.1.gs).isSome then none
  else some pre

/-- the goroutine of `Execute` has a `go` statement of a function value in flight -/
def racyAt (F : RunIdFacts) (σ : St) : Bool :=
  σ.gs.any (fun g => g.main && g.armed &&
    (match g.stack with
     | fr :: _ => (match fr.pc with | .spawn s _ _ => fvSite F s | _ => false)
     | [] => false))

def outcome (F : RunIdFacts) (budget : Nat) (k : Option Nat) (entries : List Entry) (newFirst : Bool := false) : String :=
  let fs := entriesSize entries + 8
  let σ0 := start F 0 0 entries
  let pre := match k with
    | some k => runPolicy F fs (k - 1) σ0
    | none => runPolicy F fs (entriesSize entries + 1) σ0
  let σ1 := pre.1
  -- with a numeric K the K-th operation must exist
  if k.isSome && (pickNewest σ1.gs).isNone then "short"
  else if k.isNone && (pickNewest σ1.gs).isSome then "notquiet"
  else
    let inflight := (List.range σ1.gs.length).filter (fun i => armedOf σ1 i)
    let σ2 := stepC F σ1 .stop
    let σ3 := post F fs newFirst (2 * (inflight.length + budget) + 2) σ2 inflight budget []
    let ret := match σ3.ret with | some .ctxErr => "ctx" | some .value => "val" | none => "none"
    let per := (List.range σ3.gs.length).filterMap (fun i =>
      match σ3.gs[i]? with
      | none => none
      | some g =>
        if g.ops == 0 then none
        else
          let postOps := g.ops - opsOf σ1 i
          let infl := if inflight.contains i && postOps > 0 then 1 else 0
          some s!"i{infl}f{postOps - infl}t{g.ticks - ticksOf σ1 i}{statusOf σ3 g}")
    s!"n{pre.2};{ret};{",".intercalate per}"

def handle (args : List Sexp) : String :=
  match args with
  | .atom "run" :: b :: k :: entries =>
    (match b.nat?, entries.mapM parseEntry with
     | some budget, some es =>
       let kk : Option (Option Nat) := match k with
         | .atom "quiet" => some none
         | _ => (k.nat?).map some
       (match kk with
        | some kv =>
          let σ1 := atCancel Generated.C09.facts kv es
          let dom := match σ1 with | some p => p.1.gs.all (fun g => !g.fvPending Generated.C09.facts) | none => true
          let racy := match σ1 with | some p => racyAt Generated.C09.facts p.1 | none => false
          s!"y={outcome Generated.C09.facts budget kv es} y2={outcome Generated.C09.facts budget kv es true} g={outcome Expected.C09.ideal budget kv es} dom={if dom then 1 else 0} racy={if racy then 1 else 0}"
        | none => "bad-op")
     | _, _ => "bad-op")
  | _ => "bad-op"

end YaegiVerif.Driver.C09
