import YaegiVerif.Common.Sexp
import YaegiVerif.Model.Cfg
import YaegiVerif.Model.CfgSlots
import YaegiVerif.Model.Closures
import YaegiVerif.Generated.C01
/- Line-protocol front end for C01 (glue).
   run FUEL (funs BODY…) MAIN   → y=<normal|panic|fuel>:<v1,v2,…> g=<normal|panic|fuel>:<v1,v2,…>
                                    z=<normal|panic|fuel|stuck>:<v1,v2,…> n=<instructions> n2=<slot-level closures> nv=<variable slots>
     y = level-1 machine (Model/Cfg.lean), g = Go big-step semantics (Spec/GoCore.lean),
     z = slot-level machine (Model/CfgSlots.lean) over `expand nv (compileProg …)`, nv = 1 + largest variable index
   EXPR  = (lit n) | (var i) | (bin add|sub|mul|and|or|xor|quo|rem a b) | (neg a) | (cpl a)
   BEXPR = (cmp eq|ne|lt|le|gt|ge a b) | (not a) | (land a b) | (lor a b) | (alt a b)   -- alt: `case a, b:` of a tagless switch
   STMT  = skip | brk | cont | (brkL n) | (contL n)   -- break L / continue L, L = n-th enclosing loop, 0 = innermost
         | (seq a b) | (assign i e) | (print e) | (ite c t e) | (loop c body post)
         | (ret e) | (call x g e…)   -- x = f_g(e…); parameters are the callee's variables 0…
         | (switch (c BEXPR STMT fall) …)   -- clauses in order; default = last clause with a true condition -/
namespace YaegiVerif.Driver.C01
open YaegiVerif YaegiVerif.Core

partial def parseExpr : Sexp → Option Expr
  | .list [.atom "lit", n] => n.int?.map (fun i => .lit (BitVec.ofInt 64 i))
  | .list [.atom "var", i] => i.nat?.map .var
  | .list [.atom "neg", a] => (parseExpr a).map .neg
  | .list [.atom "cpl", a] => (parseExpr a).map .cpl
  | .list [.atom "bin", .atom op, a, b] => do
    let o ← match op with
      | "add" => some BinOp.add | "sub" => some .sub | "mul" => some .mul | "and" => some .and
      | "or" => some .or | "xor" => some .xor | "quo" => some .quo | "rem" => some .rem | _ => none
    some (.bin o (← parseExpr a) (← parseExpr b))
  | _ => none

/-- `ch`: how `(alt a b)` — a case list of a tagless switch — is read: chained (`a || b`), or the first condition only -/
partial def parseB (ch : Bool) : Sexp → Option BExpr
  | .list [.atom "cmp", .atom op, a, b] => do
    let o ← match op with
      | "eq" => some CmpOp.eq | "ne" => some .ne | "lt" => some .lt | "le" => some .le
      | "gt" => some .gt | "ge" => some .ge | _ => none
    some (.cmp o (← parseExpr a) (← parseExpr b))
  | .list [.atom "not", a] => (parseB ch a).map .not
  | .list [.atom "land", a, b] => do some (.land (← parseB ch a) (← parseB ch b))
  | .list [.atom "lor", a, b] => do some (.lor (← parseB ch a) (← parseB ch b))
  -- `case a, b:` of a tagless switch (only at the top of a clause condition): chained as cfg.go does since 3b98047,
  -- or the first condition only (F53); the Go semantics always chains, the model follows the extracted fact
  | .list [.atom "alt", a, b] =>
    if ch then do some (.lor (← parseB ch a) (← parseB ch b)) else parseB ch a
  | _ => none

mutual
partial def parseStmt (ch : Bool) : Sexp → Option Stmt
  | .atom "skip" => some .skip
  | .atom "brk" => some .brk
  | .atom "cont" => some .cont
  | .list [.atom "brkL", n] => n.nat?.map .brkL
  | .list [.atom "contL", n] => n.nat?.map .contL
  | .list [.atom "seq", a, b] => do some (.seq (← parseStmt ch a) (← parseStmt ch b))
  | .list [.atom "assign", i, e] => do some (.assign (← i.nat?) (← parseExpr e))
  | .list [.atom "print", e] => do some (.print (← parseExpr e))
  | .list [.atom "ite", c, t, e] => do some (.ite (← parseB ch c) (← parseStmt ch t) (← parseStmt ch e))
  | .list [.atom "loop", c, b, p] => do some (.loop (← parseB ch c) (← parseStmt ch b) (← parseStmt ch p))
  | .list (.atom "switch" :: cs) => do some (.switch (← parseClauses ch cs))
  | .list [.atom "ret", e] => do some (.ret (← parseExpr e))
  | .list (.atom "call" :: x :: g :: args) => do some (.call (← x.nat?) (← g.nat?) (← args.mapM parseExpr))
  | _ => none
partial def parseClauses (ch : Bool) : List Sexp → Option Clauses
  | [] => some .nil
  | .list [.atom "c", c, b, f] :: rest => do
    some (.cons (← parseB ch c) (← parseStmt ch b) (← f.bool?) (← parseClauses ch rest))
  | _ => none
end

mutual
/-- every labelled break / continue names an enclosing loop (what the Go compiler requires) -/
def closed : Nat → Stmt → Bool
  | d, .brkL n => n < d
  | d, .contL n => n < d
  | d, .seq a b => closed d a && closed d b
  | d, .ite _ t e => closed d t && closed d e
  | d, .loop _ body post => closed (d + 1) body && closed d post
  | d, .switch cs => closedC d cs
  | _, _ => true
def closedC : Nat → Clauses → Bool
  | _, .nil => true
  | d, .cons _ body _ rest => closed d body && closedC d rest
end

def showOut (vs : List Val) : String := ",".intercalate (vs.map fun v => toString v.toInt)

def handle (args : List Sexp) : String :=
  match args with
  | [.atom "run", fuel, .list (.atom "funs" :: fbodies), prog] =>
    let ch := Clos.factIs Generated.C01.mechFacts "switchIfStmt chains every condition of a case list"
    (match fuel.nat?, parseStmt ch prog, fbodies.mapM (parseStmt ch), parseStmt true prog, fbodies.mapM (parseStmt true) with
     | some f, some p, some fs, some pS, some fsS =>
       if !(closed 0 p && fs.all (closed 0)) then "bad-op" else
       let st0 : St := { vars := fun _ => 0, out := [] }
       let code := compileProg fs p
       let y := match runFuel code f (.run 0 st0 []) with
         | some (.run _ s _) => "stuck:" ++ showOut s.out
         | some (.done s) => "normal:" ++ showOut s.out
         | some (.panicked s) => "panic:" ++ showOut s.out
         | none => "fuel:"
       let g := match exec fsS f pS st0 with   -- the Go semantics: case lists always chained
         | some (.panic, s) => "panic:" ++ showOut s.out
         | some (_, s) => "normal:" ++ showOut s.out
         | none => "fuel:"
       -- level 2: variables are the slots < nv; every level-1 node expands to at most 16 closures here
       let nv := codeBound code
       if !(code.all (Instr.varsLt nv)) then "bad-op" else
       let code2 := expand nv code
       let z := match runFuel2 code2 (f * 16) (.run 0 (fun _ => 0) [] []) with
         | some (.run _ _ out _) => "stuck:" ++ showOut out
         | some (.done out) => "normal:" ++ showOut out
         | some (.panicked out) => "panic:" ++ showOut out
         | none => "fuel:"
       s!"y={y} g={g} z={z} n={code.length} n2={code2.length} nv={nv}"
     | _, _, _, _, _ => "bad-op")
  | _ => "bad-op"

/-! ## closure fragment (Spec/GoClosure.lean, Model/Closures.lean)
   runc FUEL PROG → c=<normal|panic|stuck|fuel>:<v1,v2,…> s=<normal|panic|stuck|fuel>:<v1,v2,…> ws=<true|false> mech=<cdlbkan bits>
     c = yaegi's frame mechanism (`Clos.runM` with the mechanism the extractor recognised in the source),
     s = Go's lexical-scoping semantics (`Clos.runS`), ws = the program is well scoped
   XEXPR = (lit n) | (var x) | (bin op a b) | (neg a) | (cpl a)          -- x a NAME
   XCOND = (cmp op a b) | (not a) | (land a b) | (lor a b)
   PROG  = skip | brk | cont | (seq a b) | (set D x e) | (setfn D x (p…) body res) | (setcall D x f e…)
         | (block s) | (ite c t e) | (while c body) | (forc x init c py pe body) | (rng x n body) | (print e) | (ret e)
     D = 1 for `:=`, 0 for `=` -/
namespace ClosFront
open YaegiVerif.Clos

partial def parseX : Sexp → Option (XExpr Nat)
  | .list [.atom "lit", n] => n.int?.map (fun i => .lit (BitVec.ofInt 64 i))
  | .list [.atom "var", i] => i.nat?.map .var
  | .list [.atom "neg", a] => (parseX a).map .neg
  | .list [.atom "cpl", a] => (parseX a).map .cpl
  | .list [.atom "bin", .atom op, a, b] => do
    let o ← match op with
      | "add" => some BinOp.add | "sub" => some .sub | "mul" => some .mul | "and" => some .and
      | "or" => some .or | "xor" => some .xor | "quo" => some .quo | "rem" => some .rem | _ => none
    some (.bin o (← parseX a) (← parseX b))
  | _ => none

partial def parseC : Sexp → Option (XCond Nat)
  | .list [.atom "cmp", .atom op, a, b] => do
    let o ← match op with
      | "eq" => some CmpOp.eq | "ne" => some .ne | "lt" => some .lt | "le" => some .le
      | "gt" => some .gt | "ge" => some .ge | _ => none
    some (.cmp o (← parseX a) (← parseX b))
  | .list [.atom "not", a] => (parseC a).map .not
  | .list [.atom "land", a, b] => do some (.land (← parseC a) (← parseC b))
  | .list [.atom "lor", a, b] => do some (.lor (← parseC a) (← parseC b))
  | _ => none

def flag? : Sexp → Option Bool
  | .atom "1" => some true
  | .atom "0" => some false
  | _ => none

partial def parseS : Sexp → Option Clos.Stmt
  | .atom "skip" => some .skip
  | .atom "brk" => some .brk
  | .atom "cont" => some .cont
  | .list [.atom "seq", a, b] => do some (.seq (← parseS a) (← parseS b))
  | .list [.atom "set", d, x, e] => do some (.set (← flag? d) (← x.nat?) (← parseX e))
  | .list [.atom "setfn", d, x, .list ps, body, res] => do
    some (.setFn (← flag? d) (← x.nat?) (← ps.mapM (·.nat?)) (← parseS body) (← parseX res))
  | .list (.atom "setcall" :: d :: x :: f :: args) => do
    some (.setCall (← flag? d) (← x.nat?) (← f.nat?) (← args.mapM parseX))
  | .list [.atom "block", s] => do some (.block (← parseS s))
  | .list [.atom "ite", c, t, e] => do some (.ite (← parseC c) (← parseS t) (← parseS e))
  | .list [.atom "while", c, b] => do some (.while (← parseC c) (← parseS b))
  | .list [.atom "forc", x, i, c, py, pe, b] => do
    some (.forc (← x.nat?) (← parseX i) (← parseC c) (← py.nat?) (← parseX pe) (← parseS b))
  | .list [.atom "rng", x, n, b] => do some (.rng (← x.nat?) (← parseX n) (← parseS b))
  | .list [.atom "print", e] => do some (.print (← parseX e))
  | .list [.atom "ret", e] => do some (.ret (← parseX e))
  | _ => none

def showEnd : Option Outcome → String
  | none => "fuel:"
  | some ⟨out, .normal⟩ => "normal:" ++ showOut out
  | some ⟨out, .panic⟩ => "panic:" ++ showOut out
  | some ⟨out, .stuck⟩ => "stuck:" ++ showOut out

def bit (b : Bool) : String := if b then "1" else "0"

def handle (args : List Sexp) : String :=
  match args with
  | [.atom "runc", fuel, prog] =>
    (match fuel.nat?, parseS prog with
     | some f, some p =>
       let m := Mech.ofFacts Generated.C01.mechFacts
       s!"c={showEnd (runM m f p)} s={showEnd (runS f p)} ws={p.wellScoped []} mech={bit m.cloneFrame}{bit m.defineFresh}{bit m.loopFresh}{bit m.loopCopyBack}{bit m.keyFresh}{bit m.boundAlias}{bit m.redeclNop}"
     | _, _ => "bad-op")
  | _ => "bad-op"
end ClosFront

/-- all commands of the C01 driver -/
def handleAll (args : List Sexp) : String :=
  match args with
  | .atom "runc" :: _ => ClosFront.handle args
  | _ => handle args

end YaegiVerif.Driver.C01
