import YaegiVerif.Common.Sexp
import YaegiVerif.Model.Piecewise
import YaegiVerif.Generated.C11
import YaegiVerif.Expected.C11
/- Line-protocol front end for C11 (glue, not a proof obligation).

   prog (CUT…) (ITEM…)      → parts=<sizes of the texts> p=<obs> pat=<k> w=<obs> g=<obs> class=<label> dom=<0|2> fwdvar=<0|1> crossdep=<0|1>
        g = the whole program under the facts of the unchanged source (validated against compiled Go)
        p = the session: every chunk of `split cuts items` handed to Eval as its maximal runs
        w = the whole program evaluated as one file
   hist (ITEM…) (ITEM…) …   → h=<obs> hat=<k> class=<label>   (dom: 2 = domain of chunks_eq_whole, 0 = outside)
        the texts of a session, given explicitly (redefinition histories)
   obs  = <ok|parse|redeclared|undefined|defloop|panic|fuel>|<tag:value,…>|<name:value,…>
   pat/hat = index of the text at which the session stopped, or -
   ITEM = (const x K last) [K = (num k) iota (ref x) (bin op K K); one spec of a const declaration, last closes it]
          (var x E) (closure x B) (func f B) (type t) (method t m B) (init B) (stmt S) (define x E)
   E    = (num k) arg recv (glob x) (bin op E E) (call f E) (callv x E) (mcall t m E E)
   S    = (print tag E) (set x E) (eval E) (lit S)          B = (body none|E (S…) E)
   The facts (resizeFrame copies, funcDecl overwrites, …) are the regenerated ones. -/
namespace YaegiVerif.Driver.C11
open YaegiVerif YaegiVerif.Piecewise

def fx : Facts := Generated.C11.facts
def fuel : Nat := 400

def parseOp : String → Option Op
  | "add" => some .add | "sub" => some .sub | "mul" => some .mul
  | _ => none

partial def parseE : Sexp → Option SExpr
  | .atom "arg" => some .arg
  | .atom "recv" => some .recv
  | .list [.atom "num", k] => k.int?.map .num
  | .list [.atom "glob", .atom x] => some (.glob x)
  | .list [.atom "bin", .atom op, a, b] => do
    let o ← parseOp op
    let a' ← parseE a
    let b' ← parseE b
    some (.bin o a' b')
  | .list [.atom "call", .atom f, a] => (parseE a).map (.call f)
  | .list [.atom "callv", .atom x, a] => (parseE a).map (.callv x)
  | .list [.atom "mcall", .atom t, .atom m, r, a] => do
    let r' ← parseE r
    let a' ← parseE a
    some (.mcall t m r' a')
  | _ => none

partial def parseS : Sexp → Option SStmt
  | .list [.atom "lit", s] => (parseS s).map .lit
  | .list [.atom "print", tag, e] => do
    let t ← tag.nat?
    let e' ← parseE e
    some (.print t e')
  | .list [.atom "set", .atom x, e] => (parseE e).map (.set x)
  | .list [.atom "eval", e] => (parseE e).map .eval
  | _ => none

def parseB : Sexp → Option SBody
  | .list [.atom "body", g, .list ss, r] => do
    let g' ← (match g with
      | .atom "none" => some none
      | e => (parseE e).map some)
    let ss' ← ss.mapM parseS
    let r' ← parseE r
    some ⟨g', ss', r'⟩
  | _ => none

partial def parseK : Sexp → Option KExpr
  | .atom "iota" => some .iota
  | .list [.atom "num", k] => k.int?.map .num
  | .list [.atom "ref", .atom x] => some (.ref x)
  | .list [.atom "bin", .atom op, a, b] => do
    let o ← parseOp op
    let a' ← parseK a
    let b' ← parseK b
    some (.bin o a' b')
  | _ => none

def parseItem : Sexp → Option Item
  | .list [.atom "const", .atom x, e, last] => do
    let e' ← parseK e
    let l ← last.bool?
    some (.const x e' l)
  | .list [.atom "var", .atom x, e] => (parseE e).map (.var x)
  | .list [.atom "closure", .atom x, b] => (parseB b).map (.closure x)
  | .list [.atom "func", .atom f, b] => (parseB b).map (.func f)
  | .list [.atom "type", .atom t] => some (.type t)
  | .list [.atom "method", .atom t, .atom m, b] => (parseB b).map (.method t m)
  | .list [.atom "init", b] => (parseB b).map .init
  | .list [.atom "stmt", s] => (parseS s).map .stmt
  | .list [.atom "define", .atom x, e] => (parseE e).map (.define x)
  | _ => none

def showHalt : Option Halt → String
  | none => "ok"
  | some .parse => "parse"
  | some .redeclared => "redeclared"
  | some .undefined => "undefined"
  | some .defloop => "defloop"
  | some .nilcall => "panic"
  | some .dangling => "panic"
  | some .fuel => "fuel"

def dash (s : String) : String := if s.isEmpty then "-" else s

/-- variables of the final scope, latest binding of each name, in order of first definition -/
def globalsOf (s : State) : List (Name × Int) :=
  let names := (s.c.tab.syms.reverse.map (·.1)).eraseDups
  names.filterMap fun x => (s.global x).map fun v => (x, v)

def showObs (s : State) : String :=
  showHalt s.r.halt ++ "|" ++
  dash (",".intercalate (s.r.out.map fun p => s!"{p.1}:{p.2}")) ++ "|" ++
  dash (",".intercalate ((globalsOf s).map fun p => s!"{p.1}:{p.2}"))

/-- a text of declarations (compiled as a file) in which an initialiser depends — directly or
    through the functions it mentions — on a variable that a later `var` of the same text declares:
    the interpreter reorders the initialisers, the model does not -/
def textFwd (s : State) (t : List Item) : Bool :=
  match t with
  | [] => false
  | it :: _ => !it.isStmt && s.r.halt.isNone && !chunkOrderOk fx s t

/-- evaluate the texts of a session, remembering where it stopped and whether a text had forward
    dependencies between its initialisers -/
def session (texts : List (List Item)) : State × Option Nat × Bool :=
  let step := fun (acc : State × Option Nat × Nat × Bool) (t : List Item) =>
    let s' := evalText fx fuel acc.1 t
    let at' := match acc.2.1 with
      | some k => some k
      | none => if s'.r.halt.isSome then some acc.2.2.1 else none
    (s', at', acc.2.2.1 + 1, acc.2.2.2 || textFwd acc.1 t)
  let r := texts.foldl step (State.empty, none, 0, false)
  (r.1, r.2.1, r.2.2.2)

def showAt : Option Nat → String
  | none => "-"
  | some k => toString k

/-! class labels: decidable predicates of the input, the first that applies -/

def methodKeys (items : List Item) : List (Name × Name) :=
  items.filterMap fun it => match it with
    | .method t m _ => some (t, m)
    | _ => none

def hasDupKeys : List (Name × Name) → Bool
  | [] => false
  | x :: xs => xs.contains x || hasDupKeys xs

def maxPhase (t : List Item) : Nat := (t.filterMap Item.phase).foldl max 0
def minPhase (t : List Item) : Nat := (t.filterMap Item.phase).foldl min 2

/-- no step of a later text belongs before a step of an earlier text -/
def phaseSortedAcross : List (List Item) → Bool
  | [] => true
  | t :: rest => rest.all (fun u => (u.filterMap Item.phase).isEmpty || (t.filterMap Item.phase).isEmpty || maxPhase t ≤ minPhase u)
      && phaseSortedAcross rest

/-- every text compiles in the scope of the texts up to and including itself (model run without execution) -/
def textsCompile (texts : List (List Item)) : Bool :=
  let step := fun (acc : CState × Bool) (t : List Item) =>
    let T := (regItems fx acc.1.tab.nvars (acc.1.tab, acc.1.code.length) t).1
    match compileItems T acc.1.code.length t with
    | some (code, _) => (⟨T, acc.1.code ++ code⟩, acc.2)
    | none => (⟨T, acc.1.code⟩, false)
  (texts.foldl step (CState.empty, true)).2

/-- a statement mentions a variable defined by a later statement of the same text -/
def useBeforeDefine (texts : List (List Item)) : Bool :=
  texts.any fun t => !stmtsOk t

/-- the shape of F11-1 (repaired): an initialiser of some text names a variable that the text does not declare -/
def crossDep (texts : List (List Item)) : Bool :=
  texts.any fun t => t.any fun it => it.initVars.any fun y => !(chunkVars t).contains y

/-- a program that declares `main` itself has two of them once its statements are put into main:
    a name declared twice (the class of F11-6). The classes of the findings repaired in round 3
    (var-names-earlier-chunk-var F11-1, method-redefinition F11-7, main-declared F11-8) are gone:
    such inputs are labelled by what else they are, and must agree. -/
def classProg (items : List Item) (texts : List (List Item)) : String :=
  if hasDup (items.filterMap Item.declName) || hasDupKeys (methodKeys items) || !noMain items then "redefinition"
  else if !textsCompile texts then "forward-reference-across-chunks"
  else if useBeforeDefine texts then "use-before-define"
  else if !localsStayLocal items then "decl-uses-main-local"
  else if !phaseSortedAcross texts then "init-order-across-chunks"
  else if !DefBeforeUse fx State.empty items then "forward-reference-within-chunk"
  else "in-domain"

/-- histories: redefinitions are the point, the labels name what is redefined; a text the
    incremental parser rejects ends the session, what comes before decides first -/
def classHist (all : List (List Item)) : String :=
  let texts := all.takeWhile homogeneous
  let items := texts.flatten
  if hasDup (items.filterMap fun it => match it with | .type t => some t | _ => none) then "type-redefinition"
  else if !textsCompile texts then "forward-reference-across-chunks"
  else if useBeforeDefine texts then "use-before-define"
  else if texts.length < all.length then "mixed-text"
  else if hasDup (items.filterMap Item.declName) || hasDupKeys (methodKeys items) then "history"
  else "history-plain"

def handle (args : List Sexp) : String :=
  match args with
  | [.atom "prog", cuts, .list its] =>
    (match (match cuts with | .list cs => cs.mapM Sexp.nat? | _ => none), its.mapM parseItem with
     | some cuts, some items =>
       let chunks := split cuts items
       let texts := chunks.flatMap runs
       let p := session texts
       let w := evalWhole fx fuel State.empty items
       -- the reading of the whole program that is validated against the toolchain: the facts of the unchanged source
       let g := evalWhole Expected.C11.facts fuel State.empty items
       -- 2: domain of chunks_eq_whole (every cut list); 0: outside
       let dom := if Dom fx State.empty items then 2 else 0
       let parts := dash (",".intercalate (texts.map fun t => toString t.length))
       -- forward dependencies between the initialisers of one text (or of the whole file): not modelled
       let fwd := !chunkOrderOk fx State.empty items || p.2.2
       s!"parts={parts} p={showObs p.1} pat={showAt p.2.1} w={showObs w} g={showObs g} class={classProg items texts} dom={dom} fwdvar={if fwd then 1 else 0} crossdep={if crossDep texts then 1 else 0}"
     | _, _ => "bad-op")
  | .atom "hist" :: texts =>
    (match texts.mapM (fun t => match t with | .list its => its.mapM parseItem | _ => none) with
     | some texts =>
       let h := session texts
       s!"h={showObs h.1} hat={showAt h.2.1} class={classHist texts} fwdvar={if h.2.2 then 1 else 0} crossdep={if crossDep texts then 1 else 0}"
     | none => "bad-op")
  | _ => "bad-op"

end YaegiVerif.Driver.C11
