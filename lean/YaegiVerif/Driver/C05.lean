import YaegiVerif.Common.Sexp
import YaegiVerif.Model.Method
import YaegiVerif.Model.MethodRun
import YaegiVerif.Model.MethodClass
import YaegiVerif.Model.MethodHost
import YaegiVerif.Spec.GoSelector
import YaegiVerif.Generated.C05
/- Line-protocol front end for C05 (glue, not a proof obligation).
   TYPES = (DECL …)   DECL = (struct name (FIELD …) (METH …)) | (iface name (METH …) (embedded-index …))
   FIELD = (name int|func|plain|emb|embptr typeindex)      METH = (name 0|1(pointer receiver) sig)
   TY    = (named i) | (ptr i) | (anon (METH …)) | (nil) | (empty)
   RECV  = (var x) | (addr x) | (ptrvar p) | (tmp type base) | (ifc i) | (nil)
   run TYPES (STMT …)
     answer: y=OUT g=OUT class=LABEL wf=0|1       OUT = line;line;…[;!panic] | !reject | -
   sel TYPES type name
     answer: field=PATH mowner=NAME mpath=PATH mptr=0|1 depth=N ysel=SEL gsel=SEL      PATH = i.j.k | -
   mset TYPES type
     answer: y=names gv=names gp=names        (methods(); method set of T; method set of *T)
   impl TYPES type 0|1(pointer) iface
     answer: y=0|1 g=0|1
   probe TYPES type 0|1(pointer) base (method …) (method …)
     answer: y=0|1 g=0|1 w=names   (host-side probe of an optional interface; w: methods of the wrapper chosen) -/
namespace YaegiVerif.Driver.C05
open YaegiVerif YaegiVerif.Method YaegiVerif.MethodRun YaegiVerif.Spec.Selector

def parseKind : String → Option FKind
  | "int" => some .int
  | "func" => some .func
  | "plain" => some .plain
  | "emb" => some .emb
  | "embptr" => some .embPtr
  | _ => none

def parseField : Sexp → Option Field
  | .list [.atom n, .atom k, t] => do let kk ← parseKind k; let tt ← t.nat?; some ⟨n, kk, tt⟩
  | _ => none

def parseMeth : Sexp → Option Meth
  | .list [.atom n, p, s] => do let pp ← p.bool?; let ss ← s.nat?; some ⟨n, pp, ss⟩
  | _ => none

def parseMeths : Sexp → Option (List Meth)
  | .list xs => xs.mapM parseMeth
  | _ => none

def parseDecl : Sexp → Option TDecl
  | .list [.atom "struct", .atom n, .list fs, ms] => do
    let f ← fs.mapM parseField
    let m ← parseMeths ms
    some (.strct n f m)
  | .list [.atom "iface", .atom n, ms, .list es] => do
    let m ← parseMeths ms
    let e ← es.mapM Sexp.nat?
    some (.iface n m e)
  | _ => none

def parseDecls : Sexp → Option Decls
  | .list xs => xs.mapM parseDecl
  | _ => none

def parseTy : Sexp → Option TyRef
  | .list [.atom "named", t] => t.nat?.map .named
  | .list [.atom "ptr", t] => t.nat?.map .ptr
  | .list [.atom "anon", ms] => (parseMeths ms).map .anon
  | .list [.atom "nil"] => some .nil
  | .list [.atom "empty"] => some .empty
  | _ => none

def parseRecv : Sexp → Option Recv
  | .list [.atom "var", .atom x] => some (.var x)
  | .list [.atom "addr", .atom x] => some (.addr x)
  | .list [.atom "ptrvar", .atom x] => some (.ptrvar x)
  | .list [.atom "ifc", .atom x] => some (.ifc x)
  | .list [.atom "tmp", t, b] => do let tt ← t.nat?; let bb ← b.int?; some (.tmp tt bb)
  | .list [.atom "nil"] => some .nil
  | _ => none

def parseStmt : Sexp → Option Stmt
  | .list [.atom "var", .atom x, t, b] => do let tt ← t.nat?; let bb ← b.int?; some (.var x tt bb)
  | .list [.atom "ptr", .atom x, .atom y] => some (.ptr x y)
  | .list [.atom "bump", .atom y] => some (.bump y)
  | .list [.atom "dump", .atom y] => some (.dump y)
  | .list [.atom "call", r, .atom m] => do let rr ← parseRecv r; some (.call rr m)
  | .list [.atom "mval", .atom x, r, .atom m] => do let rr ← parseRecv r; some (.mval x rr m)
  | .list [.atom "callf", .atom x] => some (.callf x)
  | .list [.atom "mexpr", t, p, .atom m, .atom y] => do let tt ← t.nat?; let pp ← p.bool?; some (.mexpr tt pp m y)
  | .list [.atom "iface", .atom x, i, r] => do
    let ii ← i.int?
    let rr ← parseRecv r
    some (.iface x (if ii < 0 then none else some ii.toNat) rr)
  | .list [.atom "assert", .atom x, .atom y, ty, two, .atom m] => do
    let t ← parseTy ty
    let tw ← two.bool?
    some (.assert x y t tw m)
  | .list [.atom "tswitch", .atom y, b, .list cs] => do
    let bb ← b.bool?
    let cc ← cs.mapM (fun c => match c with | .list ts => ts.mapM parseTy | _ => none)
    some (.tswitch y bb cc)
  | .list [.atom "host", .atom f, _] => some (.host f "")
  | _ => none

def showOut : Outcome → String
  | .reject => "!reject"
  | .ran out p =>
    let ls := out.map (fun l => ",".intercalate l) ++ (if p then ["!panic"] else [])
    if ls.isEmpty then "-" else ";".intercalate ls

def showPath (p : List Nat) : String := if p.isEmpty then "-" else ".".intercalate (p.map toString)

def showSel (D : Decls) : Sel → String
  | .field h => s!"field:{typeName D h.owner}:{showPath h.path}"
  | .method h => s!"method:{typeName D h.owner}:{showPath h.path}"
  | .ambiguous => "ambiguous"
  | .undefined => "undefined"

def showNames (l : List String) : String := if l.isEmpty then "-" else ",".intercalate l

/-- insertion sort of names (the hook returns sorted names) -/
def insertName (x : String) : List String → List String
  | [] => [x]
  | y :: ys => if x < y then x :: y :: ys else if x == y then y :: ys else y :: insertName x ys

def sortNames (l : List String) : List String := l.foldl (fun acc x => insertName x acc) []

def b01 (b : Bool) : String := if b then "1" else "0"

def handle (args : List Sexp) : String :=
  let F := Generated.C05.facts
  match args with
  | [.atom "run", ts, .list ss] =>
    (match parseDecls ts, ss.mapM parseStmt with
     | some D, some prog =>
       s!"y={showOut (run .yaegi F D prog)} g={showOut (run .go F D prog)} class={MethodClass.classify F D prog} wf={b01 (decide (WF D))}"
     | _, _ => "bad-op")
  | [.atom "sel", ts, t, .atom x] =>
    (match parseDecls ts, t.nat? with
     | some D, some tt =>
       let f := lookupFieldY F D tt x
       let m := lookupMethodY F D tt x
       let fs := match f with | some h => showPath h.path | none => "-"
       let (mo, mp, mptr) := match m with
         | some h => (typeName D h.owner, showPath h.path, b01 h.meth.ptr)
         | none => ("-", "-", "0")
       let d := match methodDepthY F D tt x with | some d => toString d | none => "-1"
       s!"field={fs} mowner={mo} mpath={mp} mptr={mptr} depth={d} ysel={showSel D (selectY F D tt x)} gsel={showSel D (select D tt x)}"
     | _, _ => "bad-op")
  | [.atom "mset", ts, t] =>
    (match parseDecls ts, t.nat? with
     | some D, some tt =>
       let y := sortNames ((methodsY D tt).map (·.1))
       let gv := sortNames ((methodSet D ⟨tt, false⟩).map (·.name))
       let gp := sortNames ((methodSet D ⟨tt, true⟩).map (·.name))
       s!"y={showNames y} gv={showNames gv} gp={showNames gp}"
     | _, _ => "bad-op")
  | [.atom "impl", ts, t, p, i] =>
    (match parseDecls ts, t.nat?, p.bool?, i.nat? with
     | some D, some tt, some pp, some ii =>
       s!"y={b01 (implementsY F D tt pp (ifaceMethodsY D ii))} g={b01 (implements D ⟨tt, pp⟩ (ifaceMethods D ii))}"
     | _, _, _, _ => "bad-op")
  | [.atom "probe", ts, t, p, .atom base, .list im, .list jm] =>
    (match parseDecls ts, t.nat?, p.bool? with
     | some D, some tt, some pp =>
       let names (l : List Sexp) : List String := l.filterMap (fun x => match x with | .atom a => some a | _ => none)
       let C := Generated.C05.composedWrappers
       s!"y={b01 (MethodHost.hostProbeY F C D tt base (names im) (names jm))} g={b01 (MethodHost.hostProbeG D ⟨tt, pp⟩ (names jm))} w={showNames (MethodHost.chooseWrapperY F C D tt base (names im))}"
     | _, _, _ => "bad-op")
  | _ => "bad-op"

end YaegiVerif.Driver.C05
