import YaegiVerif.Common.Sexp
import YaegiVerif.Model.Share
import YaegiVerif.Model.ShareDom
import YaegiVerif.Model.ShareGrowth
import YaegiVerif.Spec.GoValue
import YaegiVerif.Generated.C04
/- Line-protocol front end for C04 (glue, not a proof obligation).
     run OP…   → y=<status>~<line>|<line>… g=<status>~<line>|… d=1 c=<formerly diverging shapes, comma separated, or ->
               (d: the refinement theorem has no domain restriction any more; the field is kept for old tooling)
   The yaegi model runs with the facts regenerated from the repository (Generated.C04.share).
   Terms:
     VAL   (i n) | (a VAL…) | (s VAL…) | nil | nils
     IEXP  n | (v x)
     LEXP  (v x) | (f LEXP i) | (x LEXP IEXP) | (d LEXP)
     REXP  (lit VAL) | (ld LEXP) | (add REXP k) | (adr LEXP) | (mks VAL…) | (mk VAL len cap) | (mkm (k VAL)…)
           | (new VAL) | (sl LEXP lo hi max) with _ for an absent bound | (lk LEXP IEXP VAL) | (len LEXP) | (cap LEXP) | (id REXP)
     SOP   (as LEXP REXP) | (op LEXP k) | (def x REXP) | (mul (LEXP…) (REXP…)) | (muld (x…) (0|1…) (VAL…) (REXP…))
           | (app d LEXP REXP (REXP…) VAL esz noscan) | (apps d LEXP REXP REXP VAL esz noscan) | (cp REXP REXP)
           | (ms LEXP IEXP REXP) | (md LEXP IEXP) | (lk2 d x ok LEXP IEXP VAL [rdx rdok]) | (call d LEXP LEXP k REXP) | (show x…)
           | (clit d LEXP isStruct VAL (((i…) REXP)…))
           | (cnm d LEXP LEXP LEXP k LEXP LEXP VAL) | (rsw d LEXP LEXP VAL VAL)
           | (rcv d LEXP REXP) | (as2 d x ok REXP succ VAL rdx rdok)
     OP    SOP | (rng LEXP i v (SOP…)) | (capt LEXP x LEXP k (n…)) -/
namespace YaegiVerif.Driver.C04
open YaegiVerif YaegiVerif.Share

partial def parseVal : Sexp → Option Val
  | .atom "nil" => some .nil
  | .atom "nils" => some .nilslice
  | .list [.atom "i", n] => n.int?.map .int
  | .list (.atom "a" :: vs) => (vs.mapM parseVal).map fun l => .arr (Vals.ofList l)
  | .list (.atom "s" :: vs) => (vs.mapM parseVal).map fun l => .str (Vals.ofList l)
  | _ => none

def parseI : Sexp → Option IExp
  | .list [.atom "v", x] => x.nat?.map .var
  | s => s.nat?.map .lit

def parseOptI : Sexp → Option (Option IExp)
  | .atom "_" => some none
  | s => (parseI s).map some

partial def parseL : Sexp → Option LExp
  | .list [.atom "v", x] => x.nat?.map .var
  | .list [.atom "f", l, i] => do some (.field (← parseL l) (← i.nat?))
  | .list [.atom "x", l, e] => do some (.index (← parseL l) (← parseI e))
  | .list [.atom "d", l] => do some (.deref (← parseL l))
  | _ => none

partial def parseR : Sexp → Option RExp
  | .list [.atom "lit", v] => (parseVal v).map .lit
  | .list [.atom "ld", l] => (parseL l).map .load
  | .list [.atom "add", a, k] => do some (.add (← parseR a) (← k.int?))
  | .list [.atom "adr", l] => (parseL l).map .addr
  | .list (.atom "mks" :: vs) => (vs.mapM parseVal).map fun l => .mkslice (Vals.ofList l)
  | .list [.atom "mk", z, n, c] => do some (.make (← parseVal z) (← n.nat?) (← c.nat?))
  | .list (.atom "mkm" :: es) => do
    let ents ← es.mapM fun e => match e with
      | .list [k, v] => do some (Val.str (.cons (.int (← k.int?)) (.cons (← parseVal v) .nil)))
      | _ => none
    some (.mkmap (Vals.ofList ents))
  | .list [.atom "new", v] => (parseVal v).map .new
  | .list [.atom "sl", l, lo, hi, mx] => do some (.slice (← parseL l) (← parseOptI lo) (← parseOptI hi) (← parseOptI mx))
  | .list [.atom "lk", m, k, z] => do some (.lookup (← parseL m) (← parseI k) (← parseVal z))
  | .list [.atom "len", l] => (parseL l).map .len
  | .list [.atom "cap", l] => (parseL l).map .cap
  | .list [.atom "id", a] => (parseR a).map .idcall
  | _ => none

def parseList {α} (f : Sexp → Option α) : Sexp → Option (List α)
  | .list xs => xs.mapM f
  | _ => none

def parseS : Sexp → Option SOp
  | .list [.atom "as", l, r] => do some (.assign (← parseL l) (← parseR r))
  | .list [.atom "op", l, k] => do some (.opassign (← parseL l) (← k.int?))
  | .list [.atom "def", x, r] => do some (.define (← x.nat?) (← parseR r))
  | .list [.atom "mul", ls, rs] => do some (.multi (← parseList parseL ls) (← parseList parseR rs))
  | .list [.atom "muld", xs, rd, zs, rs] => do
    some (.multidef (← parseList Sexp.nat? xs) (← parseList Sexp.bool? rd) (← parseList parseVal zs) (← parseList parseR rs))
  | .list [.atom "app", d, l, s, args, z, esz, ns] => do
    some (.append (← d.bool?) (← parseL l) (← parseR s) (← parseList parseR args) (← parseVal z) (← esz.nat?) (← ns.bool?))
  | .list [.atom "apps", d, l, s, t, z, esz, ns] => do
    some (.appendSlice (← d.bool?) (← parseL l) (← parseR s) (← parseR t) (← parseVal z) (← esz.nat?) (← ns.bool?))
  | .list [.atom "cp", d, s] => do some (.copy (← parseR d) (← parseR s))
  | .list [.atom "ms", m, k, r] => do some (.mapSet (← parseL m) (← parseI k) (← parseR r))
  | .list [.atom "md", m, k] => do some (.mapDel (← parseL m) (← parseI k))
  | .list [.atom "lk2", d, x, ok, m, k, z] => do
    some (.lookup2 (← d.bool?) (← x.nat?) (← ok.nat?) (← parseL m) (← parseI k) (← parseVal z) false false)
  | .list [.atom "lk2", d, x, ok, m, k, z, rdx, rdok] => do
    some (.lookup2 (← d.bool?) (← x.nat?) (← ok.nat?) (← parseL m) (← parseI k) (← parseVal z) (← rdx.bool?) (← rdok.bool?))
  | .list [.atom "clit", d, l, st, z, elems] => do
    let es ← parseList (fun e => match e with
      | .list [p, r] => do some ((← parseList Sexp.nat? p), (← parseR r))
      | _ => none) elems
    some (.complit (← d.bool?) (← parseL l) (← st.bool?) (← parseVal z) es)
  | .list [.atom "cnm", d, l, p, s1, k, s2, s3, z] => do
    some (.callNamed (← d.bool?) (← parseL l) (← parseL p) (← parseL s1) (← k.int?) (← parseL s2) (← parseL s3) (← parseVal z))
  | .list [.atom "rsw", d, l1, l2, v1, v2] => do
    some (.retSwap (← d.bool?) (← parseL l1) (← parseL l2) (← parseVal v1) (← parseVal v2))
  | .list [.atom "rcv", d, l, r] => do some (.recv (← d.bool?) (← parseL l) (← parseR r))
  | .list [.atom "as2", d, x, ok, r, succ, z, rdx, rdok] => do
    some (.assert2 (← d.bool?) (← x.nat?) (← ok.nat?) (← parseR r) (← succ.bool?) (← parseVal z) (← rdx.bool?) (← rdok.bool?))
  | .list [.atom "call", d, l, sel, k, a] => do
    some (.callMut (← d.bool?) (← parseL l) (← parseL sel) (← k.int?) (← parseR a))
  | .list (.atom "show" :: xs) => (xs.mapM Sexp.nat?).map .show
  | _ => none

def parseOp : Sexp → Option Op
  | .list [.atom "rng", l, i, v, body] => do some (.range (← parseL l) (← i.nat?) (← v.nat?) (← parseList parseS body))
  | .list [.atom "capt", l, x, sel, k, calls] => do
    some (.capture (← parseL l) (← x.nat?) (← parseL sel) (← k.int?) (← parseList Sexp.nat? calls))
  | s => (parseS s).map .s

def showObs (o : Obs) : String := o.status ++ "~" ++ joinWith "|" o.out

def handle (args : List Sexp) : String :=
  match args with
  | .atom "run" :: ops =>
    (match ops.mapM parseOp with
     | some ops =>
       let y := obsOf (runY Generated.C04.share goGrowth St.empty ops)
       let g := obsOf (Spec.runGo goGrowth St.empty ops)
       let shapes := (shapesOf ops).eraseDups
       s!"y={showObs y} g={showObs g} d=1 c={if shapes.isEmpty then "-" else joinWith "," shapes}"
     | none => "bad-op")
  | _ => "bad-op"

end YaegiVerif.Driver.C04
