import YaegiVerif.Common.Sexp
import YaegiVerif.Model.Const
import YaegiVerif.Model.ConstEval
import YaegiVerif.Model.ConstDecl
import YaegiVerif.Spec.GoConst
import YaegiVerif.Model.ConstClass
import YaegiVerif.Generated.C03
import YaegiVerif.Expected.C03
/- Line-protocol front end for C03 (glue, not a proof obligation).
   repr KIND INT            → y=<true|false> yx=<true|false> g=<true|false>
   decl CTX TYPE EXPR       → y=<outcome> g=<outcome> cls=<class>      CTX ∈ var const varT constT, TYPE = - or a basic type
   block (SPEC…)            → same; SPEC = (spec TYPE EXPR) | (spec -)  (implicit repetition)
   EXPR = (int N) (rune N) (flt NUM DEN) (bool 0|1) (str HEX) (iota) (un ACT X) (bin ACT X Y) (conv TYPE X) (par X) (len X)
   outcome = ok:<v>:<type>[,<v>:<type>…] | reject | crash | ?   with v = i<int> | f<num>/<den> | b<bool> | s<hex>
   y=  model run with the facts regenerated from the current source (follows a mutated source);
   yx= model of the unchanged interpreter (hand-written expected facts); cls= is computed from yx and g only, so a
   class is a property of the input and of the unchanged code, never of what the current source does.
-/
namespace YaegiVerif.Driver.C03
open YaegiVerif YaegiVerif.Const

def actOf (s : String) : Act :=
  match s with
  | "add" => .add | "sub" => .sub | "mul" => .mul | "quo" => .quo | "rem" => .rem | "and" => .and | "or" => .or
  | "xor" => .xor | "andNot" => .andNot | "shl" => .shl | "shr" => .shr | "neg" => .neg | "pos" => .pos
  | "bitNot" => .bitNot | "not" => .not | "eq" => .eq | "ne" => .ne | "lt" => .lt | "le" => .le | "gt" => .gt
  | "ge" => .ge | "land" => .land | "lor" => .lor | _ => .other

def hexVal (c : Char) : Nat :=
  if '0' ≤ c ∧ c ≤ '9' then c.toNat - '0'.toNat
  else if 'a' ≤ c ∧ c ≤ 'f' then c.toNat - 'a'.toNat + 10 else 0

def unhex : List Char → List Nat
  | a :: b :: rest => (hexVal a * 16 + hexVal b) :: unhex rest
  | _ => []

def hexDigit (n : Nat) : Char := if n < 10 then Char.ofNat (48 + n) else Char.ofNat (87 + n)
def hex (bs : List Nat) : String := String.ofList (bs.flatMap fun b => [hexDigit (b / 16), hexDigit (b % 16)])

partial def parseExpr (s : Sexp) : Option CExpr :=
  match s with
  | .list [.atom "int", v] => v.int?.map CExpr.int
  | .list [.atom "rune", v] => v.int?.map CExpr.rune
  | .list [.atom "flt", n, d] => do
      let n ← n.int?
      let d ← d.nat?
      some (CExpr.flt (Q.norm n d))
  | .list [.atom "bool", b] => b.bool?.map CExpr.bool
  | .list [.atom "str", .atom h] => some (CExpr.str (unhex (if h == "-" then [] else h.toList)))
  | .list [.atom "iota"] => some CExpr.iota
  | .list [.atom "un", .atom a, x] => (parseExpr x).map (CExpr.un (actOf a))
  | .list [.atom "bin", .atom a, x, y] => do
      let x ← parseExpr x
      let y ← parseExpr y
      some (CExpr.bin (actOf a) x y)
  | .list [.atom "conv", .atom t, x] => do
      let t ← BT.ofName? t
      let x ← parseExpr x
      some (CExpr.conv t x)
  | .list [.atom "par", x] => (parseExpr x).map CExpr.par
  | .list [.atom "len", x] => (parseExpr x).map CExpr.len
  | _ => none

def showCV : CV → String
  | .int v => s!"i{v}"
  | .flt q => s!"f{q.num}/{q.den}"
  | .bool b => s!"b{b}"
  | .str s => "s" ++ hex s
  | .unknown => "unknown"

def showOne (r : CV × BT) : String := showCV r.1 ++ ":" ++ r.2.name

def showOut : Out → String
  | .ok vs => "ok:" ++ ",".intercalate (vs.map showOne)
  | .reject => "reject"
  | .crash => "crash"
  | .rejectOrCrash => "reject|crash"
  | .unm _ => "?"

/-- outcome of the reference model for a list of declarations: any rejected one rejects the program -/
def outGo (rs : List (Res (CV × BT))) : Out :=
  if rs.any (fun r => match r with | .ok _ => false | _ => true) then .reject
  else .ok (rs.filterMap fun r => match r with | .ok v => some v | _ => none)

def facts : Facts := { repr := Generated.C03.reprFacts, eval := Generated.C03.evalFacts }
def factsX : Facts := Expected.C03.facts

def answer (y yx : Out) (g : List (Res (CV × BT))) (cls : String) : String :=
  s!"y={showOut y} yx={showOut yx} g={showOut (outGo g)} cls={cls}"

/-- class of a block: the class of the first spec that has one; the block as a whole otherwise -/
def classifyBlock (specs : List Spec) (y : Out) (g : List (Res (CV × BT))) : String :=
  let stages := blockWalkY factsX Expected.C03.declFacts { iota := 0, first := true, prev := none } specs
  let resolved := Spec.resolveGo none specs
  let rec go (i : Nat) (st : List Stage) (rs : List (Option (Option BT × CExpr)))
      (gs : List (Res (CV × BT))) : String :=
    match st, rs, gs with
    | s :: st', some (t, e) :: rs', g1 :: gs' =>
      let c := Class.classifyDecl factsX .const i t e (combineY [s]) g1
      if c != "-" then c else go (i + 1) st' rs' gs'
    | _ :: st', none :: rs', _ :: gs' => go (i + 1) st' rs' gs'
    | _, _, _ => "block-interplay"
  /- every class label of the block, spec by spec -/
  let rec labels (i : Nat) (st : List Stage) (rs : List (Option (Option BT × CExpr)))
      (gs : List (Res (CV × BT))) : List String :=
    match st, rs, gs with
    | s :: st', some (t, e) :: rs', g1 :: gs' =>
      Class.classifyDecl factsX .const i t e (combineY [s]) g1 :: labels (i + 1) st' rs' gs'
    | _ :: st', none :: rs', _ :: gs' => labels (i + 1) st' rs' gs'
    | _, _, _ => []
  let ys := showOut y
  let gs := showOut (outGo g)
  if ys == gs then "-"
  else if ys == "reject|crash" && gs == "reject" then
    -- rejected by the first walk and by Go: in the domain, unless some spec is one on which a walk panics
    (match (labels 0 stages resolved g).find? (fun c => c == "node-panic") with
     | some c => c
     | none => "-")
  else
    let c := go 0 stages resolved g
    if c != "block-interplay" then c
    else match y with
      | .unm w => "unmodelled:" ++ w
      | _ => c

def parseType (s : Sexp) : Option (Option BT) :=
  match s with
  | .atom "-" => some none
  | .atom t => (BT.ofName? t).map some
  | _ => none

def parseSpec (s : Sexp) : Option Spec :=
  match s with
  | .list [.atom "spec", _] => some .implicit
  | .list [.atom "spec", t, e] => do
      let t ← parseType t
      let e ← parseExpr e
      some (.explicit t e)
  | _ => none

def handle (args : List Sexp) : String :=
  match args with
  | [.atom "repr", .atom kind, v] =>
    (match IKind.ofName? kind, v.int? with
     | some k, some v =>
       s!"y={reprY Generated.C03.reprFacts k v} yx={reprY Expected.C03.reprFacts k v} g={Spec.reprGo k v}"
     | _, _ => "bad-op")
  | [.atom "decl", .atom ctx, t, e] =>
    (match parseType t, parseExpr e with
     | some t, some e =>
       let g := Spec.declGo 0 t e
       let isVar := ctx == "var" || ctx == "varT"
       let y := if isVar then outOfRes (varDeclY facts t e) else constDeclY facts t e
       let yx := if isVar then outOfRes (varDeclY factsX t e) else constDeclY factsX t e
       answer y yx [g] (Class.classifyDecl factsX (if isVar then .var else .const) 0 t e yx g)
     | _, _ => "bad-op")
  | [.atom "block", .list specs] =>
    (match specs.mapM parseSpec with
     | some ss =>
       let y := blockY facts Generated.C03.declFacts ss
       let yx := blockY factsX Expected.C03.declFacts ss
       let g := Spec.blockGo ss
       answer y yx g (classifyBlock ss yx g)
     | none => "bad-op")
  | _ => "bad-op"

end YaegiVerif.Driver.C03
