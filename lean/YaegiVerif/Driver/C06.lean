import YaegiVerif.Common.Sexp
import YaegiVerif.Model.Unwind
import YaegiVerif.Spec.GoDefer
import YaegiVerif.Generated.C06
import YaegiVerif.Proofs.C06Dom
/- Line-protocol front end for C06 (glue, not a proof obligation).
     unwind FUEL BODY      → y=<outcome> g=<outcome> d=<1 iff BODY is in the domain of the refinement theorem>
   BODY  = (STMT …)
   STMT  = (print s) | (printarg) | (call BODY ARG show) | (defer BODY ARG) | (defervar BODY ARG) | (deferbin s ARG) | (deferbinv s (n …))
         | (deferdel t) | (deferpanic VAL) | (probe t) | (panic VAL) | (recover show) | (recoveris VAL) | (repanic)
         | (setres n) | (setouter n)
   ARG   = (lit n) | param | res
   VAL   = (str s) | (int n) | (err s) | (fault kind) | (nil ptr|map|slice|func|chan)
   outcome = <status>~<reusable>~<line>|<line>|…   (spaces inside a line are written `_`)
   status  = ok | panic:<printed value>:<dynamic type the host sees> | panic:? | crash | hang | fuel -/
namespace YaegiVerif.Driver.C06
open YaegiVerif YaegiVerif.Unwind

def parseFault : String → Option FaultKind
  | "nilMap" => some .nilMap | "index" => some .index | "sliceBounds" => some .sliceBounds
  | "nilDeref" => some .nilDeref | "divZero" => some .divZero | "typeAssert" => some .typeAssert
  | "closeClosed" => some .closeClosed | _ => none

def showFault : FaultKind → String
  | .nilMap => "nilMap" | .index => "index" | .sliceBounds => "sliceBounds" | .nilDeref => "nilDeref"
  | .divZero => "divZero" | .typeAssert => "typeAssert" | .closeClosed => "closeClosed"

def parseVal : Sexp → Option Val
  | .list [.atom "str", .atom s] => some (.str s)
  | .list [.atom "int", n] => n.int?.map .int
  | .list [.atom "err", .atom s] => some (.err s)
  | .list [.atom "fault", .atom k] => (parseFault k).map .fault
  | .list [.atom "nil", .atom "ptr"] => some (.tnil .ptr)
  | .list [.atom "nil", .atom "map"] => some (.tnil .map)
  | .list [.atom "nil", .atom "slice"] => some (.tnil .slice)
  | .list [.atom "nil", .atom "func"] => some (.tnil .func)
  | .list [.atom "nil", .atom "chan"] => some (.tnil .chan)
  | _ => none

def parseArg : Sexp → Option Arg
  | .list [.atom "lit", n] => n.int?.map .lit
  | .atom "param" => some .param
  | .atom "res" => some .res
  | _ => none

mutual
  partial def parseBody (s : Sexp) : Option Code :=
    match s with
    | .list xs => parseStmts xs
    | _ => none
  partial def parseStmts (xs : List Sexp) : Option Code :=
    match xs with
    | [] => some .done
    | x :: rest => do
      let k ← parseStmts rest
      match x with
      | .list [.atom "print", .atom s] => some (.print s k)
      | .list [.atom "printarg"] => some (.printArg k)
      | .list [.atom "call", b, a, sh] => do
        let f ← parseBody b; let a ← parseArg a; let sh ← sh.bool?
        some (.call f a sh k)
      | .list [.atom "defer", b, a] => do
        let f ← parseBody b; let a ← parseArg a
        some (.defer f a k)
      | .list [.atom "defervar", b, a] => do
        let f ← parseBody b; let a ← parseArg a
        some (.deferVar f a k)
      | .list [.atom "deferpanic", v] => do
        let v ← parseVal v
        some (.deferPanic v k)
      | .list [.atom "recoveris", v] => do
        let v ← parseVal v
        some (.recoverIs v k)
      | .list [.atom "deferbinv", .atom s, .list ns] => do
        let ns ← ns.mapM (·.int?)
        some (.deferBinSpread s ns k)
      | .list [.atom "deferbin", .atom s, a] => do
        let a ← parseArg a
        some (.deferBin s a k)
      | .list [.atom "deferdel", t] => do
        let t ← t.nat?
        some (.deferDel t k)
      | .list [.atom "probe", t] => do
        let t ← t.nat?
        some (.probe t k)
      | .list [.atom "panic", v] => do
        let v ← parseVal v
        some (.panic v k)
      | .list [.atom "recover", sh] => do
        let sh ← sh.bool?
        some (.recover sh k)
      | .list [.atom "repanic"] => some (.repanic k)
      | .list [.atom "setres", n] => do
        let n ← n.int?
        some (.setRes n k)
      | .list [.atom "setouter", n] => do
        let n ← n.int?
        some (.setOuter n k)
      | _ => none
end

/-- how fmt prints the value. `re v` is a reflect.Value holding v: fmt prints what it holds; a reflect.Value held
    by a reflect.Value prints through Value.String() (`<T Value>` unless it holds a string) -/
def showNil : NilKind → String
  | .map => "map[]" | .slice => "[]" | _ => "<nil>"

def showVal : Val → String
  | .str s => s | .int n => toString n | .err s => s | .fault k => "fault:" ++ showFault k
  | .tnil k => showNil k | .re (.tnil k) => showNil k
  | .re (.re (.tnil .map)) => "<map[string]int_Value>"
  | .re (.re (.tnil .slice)) => "<[]string_Value>"
  | .re (.re (.tnil .ptr)) => "<*int_Value>"
  | .re (.re (.tnil .func)) => "<func()_Value>"
  | .re (.re (.tnil .chan)) => "<chan_int_Value>"
  | .re (.str s) => s | .re (.int n) => toString n | .re (.err s) => s | .re (.fault k) => "fault:" ++ showFault k
  | .re (.re (.str s)) => s
  | .re (.re (.int _)) => "<int_Value>"
  | .re (.re (.err _)) => "<error_Value>"
  | .re (.re (.fault _)) => "<interface_{}_Value>"
  | .re (.re (.re _)) => "<interface_{}_Value>"

/-- the dynamic type of interp.Panic.Value as the host sees it (run-time faults: not modelled, F06-5) -/
def typeTag : Val → String
  | .str _ => "string" | .int _ => "int" | .err _ => "error" | .fault _ => "fault"
  | .tnil .ptr => "*int" | .tnil .map => "map[string]int" | .tnil .slice => "[]string" | .tnil .func => "func()"
  | .tnil .chan => "chan_int"
  | .re (.fault _) => "fault"       -- printed as a fault: the harness observes faults as kinds only
  | .re _ => "reflect.Value"

def showEvent : Event → String
  | .print s => s
  | .arg n => "a_" ++ toString n
  | .ret n => "ret_" ++ toString n
  | .recd none => "rec_<nil>|<nil>"                               -- fmt.Printf("rec %v |%T\n", x, x)
  | .recd (some v) => "rec_" ++ showVal v ++ "|" ++ typeTag v
  | .bin s n => s ++ "_" ++ toString n
  | .probe t p => "probe_" ++ toString t ++ "_" ++ toString p
  | .recIs b => "is_" ++ toString b
  | .bins s ns sp =>
    let body := "_".intercalate (s :: ns.map toString)
    if sp then body else "[" ++ body ++ "]"

def showStatus : Status → String
  | .ok => "ok" | .panicErr (some v) => "panic:" ++ showVal v ++ ":" ++ typeTag v | .panicErr none => "panic:?"
  | .crash => "crash" | .hang => "hang" | .fuel => "fuel"

def showOutcome (o : Outcome) : String :=
  showStatus o.status ++ "~" ++ (if o.reusable then "1" else "0") ++ "~" ++ "|".intercalate (o.out.map showEvent)

def handle (args : List Sexp) : String :=
  match args with
  | [.atom "unwind", fuel, body] =>
    (match fuel.nat?, parseBody body with
     | some n, some c =>
       s!"y={showOutcome (runY Generated.C06.facts n c)} g={showOutcome (Spec.run n c)} d={if Dom c then "1" else "0"}"
     | _, _ => "bad-op")
  | _ => "bad-op"

end YaegiVerif.Driver.C06
