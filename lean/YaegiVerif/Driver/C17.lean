import YaegiVerif.Common.Sexp
import YaegiVerif.Model.Build
import YaegiVerif.Spec.GoBuild
import YaegiVerif.Generated.C17
/- Line-protocol front end for C17 (glue, not a proof obligation).
   skip CTX "name" skipTest        → y=<skip|keep> g=<sel|not>
   hdr  CTX lastBlank GROUP…       → y=<ok:true|ok:false|panic> g=<yes|no|err>
   CTX   = (goos goarch minor (tags…) cgo compiler)
   GROUP = (g (l "text after //") (b "text inside /* */") …) -/
namespace YaegiVerif.Driver.C17
open YaegiVerif YaegiVerif.Build

def parseCtx (s : Sexp) : Option Ctx :=
  match s with
  | .list [.atom goos, .atom goarch, minor, tags, cgo, .atom comp] => do
    let m ← minor.nat?
    let ts ← tags.atoms?
    let cg ← cgo.bool?
    some { goos, goarch, minor := m, tags := ts, cgo := cg, compiler := comp }
  | _ => none

def parseComment (s : Sexp) : Option Comment :=
  match s with
  | .list [.atom "l", .atom t] => some ⟨true, t.toList⟩
  | .list [.atom "b", .atom t] => some ⟨false, t.toList⟩
  | _ => none

def parseGroup (s : Sexp) : Option (List Comment) :=
  match s with
  | .list (.atom "g" :: cs) => cs.mapM parseComment
  | _ => none

def showR : R → String
  | .ok true => "ok:true" | .ok false => "ok:false" | .panic => "panic" | .err => "err"
def showSel : Spec.Sel → String
  | .yes => "yes" | .no => "no" | .err => "err"

def handle (args : List Sexp) : String :=
  match args with
  | [.atom "skip", ctx, .atom name, st] =>
    (match parseCtx ctx, st.bool? with
     | some c, some st =>
       let y := skipFileRaw Generated.C17.known c name.toList st
       let g := Spec.nameOkRaw c name.toList st
       s!"y={if y then "skip" else "keep"} g={if g then "sel" else "not"}"
     | _, _ => "bad-op")
  | .atom "hdr" :: ctx :: lb :: groups =>
    (match parseCtx ctx, lb.bool?, groups.mapM parseGroup with
     | some c, some lb, some gs =>
       s!"y={showR (buildOkRaw c gs)} g={showSel (Spec.shouldBuildRaw c gs lb)}"
     | _, _, _ => "bad-op")
  | _ => "bad-op"

end YaegiVerif.Driver.C17
