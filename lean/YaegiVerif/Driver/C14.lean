import YaegiVerif.Common.Sexp
import YaegiVerif.Common.Str
import YaegiVerif.Model.Bind
import YaegiVerif.Expected.C14
/- Line-protocol front end for C14 (glue, not a proof obligation).
   chk PKG (KEY FORM QUAL SEL TOK VAL) (NAME KIND CK VAL SKIP)
        → n=<0|1> f=<0|1> v=<0|1> r=<0|1> c=<0|1>   nameOk, formOk, valueOk of Model/Bind.lean on this pair (with
                                              the expected replacement table), whether the name is accepted as a
                                              documented replacement, membership in the class float-const-rounded
        v: the literal is what the model of fixConst (`asBuilt`) yields for the reference value; x: it is the exact value
   round VAL → a=<VAL>   the value of the literal fixConst emits for a constant of that value (`asBuilt`)
   code TEXT → the code of a name (decimal)
   VAL  = none | int:<decimal> | rat:<num>/<den> | str:<text> | bool:<true|false>
   texts are atoms (quoted when needed); QUAL is the import path or "" -/
namespace YaegiVerif.Driver.C14
open YaegiVerif YaegiVerif.Bind

def codeOf (s : String) : Nat := encBytes (s.toUTF8.toList.map (·.toNat))

def parseForm : String → Form
  | "value" => .value | "addr" => .addr | "typ" => .typ | "lit" => .lit | "wrap" => .wrap | _ => .other

def parseTok : String → Tok
  | "" => .none | "INT" => .int | "FLOAT" => .float | "STRING" => .string | "CHAR" => .char | "IMAG" => .imag | _ => .other

def parseKind : String → Option Kind
  | "func" => some .func | "var" => some .var | "type" => some .type | "const" => some .const | "builtin" => some .builtin | _ => none

def parseCK : String → CKind
  | "typed" => .typed | "int" => .int | "rune" => .rune | "float" => .float | "string" => .string | "bool" => .bool | "complex" => .complex | _ => .na

def signed (cs : List Char) : Option (Bool × Nat) :=
  match cs with
  | '-' :: ds => (String.ofList ds).toNat?.map fun n => (true, n)
  | ds => (String.ofList ds).toNat?.map fun n => (false, n)

def parseVal (s : String) : CVal :=
  let cs := s.toList
  if Str.hasPrefix "int:".toList cs then
    match signed (cs.drop 4) with
    | some (neg, n) => .int neg n
    | none => .none
  else if Str.hasPrefix "rat:".toList cs then
    match Str.splitOn '/' (cs.drop 4) with
    | [a, b] =>
      (match signed a, (String.ofList b).toNat? with
       | some (neg, n), some d => .rat neg n d
       | _, _ => .none)
    | _ => .none
  else if Str.hasPrefix "str:".toList cs then .str (codeOf (String.ofList (cs.drop 4)))
  else if s == "bool:true" then .bool true
  else if s == "bool:false" then .bool false
  else .none

def showVal : CVal → String
  | .none => "none"
  | .int neg n => s!"int:{if neg then "-" else ""}{n}"
  | .rat neg n d => s!"rat:{if neg then "-" else ""}{n}/{d}"
  | .str c => s!"strcode:{c}"
  | .bool b => s!"bool:{b}"

def qualCode (s : String) : Nat := if s.isEmpty then 0 else codeOf s

def b01 (b : Bool) : String := if b then "1" else "0"

def handle (args : List Sexp) : String :=
  match args with
  | [.atom "chk", .atom pkg, .list [.atom key, .atom form, .atom qual, .atom sel, .atom tok, .atom val],
      .list [.atom name, .atom kind, .atom ck, .atom rval, skip]] =>
    (match parseKind kind, skip.bool? with
     | some k, some sk =>
       let e : Entry := ⟨codeOf key, parseForm form, qualCode qual, if sel.isEmpty then 0 else codeOf sel, parseTok tok, parseVal val⟩
       let o : RefObj := ⟨codeOf name, k, parseCK ck, parseVal rval, sk, false⟩
       let p := codeOf pkg
       s!"n={b01 (nameOk Expected.C14.repls p e)} f={b01 (if e.form == .wrap then k == .type && !sk && decBytes e.key == 95 :: decBytes o.name else e.key == o.name && formOkAsBuilt e o)} v={b01 (if e.form == .lit then e.val != .none && e.val == asBuilt o.val else true)} x={b01 (valueOk e o)} r={b01 (replOk Expected.C14.repls p e)} c={b01 (inClass Expected.C14.floatRounded p e.key)}"
     | _, _ => "bad-op")
  | [.atom "round", .atom v] => s!"a={showVal (asBuilt (parseVal v))}"
  | [.atom "code", .atom t] => s!"{codeOf t}"
  | _ => "bad-op"

end YaegiVerif.Driver.C14
