import YaegiVerif.Common.Sexp
/- Line-protocol front end for C14 (glue). Placeholder until the property's model exists. -/
namespace YaegiVerif.Driver.C14
open YaegiVerif
def handle (_args : List Sexp) : String := "unimplemented"
end YaegiVerif.Driver.C14
