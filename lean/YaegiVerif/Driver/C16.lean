import YaegiVerif.Common.Sexp
import YaegiVerif.Common.Str
import YaegiVerif.Model.Src
import YaegiVerif.Spec.GoImport
import YaegiVerif.Generated.C16
/- Line-protocol front end for C16 (glue, not a proof obligation).
   eff  "root" "path"                       → y=<string>
   prev FS "rootPath" "root"                → y=ok:<string> | y=err
   pkgdir FS "gopath" "root" "path"         → y=found:<dir>:<rpath> | notfound | err | fuel          (pkgDir alone)
   gopkgdir FS "gopath" "root" "path"       → y=… (what importSrc calls: goPkgDir)   g=<dir> | none   (the Go rule)
   mainroot "wd" "name" "gopath" "rpath"    → y=<string>
   relpath "base" "path"                    → y=<string>
   imports FS "gopath" "wd" "name" (PKG…) "maindir" gta|direct (import…) (go-import…)
                                            → y=ok:<dir,dir,…> | cycle:<path> | notfound:<path> | notallowed:<path> |
                                                notingopath | err | fuel
                                              g=ok:<dir,…> | cycle | notfound:<path> | notallowed
   gta|direct: the imports are those of a main file (they pass through gta) or arguments of EvalPath
   FS  = (mapfs|disk (dirs…) (files…))
   PKG = ("dir" "import"…)     imports of the package in that directory, in source order
   Strings are Go path strings; the model works on their split form. -/
namespace YaegiVerif.Driver.C16
open YaegiVerif YaegiVerif.Src

def parseP (s : String) : Path := (Str.splitOn '/' s.toList).map String.ofList
def renderP (p : Path) : String := "/".intercalate p
def q (s : String) : String := Sexp.quote s

def parseFS (s : Sexp) : Option FS :=
  match s with
  | .list [.atom k, ds, fs] => do
    let ds ← ds.atoms?
    let fs ← fs.atoms?
    some { dirs := ds.map parseP, files := fs.map parseP, mapfs := k == "mapfs" }
  | _ => none

def words : Words := Generated.C16.words
def book : Book := bookOf Generated.C16.importOrder

def showPrev : PrevR → String
  | .ok p => "ok:" ++ q (renderP p)
  | .err => "err"

def showDir : DirR → String
  | .found d r => "found:" ++ q (renderP d) ++ ":" ++ q (renderP r)
  | .notFound => "notfound"
  | .err => "err"
  | .fuel => "fuel"

/-- elements below GOPATH/src of a relative root string ("" ↦ []) -/
def relElems (p : Path) : List String := if isEmptyS p then [] else p

def parsePkgs (xs : List Sexp) : Option (List (String × List String)) :=
  xs.mapM fun x => match x.atoms? with
    | some (d :: imps) => some (d, imps)
    | _ => none

/-- Go: resolution of an import from the importing directory `d` (a path string in split form) -/
def goResolve (f : FS) (gs : Path) (d : Path) (path : String) : Option Path :=
  let P := parseP path
  if isPathRelative P then some (join [d, P])
  else if P.dropLast.contains "vendor" then none
  else if gs.isPrefixOf d && d.length > gs.length then Spec.resolve f gs (d.drop gs.length) P
  else if Spec.isDir f (gs ++ P) then some (gs ++ P) else none

/-- the Go side of a whole program: depth-first over the import graph keyed by *directory*,
    each directory once, a directory met again while in progress is a cycle -/
partial def goImports (f : FS) (gs : Path) (pkgs : List (String × List String))
    (done prog : List String) (importer : Path) (path : String) :
    Except String (List String × List String) :=
  match goResolve f gs importer path with
  | none => .error (if (parseP path).dropLast.contains "vendor" && !isPathRelative (parseP path) then "notallowed" else "notfound:" ++ q path)
  | some d =>
    let ds := renderP d
    if done.contains ds then .ok (done, [])
    else if prog.contains ds then .error "cycle"
    else
      match pkgs.lookup ds with
      | none => .error ("notfound:" ++ q path)
      | some imps =>
        let rec go (done : List String) (tr : List String) : List String → Except String (List String × List String)
          | [] => .ok (done, tr)
          | i :: rest => match goImports f gs pkgs done (ds :: prog) d i with
            | .error e => .error e
            | .ok (done, t) => go done (tr ++ t) rest
        match go done [] imps with
        | .error e => .error e
        | .ok (done, tr) => .ok (ds :: done, tr ++ [ds])

/-- a package as importSrc sees it: its directory and the relative root its imports are resolved from -/
def tok (d sub : String) : String := d ++ "\t" ++ sub
def untok (t : String) : String × String :=
  match Str.splitOn '\t' t.toList with
  | [d, s] => (String.ofList d, String.ofList s)
  | _ => (t, "")

/-- gta's rewriting of one import path of a package of relative root `sub` -/
def gtaKey (sub i : String) : String :=
  let (_, i') := gtaRel words (parseP sub) (parseP i)
  renderP (if Generated.C16.gtaCollapse then gtaImportPath i' else i')

def handle (args : List Sexp) : String :=
  match args with
  | [.atom "eff", .atom root, .atom path] =>
    "y=" ++ q (renderP (effectivePkg (parseP root) (parseP path)))
  | [.atom "prev", fs, .atom rootPath, .atom root] =>
    (match parseFS fs with
     | some f => "y=" ++ showPrev (previousRoot words f (parseP rootPath) (parseP root))
     | none => "bad-op")
  | [.atom "pkgdir", fs, .atom gopath, .atom root, .atom path] =>
    (match parseFS fs with
     | some f =>
       let r := parseP root
       "y=" ++ showDir (pkgDir words f (parseP gopath) (defaultFuel r) r (parseP path))
     | none => "bad-op")
  | [.atom "gopkgdir", fs, .atom gopath, .atom root, .atom path] =>
    (match parseFS fs with
     | some f =>
       let gp := parseP gopath
       let r := parseP root
       let y := lookup words f gp r (parseP path)
       let gs := join [gp, ["src"]]
       -- the Go rule: an importer that is not below GOPATH/src (written ".." in this protocol, whatever the
       -- source calls it) sees no vendor directory
       let g := if r == [".."] then (if Spec.isDir f (gs ++ parseP path) then some (gs ++ parseP path) else none)
                else Spec.resolve f gs (relElems r) (parseP path)
       "y=" ++ showDir y ++ " g=" ++ (match g with | some d => q (renderP d) | none => "none")
     | none => "bad-op")
  | [.atom "mainroot", .atom wd, .atom name, .atom gopath, .atom rpath] =>
    "y=" ++ q (renderP (mainRoot words (parseP wd) (parseP name) (parseP gopath) (parseP rpath)))
  | [.atom "relpath", .atom b, .atom p] =>
    "y=" ++ q (renderP (relativePath (parseP b) (parseP p)))
  | [.atom "imports", fs, .atom gopath, .atom wd, .atom name, .list pkgs, .atom maindir, .atom via, imps, gimps] =>
    (match parseFS fs, parsePkgs pkgs, imps.atoms?, gimps.atoms? with
     | some f, some pk, some imps, some gimps =>
       let gp := parseP gopath
       let gs := join [gp, ["src"]]
       let res : Resolver := fun rp ip =>
         -- gta hands a relative import path over with the root `main`
         let rp' := if words.relKey && isPathRelative (parseP ip) then [words.mainID] else parseP rp
         match resolveImport words f gp (parseP wd) (parseP name) rp' (parseP ip) with
         | .found d r' => .ok (tok (renderP d) (renderP (subRPath words r' (parseP ip))), renderP r')
         | .notFound => .error (.notFound ip)
         | .notAllowed => .error (.notAllowed ip)
         | .notInGopath => .error .notInGopath
         | .err => .error .other
         | .fuel => .error .fuel
       let hasGo := fun t => (pk.lookup (untok t).1).isSome
       let importsOf := fun t => ((pk.lookup (untok t).1).getD []).map (gtaKey (untok t).2)
       let imps := if via == "gta" then imps.map (gtaKey words.mainID) else imps
       let sub := fun rp ip => renderP (subRPath words (parseP rp) (parseP ip))
       let st0 : ImpState := { srcPkg := [], rdir := [] }
       let y := match importAllWith (fun s i => importSrc book res hasGo importsOf sub (2 * pk.length + 8) s words.mainID i) st0 imps with
         | .ok (_, tr) => "ok:" ++ q (",".intercalate (tr.map (fun e => (untok e.2).1)))
         | .error (.cycle p) => "cycle:" ++ q p
         | .error (.notFound p) => "notfound:" ++ q p
         | .error (.noGoFiles d) => "notfound:" ++ q (untok d).1
         | .error (.notAllowed p) => "notallowed:" ++ q p
         | .error .notInGopath => "notingopath"
         | .error .other => "err"
         | .error .fuel => "fuel"
       let md := parseP maindir
       let rec goAll (done tr : List String) : List String → String
         | [] => "ok:" ++ q (",".intercalate tr)
         | i :: rest => match goImports f gs pk done [] md i with
           | .error e => e
           | .ok (done, t) => goAll done (tr ++ t) rest
       "y=" ++ y ++ " g=" ++ goAll [] [] gimps
     | _, _, _, _ => "bad-op")
  | _ => "bad-op"

end YaegiVerif.Driver.C16
