import YaegiVerif.Common.Sexp
import YaegiVerif.Model.Debug
import YaegiVerif.Generated.C19
import YaegiVerif.Expected.C19
/- Line-protocol front end for C19 (glue, not a proof obligation).

   run GRAPH TRAMP BPS CMDS TAPE
     GRAPH = (g (code clo fwd tnext fnext line posValid isNop parent (children…) func start kind) …)   node i = i-th entry;
             code/clo: identity of the code / of the closure object of n.exec; fwd: identity of n.debug.forward (0 none);
             -1 = none; func = - for none
     TRAMP = code of the forwarding closures of setExec
     BPS   = (b (l 9) (f name) …)
     CMDS  = (c c e i o u p t …)     continue, step entry/into/over/out/other, terminate; the first starts the session
     TAPE  = (t (c s) (n k tramp) (z) (p) …)   what the closures did, in order: call runCfg on node s, hand over
             to the closure of node k (through a forwarding closure or not), return nil, panic
   → marks=i.i.i cmarks=i.i valid=1.0.… gmarks=i.i.i y=EVENTS g=EVENTS out=halt0|halt1|run left=N steps=N idsep=0|1 sep=0|1
     resp=ok|unrecorded|nonedge
     marks / cmarks: nodes with breakOnLine / breakOnCall after SetBreakpoints, per the extracted facts (sorted); valid: Valid of
     the line requests, in order; gmarks: the line marks per the expected facts; y: events of the model of yaegi's debugger;
     g: events of the reference debugger (expected facts, told the executing node); EVENTS = reason:line:step,… (- if none); left: tape items not consumed; steps: closures executed;
     idsep: idSeparates; sep: codeSeparates (domain of the unchanged code); resp: the tape follows the edges of the
     graph (hypothesis Respects), unrecorded = through a forwarding closure that is not recorded on its node -/
namespace YaegiVerif.Driver.C19
open YaegiVerif YaegiVerif.Debug

inductive Item | call (s : Nat) | next (k : Nat) (tramp : Bool) | nil | panic

def optNat (s : Sexp) : Option (Option Nat) :=
  match s.int? with
  | some i => if i < 0 then some none else some (some i.toNat)
  | none => none

def parseNode (s : Sexp) : Option Node :=
  match s with
  | .list [code, clo, fwd, t, f, line, pv, nop, parent, .list ch, .atom fn, start, .atom kind] => do
    let code ← code.nat?
    let clo ← clo.nat?
    let fwd ← fwd.nat?
    let t ← optNat t
    let f ← optNat f
    let line ← line.nat?
    let pv ← pv.bool?
    let nop ← nop.bool?
    let parent ← optNat parent
    let ch ← ch.mapM Sexp.nat?
    let start ← optNat start
    some { code, clo, fwd, tnext := t, fnext := f, line, posValid := pv, isNop := nop, parent, children := ch,
           func := if fn == "-" then none else some fn, start, kind }
  | _ => none

def parseBp (s : Sexp) : Option BpReq :=
  match s with
  | .list [.atom "l", l] => l.nat?.map .line
  | .list [.atom "f", .atom n] => some (.func n)
  | _ => none

def parseCmd (s : Sexp) : Option Cmd :=
  match s with
  | .atom "c" => some .cont
  | .atom "e" => some (.step .entry)
  | .atom "i" => some (.step .into)
  | .atom "o" => some (.step .over)
  | .atom "u" => some (.step .out)
  | .atom "p" => some (.step .other)
  | .atom "t" => some .terminate
  | _ => none

def parseItem (s : Sexp) : Option Item :=
  match s with
  | .list [.atom "c", k] => k.nat?.map .call
  | .list [.atom "n", k, tr] => do some (.next (← k.nat?) (← tr.bool?))
  | .list [.atom "z"] => some .nil
  | .list [.atom "p"] => some .panic
  | _ => none

/-- identity of a forwarding closure that no node records (it differs from every pointer) -/
def ghostId : Nat := 1

/-- the forwarding closure through which node `k` is reached on a back edge -/
def trampClo (g : Graph) (tramp k : Nat) : Clo := ⟨k, tramp, if g.fwd k = 0 then ghostId else g.fwd k⟩

/-- the closures do what the tape says -/
def oracle (g : Graph) (tramp : Nat) : Prog (List Item) :=
  ⟨fun st _ _ =>
    match st with
    | [] => ([], .next none)
    | .call s :: rest => (rest, .call s (entryClo g s))
    | .next k tr :: rest => (rest, .next (some (if tr then trampClo g tramp k else nodeClo g k)))
    | .nil :: rest => (rest, .next none)
    | .panic :: rest => (rest, .panic)⟩

def reasonName : Reason → String
  | .pause => "pause" | .brk => "brk" | .entry => "entry" | .into => "into" | .over => "over" | .out => "out"
  | .terminate => "terminate" | .enterG => "enterG" | .exitG => "exitG"

def showEvents (g : Graph) (es : List Event) : String :=
  if es.isEmpty then "-" else
  ",".intercalate (es.reverse.map fun e =>
    let line := match e.node with | some i => g.line i | none => 0
    s!"{reasonName e.reason}:{line}:{e.step}")

/-- does the tape follow the edges of the graph (the hypothesis `Respects` on this run)? -/
def respects (g : Graph) : List Item → List Nat → String
  | [], _ => "ok"
  | .call s :: rest, stack => if g.code s = 0 then respects g rest stack else respects g rest (s :: stack)
  | .next k tr :: rest, i :: stack =>
    if g.code k ≠ 0 ∧ (g.tnext i = some k ∨ g.fnext i = some k) then
      (if tr ∧ g.fwd k = 0 then "unrecorded" else respects g rest (k :: stack))
    else "nonedge"
  | .next _ _ :: _, [] => "nonedge"
  | .nil :: rest, _ :: stack => respects g rest stack
  | .nil :: _, [] => "ok"
  | .panic :: _, _ => "ok"

def insertSorted (x : Nat) : List Nat → List Nat
  | [] => [x]
  | y :: ys => if x < y then x :: y :: ys else if x = y then y :: ys else y :: insertSorted x ys

def showOut : Ctl → String
  | .halt false => "halt0" | .halt true => "halt1" | _ => "run"

def handle (args : List Sexp) : String :=
  match args with
  | [.atom "run", .list (.atom "g" :: nodes), tramp, .list (.atom "b" :: bps), .list (.atom "c" :: cmds),
     .list (.atom "t" :: tape)] =>
    (match nodes.mapM parseNode, tramp.nat?, bps.mapM parseBp, cmds.mapM parseCmd, tape.mapM parseItem with
     | some nodes, some tramp, some bps, some cmds, some tape =>
       let g : Graph := nodes.toArray
       let F := LoopFacts.ofRaw Generated.C19.facts
       let E := LoopFacts.ofRaw Expected.C19.facts
       let marks := placeLine F g 0 bps
       let cmarks := placeCall g 0 bps
       let gmarks := placeLine E g 0 bps
       let P := oracle g tramp
       let fuel := 2 * tape.length + 8
       let y := drun ⟨F, g, fun i => marks.contains i, fun i => cmarks.contains i, false⟩ P fuel (DCfg.init tape cmds)
       -- the reference debugger is the specification: it does not follow the source
       let r := drun ⟨E, g, fun i => gmarks.contains i, fun i => cmarks.contains i, true⟩ P fuel (DCfg.init tape cmds)
       let showSet := fun (l : List Nat) =>
         let ms := l.foldl (fun acc x => insertSorted x acc) []
         if ms.isEmpty then "-" else ".".intercalate (ms.map toString)
       let valid := (reqLines bps).map fun l => if lineValid g marks l then "1" else "0"
       let validS := if valid.isEmpty then "-" else ".".intercalate valid
       s!"marks={showSet marks} cmarks={showSet cmarks} valid={validS} gmarks={showSet gmarks} y={showEvents g y.events} g={showEvents g r.events} out={showOut y.ctl} left={y.st.length} steps={y.trace.length} idsep={if idSeparates g then 1 else 0} sep={if codeSeparates g then 1 else 0} resp={respects g tape []}"
     | _, _, _, _, _ => "bad-op")
  | _ => "bad-op"

end YaegiVerif.Driver.C19
