/-
  Line protocol shared by every property: one S-expression per line.
  atom  ::= bare token (no whitespace, parens or quotes) | "quoted with \\ \" \n \t \xHH escapes"
  This file is glue (parsing / printing); nothing here is a proof obligation.
-/
namespace YaegiVerif

inductive Sexp where
  | atom (s : String)
  | list (xs : List Sexp)
  deriving Repr, Inhabited, BEq

namespace Sexp

private def hexVal (c : Char) : Nat :=
  if '0' ≤ c ∧ c ≤ '9' then c.toNat - '0'.toNat
  else if 'a' ≤ c ∧ c ≤ 'f' then c.toNat - 'a'.toNat + 10
  else if 'A' ≤ c ∧ c ≤ 'F' then c.toNat - 'A'.toNat + 10 else 0

/-- read a quoted atom; input starts after the opening quote -/
private partial def readQuoted (cs : List Char) (acc : List Char) : Option (String × List Char) :=
  match cs with
  | [] => none
  | '"' :: rest => some (String.ofList acc.reverse, rest)
  | '\\' :: 'n' :: rest => readQuoted rest ('\n' :: acc)
  | '\\' :: 't' :: rest => readQuoted rest ('\t' :: acc)
  | '\\' :: 'x' :: a :: b :: rest => readQuoted rest (Char.ofNat (hexVal a * 16 + hexVal b) :: acc)
  | '\\' :: c :: rest => readQuoted rest (c :: acc)
  | c :: rest => readQuoted rest (c :: acc)

private def isDelim (c : Char) : Bool := c == ' ' || c == '(' || c == ')' || c == '"' || c == '\n' || c == '\t' || c == '\r'

private partial def readBare (cs : List Char) (acc : List Char) : String × List Char :=
  match cs with
  | [] => (String.ofList acc.reverse, [])
  | c :: rest => if isDelim c then (String.ofList acc.reverse, cs) else readBare rest (c :: acc)

mutual
  private partial def parseOne (cs : List Char) : Option (Sexp × List Char) :=
    match cs with
    | [] => none
    | c :: rest =>
      if c == ' ' || c == '\n' || c == '\t' || c == '\r' then parseOne rest
      else if c == '(' then
        match parseMany rest [] with
        | some (xs, rest') => some (.list xs, rest')
        | none => none
      else if c == ')' then none
      else if c == '"' then
        match readQuoted rest [] with
        | some (s, rest') => some (.atom s, rest')
        | none => none
      else
        let (s, rest') := readBare cs []
        some (.atom s, rest')
  private partial def parseMany (cs : List Char) (acc : List Sexp) : Option (List Sexp × List Char) :=
    match cs with
    | [] => none
    | c :: rest =>
      if c == ' ' || c == '\n' || c == '\t' || c == '\r' then parseMany rest acc
      else if c == ')' then some (acc.reverse, rest)
      else match parseOne cs with
        | some (x, rest') => parseMany rest' (x :: acc)
        | none => none
end

/-- parse a whole line as a sequence of S-expressions (implicit outer list) -/
partial def parseLine (line : String) : Option (List Sexp) :=
  let rec go (cs : List Char) (acc : List Sexp) : Option (List Sexp) :=
    let cs := cs.dropWhile (fun c => c == ' ' || c == '\n' || c == '\t' || c == '\r')
    if cs.isEmpty then some acc.reverse
    else match parseOne cs with
      | some (x, rest) => go rest (x :: acc)
      | none => none
  go line.toList []

def atom? : Sexp → Option String
  | .atom s => some s
  | _ => none

def list? : Sexp → Option (List Sexp)
  | .list xs => some xs
  | _ => none

def nat? (s : Sexp) : Option Nat := s.atom?.bind String.toNat?
def int? (s : Sexp) : Option Int := s.atom?.bind String.toInt?
def bool? : Sexp → Option Bool
  | .atom "true" => some true
  | .atom "false" => some false
  | .atom "1" => some true
  | .atom "0" => some false
  | _ => none

/-- list of atoms -/
def atoms? (s : Sexp) : Option (List String) :=
  match s with
  | .list xs => xs.mapM atom?
  | _ => none

private def needsQuote (s : String) : Bool := s.isEmpty || s.toList.any (fun c => isDelim c || c == '\\' || c.toNat < 32 || c.toNat > 126)

private def hexDigit (n : Nat) : Char := if n < 10 then Char.ofNat (48 + n) else Char.ofNat (87 + n)

def quote (s : String) : String :=
  if needsQuote s then
    "\"" ++ String.join (s.toUTF8.toList.map fun b =>
      let n := b.toNat
      if n == 34 then "\\\"" else if n == 92 then "\\\\"
      else if n < 32 || n > 126 then String.ofList ['\\', 'x', hexDigit (n / 16), hexDigit (n % 16)]
      else String.ofList [Char.ofNat n]) ++ "\""
  else s

partial def toString : Sexp → String
  | .atom s => quote s
  | .list xs => "(" ++ " ".intercalate (xs.map toString) ++ ")"

end Sexp
end YaegiVerif
