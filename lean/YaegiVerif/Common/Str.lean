/-
  String helpers over `List Char`, written structurally so that they are both
  executable (driver) and easy to reason about. Mirrors of the Go `strings`
  functions used by the modelled code.
-/
namespace YaegiVerif.Str

/-- `strings.Split(s, string(sep))` for a one-character separator (never returns `[]`). -/
def splitOn (sep : Char) : List Char → List (List Char)
  | [] => [[]]
  | c :: cs =>
    if c = sep then [] :: splitOn sep cs
    else match splitOn sep cs with
      | [] => [[c]]          -- unreachable; keeps the function total
      | w :: ws => (c :: w) :: ws

def isSpace (c : Char) : Bool := c == ' ' || c == '\t' || c == '\n' || c == '\r' || c.toNat == 11 || c.toNat == 12

def trimLeft (cs : List Char) : List Char := cs.dropWhile isSpace
def trimRight (cs : List Char) : List Char := (cs.reverse.dropWhile isSpace).reverse
/-- `strings.TrimSpace` (ASCII part) -/
def trim (cs : List Char) : List Char := trimRight (trimLeft cs)

/-- `strings.Fields` (ASCII white space) -/
def fields (cs : List Char) : List (List Char) :=
  let rec go (cs : List Char) (cur : List Char) (acc : List (List Char)) : List (List Char) :=
    match cs with
    | [] => (if cur.isEmpty then acc else cur.reverse :: acc).reverse
    | c :: rest =>
      if isSpace c then go rest [] (if cur.isEmpty then acc else cur.reverse :: acc)
      else go rest (c :: cur) acc
  go cs [] []

def hasPrefix (p s : List Char) : Bool := p.isPrefixOf s
def hasSuffix (p s : List Char) : Bool := p.reverse.isPrefixOf s.reverse

/-- index of the first occurrence of a character -/
def indexOf? (c : Char) : List Char → Option Nat
  | [] => none
  | d :: ds => if d = c then some 0 else (indexOf? c ds).map (· + 1)

/-- `strconv.Atoi` on the decimal subset: optional sign, at least one digit. -/
def atoi? (cs : List Char) : Option Int :=
  let digits (ds : List Char) : Option Nat :=
    if ds.isEmpty then none
    else ds.foldl (fun acc d => match acc with
      | none => none
      | some n => if '0' ≤ d ∧ d ≤ '9' then some (n * 10 + (d.toNat - '0'.toNat)) else none) (some 0)
  match cs with
  | '-' :: ds => (digits ds).map (fun n => - (n : Int))
  | '+' :: ds => (digits ds).map (fun n => (n : Int))
  | ds => (digits ds).map (fun n => (n : Int))

def s (cs : List Char) : String := String.ofList cs
def l (st : String) : List Char := st.toList

end YaegiVerif.Str
