import YaegiVerif.Common.Sexp
/- Line-protocol loop shared by the per-property driver executables (glue). -/
namespace YaegiVerif

partial def runLoop (pid : String) (handle : List Sexp → String) : IO Unit := do
  let hin ← IO.getStdin
  let hout ← IO.getStdout
  let rec loop : IO Unit := do
    let line ← hin.getLine
    if line.isEmpty then return ()
    let out := match Sexp.parseLine line with
      | some (.atom p :: rest) => if p == pid then handle rest else "bad-property"
      | _ => "bad-line"
    -- answers are single lines by contract
    hout.putStrLn (out.replace "\n" "\\n")
    hout.flush
    loop
  loop

end YaegiVerif
