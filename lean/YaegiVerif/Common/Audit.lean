import Lean
/-
  `#audit_namespace N` prints, for every theorem whose name starts with `N`, one line
    THEOREM <name> AXIOMS <comma separated axioms>
  The check script rejects anything outside propext / Classical.choice / Quot.sound.
-/
open Lean Elab Command

elab "#audit_namespace " n:ident : command => do
  let ns := n.getId
  let env ← getEnv
  let mut names : Array Name := #[]
  for (c, info) in env.constants.toList do
    if ns.isPrefixOf c && !c.isInternal then
      match info with
      | .thmInfo _ => names := names.push c
      | _ => pure ()
  let sorted := names.qsort (fun a b => a.toString < b.toString)
  for c in sorted do
    let axs ← liftCoreM (collectAxioms c)
    let axs := axs.qsort (fun a b => a.toString < b.toString)
    logInfo m!"THEOREM {c} AXIOMS {", ".intercalate (axs.toList.map toString)}"
