import YaegiVerif.Model.Piecewise
/- What the anchored source says today, as read by hand. extract/cmd/c11 re-emits the same values
   into Generated/C11.lean on every run; `Props.C11.facts_tie`, `pipeline_tie`, `source_tie` compare. -/
namespace YaegiVerif.Expected.C11
open YaegiVerif.Piecewise

def facts : Facts :=
  { resizeCopiesPrefix := true,
    funcOverwrites := true,
    allocAtEnd := true,
    declTokens := ["const", "func", "import", "type", "var"],
    wrapDefault := true,
    mainAppended := true,
    mainOwnOnly := true,
    methodReplaces := true,
    depsPendingOnly := true,
    funcRetry := true,
    firstErrorDecides := true,
    iotaResetAtEnd := true }

/-- the calls each entry point makes to the other functions of the pipeline, in source order -/
def pipeline : CallGraph :=
  [("Eval", [⟨"", "eval", "src,\"\",true"⟩]),
   ("EvalPath", [⟨"dir", "importSrc", "mainID,path,NoTest"⟩, ⟨"", "ReadFile", "interp.filesystem,path"⟩, ⟨"ret-if-err", "", ""⟩,
                 ⟨"", "eval", "string(b),path,false"⟩]),
   ("eval", [⟨"", "compileSrc", "src,name,inc"⟩, ⟨"ret-if-err", "", ""⟩, ⟨"ret-if-noRun", "", ""⟩, ⟨"", "Execute", "prog"⟩]),
   ("Compile", [⟨"", "compileSrc", "src,\"\",true"⟩]),
   ("compileSrc", [⟨"", "parse", "src,interp.name,inc"⟩, ⟨"ret-if-err", "", ""⟩, ⟨"", "CompileAST", "n"⟩]),
   ("CompileAST", [⟨"", "ast", "n"⟩, ⟨"ret-if-err", "", ""⟩, ⟨"", "gtaRetry", "[]*node{root},pkgName,pkgName"⟩, ⟨"ret-if-err", "", ""⟩,
                   ⟨"", "cfg", "root,nil,pkgName,pkgName"⟩, ⟨"ret-if-err", "", ""⟩]),
   ("Execute", [⟨"", "genRun", "p.root"⟩, ⟨"ret-if-err", "", ""⟩, ⟨"", "resizeFrame", ""⟩, ⟨"", "run", "p.root,nil"⟩,
                ⟨"", "genGlobalVars", "[]*node{p.root},interp.scopes[p.pkgName]"⟩, ⟨"ret-if-err", "", ""⟩, ⟨"", "run", "n,nil"⟩,
                ⟨"loop", "run", "n,interp.frame"⟩])]

/-- the statements the facts are read from, normalised (no white space, no comments):
    resizeFrame copies the old frame and zeroes only the new cells; gta assigns a new function symbol
    unconditionally and cfg points the symbol at the new node; every variable declaration allocates
    a new index at the end of the layout; the incremental parser prefixes declarations, wraps
    everything else in main and returns the body block; CompileAST appends main to the init list when the
    node of main is below the root of the program being compiled (repair of F11-8, 2b45c53); addMethod
    replaces a method of the same name (repair of F11-7, 3b1b93d); genGlobalVarDecl makes a variable wait
    only for the variables of its own call, the pending set (repair of F11-1, a9bfd4c); the scope's iota is
    reset after the last spec of a const declaration and incremented after any other, in cfg and in gta -/
def shapes : List (String × String) :=
  [("resizeFrame.copy", "copy(data,interp.frame.data)"),
   ("resizeFrame.guard", "l-b<=0"),
   ("resizeFrame.zero", "{data[b+j]=reflect.New(t).Elem()}overinterp.universe.types[b:]"),
   ("gta.funcDecl", "sc.sym[ident]=&symbol{kind:funcSym,typ:n.typ,node:n,index:-1}"),
   ("gta.defineStmt", "sc.sym[dest.ident]=&symbol{kind:varSym,global:true,index:sc.add(typ),typ:typ,rval:val,node:n}"),
   ("gta.valueSpec", "sc.sym[c.ident]=&symbol{index:sc.add(n.typ),kind:varSym,global:true,typ:n.typ,node:n}"),
   ("cfg.funcDecl", "ifsym:=sc.sym[funcName];!isMethod(n)&&sym!=nil&&!isGeneric(sym.typ){sym.index=-1sym.typ=n.typsym.kind=funcSymsym.node=n}"),
   ("cfg.constIota", "ifchildPos(n)==len(n.anc.child)-1{sc.iota=0}else{sc.iota++}"),
   ("cfg.iotaWrites", "sc.iota=0;sc.iota++"),
   ("gta.constIota", "ifchildPos(n)==len(n.anc.child)-1{sc.iota=0}else{sc.iota++}"),
   ("gta.iotaWrites", "sc.iota=0;sc.iota++"),
   ("scope.add", "index=len(s.types);s.types=append(s.types,t)"),
   ("parse.decl", "src=\"packagemain;\"+src"),
   ("parse.wrap", "inFunc=true;src=wrapInMain(src)"),
   ("parse.body", "{returnf.Decls[0].(*ast.FuncDecl).Body,nil}"),
   -- a text that starts with `func` and is not a file is parsed again wrapped in main, unless the FIRST error of
   -- the first attempt is an incomplete input (seed round 4: statement texts that start with a function literal)
   ("parse.retry", "{if!inc||tok!=token.FUNC{returnnil,err}ifignoreError(err,src){returnnil,err}initialError:=errsrc:=wrapInMain(strings.TrimPrefix(src,\"packagemain;\"))f,err=parser.ParseFile(interp.fset,name,src,mode)iferr!=nil{returnnil,initialError}inFunc=true}"),
   ("ignoreError", "{se,ok:=err.(scanner.ErrorList)if!ok{returnfalse}iflen(se)==0{returnfalse}returnignoreScannerError(se[0],src)}"),
   ("ignoreScannerError", "{msg:=e.Msgifstrings.HasSuffix(msg,\"found'EOF'\"){returntrue}ifmsg==\"rawstringliteralnotterminated\"{returntrue}ifstrings.HasPrefix(msg,\"expectedoperand,found'}'\")&&!strings.HasSuffix(s,\"}\"){returntrue}returnfalse}"),
   ("wrapInMain", "returnfmt.Sprintf(\"packagemain;funcmain(){%s\\n}\",src)"),
   ("CompileAST.main", "ifm:=gs.sym[mainID];pkgName==mainID&&m!=nil{fora:=m.node;a!=nil;a=a.anc{ifa==root{initNodes=append(initNodes,m.node)break}}}"),
   ("addMethod.loop", "fori,m:=ranget.method{ifm==n{return}ifm.ident==n.ident{t.method[i]=nreturn}}"),
   ("addMethod.append", "t.method=append(t.method,n)"),
   ("genGlobalVarDecl.waits", "ifpending[d]{canInit=false}"),
   ("genGlobalVarDecl.pending", "pending:=map[*node]bool{};for_,n:=rangenodes{pending[n]=true};delete(pending,n)")]
/-- fingerprints (extract/common FuncHash) of the functions Model/Piecewise.lean was written from.
    Reviewed after the repairs of round 3: CompileAST (2b45c53: the ancestor test, modelled by `mainOwnOnly`),
    getVarDependencies (004b9fa: identifiers resolved by the symbol set at CFG — the model's compiled cells;
    17bcf0b: function and method bodies are followed — `reachF`; ab398ff: a variable may depend on itself —
    `varDepsOk`), gtaRetry (e843e3f: defineXStmt revisited like defineStmt; multi-value declarations are not
    in the item language), addMethod (new: 3b1b93d) -/
def sourceHashes : List (String × String) :=
  [-- 113505f (round 5, F07-18): a text starting with `func` which is not a declaration is wrapped like any other
   -- statement text AND now marked inFunc (before, the wrapper `func main` itself was declared); the decl/wrap/body
   -- shapes above are unchanged; since seed round 4 the item language has statements that start with `func`
   -- (`SStmt.lit`), the second attempt is the fact `funcRetry` and ignoreError / ignoreScannerError are tied
   ("Interpreter.parse", "89cfb325e0b83139"),
   ("wrapInMain", "ad11654064a2b3f2"),
   ("Interpreter.firstToken", "cee33d39fe709cc4"),
   ("ignoreError", "76a2a2da98c1e8ea")] ++
  [("Interpreter.resizeFrame", "379b95ed0ad00014"),
   ("Interpreter.eval", "d4431e9d16dcf975"),
   ("Interpreter.Eval", "13934d751a29b5c0"),
   ("Interpreter.EvalPath", "3bba971d12579724"),
   ("ignoreScannerError", "55d0bf6e75f3d025")] ++
  [("Interpreter.Compile", "0af2ee423e207830"),
   ("Interpreter.compileSrc", "9427d3d379f61f48"),
   ("Interpreter.CompileAST", "0472806e9941054a"),
   ("Interpreter.Execute", "c568aa6d3c471274")] ++
  [("scope.add", "441317678d25bfc3"),
   ("scope.lookup", "cc08c4552fe1b40f"),
   ("Interpreter.initScopePkg", "63b314ce3e13a2d6"),
   ("Interpreter.Globals", "f94935e512b7f300")] ++
  [("genGlobalVars", "28ae47950487a25c"),
   ("getVars", "ba362aea20fadd90"),
   ("getVarDependencies", "2b12af0fae20c90e")] ++
  [("Interpreter.gtaRetry", "737ad8e893ad854e")] ++
  [("itype.addMethod", "5b51c3365b179e9f")]
end YaegiVerif.Expected.C11
