import YaegiVerif.Model.Share
/- What interp/run.go, interp/value.go and interp/cfg.go say today, as read by hand. The extractor
   re-emits the same record into Generated/C04.lean on every run; `Props.C04.sharefacts_tie` compares. -/
namespace YaegiVerif.Expected.C04
open YaegiVerif.Share

def share : ShareFacts :=
  { assignCopies := true,
    multiTemps := true,
    multiDefineTemps := true,           -- since 3e30c22 (was F21: the multi-define branch stored sequentially)
    multiDefineRedeclAssigns := false,  -- every name is re-allocated, redeclared or not (finding F04-5)
    defineFresh := true,
    callCopiesArgs := true,
    rangeSnapshotsArray := true,
    closureClonesFrame := true,
    callShortcut := true,
    litShortcut := true,
    shortcutGuardsSingle := true,       -- since 647e2cf an arm `n.nleft > 1 && (isCall(src) || … aCompositeLit)` keeps them for single assignments
    structLitSetsSlot := true,          -- doComposite: `getFrame(f, l).data[frameIndex] = a`
    structLitAssignSets := true,        -- since 3590fb8: `case n.anc.kind == assignStmt: d.Set(a)`
    arrayLitSets := true,
    lookup2OnlyIfValid := false,        -- since 6b8d7ae the zero value is stored for a missing key
    appendArgsAreSlots := true }

/-- fingerprints (extract/common FuncHash) of the functions Model/Share.lean was transcribed from -/
def sourceHashes : List (String × String) :=
  [("assign", "cba47e3270d77930"),
   ("assignFromCall", "68cf8ed8c8ebe68c"),
   ("addr", "bebc2c833afadc2f"),
   ("deref", "5f8bcb6331f999cc"),
   ("getIndexArray", "e067901410b4a4f2"),
   ("getIndexMap", "0b8ebf5d3a7abe7c"),
   ("getIndexMap2", "b8eb27fd4a7debef"),
   ("getFunc", "e1777a5459c1a52e"),
   ("getIndexSeq", "c66a0fd6057b0616"),
   ("getPtrIndexSeq", "6be9b51311dc6a9e"),
   ("arrayLit", "f508bcc568dd484a"),
   ("mapLit", "8770c40d9f4ba94a"),
   ("doComposite", "cc9a326983ac6414"),
   ("_range", "981bda182a8cb10c"),
   ("loopVarKey", "850d1ef64799110f"),
   ("loopVarVal", "fcbafb1e09580702"),
   ("_append", "b266259424f65ba0"),
   ("appendSlice", "c67551dae27bed57"),
   ("_copy", "071999c49adb327a"),
   ("_delete", "3814292d45cb5cab"),
   ("slice", "943a0297b4418338"),
   ("slice0", "e3dfcf7fb18203eb"),
   ("call: exec of an ordinary call", "8fac3922f6ab661a"),
   ("genValueRangeArray", "85bb294bc9e6c2d8"),
   ("genValueArray", "7423f6a50d5d826f"),
   ("genDestValue", "6d332c89aa45b5ab"),
   ("cfg.go: case assignStmt, defineStmt", "0c8b7850eef24aa0")]

end YaegiVerif.Expected.C04
