import YaegiVerif.Model.Share
/- What interp/run.go, interp/value.go and interp/cfg.go say today, as read by hand. The extractor
   re-emits the same record into Generated/C04.lean on every run; `Props.C04.sharefacts_tie` compares. -/
namespace YaegiVerif.Expected.C04
open YaegiVerif.Share

def share : ShareFacts :=
  { assignCopies := true,
    multiTemps := true,
    multiDefineTemps := false,          -- F21: the multi-define branch stores sequentially
    multiDefineRedeclAssigns := false,  -- … and re-allocates every name, redeclared or not
    defineFresh := true,
    callCopiesArgs := true,
    rangeSnapshotsArray := true,
    closureClonesFrame := true,
    callShortcut := true,
    litShortcut := true,
    shortcutGuardsSingle := false,      -- `n.gen = nop` whatever the arity of the assignment
    structLitSetsSlot := true,          -- doComposite: `getFrame(f, l).data[frameIndex] = a`
    arrayLitSets := true,
    lookup2OnlyIfValid := true,
    appendArgsAreSlots := true }

/-- fingerprints (extract/common FuncHash) of the functions Model/Share.lean was transcribed from -/
def sourceHashes : List (String × String) :=
  [("assign", "d3eb5ba48405d0d4"),
   ("assignFromCall", "68cf8ed8c8ebe68c"),
   ("addr", "bebc2c833afadc2f"),
   ("deref", "5f8bcb6331f999cc"),
   ("call", "a144e4e9c42a5836"),
   ("getIndexArray", "e067901410b4a4f2"),
   ("getIndexMap", "0b8ebf5d3a7abe7c"),
   ("getIndexMap2", "88e9afeb63c825d8"),
   ("getFunc", "e1777a5459c1a52e"),
   ("getIndexSeq", "c66a0fd6057b0616"),
   ("getPtrIndexSeq", "6be9b51311dc6a9e"),
   ("arrayLit", "f508bcc568dd484a"),
   ("mapLit", "8770c40d9f4ba94a"),
   ("doComposite", "a09ceef281936922"),
   ("_range", "981bda182a8cb10c"),
   ("loopVarKey", "850d1ef64799110f"),
   ("loopVarVal", "fcbafb1e09580702"),
   ("_append", "b266259424f65ba0"),
   ("appendSlice", "c67551dae27bed57"),
   ("_copy", "071999c49adb327a"),
   ("_delete", "3814292d45cb5cab"),
   ("slice", "943a0297b4418338"),
   ("slice0", "e3dfcf7fb18203eb"),
   ("genValueRangeArray", "85bb294bc9e6c2d8"),
   ("genValueArray", "7423f6a50d5d826f"),
   ("genDestValue", "6d332c89aa45b5ab"),
   ("cfg.go: case assignStmt, defineStmt", "88a4afa1a7216eb5")]

end YaegiVerif.Expected.C04
