import YaegiVerif.Model.Share
/- What interp/run.go, interp/value.go and interp/cfg.go say today, as read by hand. The extractor
   re-emits the same record into Generated/C04.lean on every run; `Props.C04.sharefacts_tie` compares. -/
namespace YaegiVerif.Expected.C04
open YaegiVerif.Share

def share : ShareFacts :=
  { assignCopies := true,
    multiTemps := true,
    multiDefineTemps := true,           -- since 3e30c22 (was F21: the multi-define branch stored sequentially)
    multiDefineRedeclAssigns := true,   -- since 8bd8040 / 6ebc898 (was F04-5): cfg.go marks a named variable redeclared by a `:=`
                                        -- (`!sc.global && n.kind == defineStmt && dest.ident != "_"`), assign keeps its cell
    multiDefineRedeclCopies := true,    -- … `if redeclare { v := reflect.New(..).Elem(); v.Set(t[i]); t[i] = v }`
    defineFresh := true,
    callCopiesArgs := true,
    rangeSnapshotsArray := true,
    closureClonesFrame := true,
    callShortcut := true,
    litShortcut := true,
    shortcutGuardsSingle := true,       -- since 647e2cf an arm `n.nleft > 1 && (isCall(src) || … aCompositeLit)` keeps them for single assignments
    structLitSetsSlot := true,          -- doComposite: `getFrame(f, l).data[frameIndex] = a`
    structLitAssignSets := true,        -- since 3590fb8: `case n.anc.kind == assignStmt: d.Set(a)`
    structLitInTemp := true,            -- doComposite exec starts with `a := reflect.New(rt).Elem()`, the destination `d := value(f)` is looked at after the fields
    arrayLitSets := true,
    arrayLitFresh := true,              -- since 1436613 (was F04-4, F04-11): `value := genValueLit(n)` allocates a new cell per evaluation
    arrayLitAssignInPlace := true,      -- … `if n.anc.kind == assignStmt { return valueGenerator(n, n.findex) }`
    lookup2OnlyIfValid := false,        -- since 6b8d7ae the zero value is stored for a missing key
    lookup2DefineFresh := true,         -- since 5a404d3 (was F04-12): `dest := genValueDefine(n.anc.child[0])`, same for the status
    lookup2RedeclInPlace := true,       -- … `if n.anc.kind != defineXStmt || n.redeclared || n.ident == "_" { return genValue(n) }`
    appendArgsAreSlots := false,        -- since b312e89 (was F04-6): operands copied into a fresh slice, then reflect.AppendSlice
    derefNilPanics := true,             -- since 93fb945 (was F04-10): `if !r.IsValid() { _ = *nilPtr }`
    callResultsFresh := true,           -- since 1b5ab85 (was F04-20 / C01 F01): `for i := range rvalues { nf.data[i] = reflect.New(def.types[i]).Elem() }`
    returnTwoPhase := true,             -- since 8544122 (was F04-19): _return copies every operand into `tmp` before `f.data[i].Set(v)`
    recvAssignsValue := true,           -- since 212dc2e (was F08-7): no `src.action == aRecv` arm, the unaryExpr shortcut excludes aRecv
    assertDefineFresh := true,          -- since daee744 (was F04-14): `value0 = genValueDefine(n.anc.child[0])`, same for the status
    assertZeroOnFail := true }          -- … `if withResult && !*ok { v := value0(f); v.Set(reflect.Zero(v.Type())) }`

/-- fingerprints (extract/common FuncHash) of the functions Model/Share.lean was transcribed from -/
def sourceHashes : List (String × String) :=
  [("assign", "59eb4dfab86ac553"),
   ("assignFromCall", "68cf8ed8c8ebe68c"),
   ("addr", "bebc2c833afadc2f"),
   ("deref", "8f80a1442107d364"),
   ("getIndexArray", "e067901410b4a4f2"),
   ("getIndexMap", "0b8ebf5d3a7abe7c"),
   ("getIndexMap2", "60df9da4e7e6a59a"),
   ("getFunc", "b1cec79847c23ec5"),
   ("getIndexSeq", "c66a0fd6057b0616"),
   ("getPtrIndexSeq", "6be9b51311dc6a9e"),
   ("arrayLit", "0039cb31dfc777e6"),
   ("mapLit", "bd18da6689e04fa9"),
   ("genValueLit", "23846498d2edfdda"),
   ("genValueDefine", "7c0f83aa46790e55"),
   ("typeAssert", "90e50bd038426751"),
   ("recv", "62c5f304a4403670"),
   ("_return", "6895724d699b988d"),
   ("doComposite", "cc9a326983ac6414"),
   ("_range", "5c9ff73a022429ee"),
   ("loopVarKey", "850d1ef64799110f"),
   ("loopVarVal", "fcbafb1e09580702"),
   ("_append", "162ec1ccda4737c3"),
   ("appendSlice", "c67551dae27bed57"),
   ("_copy", "071999c49adb327a"),
   ("_delete", "3814292d45cb5cab"),
   ("slice", "943a0297b4418338"),
   ("slice0", "e3dfcf7fb18203eb"),
   ("call: exec of an ordinary call", "983d7880483ac6f4"),
   ("genValueRangeArray", "e367de7280104450"),
   ("genValueArray", "7423f6a50d5d826f"),
   ("genDestValue", "6d332c89aa45b5ab"),
   ("cfg.go: case assignStmt, defineStmt", "50c4796ffc6e0819"),
   ("cfg.go: rangeStmt, case ptrT", "be6b2770d36e6ffe"),
   ("typecheck.go: addressExpr", "a310c42048108f3c")]

end YaegiVerif.Expected.C04
