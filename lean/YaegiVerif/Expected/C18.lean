import YaegiVerif.Model.Extract
/- What extract/extract.go says today (after the repairs 7677ad0, 2873e96, a2117ce, 87ef90c, eb1f965, 169d4db,
   246eb1c), as read by hand. The extractor re-emits the same record into Generated/C18.lean on every run;
   `Props.C18.facts_tie` / `source_tie` compare them. -/
namespace YaegiVerif.Expected.C18
open YaegiVerif.Extract
/-- extract/extract.go: the choices genContent, fixConst and the template make in their text -/
def facts : Facts :=
  { restricted := ["logFatal", "logFatalf", "logFatalln", "logLogger", "logNew", "osExit", "osFindProcess"],
    arms := ["*types.Const", "*types.Func", "*types.Var", "*types.TypeName"],
    valLits := [("*types.Const", "fixConst(pname, o.Val(), imports)", false),
     ("*types.Const", "pname", false),
     ("*types.Func", "pname", false),
     ("*types.Var", "pname", true)],
    typRhs := ["typ[name] = pname", "wrap[name] = Wrap{prefix + name, methods}"],
    skips := ["!o.Exported()", "!match", "match", "s := o.Type().(*types.Signature); s.TypeParams().Len() > 0 || s.RecvTypeParams().Len() > 0", "t, ok := o.Type().(*types.Named); ok && t.TypeParams().Len() > 0", "!t.IsMethodSet() => delete(typ, name)", "!f.Exported()"],
    variadicCond := "sign.Variadic() && j == len(args)-1",
    variadicThen := ["at := types.TypeString(v.Type(), qualify)[2:]", "params[j] = args[j] + \" ...\" + at", "args[j] += \"...\""],
    variadicElse := ["params[j] = args[j] + \" \" + types.TypeString(v.Type(), qualify)"],
    methodStmts := ["f := t.Method(i)", "sign := f.Type().(*types.Signature)", "used := map[string]bool{\"W\": true}", "range _ []*types.Tuple{sign.Params(), sign.Results()}", "for j := 0; j < vars.Len(); j++", "used[vars.At(j).Name()] = true", "fresh := func(prefix string, j int) string { name := fmt.Sprintf(\"%s%d\", prefix, j) for used[name] { name += \"_\" } used[name] = true return name }", "args := make([]string, sign.Params().Len())", "params := make([]string, len(args))", "range j args", "v := sign.Params().At(j)", "args[j] = v.Name(); args[j] == \"\" || args[j] == \"_\" || args[j] == \"W\" => args[j] = fresh(\"a\", j)", "arg := \"(\" + strings.Join(args, \", \") + \")\"", "param := \"(\" + strings.Join(params, \", \") + \")\"", "results := make([]string, sign.Results().Len())", "range j results", "v := sign.Results().At(j)", "name := v.Name()", "name == \"W\" => name = fresh(\"r\", j)", "results[j] = name + \" \" + types.TypeString(v.Type(), qualify)", "result := \"(\" + strings.Join(results, \", \") + \")\"", "ret := \"\"", "sign.Results().Len() > 0 => ret = \"return\"", "stringer := false", "f.Name() == \"String\" && sign.Params().Len() == 0 && sign.Results().Len() == 1 => b, ok := sign.Results().At(0).Type().Underlying().(*types.Basic); stringer = ok && b.Kind() == types.String", "methods = append(methods, Method{f.Name(), param, result, arg, ret, stringer})"],
    fixCases := [("String", "STRING"),
     ("Int", "INT"),
     ("Float", "FLOAT"),
     ("Complex", ""),
     ("default", "")],
    fixFloat := ["v := constant.Val(val)", "f, ok := v.(*big.Float)", "if !ok { f = new(big.Float).SetRat(v.(*big.Rat)) }", "tok = \"FLOAT\"", "str = f.Text('g', int(f.Prec()))"],
    fixFormat := "constant.MakeFromLiteral(%q, token.%s, 0) <- str, tok",
    replaced := [],
    prefixExpr := "strings.Map(func(r rune) rune { if unicode.IsLetter(r) || unicode.IsDigit(r) { return r } return '_' }, \"_\"+importPath+\"_\")",
    restrictedCond := "rname := p.Name() + name; restricted[rname] && importPath == p.Name() => pname = rname",
    usePkg := ["\"UsePkg\": usePkg", "usePkg := len(typ) > 0", "range name, v val => usePkg = usePkg || v.Name == p.Name()+\".\"+name"],
    fixComplex := ["re := fixConst(name, constant.Real(val), imports)", "im := fixConst(name, constant.Imag(val), imports)", "return fmt.Sprintf(\"constant.BinaryOp(%s, token.ADD, constant.MakeImag(%s))\", re, im)"],
    qualify := ["range _, pkg p.Imports() => imports[pkg.Path()] = false", "if pkg.Path() != importPath => imports[pkg.Path()] = true", "return pkg.Name()"],
    tmpl := [("addr", "\"{{$key}}\": reflect.ValueOf(&{{$value.Name}}).Elem(),"),
     ("value", "\"{{$key}}\": reflect.ValueOf({{$value.Name}}),"),
     ("type", "\"{{$key}}\": reflect.ValueOf((*{{$value}})(nil)),"),
     ("wrap", "\"_{{$key}}\": reflect.ValueOf((*{{$value.Name}})(nil)),"),
     ("symkey", "Symbols[\"{{.PkgName}}\"] = map[string]reflect.Value{"),
     ("struct", "type {{$value.Name}} struct {"),
     ("ivalue", "IValue interface{}"),
     ("field", "W{{$m.Name}} func{{$m.Param}} {{$m.Result}}"),
     ("method", "func (W {{$value.Name}}) {{$m.Name}}{{$m.Param}} {{$m.Result}} {"),
     ("guard", "{{- if $m.Stringer}}"),
     ("importpkg", "{{- if .UsePkg }}"),
     ("call", "{{- $m.Ret}} W.W{{$m.Name}}{{$m.Arg -}}"),
     ("tags", "{{if .BuildTags}}// +build {{.BuildTags}}{{end}}"),
     ("package", "package {{.Dest}}")],
    defaultMinor := 22 }
/-- fingerprints of the functions (and of the template text) that Model/Extract.lean transcribes -/
def sourceHashes : List (String × String) :=
  [("Extractor.genContent", "d32c322751a31868"),
   ("fixConst", "d6d994ecb33dc1e7"),
   ("matchList", "98bb6db90aa91968"),
   ("genBuildTags", "e6a5a5cce1786bd1"),
   ("isInStdlib", "7650dc4b3965edf7"),
   ("GetMinor", "cf33b0802ac7d4b5"),
   ("Extractor.Extract", "373d339939291f24"),
   ("Extractor.importPath", "735ac16472bb922b"),
   ("const model", "dbd40309a307c2d4")]
end YaegiVerif.Expected.C18
