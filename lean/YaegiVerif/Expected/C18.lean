import YaegiVerif.Model.Extract
/- What extract/extract.go says today, as read by hand. The extractor re-emits the same record into
   Generated/C18.lean on every run; `Props.C18.facts_tie` / `source_tie` compare them. -/
namespace YaegiVerif.Expected.C18
open YaegiVerif.Extract
/-- extract/extract.go: the choices genContent, fixConst and the template make in their text -/
def facts : Facts :=
  { restricted := ["logFatal", "logFatalf", "logFatalln", "logLogger", "logNew", "osExit", "osFindProcess"],
    arms := ["*types.Const", "*types.Func", "*types.Var", "*types.TypeName"],
    valLits := [("*types.Const", "fixConst(pname, o.Val(), imports)", false),
     ("*types.Const", "pname", false),
     ("*types.Func", "pname", false),
     ("*types.Var", "pname", true)],
    typRhs := ["typ[name] = pname", "wrap[name] = Wrap{prefix + name, methods}"],
    skips := ["!o.Exported()", "!match", "match", "s := o.Type().(*types.Signature); s.TypeParams().Len() > 0 || s.RecvTypeParams().Len() > 0", "t, ok := o.Type().(*types.Named); ok && t.TypeParams().Len() > 0", "t.NumMethods() == 0 && t.NumEmbeddeds() != 0 => delete(typ, name)", "!f.Exported()"],
    variadicCond := "sign.Variadic() && j == len(args)-1",
    variadicThen := ["at := types.TypeString(v.Type(), qualify)[2:]", "params[j] = args[j] + \" ...\" + at", "args[j] += \"...\""],
    variadicElse := ["params[j] = args[j] + \" \" + types.TypeString(v.Type(), qualify)"],
    methodStmts := ["f := t.Method(i)", "sign := f.Type().(*types.Signature)", "args := make([]string, sign.Params().Len())", "params := make([]string, len(args))", "range j args", "v := sign.Params().At(j)", "args[j] = v.Name(); args[j] == \"\" => args[j] = fmt.Sprintf(\"a%d\", j)", "arg := \"(\" + strings.Join(args, \", \") + \")\"", "param := \"(\" + strings.Join(params, \", \") + \")\"", "results := make([]string, sign.Results().Len())", "range j results", "v := sign.Results().At(j)", "results[j] = v.Name() + \" \" + types.TypeString(v.Type(), qualify)", "result := \"(\" + strings.Join(results, \", \") + \")\"", "ret := \"\"", "sign.Results().Len() > 0 => ret = \"return\"", "methods = append(methods, Method{f.Name(), param, result, arg, ret})"],
    fixCases := [("String", "STRING"),
     ("Int", "INT"),
     ("Float", "FLOAT"),
     ("Complex", ""),
     ("default", "")],
    fixFloat := ["v := constant.Val(val)", "f, ok := v.(*big.Float)", "if !ok { f = new(big.Float).SetRat(v.(*big.Rat)) }", "tok = \"FLOAT\"", "str = f.Text('g', int(f.Prec()))"],
    fixFormat := "constant.MakeFromLiteral(%q, token.%s, 0) <- str, tok",
    replaced := ["/", "_", "-", "_", ".", "_", "~", "_"],
    prefixExpr := "\"_\" + importPath + \"_\"",
    tmpl := [("addr", "\"{{$key}}\": reflect.ValueOf(&{{$value.Name}}).Elem(),"),
     ("value", "\"{{$key}}\": reflect.ValueOf({{$value.Name}}),"),
     ("type", "\"{{$key}}\": reflect.ValueOf((*{{$value}})(nil)),"),
     ("wrap", "\"_{{$key}}\": reflect.ValueOf((*{{$value.Name}})(nil)),"),
     ("symkey", "Symbols[\"{{.PkgName}}\"] = map[string]reflect.Value{"),
     ("struct", "type {{$value.Name}} struct {"),
     ("ivalue", "IValue interface{}"),
     ("field", "W{{$m.Name}} func{{$m.Param}} {{$m.Result}}"),
     ("method", "func (W {{$value.Name}}) {{$m.Name}}{{$m.Param}} {{$m.Result}} {"),
     ("guard", "{{- if eq $m.Name \"String\"}}"),
     ("call", "{{- $m.Ret}} W.W{{$m.Name}}{{$m.Arg -}}"),
     ("tags", "{{if .BuildTags}}// +build {{.BuildTags}}{{end}}"),
     ("package", "package {{.Dest}}")],
    defaultMinor := 22 }
/-- fingerprints of the functions (and of the template text) that Model/Extract.lean transcribes -/
def sourceHashes : List (String × String) :=
  [("Extractor.genContent", "5c2bf30aa1a92719"),
   ("fixConst", "8cb1eaf0961cf4e9"),
   ("matchList", "98bb6db90aa91968"),
   ("genBuildTags", "e6a5a5cce1786bd1"),
   ("isInStdlib", "7650dc4b3965edf7"),
   ("GetMinor", "cf33b0802ac7d4b5"),
   ("Extractor.Extract", "373d339939291f24"),
   ("Extractor.importPath", "735ac16472bb922b"),
   ("const model", "1932271c3afc09d9")]
end YaegiVerif.Expected.C18
