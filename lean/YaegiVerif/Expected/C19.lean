import YaegiVerif.Model.Debug
/- What interp/run.go (debugger branch of runCfg, isExecNode) and interp/debugger.go
   ((*Debugger).exec, enterCall, exitCall) say today, as read by hand. The extractor re-emits the
   same record into Generated/C19.lean on every run; `Props.C19.facts_tie` compares them. -/
namespace YaegiVerif.Expected.C19
open YaegiVerif.Debug

def facts : DebugLoopFacts :=
  { loopOrder := ["dbg.exec", "step-hook", "exec", "nil-break", "m-nil", "switch"],
    probeOrder := ["tnext", "fnext", "original"],
    -- d1e6c4c (F20): isExecNode compares the closure objects (execID), no longer their code
    execCmp := "closure-identity",
    -- 3d77a98 (F19-1): isExecNode accepts the forwarding closure recorded on the node, …
    acceptsForward := true,
    -- d1e6c4c: originalExecNode tests the nodes with isExecNode
    origCmp := "isExecNode",
    -- 3d77a98: … which setExec records when it installs it on the target of a back edge (setForwardExec)
    backEdge := "forward-recorded",
    caseOrder := ["terminate", "break", "run", "out", "over"],
    overCmp := ">",
    outCmp := ">=",
    noPosSkips := true,
    depthOps := ["enterCall:f.debug.g.fDepth++", "enterCall:f.debug.g.fDepth++", "exitCall:f.debug.g.fDepth--"],
    -- 0a3a691 (F19-2 … F19-7): a marked node is reported when the frame enters its line (or it carries a
    -- function breakpoint); dbg.exec records the previous step of the frame
    breakCond := "marked-entering-line",
    prevUpdate := true,
    -- 0a3a691: SetBreakpoints marks every step (isStep) of a requested line that is in cfgNodes(root); no getExec
    placement := "reachable-steps",
    stepKinds := ["breakStmt", "continueStmt", "fallthroughStmt", "gotoStmt"],
    cfgKinds := ["funcType", "constDecl", "varDecl"],
    -- Debug → setProgram keeps the forwarding closures recorded while compiling (seed C19-4 replaces the debug data)
    debugDataKept := true }

/-- the facts before 0a3a691 (first candidate in walk order, reported whenever it is about to run),
    kept for the examples that reproduce F19-3 … F19-7 -/
def factsBeforeLineRepair : DebugLoopFacts :=
  { facts with breakCond := "marked", prevUpdate := false, placement := "first-candidate",
               stepKinds := ["absent"], cfgKinds := ["absent"] }

/-- the facts of the unchanged code (before d1e6c4c and 3d77a98), kept for the regression examples
    that reproduce the old behaviour on the old findings -/
def factsBeforeRepair : DebugLoopFacts :=
  { factsBeforeLineRepair with execCmp := "code-pointer", acceptsForward := false, origCmp := "code-pointer",
                                backEdge := "forward-unrecorded" }

/-- fingerprints (extract/common FuncHash) of the functions Model/Debug.lean was transcribed from -/
def sourceHashes : List (String × String) :=
  [("runCfg", "d90b0b7ab1fcffd5"),
   ("isExecNode", "62763c4a3e03f829"),        -- d1e6c4c, 3d77a98
   ("execID", "ac745be092c64f54"),            -- new in d1e6c4c
   ("originalExecNode", "1dff6d29dda42e0e"),  -- d1e6c4c
   ("Debugger.exec", "95ec0ed0fbeebf5c"),            -- 0a3a691: prev update, break case "entering the line"
   ("Debugger.enterCall", "b9d164a29c4570d0"),
   ("Debugger.exitCall", "4c15dd1fb1de22c0"),
   ("Debugger.SetBreakpoints", "fbd3cbee2813e8f0"),  -- 0a3a691: every reachable step of the line, no getExec
   ("debugRoutine.setMode", "dad094ff423204f1"),
   ("Debugger.Continue", "0e7ce5df151e82c7"),
   ("Debugger.Step", "4160ff86eb6be6b8"),
   ("Debugger.Terminate", "d8f0a180fa0c7538"),
   ("Interpreter.Debug", "4c42b5fbe85f52d2"),
   ("Debugger.entersLine", "e13b195631b7ac53"),      -- new in 0a3a691
   ("cfgNodes", "cb180ba0e7f8d864"),                 -- new in 0a3a691
   ("node.isStep", "572781247e9d2216"),              -- new in 0a3a691
   ("node.shouldBreak", "f6159ed7d1a5acae"),
   ("node.setBreakOnLine", "f42e739c506063d0"),
   ("node.setBreakOnCall", "0b55432840c1b558"),
   ("node.Walk", "d0ed2a2c9f1de374"),
   ("node.setProgram", "160c3265a7121142"),              -- tied after seed C19-4
   ("setExec", "5d0d0940aba27548"),           -- 3d77a98
   ("setForwardExec", "dba5675e0de46456"),    -- new in 3d77a98
   ("getExec", "5f3f6e86261d4245")]

end YaegiVerif.Expected.C19
