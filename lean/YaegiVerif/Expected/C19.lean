import YaegiVerif.Model.Debug
/- What interp/run.go (debugger branch of runCfg, isExecNode) and interp/debugger.go
   ((*Debugger).exec, enterCall, exitCall) say today, as read by hand. The extractor re-emits the
   same record into Generated/C19.lean on every run; `Props.C19.facts_tie` compares them. -/
namespace YaegiVerif.Expected.C19
open YaegiVerif.Debug

def facts : DebugLoopFacts :=
  { loopOrder := ["dbg.exec", "step-hook", "exec", "nil-break", "m-nil", "switch"],
    probeOrder := ["tnext", "fnext", "original"],
    cmpByPointer := true,
    caseOrder := ["terminate", "break", "run", "out", "over"],
    overCmp := ">",
    outCmp := ">=",
    noPosSkips := true,
    depthOps := ["enterCall:f.debug.g.fDepth++", "enterCall:f.debug.g.fDepth++", "exitCall:f.debug.g.fDepth--"] }

/-- fingerprints (extract/common FuncHash) of the functions Model/Debug.lean was transcribed from -/
def sourceHashes : List (String × String) :=
  [("runCfg", "d90b0b7ab1fcffd5"),
   ("isExecNode", "d5744b63d90e06d6"),
   ("originalExecNode", "585d511d42ee5a5b"),
   ("Debugger.exec", "9855b3f1a0ee5129"),
   ("Debugger.enterCall", "b9d164a29c4570d0"),
   ("Debugger.exitCall", "4c15dd1fb1de22c0"),
   ("Debugger.SetBreakpoints", "bdce5c0acd96e772"),
   ("debugRoutine.setMode", "dad094ff423204f1"),
   ("Debugger.Continue", "0e7ce5df151e82c7"),
   ("Debugger.Step", "4160ff86eb6be6b8"),
   ("Debugger.Terminate", "d8f0a180fa0c7538"),
   ("Interpreter.Debug", "4c42b5fbe85f52d2"),
   ("node.shouldBreak", "f6159ed7d1a5acae"),
   ("node.setBreakOnLine", "f42e739c506063d0"),
   ("node.setBreakOnCall", "0b55432840c1b558"),
   ("node.Walk", "d0ed2a2c9f1de374"),
   ("setExec", "8eb871ddd3be8060"),
   ("getExec", "5f3f6e86261d4245")]

end YaegiVerif.Expected.C19
