import YaegiVerif.Expected.C09
/- C10 is proved over the same run-id machine as C09: the expectation is the same record. -/
namespace YaegiVerif.Expected.C10
open YaegiVerif.RunId
def facts : RunIdFacts := Expected.C09.facts
def round2Facts : RunIdFacts := Expected.C09.round2Facts
def oldFacts : RunIdFacts := Expected.C09.oldFacts
def execRuns : List String := Expected.C09.execRuns
def sourceHashes : List (String × String) := Expected.C09.sourceHashes
end YaegiVerif.Expected.C10
