import YaegiVerif.Model.VarInit
/- What interp/program.go and interp/src.go say today, as read by hand. The extractor re-emits the
   same record into Generated/C15.lean on every run; `Props.C15.exec_tie` compares them. -/
namespace YaegiVerif.Expected.C15
open YaegiVerif.VarInit

def execFacts : ExecFacts :=
  { execute := ["root", "gen", "globals", "init"],
    compile := ["gta", "cfg", "main-last"],
    importSrc := ["once", "rdir-check", "rdir-set", "gta", "cfg", "register", "root", "gen", "globals", "main-last", "init"] }

/-- fingerprints (extract/common FuncHash) of the functions Model/VarInit.lean was transcribed from
    (`genGlobalVarDecl`: as repaired for F15 — the scan restarts after every append; before the
    repair the fingerprint was bed06c905a7effe9) -/
def sourceHashes : List (String × String) :=
  [("getVars", "ba362aea20fadd90"),
   ("genGlobalVars", "28ae47950487a25c"),
   ("genGlobalVarDecl", "af3f777c417db75e"),
   ("getVarDependencies", "45e633ad779f638c"),
   ("equalNodes", "5eb72e9c34fe6729")]

end YaegiVerif.Expected.C15
