import YaegiVerif.Model.VarInit
/- What interp/program.go and interp/src.go say today, as read by hand. The extractor re-emits the
   same record into Generated/C15.lean on every run; `Props.C15.exec_tie` compares them. -/
namespace YaegiVerif.Expected.C15
open YaegiVerif.VarInit

def execFacts : ExecFacts :=
  { execute := ["root", "gen", "globals", "init"],
    compile := ["gta", "cfg", "main-last"],
    importSrc := ["once", "rdir-check", "rdir-set", "gta", "cfg", "register", "root", "gen", "globals", "main-last", "init"] }

/-- fingerprints (extract/common FuncHash) of the functions Model/VarInit.lean was transcribed from
    (`genGlobalVarDecl`: as repaired for F15 — the scan restarts after every append; before the
    repair the fingerprint was bed06c905a7effe9) -/
def sourceHashes : List (String × String) :=
  [("getVars", "ba362aea20fadd90"),
   ("genGlobalVars", "28ae47950487a25c"),
   ("genGlobalVarDecl", "af3f777c417db75e"),
   ("getVarDependencies", "45e633ad779f638c"),
   ("equalNodes", "5eb72e9c34fe6729")]

/-- which function declarations are init functions, as read by hand:
    interp/cfg.go, pre-order processing of `case funcDecl:`
      `if n.child[1].ident == "init" && len(n.child[0].child) == 0 { initNodes = append(initNodes, n) }`
    (child[1]: the name, child[0]: the receiver field list);
    interp/src.go importSrc `initNodes = append(initNodes, nodes...)` in the loop over the files;
    interp/gta.go `case funcDecl:` `switch { case isMethod(n): … case ident == "init": default: sc.sym[ident] = … }` -/
def initFacts : InitFacts :=
  { register := [.nameIs "init", .recvEmpty],
    add := .append,
    join := .append,
    gta := [.method, .nameIs "init", .default] }

/-- fingerprints of the statements `initFacts` was read from, of the loops that run the list of
    init nodes (`for _, n := range initNodes/p.init { interp.run(n, interp.frame) }`: first to last)
    and of `isMethod` -/
def initHashes : List (String × String) :=
  [("cfg: if … { initNodes = append(initNodes, n) }", "49eacede51d20a76"),
   ("importSrc: loop over rootNodes (cfg, join)", "259e18d428819d03"),
   ("importSrc: loop over initNodes", "75e841beadd0f070"),
   ("Execute: loop over p.init", "bdc2b75dc8315f26"),
   ("gta: switch of case funcDecl (cases; bodies except the method case)", "0771fd44a7e9040c"),
   ("isMethod", "b176af51407e31d7")]

end YaegiVerif.Expected.C15
