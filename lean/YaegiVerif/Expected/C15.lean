import YaegiVerif.Model.VarInit
/- What interp/program.go and interp/src.go say today, as read by hand. The extractor re-emits the
   same record into Generated/C15.lean on every run; `Props.C15.exec_tie` compares them. -/
namespace YaegiVerif.Expected.C15
open YaegiVerif.VarInit

def execFacts : ExecFacts :=
  { execute := ["root", "gen", "globals", "init"],
    compile := ["gta", "cfg", "main-last"],
    importSrc := ["once", "rdir-check", "rdir-set", "gta", "cfg", "register", "root", "gen", "globals", "main-last", "init"] }

/-- fingerprints (extract/common FuncHash) of the functions Model/VarInit.lean was transcribed from.
    `genGlobalVarDecl`: as repaired for F15 (the scan restarts after every append; before:
    bed06c905a7effe9) and by a9bfd4c (a specification waits for the `pending` ones, i.e. those of
    the list that are not yet appended, instead of for `!inited`; before: af3f777c417db75e).
    `getVarDependencies`: as rewritten by 004b9fa, 17bcf0b, ab398ff (identifiers resolved by
    `n.sym`, references to functions and methods followed with a `seen` set, a reference of a
    specification to itself kept; before: 45e633ad779f638c). -/
def sourceHashes : List (String × String) :=
  [("getVars", "ba362aea20fadd90"),
   ("genGlobalVars", "28ae47950487a25c"),
   ("genGlobalVarDecl", "83cee830efddbb96"),
   ("getVarDependencies", "2b12af0fae20c90e"),
   ("equalNodes", "5eb72e9c34fe6729")]

/-- which function declarations are init functions, as read by hand:
    interp/cfg.go, pre-order processing of `case funcDecl:`
      `if n.child[1].ident == "init" && len(n.child[0].child) == 0 { initNodes = append(initNodes, n) }`
    (child[1]: the name, child[0]: the receiver field list);
    interp/src.go importSrc `initNodes = append(initNodes, nodes...)` in the loop over the files;
    interp/gta.go `case funcDecl:` `switch { case isMethod(n): … case ident == "init": default: sc.sym[ident] = … }` -/
def initFacts : InitFacts :=
  { register := [.nameIs "init", .recvEmpty],
    add := .append,
    join := .append,
    gta := [.method, .nameIs "init", .default] }

/-- fingerprints of the statements `initFacts` was read from, of the loops that run the list of
    init nodes (`for _, n := range initNodes/p.init { interp.run(n, interp.frame) }`: first to last)
    and of `isMethod` -/
def initHashes : List (String × String) :=
  [("cfg: if … { initNodes = append(initNodes, n) }", "49eacede51d20a76"),
   ("importSrc: loop over rootNodes (cfg, join)", "259e18d428819d03"),
   ("importSrc: loop over initNodes", "75e841beadd0f070"),
   ("Execute: loop over p.init", "bdc2b75dc8315f26"),
   ("gta: switch of case funcDecl (cases; bodies except the method case)", "0771fd44a7e9040c"),
   ("isMethod", "b176af51407e31d7")]

/-- how the dependencies of a variable specification are found, as read by hand (round 3):
    interp/cfg.go getVarDependencies, the function `visit` passed to `nod.Walk`
      `switch { case n.kind == selectorExpr && n.action == aGetMethod: fn, _ = n.val.(*node)`      (17bcf0b, F14)
      `         case n.kind != identExpr || n.sym == nil:`                                        (004b9fa, F15-4/5)
      `         case n.sym.kind == funcSym: fn = n.sym.node`                                      (17bcf0b, F14)
      `         case n.sym.kind == varSym && n.sym.global: deps = append(deps, n.sym.node) }`     (ab398ff, F15-6: no `&& n.sym.node != nod`)
      `if fn != nil && !seen[fn] { seen[fn] = true; fn.Walk(visit, nil) }`
    interp/gta.go gta `case defineXStmt:` — while the callee's type is incomplete
      `revisit = append(revisit, n); return false` (e843e3f, F15-7; since fb8122a the awaited operand is
      `src.child[0]` for a call, an index expression or a receive and `src.child[1]` for a type assertion:
      `operandRetry`, F15-9), then `compDefineX`, then for the
      declared names `sym.global, sym.node = true, n` (2be263c, F15-1/2);
    interp/ast.go ast `case token.VAR:` `if anc.node != nil && anc.node.kind == fileStmt { a.Specs = splitVarSpecs(a.Specs) }` (14ebac5, F15-3);
    interp/cfg.go genGlobalVarDecl `for _, n := range nodes { deps[n] = getVarDependencies(n, sc) }`: every
      specification, a variable initialised by a function literal included (`collectSkip := .none`);
    interp/cfg.go matchSelectorMethod, `if m, lind := n.typ.lookupMethod(name); m != nil { … n.action = aGetMethod;
      if n.child[0].isType(sc) { method expression } else { method with receiver } }`: the tag is set before the
      test, for both forms (`methodTag := .both`) -/
def depFacts : DepFacts :=
  { resolve := .lexical,
    followFuncs := true,
    followMethods := true,
    skipSelf := false,
    multiGlobal := true,
    multiRetry := true,
    operandRetry := true,
    splitPaired := true,
    collectSkip := .none,
    methodTag := .both }

/-- the same decisions as the code made them before round 3 (what the extractor reads from the
    parent of a9bfd4c); used by the regression examples that reproduce the repaired findings -/
def depFactsBefore : DepFacts :=
  { resolve := .byName,
    followFuncs := false,
    followMethods := false,
    skipSelf := true,
    multiGlobal := false,
    multiRetry := false,
    operandRetry := false,
    splitPaired := false,
    collectSkip := .none,
    methodTag := .both }

/-- fingerprints of the statements `depFacts` was read from (`getVarDependencies` is in `sourceHashes`)
    and of `compDefineX` (as of e4c80e1: for `var v, ok = m[k]` / `<-c` it asks `nodeType` for the type
    of the operand at once — `VarSpec.operandLater`, F15-9) -/
def depHashes : List (String × String) :=
  [("gta: case defineXStmt", "996e7e1b8564b60e"),
   ("gtaRetry", "737ad8e893ad854e"),
   ("ast: case token.VAR", "d95ba4f780b05d24"),
   ("splitVarSpecs", "9f5cbf17b563afa2"),
   ("compDefineX", "855319677bb0156c"),
   ("matchSelectorMethod", "de85f05001daa03f")]

end YaegiVerif.Expected.C15
