import YaegiVerif.Model.Unwind
/- What interp/run.go and interp/program.go say today, as read by hand. The extractor re-emits the same
   record into Generated/C06.lean on every run; `Props.C06.unwindfacts_tie` compares them.

   History of the record (each line is one repair in the repository, seen as exactly this difference):
     F06-1 (36fd289)  argsByRef{Call,Bin,Builtin} true → false   the three defer sites store copyDeferArg(…)
     F07   (215471a)  deferredProtected false → true             the loop body is runDeferred(f, val), which recovers a
                                                                 panic of the call into f.recovered; new function runDeferred
     F06-3 (4982d61)  panicBoxed true → false                    _panic: panic(x.Interface()) instead of panic(value(f))
     F06-4 (4d07249)  panicDeferrable false → true               _panic goes through genBuiltinDeferWrapper
     F06-2 (2e388d6)  exitSteps [lock, assignRecovered, runDeferred, ifRecovered, unlock]
                        → [lock, assignRecovered, unlock, runDeferred, lock, ifRecovered, unlock]
   Fingerprints changed by these four: `_panic` (F06-3, F06-4), `runCfg: deferred function` (F07, F06-2);
   `runDeferred` and `getFunc` are new entries of the table. -/
namespace YaegiVerif.Expected.C06
open YaegiVerif.Unwind

def facts : UnwindFacts :=
  { prependCall := true,
    prependCallBin := true,
    prependBuiltin := true,
    argsByRefCall := false,
    argsByRefBin := false,
    argsByRefBuiltin := false,
    exitSteps := [.lock, .assignRecovered, .unlock, .runDeferred, .lock, .ifRecovered, .unlock],
    ifSteps := [.log, .unlock, .repanic],
    deferredProtected := true,
    recoverReadsAnc := true,
    recoverClears := true,
    panicBoxed := false,
    panicDeferrable := true,
    closureAncIsClone := true,
    closureLocksDefiner := true,
    executeRecovers := true,
    executeCarriesValue := true }

/-- the record before the four repairs of round 2 (F07, F06-2, F06-3, F06-4): used by the regression examples
    to show that each fact is load-bearing -/
def factsRound1 : UnwindFacts :=
  { facts with
    exitSteps := [.lock, .assignRecovered, .runDeferred, .ifRecovered, .unlock],
    deferredProtected := false,
    panicBoxed := true,
    panicDeferrable := false }

/-- fingerprints (extract/cmd/c06) of the functions and blocks Model/Unwind.lean was transcribed from -/
def sourceHashes : List (String × String) :=
  [("_recover", "8cc0949f8735f125"),
   ("_panic", "479ec3cbe4f915a7"),
   ("genBuiltinDeferWrapper", "a752ad4945ff5fce"),
   ("genFunctionWrapper", "2865f1c325015a31"),
   ("copyDeferArg", "d8586ba1ea695e54"),
   ("runDeferred", "efa2b3723efe5dd8"),
   ("getFunc", "e1777a5459c1a52e"),
   ("Interpreter.Execute", "eaf1129b747c09aa"),
   ("newFrame", "da1db819d5067f56"),
   ("frame.clone", "ccd71f62c6588b0a"),
   ("runCfg: deferred function", "61a77e83b081a972"),
   ("call: defer branch", "6c7fc287e47bcb7e"),
   ("callBin: defer clause", "7dd895ce205f05db")]

end YaegiVerif.Expected.C06
