import YaegiVerif.Model.Unwind
/- What interp/run.go and interp/program.go say today, as read by hand (since the repair of F06-1 the three
   defer sites store `copyDeferArg(…)` of each argument: argsByRef* = false). The extractor re-emits the same
   record into Generated/C06.lean on every run; `Props.C06.unwindfacts_tie` compares them. -/
namespace YaegiVerif.Expected.C06
open YaegiVerif.Unwind

def facts : UnwindFacts :=
  { prependCall := true,
    prependCallBin := true,
    prependBuiltin := true,
    argsByRefCall := false,
    argsByRefBin := false,
    argsByRefBuiltin := false,
    exitSteps := [.lock, .assignRecovered, .runDeferred, .ifRecovered, .unlock],
    ifSteps := [.log, .unlock, .repanic],
    recoverReadsAnc := true,
    recoverClears := true,
    panicPassesValue := true,
    executeRecovers := true,
    executeCarriesValue := true }

/-- fingerprints (extract/cmd/c06) of the functions and blocks Model/Unwind.lean was transcribed from -/
def sourceHashes : List (String × String) :=
  [("_recover", "8cc0949f8735f125"),
   ("_panic", "5ddeb711c6245a56"),
   ("genBuiltinDeferWrapper", "a752ad4945ff5fce"),
   ("genFunctionWrapper", "2865f1c325015a31"),
   ("copyDeferArg", "d8586ba1ea695e54"),
   ("Interpreter.Execute", "eaf1129b747c09aa"),
   ("newFrame", "da1db819d5067f56"),
   ("frame.clone", "ccd71f62c6588b0a"),
   ("runCfg: deferred function", "f0c391f659f9029e"),
   ("call: defer branch", "6c7fc287e47bcb7e"),
   ("callBin: defer clause", "7dd895ce205f05db")]

end YaegiVerif.Expected.C06
