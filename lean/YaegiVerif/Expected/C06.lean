import YaegiVerif.Model.Unwind
/- What interp/run.go and interp/program.go say today, as read by hand. The extractor re-emits the same
   record into Generated/C06.lean on every run; `Props.C06.unwindfacts_tie` compares them.

   History of the record (each line is one repair in the repository, seen as exactly this difference):
     F06-1 (36fd289)  argsByRef{Call,Bin,Builtin} true → false   the three defer sites store copyDeferArg(…)
     F07   (215471a)  deferredProtected false → true             the loop body is runDeferred(f, val), which recovers a
                                                                 panic of the call into f.recovered; new function runDeferred
     F06-3 (4982d61)  panicBoxed true → false                    _panic: panic(x.Interface()) instead of panic(value(f))
     F06-4 (4d07249)  panicDeferrable false → true               _panic goes through genBuiltinDeferWrapper
     F06-2 (2e388d6)  exitSteps [lock, assignRecovered, runDeferred, ifRecovered, unlock]
                        → [lock, assignRecovered, unlock, runDeferred, lock, ifRecovered, unlock]
     eef6ac5          spreadCall / spreadBin (new facts) true        the defer branches of call / callBin keep deferCallSlice(callee)
                                                                 when the deferred call is written with an ellipsis (`defer f(xs...)`)
     8600fa9          (no fact changes)                          runDeferred calls callVariadic(val[0], val[1:]) — v.Call(in) except for
                                                                 the nil slice of a variadic function called without variadic arguments;
                                                                 the extractor checks the exact shape of both
     3081633          (no fact changes)                          genFunctionWrapper binds the method receiver when the wrapper is created
                                                                 (the receiver of `defer t.M()` is the one of the defer statement now)
     d26dd9e          closureLocksDefiner true → false           getFunc's wrapper no longer touches the defining frame after a call
                                                                 (no `f.mutex.Lock(); getFrame(f, l).data[i] = o; f.mutex.Unlock()`):
                                                                 the dead-lock of F06-2 is impossible whatever runCfg does with the lock
     4a41b28, 1578873 (no fact changes)                          per-call frames are made by newCallFrame(anc, length) — newFrame(anc, …)
                                                                 with run id and done of the root frame; the ancestor is the frame given
                                                                 (getFunc: still the clone, closureAncIsClone stays true; genFunctionWrapper:
                                                                 still the deferring frame); the extractor checks newCallFrame's shape
     32d4f06          (no fact changes)                          genFunctionWrapper: receivers of interface-method wrappers bound at each call
     4a41b28          (no fact changes)                          Execute defers a second function refreshing the root frame's run id
     dc95f3e          (no fact changes)                          epochs: newCallFrame(interp, anc, length, e) builds `&frame{anc: anc, …}` itself
                                                                 (id / done / epoch from the interpreter; the extractor checks `anc: anc` and reads
                                                                 the call sites at the position of `anc`); getFunc: newCallFrame(n.interp, fr, …,
                                                                 fr.getEpoch()) — still the clone; genFunctionWrapper: newCallFrame(n.interp, f, …, e)
                                                                 — still the deferring frame; newFrame / frame.clone carry `epoch`; Execute brackets
                                                                 the run with `defer interp.end(interp.begin())` instead of the deferred run-id
                                                                 refresh (the deferred recover building Panic{Value: r} is untouched)
   Fingerprints changed by dc95f3e: `genFunctionWrapper`, `getFunc`, `Interpreter.Execute`, `newFrame`, `newCallFrame`, `frame.clone`.
   Fingerprints changed by d26dd9e … 4a41b28: `getFunc` (d26dd9e, 4a41b28), `genFunctionWrapper` (32d4f06, 4a41b28), `Interpreter.Execute`
   (4a41b28); `newCallFrame` is a new row.
   Fingerprints changed by 8600fa9 / eef6ac5 / 3081633: `runDeferred` (8600fa9), `call: defer branch`, `callBin: defer clause` (eef6ac5),
   `genFunctionWrapper` (3081633); `callVariadic` and `deferCallSlice` are new rows.
   Fingerprints changed by the four repairs of round 2: `_panic` (F06-3, F06-4), `runCfg: deferred function` (F07, F06-2);
   `runDeferred` and `getFunc` are new entries of the table. -/
namespace YaegiVerif.Expected.C06
open YaegiVerif.Unwind

def facts : UnwindFacts :=
  { prependCall := true,
    prependCallBin := true,
    prependBuiltin := true,
    argsByRefCall := false,
    argsByRefBin := false,
    argsByRefBuiltin := false,
    spreadCall := true,
    spreadBin := true,
    exitSteps := [.lock, .assignRecovered, .unlock, .runDeferred, .lock, .ifRecovered, .unlock],
    ifSteps := [.log, .unlock, .repanic],
    deferredProtected := true,
    recoverReadsAnc := true,
    recoverClears := true,
    panicBoxed := false,
    panicDeferrable := true,
    closureAncIsClone := true,
    closureLocksDefiner := false,
    executeRecovers := true,
    executeCarriesValue := true }

/-- the record before the four repairs of round 2 (F07, F06-2, F06-3, F06-4): used by the regression examples
    to show that each fact is load-bearing -/
def factsRound1 : UnwindFacts :=
  { facts with
    exitSteps := [.lock, .assignRecovered, .runDeferred, .ifRecovered, .unlock],
    deferredProtected := false,
    panicBoxed := true,
    panicDeferrable := false,
    closureLocksDefiner := true }

/-- fingerprints (extract/cmd/c06) of the functions and blocks Model/Unwind.lean was transcribed from -/
def sourceHashes : List (String × String) :=
  [("_recover", "8cc0949f8735f125"),
   ("_panic", "479ec3cbe4f915a7"),
   ("genBuiltinDeferWrapper", "a752ad4945ff5fce"),
   ("genFunctionWrapper", "4feabaa50796f8ae"),
   ("copyDeferArg", "d8586ba1ea695e54"),
   ("runDeferred", "3744dc350d781dfc"),
   ("callVariadic", "a136ff7434f20d7e"),
   ("deferCallSlice", "8195ae3a302030b3"),
   ("getFunc", "b1cec79847c23ec5"),
   ("Interpreter.Execute", "c568aa6d3c471274"),
   ("newFrame", "8d3a53ebf9cf8afa"),
   ("newCallFrame", "40f1e0d7f7a1dce0"),
   ("frame.clone", "288c927fcf00073e"),
   ("runCfg: deferred function", "61a77e83b081a972"),
   ("call: defer branch", "e4bca2242cb1b6ba"),
   ("callBin: defer clause", "4756311ea624d773")]

end YaegiVerif.Expected.C06
