import YaegiVerif.Model.Build
/- What interp/build.go says today, as read by hand (sorted). The extractor re-emits the same
   record into Generated/C17.lean on every run; `Props.C17.known_tie` compares them. -/
namespace YaegiVerif.Expected.C17
open YaegiVerif.Build

def known : Known :=
  { os := ["aix","android","darwin","dragonfly","freebsd","hurd","illumos","ios","js","linux","nacl",
           "netbsd","openbsd","plan9","solaris","wasip1","windows","zos"],
    arch := ["386","amd64","amd64p32","arm","arm64","arm64be","armbe","loong64","mips","mips64",
             "mips64le","mips64p32","mips64p32le","mipsle","ppc","ppc64","ppc64le","riscv","riscv64","s390","s390x",
             "sparc","sparc64","wasm"] }

/-- fingerprints (extract/main.go `funcHash`) of the functions Model/Build.lean was transcribed from -/
def sourceHashes : List (String × String) :=
  [("Interpreter.buildOk", "5fd763805313e28a"),
   ("buildLineOk", "daffa9d1477b872a"),
   ("buildOptionOk", "fb608fcc7aa73dd7"),
   ("buildTagOk", "889ade5373773f24"),
   ("goMinorVersion", "36f86cc7c4e77419"),
   ("contains", "fb8522e3b98e05f8"),
   ("skipFile", "c3b54834155cff2b"),
   ("matchTag", "d088c9c9ed784309"),
   ("isValidTag", "71a6534f18a8fe85")]

end YaegiVerif.Expected.C17
