import YaegiVerif.Model.Method
/- C05 — what the extractor is expected to read from the pinned source (written by hand from a
   reading of interp/cfg.go, interp/type.go and interp/run.go). -/
namespace YaegiVerif.Expected.C05
open YaegiVerif.Method

/-- the source after the repairs ff01288 (clauses of a switch in source order), 4f1c6ee (promoted
    method at the shallowest depth), 837b81e (several methods at the shallowest depth: ambiguous),
    efcbde2 (method depth compared with the field depth), a60b058 (fields promoted through embedded
    fields only, shallowest first), 3081633 (receiver bound when the method value is made),
    16a5ac7 (a value stored in an interface is copied), 32d4f06 (the receiver of a method selected on
    the value held by an interface is reached at each call), f4dfaf4 (several fields at the shallowest
    depth: ambiguous), 79ed061 (implements tests the receiver kind), 5c3b0c5 (type switch cases checked,
    pointer-receiver rejection for own methods only), 6b1f98f (and for promoted methods that need a pointer), 9f81224 (type switch clauses matched by matchCase on the dynamic type), bbd3913 (assertion to a host interface wraps the
    held value) -/
def facts : Facts :=
  { defaultSwap := false,
    clauseChain := .nextTest,
    methodPick := .shallowest,
    methodAmbiguityCheck := true,
    fieldLoopEmbedOnly := true,
    fieldPick := .shallowest,
    containsNamesOnly := true,
    methodWinsCond := "d >= 0 && d < len(ti)-1 => { goto tryMethods }",
    ambiguousCond := "d == len(ti)-1 || n.typ.fieldCount(n.child[1].ident, len(ti)-1) > 1",
    fieldDepthMinus := 1,
    fieldAmbiguityCheck := true,
    implementsChecksRecv := true,
    assertPtrOwnOnly := true,
    assertPtrNeedsPtr := true,
    tswitchCasesChecked := true,
    caseUsesMatchCase := true,
    assertHostWrapsHeld := true,
    wrapperUsesMethodSet := true,
    recvBind := { atCreation := true, ptrToVal := .set, valToPtr := .slot, same := .set, call := .set,
                  lateNilNode := true, lateCall := .set, ifaceWrapHeld := true },
    ifaceCopies := true }

/-- the receiver binding between 3081633 and 32d4f06 (finding F05-18, fixed): every receiver read when
    the wrapper is made, the wrappers of an interface conversion made over the converted expression;
    only regression examples refer to it -/
def earlyIfaceFacts : Facts :=
  { facts with recvBind := { facts.recvBind with lateNilNode := false, lateCall := .slot, ifaceWrapHeld := false } }

/-- the values the facts had before those repairs (findings F04, F05, F05-1, F05-2, F05-3, F05-6,
    F05-16, all fixed); only the `…_old_witness` theorems and regression examples refer to them -/
def oldFacts : Facts :=
  { defaultSwap := true,
    clauseChain := .nextClause,
    methodPick := .firstDfs,
    methodAmbiguityCheck := false,
    fieldLoopEmbedOnly := false,
    fieldPick := .firstDfs,
    containsNamesOnly := true,
    methodWinsCond := "d >= 0 && d < len(ti) => { goto tryMethods }",
    ambiguousCond := "d == len(ti)",
    fieldDepthMinus := 0,
    fieldAmbiguityCheck := false,
    implementsChecksRecv := false,
    assertPtrOwnOnly := false,
    assertPtrNeedsPtr := false,
    tswitchCasesChecked := false,
    caseUsesMatchCase := false,
    assertHostWrapsHeld := false,
    wrapperUsesMethodSet := true,
    recvBind := { atCreation := false, ptrToVal := .set, valToPtr := .set, same := .set, call := .slot,
                  lateNilNode := false, lateCall := .slot, ifaceWrapHeld := false },
    ifaceCopies := false }

def oldDefaultSwap : Bool := oldFacts.defaultSwap
def oldClauseChain : Chain := oldFacts.clauseChain

/-- stdlib/wrapper-composed.go: three host interfaces have a composed wrapper, each with one optional
    interface (io.WriterTo, io.ReaderFrom, http.Hijacker) -/
def composedWrappers : List (String × List (List String)) :=
  [("_io_Reader", [["Read", "WriteTo"]]),
   ("_io_Writer", [["Write", "ReadFrom"]]),
   ("_net_http_ResponseWriter", [["Header", "Write", "WriteHeader", "Hijack"]])]

def unrecognised : List String := []

def sourceHashes : List (String × String) :=
  [("itype.lookupField", "b887c6ab56003dec"),
   ("itype.fieldIndex", "20b35923c91324ca"),
   ("itype.lookupMethod", "8c093410929b12b2"),
   ("itype.lookupMethod2", "db3f6f7deb62d763"),
   ("itype.getMethod", "7c8adb8c9829a9d1"),
   ("itype.methodDepth", "1d0e71e467a5ef05"),
   ("itype.methodCount", "a61f4bc597b944e2"),
   ("itype.fieldCount", "b30bbc94ae86fc3a"),
   ("itype.needsPtrFor", "eb6e83868a524fb2"),
   ("itype.needsPtrForMethod", "43e0efafed772f90"),
   ("itype.methods", "5ee74f81a5c4777a"),
   ("methodSet.contains", "4962c458fd56665c"),
   ("itype.implements", "4f9ec481094a6afb"),
   ("lookupFieldOrMethod", "775975244d11efe2"),
   ("matchSelectorMethod", "de85f05001daa03f"),
   ("getDefault", "e432131cb00f89f6"),
   ("typeAssert", "90e50bd038426751"),
   ("_case", "ecb2d6dc46c4ace1"),
   ("matchCase", "895e24e89a3ab1c5"),
   ("canAssertTypes", "4f6cf211377634a0"),
   ("getMethod", "95e70d1020e1b372"),
   ("getMethodByName", "f50f4b6cbd60d2d3"),
   ("lookupMethodValue", "375ef5678906848e"),
   ("stripReceiverFromArgs", "bb4ae1a98125a1a0"),
   ("genFunctionWrapper", "4feabaa50796f8ae"),
   ("genFunctionWrapperFor", "7ae088f127151d29"),
   ("genHostFunctionWrapper", "fbf22c3d3d999031"),
   ("genInterfaceWrapper", "39c789f3e29ad824"),
   ("genInterfaceWrapperValue", "d62e22eba6a3bbbe"),
   ("copyDeferArg", "d8586ba1ea695e54"),
   ("typecheck.typeAssertionExpr", "e5aefda1546a1260"),
   ("genDestValue", "6d332c89aa45b5ab"),
   ("genValueInterface", "1ef4b98ccbd7c706"),
   ("genValueRecv", "a3dad7fc975e9eb7"),
   ("getWrapper", "1311018b7c7efb25"),
   ("cfg.go case selectorExpr", "5240a4a7eee28842"),
   ("cfg.go pre-order case switchStmt, typeSwitch", "773e4a50ec016090"),
   ("cfg.go post-order case switchStmt", "46d028998950625e"),
   ("cfg.go post-order case typeSwitch", "3c67baf823d5a872"),
   ("genFunctionWrapper receiver binding", "0eced356b3dccc81")]

end YaegiVerif.Expected.C05
